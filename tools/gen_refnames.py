"""Generate sa/refnames.json (statement shapes and local names of every function) from the tree the rules are written against.
Run after every change to /repo that the rules are adapted to:  /venv/bin/python tools/gen_refnames.py"""
import json, sys
from pathlib import Path
sys.path.insert(0, "/verif")
from sa import renames
t = renames.generate(Path("/repo/src/irispie"))
Path("/verif/sa/refnames.json").write_text(json.dumps(t, separators=(",", ":"), sort_keys=True))
print(sum(len(v) for v in t.values()), "functions with locals in", len(t), "modules;", Path("/verif/sa/refnames.json").stat().st_size // 1024, "KiB")

if "--check" in sys.argv:
    # the table must describe the current tree exactly (run after regenerating; used before committing)
    cur = renames.generate(Path("/repo/src/irispie"))
    ref = json.loads(Path("/verif/sa/refnames.json").read_text())
    diff = [(m, q) for m in set(cur) | set(ref) for q in set(cur.get(m, {})) | set(ref.get(m, {})) if cur.get(m, {}).get(q) != ref.get(m, {}).get(q)]
    print("reference differs from /repo in", len(diff), "functions", diff[:5])
    sys.exit(1 if diff else 0)

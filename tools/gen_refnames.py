"""Generate sa/refnames.json (statement shapes and local names of every function) from the tree the rules are written against.
Run after every change to /repo that the rules are adapted to:  /venv/bin/python tools/gen_refnames.py"""
import json, sys
from pathlib import Path
sys.path.insert(0, "/verif")
from sa import renames
t = renames.generate(Path("/repo/src/irispie"))
Path("/verif/sa/refnames.json").write_text(json.dumps(t, separators=(",", ":"), sort_keys=True))
print(sum(len(v) for v in t.values()), "functions with locals in", len(t), "modules;", Path("/verif/sa/refnames.json").stat().st_size // 1024, "KiB")

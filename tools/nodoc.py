"""Print a Python file with docstrings stripped (reading aid only; not part of any check)."""
import ast, sys
for fn in sys.argv[1:]:
    t = ast.parse(open(fn).read())
    for n in ast.walk(t):
        if isinstance(n, (ast.FunctionDef, ast.ClassDef, ast.Module, ast.AsyncFunctionDef)) and n.body \
           and isinstance(n.body[0], ast.Expr) and isinstance(n.body[0].value, ast.Constant) \
           and isinstance(n.body[0].value.value, str):
            n.body = n.body[1:] or [ast.Pass()]
    print(f"# ==== {fn}")
    print(ast.unparse(t))

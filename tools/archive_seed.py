"""
Confirm a delivered seeded change (demo passes clean / fails changed, change applies, pinned suite still passes,
which checks fire) and archive it under /verif/seeded/<prop>-<k>/ :
    patch.diff   the change (never committed to /repo)
    demo.py      the demonstration (exit 0 on the unchanged tree, exit 1 with the change)
    notes.md     the author's notes (a sub-agent that saw only the property text and a scratch worktree)
    meta.json    property, what it needs to manifest, what was run and observed, which checks fire
usage: archive_seed.py C03 1
"""
import json, os, re, shutil, subprocess, sys

pid, k = sys.argv[1], sys.argv[2]
srcroot = sys.argv[sys.argv.index("--src") + 1] if "--src" in sys.argv else "/tmp/seed_out"
src = f"{srcroot}/{pid}"
as_k = sys.argv[sys.argv.index("--as") + 1] if "--as" in sys.argv else k
dst = f"/verif/seeded/{pid}-{as_k}"
reuse = "--reuse-tests" in sys.argv and os.path.exists(f"{dst}/meta.json")
r = subprocess.run(["/venv/bin/python", "/verif/tools/verify_seed.py", pid, k, "--src", srcroot] + ([] if reuse else ["--tests"]), capture_output=True, text=True)
res = json.loads(r.stdout)
if reuse:
    old = json.load(open(f"{dst}/meta.json"))["what_was_run"]["pinned_tests_with_change"]
    res["tests_passing"], res["tests_missing"] = old["stable_tests_passing"], old["missing"]
notes = open(f"{src}/notes{k}.md").read() if os.path.exists(f"{src}/notes{k}.md") else ""
need = ""
for line in notes.splitlines():
    if re.search(r"need(s|ed)? to (manifest|see)|is needed|Needed to", line, re.I):
        need = re.sub(r"^[\s*\-]*", "", line).strip()
        break
ok = res["demo_clean_rc"] == 0 and res["demo_changed_rc"] != 0 and res["applies"] and res.get("tests_passing") == 254
meta = {
    "seed": f"{pid}-{as_k}",
    "property": pid,
    "files_changed": sorted(set(re.findall(r"^\+\+\+ b/(.*)$", open(f"{src}/change{k}.diff").read(), re.M))),
    "needs_to_manifest": need,
    "confirmed": ok,
    "what_was_run": {
        "worktree": f"scratch git worktree of /repo (HEAD {subprocess.run('git -C /repo rev-parse --short HEAD', shell=True, capture_output=True, text=True).stdout.strip()}) under /tmp, removed afterwards",
        "demo_on_unchanged_tree": {"cmd": "PYTHONPATH=<worktree>/src /venv/bin/python demo.py", "exit": res["demo_clean_rc"], "last_line": res["demo_clean_tail"]},
        "demo_with_change": {"cmd": "git apply patch.diff; same command", "exit": res["demo_changed_rc"], "last_line": [x[:300] for x in res["demo_changed_tail"]]},
        "pinned_tests_with_change": {"cmd": "pytest -q -p no:cacheprovider --timeout=900 -n 6 --continue-on-collection-errors (in the worktree, PYTHONPATH=<worktree>/src)",
                                     "stable_tests_passing": res.get("tests_passing"), "of": 254, "missing": res.get("tests_missing")},
        "checks": "every claimed property's quick check with IRISPIE_VERIF_SRC=<worktree>/src/irispie",
    },
    "checks_fired": {p: [x[:300] for x in v["reports"]] for p, v in res["checks_fired"].items()},
    "caught": bool(res["checks_fired"]),
    "caught_by_own_property": pid in res["checks_fired"],
}
os.makedirs(dst, exist_ok=True)
shutil.copy(f"{src}/change{k}.diff", f"{dst}/patch.diff")
shutil.copy(f"{src}/demo{k}.py", f"{dst}/demo.py")
if notes:
    open(f"{dst}/notes.md", "w").write(notes)
json.dump(meta, open(f"{dst}/meta.json", "w"), indent=1)
print(f"{pid}-{as_k} confirmed={ok} tests={res.get('tests_passing')} fired={sorted(res['checks_fired'])}")

"""
Regenerate the generated tables of DESIGN.md (between the BEGIN/END GENERATED markers) from
  evidence/*.json          rules and instance counts per property (written by the checks themselves)
  known_findings.json      fixed / open findings
  seeded/*/meta.json       archived seeded changes and the checks that catch them
  /repo git log            fix: commits
Run after `python -m sa.check` has been run for every property:  /venv/bin/python tools/gen_design_tables.py
"""
import glob, json, os, re, subprocess

V = "/verif"
out = []
out.append("### 9.A Rules as built (from the evidence files of the last run)\n")
out.append("| property | rule | instances (floor) | clause decided |")
out.append("|---|---|---|---|")
for f in sorted(glob.glob(f"{V}/evidence/C*.json")):
    e = json.load(open(f))
    cov = e["coverage"]
    rules = {}
    for part in cov["explanation"].split("Rules: ", 1)[1].split(" | "):
        rid, _, text = part.partition(": ")
        rules[rid.strip()] = text.strip()
    for rid in sorted(cov["instances_per_rule"], key=lambda r: (r.split("-R")[0], int(re.sub(r"\D", "", r.split("-R")[1]) or 0))):
        text = rules.get(rid, "")
        text = text if len(text) < 330 else text[:327] + "..."
        out.append(f"| {e['property_id']} | {rid} | {cov['instances_per_rule'][rid]} ({cov['instance_floors'].get(rid)}) | {text.replace('|', '/')} |")
out.append("")
kf = json.load(open(f"{V}/known_findings.json"))["findings"]
out.append("### 9.B Genuine defects repaired (`fix:` commits in /repo) and the rule instance that reports each\n")
out.append("| property | commit | rule : construct | what failed (witness) |")
out.append("|---|---|---|---|")
for k in kf:
    if k["status"] == "fixed":
        what = re.sub(r"^fixed: property=\S+ \S+ ", "", k["what"])
        out.append(f"| {k['property']} | {k.get('commit', '')} | `{k['key']}` | {what.replace('|', '/')} |")
out.append("")
out.append("### 9.C Open findings (printed as KNOWN-FINDING, exit 0)\n")
out.append("| property | rule : construct | what fails |")
out.append("|---|---|---|")
for k in kf:
    if k["status"] == "open":
        out.append(f"| {k['property']} | `{k['key']}` | {k['what'].replace('|', '/')} |")
out.append("")
out.append("### 9.D Seeded changes (written by sub-agents that saw only the property text) and the checks that catch them\n")
out.append("| seed | file(s) changed | needs, to manifest | caught by (first report) |")
out.append("|---|---|---|---|")
for d in sorted(glob.glob(f"{V}/seeded/*/meta.json")):
    m = json.load(open(d))
    fired = []
    for p, reps in sorted(m["checks_fired"].items(), key=lambda kv: (kv[0] != m["property"], kv[0])):
        rule = re.search(r"rule (C\d\d-R\d+)", reps[0]) if reps else None
        fired.append(f"{p}" + (f" ({rule.group(1)})" if rule else ""))
    need = m["needs_to_manifest"]
    need = re.sub(r"^\**(What is needed to (see it|manifest)|Needed to manifest|What is needed)\**:?\**\s*", "", need, flags=re.I)
    need = need if len(need) < 260 else need[:257] + "..."
    files = ", ".join(x.replace("src/irispie/", "") for x in m["files_changed"])
    out.append(f"| {m['seed']} | {files} | {need.replace('|', '/')} | {', '.join(fired) or '**missed**'} |")
out.append("")
log = subprocess.run("git -C /repo log --format='%h %s' | grep ' fix:' | wc -l", shell=True, capture_output=True, text=True).stdout.strip()
out.append(f"`git -C /repo log` holds {log} `fix:` commits; none touches a test and none is guarded (no hooks were needed: `MANIFEST.hooks.source_commits` is empty).\n")
text = "\n".join(out)
p = f"{V}/DESIGN.md"
s = open(p).read()
b, e = "<!-- BEGIN GENERATED -->", "<!-- END GENERATED -->"
if b in s and e in s:
    s = s[:s.index(b) + len(b)] + "\n" + text + "\n" + s[s.index(e):]
    open(p, "w").write(s)
    print("DESIGN.md tables regenerated:", len(out), "lines")
else:
    print("markers not found")

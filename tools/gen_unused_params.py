"""Regenerate sa/unused_params.json (parameters unread on the tree the rules are written against)."""
import json, sys
sys.path.insert(0, "/verif")
from sa.core import Repo
from sa import unused
t = unused.generate(Repo())
open("/verif/sa/unused_params.json", "w").write(json.dumps(t, indent=0))
print(len(t), "unread parameters recorded")

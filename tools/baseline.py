"""Run the pinned test-suite and compare with BASELINE.json's stable_pass list. Exit 0 iff all 254 pass."""
import json, subprocess, sys, tempfile, os, xml.etree.ElementTree as ET
base = json.load(open("/root/.vp/BASELINE.json"))
want = set(base["stable_pass"])
with tempfile.TemporaryDirectory() as td:
    xml = os.path.join(td, "r.xml")
    cmd = ["/venv/bin/python", "-m", "pytest", "-ra", "-q", "-p", "no:cacheprovider", "--timeout=900",
           "--continue-on-collection-errors", f"--junitxml={xml}"] + sys.argv[1:]
    subprocess.run(cmd, cwd="/repo", stdout=subprocess.DEVNULL, stderr=subprocess.DEVNULL)
    passed = set()
    for tc in ET.parse(xml).getroot().iter("testcase"):
        if not any(ch.tag in ("failure", "error", "skipped") for ch in tc):
            passed.add(f"{tc.get('classname')}::{tc.get('name')}")
missing = sorted(want - passed)
print(f"baseline: {len(want & passed)}/{len(want)} stable tests pass")
for m in missing[:20]:
    print("  MISSING", m)
sys.exit(1 if missing else 0)

"""Generate /verif/MANIFEST.json from sa/registry.py and the set of built property modules."""
import json
import sys
from pathlib import Path

V = Path(__file__).resolve().parent.parent
sys.path.insert(0, str(V))
from sa import registry  # noqa

PY = "/venv/bin/python"
ALL = [f"C{i:02d}" for i in range(1, 21)]
built = sorted(p.stem.upper() for p in (V / "sa" / "props").glob("c[0-9][0-9].py"))

checks, na = [], []
for pid in ALL:
    if pid in registry.NOT_APPLICABLE:
        na.append({"property_id": pid, "reason": registry.NOT_APPLICABLE[pid]})
        continue
    r = registry.P[pid]
    if pid not in built:
        na.append({"property_id": pid, "reason": registry.PENDING_REASON})
        continue
    checks.append({
        "property_id": pid,
        "quick_cmd": f"{PY} -m sa.check {pid} --tier quick",
        "thorough_cmd": f"{PY} -m sa.check {pid} --tier thorough",
        "evidence_file": f"/verif/evidence/{pid}.json",
        "replay_cmd_template": f"{PY} -m sa.check {pid} --replay {{path}}",
        "engine": "sa",
        "level_claimed": {
            "category": "other",
            "text": ("Static decision of a structural clause that is a necessary condition of the property (not the behaviour "
                     "as a whole): " + r["clause"] + ("; " + registry.EXTRA[pid] if pid in registry.EXTRA else "") + ". Decided for every path/branch of the anchored code on each run; "
                     "violations name the construct. Right level because the behaviour quantifies over numerical results "
                     "that no static argument bounds, while these clauses are visible in the shape of the code."),
            "design_ref": f"DESIGN.md §{r['ref']}",
        },
        "level_note": ("Trusted: Python semantics of the matched constructs, numpy/scipy primitives, no run-time "
                       "monkey-patching. Not decided: " + r["note"] + "."),
        "technique": "static analysis: " + r["technique"] + registry.EXTRA_TECHNIQUE,
    })

manifest = {
    "version": 1,
    "setup_cmd": "true",
    "hooks": {
        "guard": "IRISPIE_VERIF",
        "enable": "no hooks: the checks parse /repo/src/irispie with the ast module and never import or run it",
        "baseline_off_cmd": "cd /repo && /venv/bin/python -m pytest -ra -q -p no:cacheprovider --timeout=900 --continue-on-collection-errors",
        "source_commits": [],
        "add_only": True,
    },
    "engines": [{
        "name": "sa",
        "path": "/verif/sa",
        "serves_properties": [c["property_id"] for c in checks],
        "kind_free_text": ("repository-specific static analyser (stdlib ast/symtable/re._parser only): loader+anchors, "
                           "algebraic normaliser and formal differentiator, symbolic straight-line interpreter, string-template "
                           "extraction, regex->DFA inclusion, statement CFG with dominators, effect summaries, abstract shapes"),
    }],
    "checks": checks,
    "not_applicable": na,
    "notes": ("All checks are static (family: static analysis). Exit 0 held / 1 new violation / 2 ANALYSIS-ERROR. "
              "Genuine defects found are either repaired by 'fix:' commits in /repo or listed in /verif/known_findings.json."),
}
(V / "MANIFEST.json").write_text(json.dumps(manifest, indent=1) + "\n")
print(f"MANIFEST.json: {len(checks)} checks, {len(na)} not applicable")

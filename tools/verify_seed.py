"""
Confirm a seeded change in its scratch worktree and run the property checks against it.
usage: verify_seed.py C03 1 [--tests]
  1. worktree clean: demo must PASS (exit 0)
  2. apply change<k>.diff: demo must FAIL (exit != 0)
  3. (--tests) pinned test-suite still has all 254 stable tests passing
  4. run every property's quick check on the changed worktree (IRISPIE_VERIF_SRC) and list those that fire
Leaves the worktree clean.
"""
import json, os, subprocess, sys, xml.etree.ElementTree as ET, tempfile
pid, k = sys.argv[1], sys.argv[2]
run_tests = "--tests" in sys.argv
wt = f"/tmp/wt/{pid}"
out = (sys.argv[sys.argv.index("--src") + 1] if "--src" in sys.argv else "/tmp/seed_out") + f"/{pid}"
env = dict(os.environ, PYTHONPATH=f"{wt}/src")
def sh(cmd, **kw):
    return subprocess.run(cmd, shell=True, capture_output=True, text=True, **kw)
sh(f"git -C {wt} checkout -- . && git -C {wt} clean -fdq")
r0 = sh(f"cd {wt} && /venv/bin/python {out}/demo{k}.py", env=env, timeout=900)
res = {"id": f"{pid}-{k}", "demo_clean_rc": r0.returncode, "demo_clean_tail": (r0.stdout + r0.stderr).strip().splitlines()[-1:] }
a = sh(f"git -C {wt} apply {out}/change{k}.diff")
res["applies"] = a.returncode == 0
r1 = sh(f"cd {wt} && /venv/bin/python {out}/demo{k}.py", env=env, timeout=900)
res["demo_changed_rc"] = r1.returncode
res["demo_changed_tail"] = (r1.stdout + r1.stderr).strip().splitlines()[-1:]
if run_tests:
    base = json.load(open("/root/.vp/BASELINE.json"))
    want = set(base["stable_pass"])
    with tempfile.TemporaryDirectory() as td:
        xml = os.path.join(td, "r.xml")
        sh(f"cd {wt} && /venv/bin/python -m pytest -q -p no:cacheprovider --timeout=900 -n 6 --continue-on-collection-errors --junitxml={xml}", env=env, timeout=1800)
        passed = set()
        for tc in ET.parse(xml).getroot().iter("testcase"):
            if not any(ch.tag in ("failure", "error", "skipped") for ch in tc):
                passed.add(f"{tc.get('classname')}::{tc.get('name')}")
    res["tests_passing"] = len(want & passed)
    res["tests_missing"] = sorted(want - passed)[:5]
fired = {}
for i in range(1, 21):
    p = f"C{i:02d}"
    if not os.path.exists(f"/verif/sa/props/{p.lower()}.py"):
        continue
    c = sh(f"cd /verif && /venv/bin/python -m sa.check {p} --no-evidence", env=dict(os.environ, IRISPIE_VERIF_SRC=f"{wt}/src/irispie"))
    viol = [l for l in c.stdout.splitlines() if " — rule " in l]
    if c.returncode != 0:
        fired[p] = {"rc": c.returncode, "reports": [v[:260] for v in viol[:3]] or c.stdout.strip().splitlines()[-2:]}
res["checks_fired"] = fired
sh(f"git -C {wt} checkout -- . && git -C {wt} clean -fdq")
print(json.dumps(res, indent=1))

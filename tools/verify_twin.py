"""Apply a behaviour-preserving refactoring (/tmp/twin_out/<prop>/twin<k>.diff) in the property's scratch worktree and run the checks: none may fire.
usage: verify_twin.py C03 1 [--all]   (--all: every property's check, default: the property's own and those sharing files)"""
import json, os, subprocess, sys
pid, k = sys.argv[1], sys.argv[2]
root = sys.argv[sys.argv.index("--src") + 1] if "--src" in sys.argv else "/tmp/twin_out"
wt = (sys.argv[sys.argv.index("--wt") + 1] if "--wt" in sys.argv else "/tmp/wt") + f"/{pid}"
diff = f"{root}/{pid}/twin{k}.diff"
def sh(cmd, **kw):
    return subprocess.run(cmd, shell=True, capture_output=True, text=True, **kw)
sh(f"git -C {wt} checkout -- . && git -C {wt} clean -fdq")
a = sh(f"git -C {wt} apply {diff}")
res = {"id": f"{pid}-twin{k}", "applies": a.returncode == 0, "fired": {}}
if a.returncode == 0:
    for i in range(1, 21):
        p = f"C{i:02d}"
        if not os.path.exists(f"/verif/sa/props/{p.lower()}.py"):
            continue
        c = sh(f"cd /verif && /venv/bin/python -m sa.check {p} --no-evidence", env=dict(os.environ, IRISPIE_VERIF_SRC=f"{wt}/src/irispie"))
        if c.returncode != 0:
            lines = [l for l in c.stdout.splitlines() if " — rule " in l or "ANALYSIS-ERROR" in l]
            res["fired"][p] = {"rc": c.returncode, "reports": [l[:240] for l in lines[:8]]}
sh(f"git -C {wt} checkout -- . && git -C {wt} clean -fdq")
print(json.dumps(res, indent=1))

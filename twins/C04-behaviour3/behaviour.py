"""
Behaviour digest for property C04 (model source text -> equations).

Run with
    cd /tmp/wt2/C04 && PYTHONPATH=/tmp/wt2/C04/src /venv/bin/python /tmp/twin3_out/C04/behaviour.py
The output is deterministic; it must be identical before/after any refactoring.
"""

import hashlib
import itertools
import warnings

import numpy as np

warnings.filterwarnings("ignore")

import irispie as ir
from irispie import sources as _sources
from irispie.sources import ModelSource
from irispie.incidences.main import Token
from irispie.parsers import models as _pm
from irispie.parsers import _pseudofunctions as _pf
from irispie.quantities import QuantityKind
from irispie.equations import EquationKind


def show(label, value):
    print(f"{label}: {value!r}")


def fmt_array(array):
    array = np.asarray(array, dtype=float)
    return [
        [("nan" if np.isnan(x) else ("inf" if np.isinf(x) else f"{x:.10g}")) for x in row]
        for row in np.atleast_2d(array)
    ]


def digest_quantities(quantities):
    return [
        (q.id, q.human, q.kind.name, q.logly, q.description, q.entry, sorted(q.attributes or ()))
        for q in quantities
    ]


def digest_equations(equations):
    return [
        (
            e.id, e.human, e.kind.name, e.description, e.entry,
            sorted(e.attributes or ()), getattr(e, "xtring", None),
            sorted(tuple(t) for t in (e.incidence or ())) if getattr(e, "incidence", None) is not None else None,
        )
        for e in equations
    ]


def digest_source(label, src):
    print(f"--- source {label}")
    show("all_names", list(src.all_names))
    show("num_quantities", src.num_quantities)
    for q in digest_quantities(src.quantities):
        show("  q", q)
    for e in digest_equations(src.dynamic_equations):
        show("  dyn", e)
    for e in digest_equations(src.steady_equations):
        show("  ste", e)
    show("context_keys", sorted(src.context.keys()))
    show("description", src.description)


def eval_equator(equator, num_quantities, seed):
    rng = np.random.default_rng(seed)
    min_shift, max_shift = equator.min_shift, equator.max_shift
    num_columns = -min_shift + 1 + max_shift + 3
    data = rng.uniform(0.5, 2.0, size=(num_quantities, num_columns))
    out = []
    for t in range(-min_shift, num_columns - max_shift):
        out.append(fmt_array(equator.eval_as_array(data, t))[0:])
    return out


def digest_model(label, model, seed=0):
    print(f"=== model {label}")
    show("names", model.get_names())
    for kind in (
        QuantityKind.TRANSITION_VARIABLE, QuantityKind.TRANSITION_SHOCK,
        QuantityKind.MEASUREMENT_VARIABLE, QuantityKind.MEASUREMENT_SHOCK,
        QuantityKind.PARAMETER, QuantityKind.EXOGENOUS_VARIABLE,
        QuantityKind.ANTICIPATED_SHOCK_VALUE, QuantityKind.ANY_STD,
    ):
        show(f"names[{kind.name}]", model.get_names(kind=kind))
    show("log_status_order", list(model.get_log_status().items()))
    show("log_status_type", type(model.get_log_status()).__name__)
    show("log_status_dict", model.get_log_status(output_type=dict))
    show("log_status_raw", (type(model.get_log_status(output_type=None)).__name__, model.get_log_status(output_type=None)))
    show("name_to_description", model.create_name_to_description())
    show("qid_to_description", model.create_qid_to_description())
    show("qid_to_name", model.create_qid_to_name())
    show("model_description", model.get_description())
    for q in digest_quantities(model.get_quantities()):
        show("  q", q)
    show("equations", model.get_equations())
    show("dynamic", model.get_dynamic_equations())
    show("steady", model.get_steady_equations())
    for kind in (EquationKind.TRANSITION_EQUATION, EquationKind.MEASUREMENT_EQUATION, EquationKind.STEADY_AUTOVALUES):
        show(f"equations[{kind.name}]", model.get_equations(kind=kind))
    show("equation_descriptions", model.get_equation_descriptions())
    for e in digest_equations(model.get_dynamic_equation_objects()):
        show("  dyn", e)
    for e in digest_equations(model.get_steady_equation_objects()):
        show("  ste", e)
    inv = model._invariant
    show("min_max_shift", (inv._min_shift, inv._max_shift))
    nq = len(inv.quantities)
    show("dyn_eval", eval_equator(inv._plain_dynamic_equator, nq, seed))
    show("ste_eval", eval_equator(inv._plain_steady_equator, nq, seed + 1))
    show("dyn_func_hash", hashlib.sha256(inv._plain_dynamic_equator._func_str.encode()).hexdigest()[:16])
    show("ste_func_hash", hashlib.sha256(inv._plain_steady_equator._func_str.encode()).hexdigest()[:16])


# ---------------------------------------------------------------------------
# 1. Token.print_xtring
# ---------------------------------------------------------------------------

print("### tokens")
for qid, shift in itertools.product((0, 1, 7, 123), (-12, -2, -1, 0, 1, 2, 10, 0.0, -0.0, 1.5, True, False, np.int64(0), np.int64(-3), np.float64(2.0))):
    show(f"xtring[{qid},{shift!r}]", Token(qid, shift).print_xtring())
show("xtring_shifted", [Token(3, 0).shifted(k).print_xtring() for k in range(-3, 4)])


# ---------------------------------------------------------------------------
# 2. Pseudofunction table and grammar constants
# ---------------------------------------------------------------------------

print("### pseudofunctions")
show("resolution_keys", list(_pf._PSEUDOFUNC_RESOLUTION.keys()))
show("resolution_items", [(k, f.__name__, s) for k, (f, s) in _pf._PSEUDOFUNC_RESOLUTION.items()])
show("name_pattern", _pf._PSEUDOFUNC_NAME_PATTERN)
show("pattern", _pf._PSEUDOFUNC_PATTERN.pattern)
_PF_NAMES = ("shift", "diff", "diff_log", "difflog", "pct", "roc", "mov_sum", "movsum", "mov_avg", "movavg", "mov_prod", "movprod")
_PF_ARGS = ("x", "x[-1]", "x{+2}", "(x+y[1])*z", "a*log(b[-2])", "x , 0", "x,1", "x, -1", "x,2", "x,-3", "x[-1]+y, +5", "log(x), -2")
for name, arg in itertools.product(_PF_NAMES, _PF_ARGS):
    src = f"q = {name}({arg}) + diff(w)"
    try:
        show(f"resolve[{src}]", _pf.resolve_pseudofunctions(src))
    except Exception as exc:
        show(f"resolve[{src}]", "ERROR " + type(exc).__name__)
show("resolve_nested", _pf.resolve_pseudofunctions("diff(mov_sum(x,-2)) + pct(roc(y)) + movavg_x + my_diff(x)"))

print("### grammar")
show("keywords", _pm._KEYWORDS)
show("keywords_pattern", _pm._KEYWORDS_PATTERN.pattern)
show("all_but_keyword", _pm.ALL_BUT_KEYWORD)
show("log_variables_keyword", _pm.LOG_VARIABLES_KEYWORD)
show("grammar_rules", sorted(_pm._GRAMMAR.keys()))
show("grammar_rule_order", list(_pm._GRAMMAR.keys()))
show("grammar_reprs", hashlib.sha256("\n".join(str(_pm._GRAMMAR[k]) for k in sorted(_pm._GRAMMAR.keys())).encode()).hexdigest()[:16])
show("default_rule", _pm._GRAMMAR.default_rule.name)


# ---------------------------------------------------------------------------
# 3. Parser output for syntactic alternatives
# ---------------------------------------------------------------------------

_SRC_A = r'''
%! a line comment
!transition-variables{:main :core}
    "Output" y, "Inflation" pi
    c ; k
!variables
    "Rate" r
!transition_shocks
    "Output shock" eps_y, eps_pi
!shocks
    eps_r
!parameters{:calibrated}
    "Persistence" rho, kappa
    ss_y
!exogenous-variables
    "Exog" ex
!log-variables
    y, k
!substitutions
    gap := (y - ss_y);
!transition-equations{:eq}
    "IS curve" y = rho*y[-1] + (1-rho)*ss_y - kappa*(r - pi{+1}) + eps_y
        !! y = ss_y;
    "Phillips" pi = 0.5*pi{-1} + 0.5*pi[+1] + kappa*$gap$ + eps_pi;
    c = y^0.5 + diff(k) + ex;  #! another comment
    k := mov_avg(y, -3) + movsum(c, 2) !! k = y;
!equations
    "Rule" r = rho*r{-1} + (1-rho)*(1.5*pct(pi) + diff_log(y, -4)) + eps_r + roc(k)*0 + mov_prod(c,-2)*0 + shift(c,-2)*0;
!measurement-variables
    "Observed output" obs_y, obs_pi
!measurement-shocks
    "Noise" u_y
!measurement-equations
    "Meas y" obs_y = y + u_y;
    obs_pi = pi;
!steady-autovalues
    ss_y = 1 + rho;
'''

_SRC_B = r'''
!variables
    !for ?c = <countries> !do
        "GDP ?c" y_?c
    !end
    z
!log_variables !all_but
    z
!shocks
    !for <countries> !do e_? !end
!parameters
    a, b<1+1>
!equations
    !for ?c = <countries> !do
        y_?c = a*y_?c[-1] + (1-a)*b2 + e_?c
        !if flag !then + 0*z{-1} !else + 0*z{+1} !end
        ;
    !end
    z = difflog(y_us) + mov_sum(y_ea) + movprod(y_us, -2) + movavg(y_ea, 3);
'''

_SRC_C = r'''
!transition_variables
    x, w
!log-variables
    w
!exogenous_variables
    "Exogenous y" y
!transition-equations
    {{func}}(x) = {{func}}(y);
    w = w[-1]^0.9 * x{-2} !! w = 1;
'''

_SRC_D = r'''
!variables
    a
!equations
    a = 0.5*a[-1] + 1;
'''

print("### parser")
for label, source, context in (
    ("A", _SRC_A, None),
    ("C-pct", _SRC_C.replace("{{func}}", "pct"), None),
    ("D", _SRC_D, None),
):
    parsed = _pm.from_string(source)
    for k in parsed:
        show(f"parsed[{label}][{k}]", parsed[k])


# ---------------------------------------------------------------------------
# 4. ModelSource.from_string / from_lists
# ---------------------------------------------------------------------------

print("### model sources")
src_a, info_a = ModelSource.from_string(_SRC_A)
digest_source("A", src_a)
show("info_a", sorted(info_a.keys()) if isinstance(info_a, dict) else info_a)

ctx_b = {"countries": ["us", "ea"], "flag": True}
src_b, info_b = ModelSource.from_string(_SRC_B, context=ctx_b)
digest_source("B", src_b)
show("ctx_b_is_copied", src_b.context is not ctx_b and src_b.context == ctx_b)
src_b2, _ = ModelSource.from_string(_SRC_B, context={"countries": ("us", "ea", "jp"), "flag": False})
digest_source("B2", src_b2)

src_d, _ = ModelSource.from_string(_SRC_D, context={})
digest_source("D", src_d)

for func in ("pct", "diff", "roc", "diff_log", "log", "mov_avg"):
    s, _ = ModelSource.from_string(_SRC_C, context={"func": func})
    digest_source(f"C-{func}", s)

# from_lists with different iterable types, None / empty inputs, attributes
fl = ModelSource.from_lists(
    transition_variables=[("  Desc x ", " x ", (":a", " :b ")), ("", "y", None), ("", "z", ":single")],
    transition_equations=(
        ("  Eq 1 ", ("x = 0.8 * x[-1]\n + ex", "x = 0"), (":e1",)),
        ("", ("y = x\t+ p", ""), None),
        ("Eq 3", ("z=y", None), ":s"),
    ),
    transition_shocks=iter([("", "ex", None)]),
    measurement_variables=[("", "m", None)],
    measurement_equations=[("ME", ("m = x + em", ""), None)],
    measurement_shocks=(("", "em", None),),
    steady_autovalues=[("", ("p = 1", ""), None)],
    parameters=[("Param", "p", None)],
    exogenous_variables=[("", "exo", None)],
    log_variables=["x", "m", "exo"],
    all_but=False,
    context={"k": 1},
)
digest_source("from_lists-1", fl)
fl2 = ModelSource.from_lists(
    transition_variables=[("", "x", None), ("", "y", None)],
    transition_equations=[("", ("x=1", ""), None), ("", ("y=2", "y=3"), None)],
    log_variables={"x"},
    all_but=True,
)
digest_source("from_lists-2", fl2)
fl3 = ModelSource.from_lists([], [], )
digest_source("from_lists-3", fl3)
fl4 = ModelSource.from_lists(
    transition_variables=[("", "x", None)],
    transition_equations=[("", ("x=1", ""), None)],
    transition_shocks=[],
    measurement_variables=None,
    parameters=(),
    log_variables=None,
    all_but=True,
    context=None,
)
digest_source("from_lists-4", fl4)

# individual adders
ms = ModelSource()
ms._add_parameters([("P1", "p1", None)])
ms._add_exogenous_variables([("X1", "x1", None)])
ms._add_transition_variables([("T1", "t1", None), ("T2", "t2", None)])
ms._add_transition_shocks([("S1", "s1", None)])
ms._add_measurement_variables([("M1", "m1", None)])
ms._add_measurement_shocks([("MS1", "ms1", None)])
ms._add_transition_equations([("TE", ("t1 = t2", "t1 = 0"), None), ("TE2", ("t2 = s1", ""), None)])
ms._add_measurement_equations([("ME", ("m1 = t1 + ms1", ""), None)])
ms._add_steady_autovalues([("SA", ("p1 = 3", ""), None)])
ms._add_parameters(None)
ms._add_transition_equations(None)
ms._add_measurement_shocks([])
digest_source("adders", ms)
show("loggable", sorted(_sources._extract_loggable_names(ms.quantities)))
show("loggable_type", type(_sources._extract_loggable_names(ms.quantities)).__name__)
show("loggable_empty", _sources._extract_loggable_names([]))
show("loggable_gen", sorted(_sources._extract_loggable_names(q for q in src_a.quantities)))

# errors
for label, kwargs in (
    ("illegal-log-param", dict(
        transition_variables=[("", "x", None)], transition_equations=[("", ("x=1", ""), None)],
        parameters=[("", "p", None)], log_variables=["p"],
    )),
    ("illegal-log-unknown", dict(
        transition_variables=[("", "x", None)], transition_equations=[("", ("x=1", ""), None)],
        log_variables=["nope"],
    )),
    ("illegal-log-measurement-shock", dict(
        transition_variables=[("", "x", None)], transition_equations=[("", ("x=1", ""), None)],
        measurement_shocks=[("", "u", None)], log_variables=["u"],
    )),
):
    try:
        ModelSource.from_lists(**kwargs)
        show(f"error[{label}]", "none")
    except BaseException as exc:
        show(f"error[{label}]", (type(exc).__name__, str(exc)))

for label, text in (
    ("bad-syntax", "!variables\n x\n!equations\n x = @;"),
    ("illegal-log", "!variables\n x\n!parameters\n p\n!log-variables\n p\n!equations\n x = p;"),
    ("inconsistent-all-but", "!variables\n x, y\n!log-variables !all-but\n x\n!log-variables\n y\n!equations\n x = 1; y=1;"),
):
    try:
        ModelSource.from_string(text)
        show(f"error[{label}]", "none")
    except BaseException as exc:
        show(f"error[{label}]", (type(exc).__name__, str(exc)[:200]))


# ---------------------------------------------------------------------------
# 5. Full models: names, kinds, descriptions, log status, equation values
# ---------------------------------------------------------------------------

print("### models")
digest_model("A", ir.Simultaneous.from_string(_SRC_A), seed=10)
digest_model("A-deterministic", ir.Simultaneous.from_string(_SRC_A, deterministic=True), seed=11)
digest_model("A-flat-linear", ir.Simultaneous.from_string(_SRC_A, linear=True, flat=True), seed=12)
digest_model("B", ir.Simultaneous.from_string(_SRC_B, context=ctx_b), seed=20)
digest_model("B2", ir.Simultaneous.from_string(_SRC_B, context={"countries": ("us", "ea", "jp"), "flag": False}), seed=21)
digest_model("D", ir.Simultaneous.from_string(_SRC_D), seed=30)
for func in ("pct", "diff", "roc", "diff_log", "log", "mov_avg"):
    digest_model(f"C-{func}", ir.Simultaneous.from_string(_SRC_C, context={"func": func}), seed=40)

m, info = ir.Simultaneous.from_string(_SRC_B, context=ctx_b, return_info=True)
show("return_info", sorted(info.keys()) if isinstance(info, dict) else info)

# Source variations that do not change meaning do not change the model
_SRC_A_VARIANT = (
    _SRC_A
    .replace("!transition-variables", "!transition_variables")
    .replace("!transition-equations", "!transition_equations")
    .replace("!equations", "!transition-equations")
    .replace("!shocks", "!transition-shocks")
    .replace("pi{+1}", "pi[+1]")
    .replace("pi{-1}", "pi[-1]")
    .replace("r{-1}", "r[-1]")
    .replace("mov_avg(", "movavg(")
    .replace("movsum(", "mov_sum(")
    .replace("diff_log(", "difflog(")
    .replace("mov_prod(", "movprod(")
)
ma = ir.Simultaneous.from_string(_SRC_A)
mv = ir.Simultaneous.from_string(_SRC_A_VARIANT)
show("variant_same_quantities", digest_quantities(ma.get_quantities()) == digest_quantities(mv.get_quantities()))
show("variant_same_dynamic", digest_equations(ma.get_dynamic_equation_objects()) == digest_equations(mv.get_dynamic_equation_objects()))
show("variant_same_steady", digest_equations(ma.get_steady_equation_objects()) == digest_equations(mv.get_steady_equation_objects()))
show("variant_same_log_status", ma.get_log_status() == mv.get_log_status())

# Multiple variants and copies keep names / log status
m3 = ir.Simultaneous.from_string(_SRC_C, context={"func": "diff"})
m3.alter_num_variants(3)
show("multi_variant_log_status", m3.get_log_status(output_type=dict))
show("multi_variant_names", m3.get_names())
show("copy_log_status", m3.copy().get_log_status(output_type=dict))

# Sequential models share the quantities mixin
_SEQ = r'''
!equations
    "Eq a" a = 0.5*a[-1] + b;
    c = diff(a) + pct(b);
!parameters
    p
'''
try:
    seq = ir.Sequential.from_string(_SEQ)
    show("seq_all_names", seq.all_names)
    show("seq_lhs_names", seq.lhs_names)
    show("seq_parameter_names", seq.parameter_names)
    show("seq_descriptions", seq.descriptions)
    show("seq_equation_strings", seq.equation_strings)
    show("seq_xtrings", [e.equation.xtring for e in seq.iter_equations()])
except Exception as exc:
    show("seq_error", (type(exc).__name__, str(exc)[:200]))

print("### done")

r"""
Behaviour digest for property C18 (RedVAR estimation, prior dummy observations,
companion form, simulation with exogenous impact).

Run as
    cd /tmp/wt2/C18 && PYTHONPATH=/tmp/wt2/C18/src /venv/bin/python /tmp/twin2_out/C18/behaviour.py
The output is deterministic and must be byte-identical for the untouched
worktree and for every behaviour-preserving refactoring.
"""

import hashlib
import os
import itertools
import warnings

import numpy as np

import irispie as ir
from irispie.red_vars.prior_obs import arrays_from_prior_obs
from irispie.red_vars._dimensions import Dimensions
from irispie.red_vars import _simulators as rv_simulators
from irispie.red_vars._variants import Variant

warnings.filterwarnings("ignore")
np.set_printoptions(precision=8, suppress=True, linewidth=200, )

LINES = []

# Set BEHAVIOUR_EXACT=1 to hash the raw bits of every array instead of values
# rounded to 8 decimals (stricter; still deterministic on one machine)
EXACT = os.environ.get("BEHAVIOUR_EXACT", "") == "1"


def out(*args, ):
    line = " ".join(str(a) for a in args)
    LINES.append(line)
    print(line)


def dig(x, ):
    """Deterministic short digest of an array-like (shape, dtype, rounded values)."""
    if x is None:
        return "None"
    a = np.asarray(x)
    if a.dtype == object:
        return repr(x)
    decimals = 8
    if np.iscomplexobj(a):
        r = np.stack([a.real, a.imag]) + 0.0
    else:
        r = a.astype(float) + 0.0
    if not EXACT:
        r = np.round(r, decimals) + 0.0
    h = hashlib.sha256(np.ascontiguousarray(r).tobytes()).hexdigest()[:12]
    flat = r.flatten()
    fmt = ".17g" if EXACT else ".8g"
    head = ",".join(format(v, fmt) for v in flat[:4])
    tot = float(np.nansum(flat)) if flat.size else 0.0
    return f"{type(x).__name__}:{a.dtype}:{a.shape}:{h}:sum={format(tot, fmt)}:[{head}]"


def series_digest(db, names, span, ):
    rows = []
    for n in names:
        rows.append(np.asarray(db[n].get_data(span, ), dtype=float, ))
    return rows


#-------------------------------------------------------------------------------
# 1. Prior dummy observations: direct API
#-------------------------------------------------------------------------------

out("== prior_obs direct ==")

dims_list = [
    Dimensions(num_endogenous=1, order=1, has_intercept=True, num_exogenous=0, ),
    Dimensions(num_endogenous=2, order=1, has_intercept=False, num_exogenous=0, ),
    Dimensions(num_endogenous=3, order=2, has_intercept=True, num_exogenous=1, ),
    Dimensions(num_endogenous=3, order=4, has_intercept=False, num_exogenous=2, ),
    (2, 3, True, 1, ),
    (4, 1, 1, 0, ),
]


def minnesota_factories(n, ):
    yield "rho0_mu", lambda: ir.MinnesotaPriorObs(rho=0, mu=2.5, )
    yield "rho1_mu2", lambda: ir.MinnesotaPriorObs(rho=1, mu2=7, )
    yield "rhoint_kappa", lambda: ir.MinnesotaPriorObs(rho=1, mu=3, kappa=2, )
    yield "rhoarr_kappa", lambda: ir.MinnesotaPriorObs(rho=np.linspace(0.1, 0.9, n), mu=1.5, kappa=0.5, )
    yield "rholist", lambda: ir.MinnesotaPriorObs(rho=[0.5] * n, mu=1, kappa=1, )
    yield "rho_size1_arr", lambda: ir.MinnesotaPriorObs(rho=np.array([0.3]), mu=1, kappa=-1, )
    yield "rho_bad", lambda: ir.MinnesotaPriorObs(rho=np.ones(n + 1), mu=1, )
    yield "rho_2d", lambda: ir.MinnesotaPriorObs(rho=np.ones((n, 2)), mu=1, )
    yield "mu_int", lambda: ir.MinnesotaPriorObs(rho=True, mu=2, kappa=1, )


def mean_factories(n, ):
    yield "mean0", lambda: ir.MeanPriorObs(mean=0, mu=2, )
    yield "mean_scalar", lambda: ir.MeanPriorObs(mean=1.5, mu2=9, )
    yield "mean_list", lambda: ir.MeanPriorObs(mean=list(range(1, n + 1)), mu=0.5, )
    yield "mean_arr", lambda: ir.MeanPriorObs(mean=np.linspace(-1, 1, n), mu=3, )
    yield "mean_bad", lambda: ir.MeanPriorObs(mean=np.ones(n + 2), mu=3, )
    yield "mean_size1", lambda: ir.MeanPriorObs(mean=np.array([[2.0]]), mu=3, )


def y_stds(n, ):
    yield "default", None
    yield "scalar", 2.0
    yield "int", 3
    yield "arr", np.linspace(0.5, 2, n)
    yield "bad", np.ones(n + 1)


METHODS = (
    "get_num_obs", "generate_y0", "generate_y1", "generate_x", "generate_k",
    "generate_lhs", "generate_rhs",
)


def call_method(obj, name, dims, y_std, ):
    try:
        f = getattr(obj, name)
        if name == "get_num_obs":
            r = f(dims, )
            return f"{type(r).__name__}:{r!r}"
        r = f(dims, ) if y_std is None else f(dims, y_std, )
        return dig(r)
    except Exception as e:
        return f"EXC {type(e).__name__}: {e}"


for dims in dims_list:
    n = dims[0]
    for label, factory in itertools.chain(minnesota_factories(n), mean_factories(n), ):
        for ylabel, y_std in y_stds(n):
            obj = factory()
            for m in METHODS:
                out(tuple(dims), label, ylabel, m, call_method(obj, m, dims, y_std, ))
            try:
                r = arrays_from_prior_obs(obj, dims, ) if y_std is None else arrays_from_prior_obs(obj, dims, y_std, )
                out(tuple(dims), label, ylabel, "arrays", dig(r[0]), dig(r[1]))
            except Exception as e:
                out(tuple(dims), label, ylabel, "arrays", f"EXC {type(e).__name__}: {e}")
            out(tuple(dims), label, "iter", [type(i).__name__ for i in obj], sorted(vars(obj).items(), key=lambda kv: kv[0]).__repr__())

# Full print of a few small ones
for dims in (Dimensions(2, 2, True, 1), Dimensions(2, 3, False, 0), ):
    p = ir.MinnesotaPriorObs(rho=[0.5, 0.25], mu=2, kappa=1.5, )
    q = ir.MeanPriorObs(mean=[1, -2], mu2=4, )
    for obj in (p, q, ):
        for m in METHODS[1:]:
            r = getattr(obj, m)(dims, np.array([1.0, 3.0]), )
            out(tuple(dims), type(obj).__name__, m, r.dtype, r.shape)
            out(np.array2string(r + 0.0))
    r = arrays_from_prior_obs((p, q, ), dims, np.array([1.0, 3.0]), )
    out("combined", dig(r[0]), dig(r[1]))
    out(np.array2string(r[0] + 0.0))
    out(np.array2string(r[1] + 0.0))
out("none", arrays_from_prior_obs(None, Dimensions(2, 2, True, 1), ))

for bad in (dict(), dict(mu=1, mu2=1), ):
    for klass in (ir.MinnesotaPriorObs, ir.MeanPriorObs, ):
        try:
            klass(**bad)
            out("populate_mu", klass.__name__, bad, "ok")
        except Exception as e:
            out("populate_mu", klass.__name__, bad, f"EXC {type(e).__name__}: {e}")


#-------------------------------------------------------------------------------
# 2. Companion matrices on hand-made variants
#-------------------------------------------------------------------------------

out("== companion direct ==")

rng = np.random.default_rng(20240607)


def report_variant(tag, v, ):
    out(tag, "T", dig(v.companion_T))
    try:
        out(tag, "eig", dig(np.array(sorted(v.eigenvalues, key=lambda z: (round(abs(z), 8), round(complex(z).real, 8), round(complex(z).imag, 8))))), [type(e).__name__ for e in v.eigenvalues][:6])
        out(tag, "maxabs", type(v.max_abs_eigenvalue).__name__, f"{v.max_abs_eigenvalue:.10g}", "stable", v.is_stable)
    except Exception as e:
        out(tag, "eig", f"EXC {type(e).__name__}: {e}")
    for name in ("_get_companion_P", "_get_companion_K", "_get_companion_sigma", "get_mean", ):
        try:
            out(tag, name, dig(getattr(v, name)()))
        except Exception as e:
            out(tag, name, f"EXC {type(e).__name__}: {e}")
    for up_to in (0, 2, ):
        try:
            acov = v.get_acov(up_to_order=up_to, )
            out(tag, "acov", up_to, type(acov).__name__, len(acov), [dig(a) for a in acov])
        except Exception as e:
            out(tag, "acov", up_to, f"EXC {type(e).__name__}: {e}")
    for deviation in (False, True, ):
        try:
            s = v._get_companion_solution(deviation=deviation, )
            out(tag, "solution", deviation, dig(s.T), dig(s.P), dig(s.K))
        except Exception as e:
            out(tag, "solution", deviation, f"EXC {type(e).__name__}: {e}")


for n, p, nx, has_c in [(1, 1, 0, True), (2, 1, 1, False), (2, 3, 0, True), (3, 2, 2, True), (3, 4, 0, False), ]:
    A = 0.5 * rng.standard_normal((n, n * p)) / (n * p)
    B = rng.standard_normal((n, nx))
    c = rng.standard_normal((n, )) if has_c else None
    u = rng.standard_normal((n, 30))
    cov = u @ u.T / 30
    v = Variant(A=A, B=B, c=c, cov_residuals=cov, )
    tag = f"variant(n={n},p={p},nx={nx},c={has_c})"
    report_variant(tag, v)
    if p == 1:
        out(tag, "T is A", v.companion_T is A, np.shares_memory(v.companion_T, A))
    w = v.copy()
    out(tag, "copy", dig(w.companion_T), w.companion_T is v.companion_T)
    # zero intercept
    if has_c:
        v0 = Variant(A=A, B=B, c=np.zeros((n, )), cov_residuals=cov, )
        out(tag, "mean zero c", dig(v0.get_mean()), dig(v0._get_companion_K()))
    # integer A
    vi = Variant(A=np.zeros((n, n * p), dtype=int), B=B, c=c, cov_residuals=cov.astype(np.float32), )
    out(tag, "int A", dig(vi.companion_T), dig(vi._get_companion_sigma()), dig(vi.get_mean()))

ve = Variant()
out("empty", ve.companion_T, ve.eigenvalues, ve.max_abs_eigenvalue, ve.is_stable)
report_variant("empty", ve)
for klass_kwargs in (dict(), dict(c=np.ones(2)), dict(A=np.eye(2)), dict(A=np.eye(2), B=np.ones((2, 0)), c=np.ones(2)), ):
    report_variant(f"partial{sorted(klass_kwargs)}", Variant(**klass_kwargs))
vm = ir.RedVAR(["a", "b"], exogenous_names=["z"], order=2, num_variants=2, )
for name in ("get_acov", "get_mean", "get_eigenvalues", "get_max_abs_eigenvalue", "get_stability", "get_companion_matrices", "get_system_matrices", ):
    try:
        r = getattr(vm, name)()
        out("unestimated", name, [type(i).__name__ for i in r], [getattr(i, "T", i) if not hasattr(i, "A") else (i.A, i.B, i.c, i.cov_residuals) for i in r])
    except Exception as e:
        out("unestimated", name, f"EXC {type(e).__name__}: {e}")
out("empty system", ve.system.num_endogenous, ve.system.order, ve.system.num_exogenous, ve.system.num_lagged_endogenous, ve.system.has_intercept)


#-------------------------------------------------------------------------------
# 3. Estimation / simulation on generated data
#-------------------------------------------------------------------------------

out("== estimate / simulate ==")


def make_data(start, n, nx, num_periods, order, seed, intercept=True, noise=True, num_variants=1, missing=(), ):
    g = np.random.default_rng(seed)
    span = start >> start + (num_periods - 1)
    endo = [f"y{i}" for i in range(n)]
    exo = [f"x{i}" for i in range(nx)]
    A = 0.6 * g.standard_normal((n, n * order)) / (n * order)
    B = g.standard_normal((n, nx))
    c = g.standard_normal((n, )) if intercept else np.zeros((n, ))
    db = ir.Databox()
    columns_y = []
    columns_x = []
    for _ in range(num_variants):
        x = g.standard_normal((nx, num_periods))
        e = g.standard_normal((n, num_periods)) * (0.3 if noise else 0.0)
        y = np.zeros((n, num_periods))
        y[:, :order] = g.standard_normal((n, order))
        for t in range(order, num_periods):
            lagged = np.concatenate([y[:, t - k] for k in range(1, order + 1)])
            y[:, t] = A @ lagged + B @ x[:, t] + c + e[:, t]
        for (i, t) in missing:
            y[i, t] = np.nan
        columns_y.append(y)
        columns_x.append(x)
    for i, name in enumerate(endo):
        values = np.column_stack([cy[i, :] for cy in columns_y])
        db[name] = ir.Series(periods=span, values=values if num_variants > 1 else values[:, 0], )
    for i, name in enumerate(exo):
        values = np.column_stack([cx[i, :] for cx in columns_x])
        db[name] = ir.Series(periods=span, values=values if num_variants > 1 else values[:, 0], )
    return db, span, endo, exo, (A, B, c)


def report_model(tag, v, ):
    systems = v.get_system_matrices(unpack_singleton=False, )
    for i, s in enumerate(systems):
        out(tag, i, "A", dig(s.A), "B", dig(s.B), "c", dig(s.c), "cov", dig(s.cov_residuals))
        out(tag, i, "sysdims", s.num_endogenous, s.order, s.num_exogenous, s.num_lagged_endogenous, s.has_intercept)
    for i, var in enumerate(v._variants):
        out(tag, i, "fitted", len(var.fitted_periods), str(var.fitted_periods[0]) if var.fitted_periods else None, str(var.fitted_periods[-1]) if var.fitted_periods else None)
        out(tag, i, "res", dig(var.residual_estimates))
        report_variant(f"{tag} {i}", var)
    for name, kwargs in (
        ("get_mean", {}), ("get_eigenvalues", {}), ("get_max_abs_eigenvalue", {}), ("get_stability", {}),
    ):
        try:
            r = getattr(v, name)(unpack_singleton=False, **kwargs, )
            if name == "get_eigenvalues":
                r = [sorted((complex(z) for z in e), key=lambda z: (round(abs(z), 8), round(z.real, 8), round(z.imag, 8))) for e in r]
            out(tag, name, [dig(np.asarray(i)) for i in r])
        except Exception as e:
            out(tag, name, f"EXC {type(e).__name__}: {e}")
    try:
        acov = v.get_acov(up_to_order=2, unpack_singleton=False, )
        out(tag, "acov", [[dig(a) for a in av] for av in acov])
    except Exception as e:
        out(tag, "acov", f"EXC {type(e).__name__}: {e}")
    for deviation in (False, True, ):
        try:
            cm = v.get_companion_matrices(unpack_singleton=False, deviation=deviation, )
            out(tag, "companion", deviation, [(dig(s.T), dig(s.P), dig(s.K)) for s in cm])
        except Exception as e:
            out(tag, "companion", deviation, f"EXC {type(e).__name__}: {e}")


def db_digest(tag, db, names, span, ):
    for n in names:
        try:
            data = db[n].get_data(span, )
            out(tag, n, dig(np.asarray(data, dtype=float, )))
        except Exception as e:
            out(tag, n, f"EXC {type(e).__name__}: {e}")


CASES = [
    # tag, start, n, nx, T, order, intercept, noise, num_variants, missing
    ("q_n1_p1", ir.qq(2001, 1), 1, 0, 40, 1, True, True, 1, ()),
    ("q_n2_p2_x1", ir.qq(2001, 1), 2, 1, 60, 2, True, True, 1, ()),
    ("q_n2_p2_x1_noint", ir.qq(2001, 1), 2, 1, 60, 2, False, True, 1, ()),
    ("q_n3_p3_x2_miss", ir.qq(1990, 3), 3, 2, 80, 3, True, True, 1, ((0, 20), (2, 21), (1, 50))),
    ("m_n2_p1_noisefree", ir.mm(2010, 5), 2, 1, 50, 1, True, False, 1, ()),
    ("y_n2_p2_noisefree_noint", ir.yy(1950), 2, 0, 50, 2, False, False, 1, ()),
    ("d_n2_p2_x1", ir.dd(2020, 2, 25), 2, 1, 70, 2, True, True, 1, ((1, 30), )),
    ("ii_n2_p1", ir.ii(-5), 2, 0, 45, 1, True, True, 1, ()),
    ("q_n2_p2_x2_v3", ir.qq(2001, 1), 2, 2, 60, 2, True, True, 3, ((0, 25), )),
    ("q_n3_p1_v2_noint", ir.qq(2001, 1), 3, 0, 60, 1, False, True, 2, ()),
]


def priors_for(n, ):
    yield "none", None
    yield "minn", ir.MinnesotaPriorObs(rho=0.5, mu=1.5, kappa=1, )
    yield "minn_arr", ir.MinnesotaPriorObs(rho=np.linspace(0, 1, n), mu2=4, kappa=0.5, )
    yield "mean", ir.MeanPriorObs(mean=list(range(n)), mu=2, )
    yield "both", (ir.MinnesotaPriorObs(rho=1, mu=1, ), ir.MeanPriorObs(mean=0.5, mu2=3, ), )


for (tag, start, n, nx, T, order, intercept, noise, nv, missing) in CASES:
    db, span, endo, exo, truth = make_data(start, n, nx, T, order, seed=len(tag) * 7919 + n, intercept=intercept, noise=noise, num_variants=nv, missing=missing, )
    res_names = [f"res_{i}" for i in endo]
    for (plabel, prior), dof in itertools.product(priors_for(n), (False, True), ):
        if plabel not in ("none", "both") and dof:
            continue
        full = f"{tag}/{plabel}/dof={dof}"
        v = ir.RedVAR(endo, exogenous_names=exo, order=order, intercept=intercept, num_variants=nv, )
        try:
            est_db = v.estimate(db, span, prior_obs=prior, dof_correction=dof, )
        except Exception as e:
            out(full, "estimate", f"EXC {type(e).__name__}: {e}")
            continue
        report_model(full, v)
        db_digest(full + " est", est_db, endo + exo + res_names, span, )
        if not noise and plabel == "none":
            s = v.get_system_matrices()
            out(full, "recovers truth", bool(np.allclose(s.A, truth[0])), bool(np.allclose(s.B, truth[1])), bool(s.c is None or np.allclose(s.c, truth[2])))
        #
        # Simulate over estimation span with estimated residuals
        sim_span = span[order:] if not missing else None
        short_span = span[0] + order >> span[-1]
        for kwargs in (
            dict(),
            dict(residuals_from_data=False, ),
            dict(deviation=True, ),
            dict(deviation=True, residuals_from_data=False, ),
            dict(prepend_input=True, ),
            dict(remove_initial=True, ),
        ):
            try:
                sim_db = v.simulate(est_db, short_span, **kwargs, )
                db_digest(full + f" sim{sorted(kwargs.items())}", sim_db, endo, span, )
                if not kwargs:
                    ok = all(
                        np.allclose(
                            np.asarray(sim_db[name].get_data(short_span), dtype=float),
                            np.asarray(db[name].get_data(short_span), dtype=float),
                            equal_nan=False,
                        )
                        for name in endo
                    )
                    out(full, "sim reproduces data", ok)
            except Exception as e:
                out(full, f"sim{sorted(kwargs.items())}", f"EXC {type(e).__name__}: {e}")
        #
        # Out of sample forecast
        fcast_span = span[-1] + 1 >> span[-1] + 6
        fdb = est_db.copy()
        for name in exo:
            fdb[name][fcast_span] = 0.25
        try:
            sim_db = v.simulate(fdb, fcast_span, )
            db_digest(full + " fcast", sim_db, endo, fcast_span, )
        except Exception as e:
            out(full, "fcast", f"EXC {type(e).__name__}: {e}")
        #
        # Exogenous impact helper, directly
        if plabel == "none" and not dof:
            from irispie.dataslates import Dataslate
            slatable = v.slatable_for_simulate(residuals_from_data=True, )
            ds = Dataslate.from_databox_for_slatable(slatable, est_db, tuple(short_span), num_variants=nv, )
            for vid, mv, dv in zip(range(nv), v.iter_variants(), ds.iter_variants()):
                try:
                    imp = rv_simulators._simulate_exogenous_impact(mv, dv, )
                    out(full, "exo impact", vid, dig(imp), bool(imp.flags["C_CONTIGUOUS"]))
                except Exception as e:
                    out(full, "exo impact", vid, f"EXC {type(e).__name__}: {e}")

# Wild bootstrap with a fixed factor generator (deterministic)
db, span, endo, exo, truth = make_data(ir.qq(2001, 1), 2, 1, 60, 2, seed=11, )
v = ir.RedVAR(endo, exogenous_names=exo, order=2, )
est_db = v.estimate(db, span, )
old = rv_simulators._RESAMPLE_SIMULATOR_DISPATCH["wild_bootstrap"]
rv_simulators._RESAMPLE_SIMULATOR_DISPATCH["wild_bootstrap"] = (
    lambda m, d: old(m, d, random_factor_generator=lambda size: np.cos(np.arange(size[1])).reshape(size), )
)
rdb = v.resample(est_db, span[0] + 2 >> span[-1], "wild_bootstrap", num_variants=3, )
db_digest("wild", rdb, endo, span, )

# No data after removing missing
db, span, endo, exo, truth = make_data(ir.qq(2001, 1), 2, 0, 10, 2, seed=3, missing=tuple((0, t) for t in range(10)), )
v = ir.RedVAR(endo, order=2, )
try:
    v.estimate(db, span, )
    out("allmissing ok")
except Exception as e:
    out("allmissing", f"EXC {type(e).__name__}: {e}")
# omit_missing=False
db, span, endo, exo, truth = make_data(ir.qq(2001, 1), 2, 0, 30, 1, seed=3, )
v = ir.RedVAR(endo, order=1, )
est_db = v.estimate(db, span, omit_missing=False, prior_obs=ir.MinnesotaPriorObs(mu=1), )
report_model("omit_missing_false", v)
# Invalid prior dims inside estimate
for prior in (ir.MinnesotaPriorObs(rho=np.ones(5), mu=1), ir.MeanPriorObs(mean=np.ones(5), mu=1), ):
    try:
        ir.RedVAR(endo, order=1, ).estimate(db, span, prior_obs=prior, )
        out("bad prior ok")
    except Exception as e:
        out("bad prior", f"EXC {type(e).__name__}: {e}")

out("TOTAL DIGEST", hashlib.sha256("\n".join(LINES).encode()).hexdigest())

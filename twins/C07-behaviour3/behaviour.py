"""
Behaviour digest for property C07 (simulation plans: exogenize / endogenize,
swaps invert a simulation), first_order and stacked_time methods.

Run with
    cd /tmp/wt2/C07 && PYTHONPATH=/tmp/wt2/C07/src /venv/bin/python /tmp/twin3_out/C07/behaviour.py

The output is deterministic; it must be identical before and after a
behaviour-preserving refactoring.
"""

import contextlib
import hashlib
import io
import sys
import warnings

import numpy as np
import irispie as ir

warnings.filterwarnings("ignore")

OUT = []


def emit(*args):
    OUT.append(" ".join(str(a) for a in args))


def quiet(func, *args, **kwargs):
    buffer = io.StringIO()
    with contextlib.redirect_stdout(buffer):
        return func(*args, **kwargs)


def arr_digest(x, decimals=8):
    x = np.asarray(x, dtype=float)
    exact = hashlib.sha256(np.ascontiguousarray(x).tobytes()).hexdigest()[:16]
    rounded = np.round(x, decimals) + 0.0
    return f"shape={x.shape} exact={exact} rounded={rounded.ravel().tolist()}"


def db_digest(label, db, names, span, decimals=8):
    for n in names:
        values = db[n].get_data(span)
        emit(label, n, arr_digest(values, decimals))


# ------------------------------------------------------------------------------
# Models
# ------------------------------------------------------------------------------

SRC_NONLIN = r"""
!transition-variables
    y, pi, r, a, z
!log-variables
    a
!transition-shocks
    ey, epi, er, ea
!parameters
    alpha, beta, kappa, rho, phi, rhoa, ss_a
!transition-equations
    y = alpha*y{-1} + (1-alpha)*y{+1} - 0.2*(r - pi{+1}) + 0.1*(log(a)-log(ss_a)) + ey;
    pi = beta*pi{+1} + (1-beta)*pi{-1} + kappa*y + epi;
    r = rho*r{-1} + (1-rho)*phi*pi{+2} + er;
    log(a) = rhoa*log(a{-1}) + (1-rhoa)*log(ss_a) + ea;
    z = y{-2} + pi;
!measurement-variables
    obs_y, obs_pi
!measurement-shocks
    wy
!measurement-equations
    obs_y = y + wy;
    obs_pi = 4*pi;
"""

SRC_LIN = r"""
!transition-variables
    x, w, q
!transition-shocks
    ex, ew
!parameters
    ax, aw, c
!transition-equations
    x = ax*x{-1} + 0.3*w{+1} + c + ex;
    w = aw*w{-1} + 0.2*x + ew;
    q = q{-1} + x;
!measurement-variables
    ox
!measurement-equations
    ox = 2*x + 1;
"""

# The stacked-time Newton solver requires both a small residual and a small
# last step; one exact Newton step on a (log-)linear model would otherwise be
# reported as "Cannot make further progress"
STACKED_KW = {"solver_settings": {"step_tolerance": 1e+10, }, }

ALL_T = ("y", "pi", "r", "a", "z", )
ALL_S = ("ey", "epi", "er", "ea", "ant_ey", "ant_epi", "ant_er", "ant_ea", )
ALL_M = ("obs_y", "obs_pi", )


def build_nonlin():
    m = ir.Simultaneous.from_string(SRC_NONLIN, linear=False, )
    m.assign(alpha=0.6, beta=0.7, kappa=0.1, rho=0.8, phi=2.0, rhoa=0.9, ss_a=1.5, )
    m.assign(y=0, pi=0, r=0, a=1.5, z=0, obs_y=0, obs_pi=0, )
    quiet(m.steady, )
    m.check_steady()
    m.solve()
    return m


def build_lin(num_variants=1):
    m = ir.Simultaneous.from_string(SRC_LIN, linear=True, )
    if num_variants > 1:
        m.alter_num_variants(num_variants, )
        m.assign(ax=[0.5, 0.7, 0.2][:num_variants], aw=[0.4, 0.1, 0.6][:num_variants], c=[0.1, 0.0, -0.2][:num_variants], )
    else:
        m.assign(ax=0.5, aw=0.4, c=0.1, )
    quiet(m.steady, )
    m.solve()
    return m


# ------------------------------------------------------------------------------
# Solution digest (fords/solutions.py, fords/covariances.py)
# ------------------------------------------------------------------------------

def solution_digest(label, m):
    for vid, v in zip(range(m.num_variants), m.iter_variants()):
        for deviation in (False, True, ):
            s = v._gets_solution(deviation=deviation, )
            tag = f"{label}[v{vid}][dev={deviation}]"
            emit(tag, "nums", s.num_xi, s.num_alpha, s.num_y, s.num_u, s.num_v, s.num_w, s.num_unit_roots, s.num_stable, )
            for n in ("Ta_stable", "Pa_stable", "Ka_stable", "Za_stable", ):
                emit(tag, n, arr_digest(getattr(s, n)))
            sq = s.unpack_square_solution()
            tr = s.unpack_triangular_solution()
            emit(tag, "square", type(sq).__name__, len(sq), [None if i is None else arr_digest(i) for i in sq])
            emit(tag, "triangular", type(tr).__name__, len(tr), [None if i is None else arr_digest(i) for i in tr])
            emit(tag, "identity", all(a is b for a, b in zip(sq, (s.T, s.P, s.K, s.Z, s.H, s.D, None))),
                 all(a is b for a, b in zip(tr, (s.Ta, s.Pa, s.Ka, s.Za, s.H, s.D, s.Ua))))
            emit(tag, "stability", [str(i) for i in s.transition_vector_stability], [str(i) for i in s.measurement_vector_stability], str(s.system_stability))
            emit(tag, "boolex", s.boolex_stable_transition_vector.tolist(), s.boolex_stable_measurement_vector.tolist())
            emit(tag, "expand", [arr_digest(i) for i in s.expand_square_solution(3)])
    try:
        acov = m.get_acov(up_to_order=2, )
        acov = acov if isinstance(acov, list) else [acov]
        for vid, a in enumerate(acov):
            first = a[0] if isinstance(a, tuple) and isinstance(a[0], tuple) else a
            for order, c in enumerate(first):
                emit(label, f"acov[v{vid}][{order}]", arr_digest(np.nan_to_num(np.asarray(c), nan=-999.0)))
    except Exception as exc:
        emit(label, "acov raised", type(exc).__name__, str(exc)[:80])


# ------------------------------------------------------------------------------
# Plan digest (plans/simulation_plans.py)
# ------------------------------------------------------------------------------

def plan_digest(label, p):
    emit(label, "slots", type(p).__slots__)
    emit(label, "registers", type(p)._registers)
    emit(label, "class-n", getattr(type(p), "n", "<none>"))
    emit(label, "empty", p.is_empty, p.any_endogenized_anticipated_except_start, p.any_endogenized_unanticipated_except_start)
    emit(label, "span", p.start, p.end, p.num_periods, p.frequency)
    arrays = p.get_registers_as_bool_arrays()
    for k, v in arrays.items():
        emit(label, "bool", k, v.shape, v.astype(int).tolist())
    for r in type(p)._registers:
        got = getattr(p, f"get_{r}")()
        emit(label, f"get_{r}", {k: [str(t) for t in v] for k, v in got.items() if v})
        emit(label, f"can_be_{r}", getattr(p, f"can_be_{r}"))
    for t in (p.start, p.end, ):
        emit(label, "in-period", t,
             p.get_exogenized_anticipated_in_period(t),
             p.get_exogenized_unanticipated_in_period(t),
             p.get_endogenized_anticipated_in_period(t),
             p.get_endogenized_unanticipated_in_period(t))
    emit(label, "str", hashlib.sha256(str(p).encode()).hexdigest()[:16])
    emit(label, "databox_names", sorted(p.get_databox_names()))
    emit(label, "func-names", [getattr(type(p), n).__name__ for n in ("endogenize_anticipated", "endogenize_unanticipated", "exogenize_unanticipated", "get_exogenized_anticipated")])


def plan_api_cases(m, span):
    start = span[0]
    p = ir.SimulationPlan(m, span, )
    plan_digest("plan0", p)
    p.exogenize_unanticipated(start+1, "y", )
    p.endogenize_unanticipated(start+1, "ey", )
    p.exogenize_anticipated((start+2, start+3, ), ("pi", "r", ), )
    p.endogenize_anticipated((start+2, start+3, ), ("ant_epi", "ant_er", ), )
    plan_digest("plan1", p)
    # Status overwrite (switch off), integer status, ellipsis names/dates
    p.exogenize_unanticipated(start+1, "y", status=False, )
    p.endogenize_unanticipated(start+1, "ey", status=False, )
    p.endogenize_anticipated(start+3, "ant_er", status=0, )
    p.exogenize_anticipated(start+3, "r", status=0, )
    p.exogenize_unanticipated(..., "a", status=2, )
    p.endogenize_unanticipated(..., "ea", status=2, )
    plan_digest("plan2", p)
    q = ir.SimulationPlan(m, span, )
    q.endogenize_anticipated(start, ..., )
    q.endogenize_unanticipated(..., ..., )
    q.exogenize_unanticipated(..., ..., )
    plan_digest("plan3", q)
    # Keyword call styles
    k = ir.SimulationPlan(m, span, )
    k.exogenize_unanticipated(dates=start, names="y", status=True, )
    k.endogenize_unanticipated(dates=start, names=["ey"], status=True, )
    k.endogenize_anticipated(names="ant_ey", dates=[start+1], )
    k.exogenize_anticipated(names="z", dates=[start+1], )
    plan_digest("plan4", k)
    # Errors
    for call in (
        lambda: k.endogenize_anticipated(start, "ey", ),
        lambda: k.endogenize_unanticipated(start, "ant_ey", ),
        lambda: k.exogenize_unanticipated(start, "ey", ),
        lambda: k.exogenize_unanticipated(start-1, "y", ),
        lambda: k.endogenize_unanticipated(span[-1]+1, "ey", ),
        lambda: k.endogenize_anticipated(span[-1]+5, "ant_ey", ),
        lambda: k.endogenize_anticipated(start, "ant_ey", True, ),
    ):
        try:
            call()
            emit("plan-error", "no error")
        except Exception as exc:
            emit("plan-error", type(exc).__name__, hashlib.sha256(str(exc).encode()).hexdigest()[:12])


# ------------------------------------------------------------------------------
# Simulation cases
# ------------------------------------------------------------------------------

def run_swap_case(label, m, span, shocks, targets, *, mode, methods=("first_order", "stacked_time", ), names_t=ALL_T, names_s=ALL_S, names_m=ALL_M, sim_kwargs=None, ):
    """
    shocks: list of (shock_name, offset, value) with plain (unanticipated) names;
    targets: list of (variable_name, offset) paired one-to-one with shocks.
    mode: "anticipated" | "unanticipated"
    """
    sim_kwargs = sim_kwargs or {"stacked_time": STACKED_KW, }
    prefix = "ant_" if mode == "anticipated" else ""
    start = span[0]
    ext = (start - 4) >> (span[-1] + 4)
    db = ir.Databox.steady(m, ext, )
    for name, offset, value in shocks:
        db[prefix+name][start+offset] = value
    for method in methods:
        kw = dict(sim_kwargs.get(method, {}))
        ref = quiet(m.simulate, db, span, method=method, **kw, )
        db_digest(f"{label}/{method}/{mode}/ref", ref, names_t + names_s + names_m, span, )
        #
        plan = ir.SimulationPlan(m, span, )
        exogenize = getattr(plan, f"exogenize_{mode}")
        endogenize = getattr(plan, f"endogenize_{mode}")
        for (name, offset, _), (target, target_offset) in zip(shocks, targets):
            exogenize(start+target_offset, target, )
            endogenize(start+offset, prefix+name, )
        inp = ref.copy()
        for name, offset, value in shocks:
            inp[prefix+name][start+offset] = 0
        out, info = quiet(m.simulate, inp, span, plan=plan, method=method, return_info=True, **kw, )
        db_digest(f"{label}/{method}/{mode}/swap", out, names_t + names_s + names_m, span, )
        info = info if isinstance(info, list) else [info]
        for i in info:
            emit(f"{label}/{method}/{mode}/info", i["method"], len(i["frames"]), [str(f.start) + ">" + str(f.simulation_end) for f in i["frames"]], [str(e) for e in i["exit_status"]], [type(d).__name__ for d in i["frame_databoxes"]])
        # Property check: exogenized points hit, shocks recovered, path recovered
        max_target = 0.0
        for target, target_offset in targets:
            a = out[target].get_data(start+target_offset)
            b = inp[target].get_data(start+target_offset)
            max_target = max(max_target, float(np.max(np.abs(a - b))))
        max_path = 0.0
        for n in names_t + names_s + names_m:
            a = out[n].get_data(span)
            b = ref[n].get_data(span)
            max_path = max(max_path, float(np.max(np.abs(a - b))))
        emit(f"{label}/{method}/{mode}/check", "targets_hit", max_target < 1e-8, "path_recovered", max_path < 1e-6)


def main():
    span_q = ir.qq(2020, 1) >> ir.qq(2022, 4)
    span_m = ir.mm(2021, 11) >> ir.mm(2022, 8)
    span_d = ir.dd(2020, 2, 25) >> ir.dd(2020, 3, 8)
    span_y = ir.yy(2000) >> ir.yy(2007)

    m = build_nonlin()
    solution_digest("nonlin", m)
    plan_api_cases(m, span_q)

    # Empty / None plan
    db = ir.Databox.steady(m, (span_q[0]-4) >> (span_q[-1]+4), )
    db["ey"][span_q[0]] = 0.3
    db["ant_er"][span_q[0]+3] = -0.2
    db["wy"][span_q[0]+1] = 0.1
    for method in ("first_order", "stacked_time", ):
        kw = STACKED_KW if method == "stacked_time" else {}
        s0 = quiet(m.simulate, db, span_q, method=method, **kw, )
        s1 = quiet(m.simulate, db, span_q, method=method, plan=ir.SimulationPlan(m, span_q, ), **kw, )
        db_digest(f"empty-plan/{method}/none", s0, ALL_T + ALL_S + ALL_M + ("wy", ), span_q, )
        db_digest(f"empty-plan/{method}/empty", s1, ALL_T + ALL_S + ALL_M + ("wy", ), span_q, )
    for kw in (dict(deviation=True, ), dict(force_split_frames=True, ), dict(prepend_input=False, ), dict(remove_initial=False, remove_terminal=False, ), dict(unpack_singleton=False, return_info=True, ), ):
        s2 = quiet(m.simulate, db if "deviation" not in kw else ir.Databox.zero(m, (span_q[0]-4) >> (span_q[-1]+4), ), span_q, **kw, )
        if isinstance(s2, tuple):
            emit("options", sorted(kw), type(s2[1]).__name__, len(s2[1]), sorted(s2[1][0].keys()))
            s2 = s2[0]
        for n in ALL_T + ALL_M:
            emit("options", sorted(kw), n, str(s2[n].start), str(s2[n].end), arr_digest(np.nan_to_num(s2[n].get_data(), nan=-999.0)))
    target_db = ir.Databox()
    target_db["keep_me"] = 1
    s3 = quiet(m.simulate, db, span_q, target_db=target_db, )
    emit("target_db", sorted(s3.keys())[:40])

    # Swap cases on quarterly span
    run_swap_case(
        "q1", m, span_q,
        shocks=[("ey", 1, 0.5), ("er", 3, -0.3)],
        targets=[("y", 1), ("r", 3)],
        mode="anticipated",
    )
    run_swap_case(
        "q1", m, span_q,
        shocks=[("ey", 1, 0.5), ("er", 3, -0.3)],
        targets=[("y", 1), ("r", 3)],
        mode="unanticipated",
    )
    # Shock at start only (single frame), log variable exogenized
    run_swap_case(
        "q2", m, span_q,
        shocks=[("ea", 0, 0.2), ("epi", 0, 0.1)],
        targets=[("a", 0), ("pi", 0)],
        mode="anticipated",
    )
    run_swap_case(
        "q2", m, span_q,
        shocks=[("ea", 0, 0.2), ("epi", 0, 0.1)],
        targets=[("a", 0), ("pi", 0)],
        mode="unanticipated",
    )
    # Targets dated differently from instruments; three instruments, same shock twice
    run_swap_case(
        "q3", m, span_q,
        shocks=[("ey", 0, 0.4), ("ey", 2, -0.2), ("ea", 5, 0.1)],
        targets=[("z", 2), ("y", 3), ("a", 5)],
        mode="anticipated",
    )
    run_swap_case(
        "q3", m, span_q,
        shocks=[("ey", 2, 0.4), ("epi", 2, -0.2), ("ea", 5, 0.1)],
        targets=[("y", 2), ("pi", 2), ("a", 5)],
        mode="unanticipated",
    )
    # Last period of the span
    run_swap_case(
        "q4", m, span_q,
        shocks=[("er", len(span_q)-1, 0.25)],
        targets=[("r", len(span_q)-1)],
        mode="anticipated",
    )
    run_swap_case(
        "q4", m, span_q,
        shocks=[("er", len(span_q)-1, 0.25)],
        targets=[("r", len(span_q)-1)],
        mode="unanticipated",
    )
    # Deviation mode, first order only
    start = span_q[0]
    dbz = ir.Databox.zero(m, (start-4) >> (span_q[-1]+4), )
    dbz["ant_ey"][start+2] = 0.5
    dbz["epi"][start+1] = 0.1
    refz = quiet(m.simulate, dbz, span_q, deviation=True, )
    pz = ir.SimulationPlan(m, span_q, )
    pz.swap_anticipated(start+2, ("y", "ant_ey"), )
    pz.swap_unanticipated(start+1, [("pi", "epi")], )
    inz = refz.copy()
    inz["ant_ey"][start+2] = 0
    inz["epi"][start+1] = 0
    outz = quiet(m.simulate, inz, span_q, plan=pz, deviation=True, )
    db_digest("deviation/mixed/ref", refz, ALL_T + ALL_S + ALL_M, span_q, )
    db_digest("deviation/mixed/swap", outz, ALL_T + ALL_S + ALL_M, span_q, )
    outz2 = quiet(m.simulate, inz, span_q, plan=pz, deviation=True, check_singularity=True, force_split_frames=True, )
    db_digest("deviation/mixed/swap-split", outz2, ALL_T + ALL_S + ALL_M, span_q, )

    # Missing value in exogenized input -> whatever happens must not change
    inn = refz.copy()
    inn["ant_ey"][start+2] = 0
    inn["epi"][start+1] = 0
    inn["y"][start+2] = np.nan
    try:
        outn = quiet(m.simulate, inn, span_q, plan=pz, deviation=True, )
        for n in ALL_T + ALL_S:
            emit("missing", n, arr_digest(np.nan_to_num(outn[n].get_data(span_q), nan=-999.0)))
    except Exception as exc:
        emit("missing raised", type(exc).__name__, str(exc)[:60])

    # Plan with wrong span / wrong model
    try:
        quiet(m.simulate, inz, span_q[0] >> span_q[-2], plan=pz, )
        emit("wrong-span", "no error")
    except Exception as exc:
        emit("wrong-span", type(exc).__name__, str(exc)[:70])

    # Other frequencies, linear model with constant and unit root, multiple variants
    lin_t, lin_s, lin_m = ("x", "w", "q", ), ("ex", "ew", "ant_ex", "ant_ew", ), ("ox", )
    for label, span in (("monthly", span_m), ("daily", span_d), ("yearly", span_y), ):
        ml = build_lin()
        if label == "monthly":
            solution_digest("lin", ml)
        for mode in ("anticipated", "unanticipated", ):
            run_swap_case(
                label, ml, span,
                shocks=[("ex", 1, 0.7), ("ew", 4, -0.4)],
                targets=[("q", 1), ("w", 4)],
                mode=mode, names_t=lin_t, names_s=lin_s, names_m=lin_m,
            )
    mv = build_lin(num_variants=3, )
    solution_digest("lin3", mv)
    for mode in ("anticipated", "unanticipated", ):
        run_swap_case(
            "variants", mv, span_q,
            shocks=[("ex", 0, 0.7), ("ew", 2, -0.4), ("ex", 3, 0.1)],
            targets=[("x", 0), ("w", 2), ("q", 4 if mode == "anticipated" else 3)],
            mode=mode, names_t=lin_t, names_s=lin_s, names_m=lin_m,
        )

    # Dataslate.from_until and friends
    from irispie.dataslates.main import Dataslate
    for label, model, span in (("nonlin", m, span_q), ("lin3", mv, span_d), ):
        ds = Dataslate.from_databox_for_slatable(model.slatable_for_simulate(shocks_from_data=True, stds_from_data=True, parameters_from_data=False, output_parameters=False, ), ir.Databox.steady(model, (span[0]-4) >> (span[-1]+4), ), tuple(span), num_variants=model.num_variants, )
        fu = ds.from_until
        emit("dataslate", label, type(fu).__name__, [str(i) for i in fu], [str(i) for i in ds._invariant.from_to], ds.num_periods, ds.base_slice, ds.base_columns)

    # Reduced-form VAR companion solution (red_vars/_variants.py)
    rng = np.random.default_rng(12345, )
    span_v = ir.qq(2000, 1) >> ir.qq(2019, 4)
    x = np.zeros((len(span_v), 2, ), )
    e = rng.standard_normal((len(span_v), 2, ), )
    for t in range(2, len(span_v), ):
        x[t, 0] = 0.3 + 0.5*x[t-1, 0] + 0.1*x[t-2, 1] + e[t, 0]
        x[t, 1] = -0.1 + 0.2*x[t-1, 0] + 0.4*x[t-1, 1] + 0.5*e[t, 1]
    dbv = ir.Databox()
    dbv["aa"] = ir.Series(periods=span_v, values=x[:, 0], )
    dbv["bb"] = ir.Series(periods=span_v, values=x[:, 1], )
    for intercept in (True, False, ):
        v = ir.RedVAR(["aa", "bb"], order=2, intercept=intercept, )
        quiet(v.estimate, dbv, span_v[2] >> span_v[-1], )
        for dev in (False, True, ):
            for kw in (dict(deviation=dev, ), dict() if not dev else dict(deviation=1, ), ):
                cs = v.get_companion_matrices(**kw, )
                emit("redvar", intercept, sorted(kw.items()), type(cs).__name__,
                     [None if getattr(cs, n) is None else arr_digest(getattr(cs, n)) for n in type(cs).__slots__ if n in ("T", "P", "K", "Z", "H", "D", "Ta", "Ka", "Ua", )])
        simv = quiet(v.simulate, dbv, span_v[-1]+1 >> span_v[-1]+4, prepend_input=False, )
        emit("redvar", intercept, "simulate", arr_digest(simv["aa"].get_data()), arr_digest(simv["bb"].get_data()))

    text = "\n".join(OUT)
    print(text)
    print("DIGEST", hashlib.sha256(text.encode()).hexdigest())


if __name__ == "__main__":
    main()

"""
Behaviour digest for property C04: model source text -> names, kinds,
descriptions, log status, and dynamic/steady equations evaluated on data.

Run with
    cd /tmp/wt/C04 && PYTHONPATH=/tmp/wt/C04/src /venv/bin/python /tmp/twin_out/C04/behaviour.py

Prints a deterministic digest (the !list expansion iterates over a set of
strings, so the script pins PYTHONHASHSEED by re-executing itself).
"""

import os
import sys

if os.environ.get("PYTHONHASHSEED") != "0":
    os.environ["PYTHONHASHSEED"] = "0"
    os.execv(sys.executable, [sys.executable] + sys.argv)

import hashlib
import warnings

import numpy as np

warnings.filterwarnings("ignore")

import irispie as ir
from irispie import sources as _sources
from irispie.parsers import preparser as _preparser
from irispie.parsers import models as _models
from irispie.parsers import _pseudofunctions, _shifts, _lists, _substitutions
from irispie import equations as _equations


_LINES = []


def out(*args):
    line = " ".join(str(a) for a in args)
    _LINES.append(line)
    print(line)


def fmt_array(a):
    a = np.asarray(a, dtype=float)
    return "[" + ", ".join(
        "nan" if np.isnan(v) else ("inf" if np.isposinf(v) else ("-inf" if np.isneginf(v) else f"{v:.10g}"))
        for v in a.ravel()
    ) + "]"


def guarded(label, func, *args, **kwargs):
    try:
        return func(*args, **kwargs)
    except BaseException as exc:
        text = str(exc).strip().splitlines()
        out("  EXC", label, type(exc).__name__, "|", " / ".join(t.strip() for t in text[:6]))
        return None


# ---------------------------------------------------------------------------
# Model sources
# ---------------------------------------------------------------------------

MODELS = {}

MODELS["basic_curly_and_square"] = (r"""
%{ block comment
   spanning lines %}
!transition-variables
    "Output gap" y, "Inflation" pi
    "Rate" r
    k
!transition-shocks
    "Demand shock" eps_y, eps_pi
!parameters
    "Persistence" rho, beta kappa;
    ss_k
!log-variables
    k
!transition-equations
    "IS curve" y = rho*y{-1} + (1-rho)*y[+1] ...  continuation comment
        - 0.1*(r - pi{+1}) + eps_y;   % trailing comment
    "Phillips" pi = beta*pi[1] + (1-beta)*pi{ -1 } + kappa*y + eps_pi;  # another comment
    r := 0.5*r{-1} + 0.5*(1.5*pi + 0.5*y) !! r = 1.5*pi + 0.5*y;
    log(k) = rho*log(k{-1}) + (1-rho)*log(ss_k) !! k = ss_k;
""", {}, {})

MODELS["aliases_underscores_measurement"] = (r"""
!variables
    a, b
    c
!shocks
    ea
!measurement_variables
    "Observed a" obs_a
    obs_b
!measurement_shocks
    "ME" ma
!exogenous_variables
    "Exog" z
!parameters
    p1, p2
!log_variables !all_but
    b, obs_b
!equations
    a = p1*a[-1]^2 + ea + z ;
    b = p2 * b{-2} + a{+2}^p1 - 3 !! b = a;
    "C eq" c = a*b / (1 + z[-1]) ;
!measurement_equations
    obs_a = a + ma;
    obs_b = b{-1} !! obs_b = b ;
""", {}, {})

MODELS["pseudofunctions"] = (r"""
!transition-variables
    x, y, z, w, u, v
!parameters
    g
!transition-equations
    diff(x) = g*diff(y, -2) + diff_log(z) - difflog(z, -3);
    pct(y) = roc(x, -2) + pct(z{-1}, -4) !! y = x;
    z = mov_sum(x) + movsum(y, -2) + mov_avg(x{-1}, -3) + movavg(w) ;
    w = mov_prod(x, -2) * movprod(y{+1}) + shift(z, -2) + shift(u) + shift(v{-1}, +2);
    u = mov_sum(x, 3) + mov_avg(y, 2) + mov_sum(z, 0) + mov_sum(w, -1) + mov_avg(v, 1) + mov_prod(w, 1);
    v = diff((x + y)*g) + diff_log(x*exp(y)) + roc(log(x) + 1, -1) + mov_avg(x*(y+1), -2);
""", {}, {})

MODELS["substitutions_for_if"] = (r"""
!transition-variables
    !for a, b, c !do
        "Variable ?" x_?
    !end
    tot
!transition-shocks
    !for ?s = a, b, c !do e_?s !end
!parameters
    !for ?(n) = <names> !do
        rho_?(n), RHO_?{n} low_?[n]
    !end
    extra
!substitutions
    sum_all := x_a + x_b + x_c;
    lagged = (x_a{-1} + x_b[-1]);
!transition-equations
    !for ?(n) = <names> !do
        "Equation for ?(n)" x_?(n) = rho_?(n) * x_?(n)[-1] + RHO_?{n} + low_?[n] + e_?(n)
        !if include_total !then
            + 0.01 * tot{-1}
        !else
            + 0.02 * extra
        !end
        !! x_?(n) = <1+1> * rho_?(n);
    !end
    !if flag == 2 !then
        tot = $sum_all$ + $lagged$ * extra;
    !else
        tot = $sum_all$ ^ 2 - $lagged$;
    !end
""", {"names": ["a", "b", "c"], "include_total": True, "flag": 2}, {})

MODELS["substitutions_for_if_other_context"] = (
    MODELS["substitutions_for_if"][0],
    {"names": ("a", "b", "c"), "include_total": False, "flag": 3},
    {},
)

MODELS["nested_for_and_upper_lower"] = (r"""
!transition-variables
    !for ?(i) = aa, Bb !do
        !for ?j = 1, 2 !do
            v_?(i)_?j, V_?{i}_?j, w_?[i]_?j
        !end
    !end
!parameters
    c0
!transition-equations
    !for ?(i) = aa, Bb !do
        !for ?j = 1, 2 !do
            v_?(i)_?j = c0 * v_?(i)_?j[-1] + ?j;
            V_?(i)|upper_?j = V_?{i}_?j[-?j] + w_?(i)|lower_?j[+?j];
            w_?[i]_?j = <"?j" + "*2"> * c0 !! w_?[i]_?j = <[1, 2][?j - 1]>;
        !end
    !end
""", {}, {})

MODELS["lists"] = (r"""
!transition-variables
    m1`main, m2`main, s1`side
!parameters
    q1`par
!transition-shocks
    sh
!log-variables
    !list(`side)
!transition-equations
    m1`eqvar = q1 * m1{-1} + sh;
    m2 = m1 + diff(m2);
    s1 = m1 * m2;
""", {}, {})

MODELS["jinja_and_steady_autovalues"] = (r"""
!transition-variables
    {% for n in names %} "Series {{ n }}" z_{{ n }}, {% endfor %}
!parameters
    ss_{{ names[0] }}, alpha
!steady-autovalues
    alpha = ss_{{ names[0] }} / 2;
!transition-equations
    {% for n in names %}
    z_{{ n }} = alpha * z_{{ n }}{-1} + (1 - alpha) * ss_{{ names[0] }} + <k> * 0;
    {% endfor %}
""", {"names": ["u", "v"], "k": 3}, {})

MODELS["flat_linear_deterministic"] = (r"""
!variables
    "A" a
    "B" b
!shocks
    e
!parameters
    c
!log-variables !all-but
!equations
    a = c*a{-1} + e;
    b = a{+1} - a{-1} + mov_avg(a, -2);
""", {}, {"linear": True, "flat": True, "deterministic": True})

MODELS["autodeclare"] = (r"""
!variables
    a
!equations
    a = undeclared_p * a{-1} + other_p;
""", {}, {"autodeclare_as": "parameters"})

MODELS["undeclared_error"] = (r"""
!variables
    a
!equations
    a = undeclared_p * a{-1};
""", {}, {})

MODELS["illegal_log_error"] = (r"""
!variables
    a
!parameters
    p
!log-variables
    p
!equations
    a = p * a{-1};
""", {}, {})

MODELS["block_attributes"] = (r"""
!transition-variables{:main :core}
    a, b
!parameters{:cal}
    p
!transition-equations{:eq}
    a = p*a{-1};
!transition-equations
    b = a;
""", {}, {})

MODELS["misplaced_end_error"] = (r"""
!variables
    a
!equations
    a = 1;
    !end
""", {}, {})

MODELS["bad_if_error"] = (r"""
!variables
    a
!equations
    !if nonexistent_name > 1 !then
    a = 1;
    !end
""", {}, {})

MODELS["bad_contextual_error"] = (r"""
!variables
    a
!equations
    a = <nonexistent_name>;
""", {}, {})


# ---------------------------------------------------------------------------
# Report on a model
# ---------------------------------------------------------------------------

def report_model(name, source, context, kwargs):
    out("=" * 70)
    out("MODEL", name)
    #
    result = guarded("preparser", _preparser.from_string, source, context=context)
    if result is not None:
        preparsed, info = result
        out("  preparser_needed", info["preparser_needed"])
        out("  preparsed_sha", hashlib.sha256(preparsed.encode()).hexdigest()[:16])
        for line in preparsed.splitlines():
            out("  |", line)
        parsed = guarded("models.from_string", _models.from_string, preparsed)
        if parsed is not None:
            for key in parsed.keys():
                out("  parsed", key, repr(parsed[key]))
    #
    result = guarded("ModelSource.from_string", _sources.ModelSource.from_string, source, context=context)
    if result is not None:
        ms, _ = result
        out("  source.all_names", ms.all_names)
        for q in ms.quantities:
            out("  source.qty", q.entry, q.human, q.kind.name, repr(q.description), q.logly, sorted(q.attributes))
        for d, s in zip(ms.dynamic_equations, ms.steady_equations):
            out("  source.eqn", d.entry, d.kind.name, repr(d.description), sorted(d.attributes))
            out("     dynamic", d.human)
            out("     steady ", s.human)
    #
    m = guarded("Simultaneous.from_string", ir.Simultaneous.from_string, source, context=context, **kwargs)
    if m is None:
        return
    quantities = m.get_quantities()
    for q in quantities:
        out("  qty", q.id, q.human, q.kind.name, repr(q.description), q.logly, sorted(q.attributes or ()))
    out("  names", m.get_names())
    out("  log_status", sorted(m.get_log_status().items()))
    out("  name_to_description", sorted(m.create_name_to_description().items()))
    out("  equations", m.get_equations())
    out("  equation_descriptions", sorted(m.get_equation_descriptions().items()))
    out("  max_lag/max_lead", m.max_lag, m.max_lead)
    for which, eqns in (
        ("dynamic", m.get_dynamic_equation_objects()),
        ("steady", m.get_steady_equation_objects()),
    ):
        for e in eqns:
            out("  ", which, e.id, e.kind.name, repr(e.description), sorted(e.attributes or ()))
            out("      human ", e.human)
            out("      xtring", e.xtring)
            out("      incid ", sorted(e.incidence))
    #
    # Evaluate equations on arbitrary (positive, seeded) data
    num_q = len(quantities)
    for which in ("dynamic", "steady"):
        equator = m._choose_plain_equator(which)
        min_shift, max_shift = equator.min_shift, equator.max_shift
        out("  equator", which, "min/max shift", min_shift, max_shift, "num", equator.num_equations)
        rng = np.random.default_rng(12345)
        num_columns = -min_shift + max_shift + 4
        data = 0.5 + rng.uniform(size=(num_q, num_columns))
        columns = np.arange(-min_shift, num_columns - max_shift)
        with np.errstate(all="ignore"):
            values = guarded("eval " + which, equator.eval_as_array, data, columns)
            if values is not None:
                for row in values:
                    out("    ", fmt_array(row))
            # single-column evaluation as well
            values = guarded("eval1 " + which, equator.eval_as_array, data, int(-min_shift))
            if values is not None:
                out("    single", fmt_array(values))
            # data with a missing value and a zero
            data2 = data.copy()
            data2[0, :] = np.nan
            data2[-1, :] = 0.0
            values = guarded("eval nan " + which, equator.eval_as_array, data2, columns)
            if values is not None:
                for row in values:
                    out("    nan ", fmt_array(row))


# ---------------------------------------------------------------------------
# Source variations that must not change the model
# ---------------------------------------------------------------------------

VARIATION_A = r"""
!transition-variables
    "X var" x, "Y var" y
!transition-shocks
    e
!parameters
    a
!log-variables
    y
!transition-equations
    "EQ1" x = a*x{-1} + (x{-1} - x{-2}) + e !! x = a;
    "EQ2" log(y) - log(y{-1}) = 100*(x)/(x{-4}) - 100 + ((x)+(x{-1}));
"""

VARIATION_B = r"""
#{ a block comment #}
!variables "X var" x
!variables
    "Y var" y;
!shocks e  % comment
!parameters a
!log_variables y
!equations
    "EQ1"
    x := a * x[-1] ...
        + ( x[ -1 ] - x[-2] ) + e   # comment
        !! x = a ;
    "EQ2" log( y ) - log( y[-1] ) = 100*(x)/(x[-4]) - 100 + ((x)+(x[-1]));
"""


def model_digest(source, context=None, **kwargs):
    m = ir.Simultaneous.from_string(source, context=context, **kwargs)
    return (
        tuple((q.human, q.kind.name, q.description, q.logly) for q in m.get_quantities()),
        tuple((e.human, e.xtring, e.description) for e in m.get_dynamic_equation_objects()),
        tuple((e.human, e.xtring, e.description) for e in m.get_steady_equation_objects()),
    )


def meaning(digest):
    """Drop the human strings (they keep := and the shift spelling), keep names and xtrings"""
    if digest is None:
        return None
    quantities, dynamic, steady = digest
    return (
        quantities,
        tuple((xtring, description) for _, xtring, description in dynamic),
        tuple((xtring, description) for _, xtring, description in steady),
    )


# ---------------------------------------------------------------------------
# Direct calls into the parser layers
# ---------------------------------------------------------------------------

PSEUDO_INPUTS = [
    "diff(x)", "diff(x,-4)", "diff(x, +2)", "diff( x{-1} , -1 )", "diff(x[-1],-1)", "diff(x[+2])",
    "diff_log(x)", "difflog(x,-2)", "pct(x)", "pct(x,-4)", "roc(x)", "roc(x,-3)",
    "mov_sum(x)", "movsum(x,-2)", "mov_sum(x,0)", "mov_sum(x,1)", "mov_sum(x,-1)", "mov_sum(x,3)",
    "mov_avg(x)", "movavg(x,-3)", "mov_avg(x,2)", "mov_avg(x, 0)", "mov_prod(x)", "movprod(x,-2)", "mov_prod(x,2)",
    "shift(x)", "shift(x,-3)", "shift(x,+3)", "shift(x[-2],2)", "shift(x,0)",
    "diff(log(x)+y*exp(z[-1]),-2)", "diff((x+y)*(z-1))", "pct(x1_a + B2[+1] - 3.5*c)",
    "a + diff(x) * pct(y,-2) - mydiff(z) + diffx(z)", "diff(diff(x))", "log(x) + exp(y)",
    "mov_avg(x*y[-1] + f(z), -3)", "roc(x, -1) = diff_log(y[ - 2 ], -4)",
    "diff(x,)", "diff(x, )", "diff(1e3*x)", "diff(x2[-1] + x10)",
]

SHIFT_INPUTS = [
    "x{-1} + y{+1} + z{ 2 } + w{- 3}", "?{a} x_?{n}{-1} {abc} ){-1}", "a{1}b{-2}{3}", "x[-1]{-1}", "{ -1 }",
]

LIST_INPUTS = [
    "a`t1 b`t1 c`t2\n¡list(`t2) and ¡list(`t3) and ¡list(`t2)",
    "no types here ¡list(`t1)",
    "only`one ¡list(`one)",
]

PREPARSER_INPUTS = [
    ("plain text no directives x{-1}", {}),
    ("!for a, b !do x_? = ?; !end", {}),
    ("!for ?k = 1, 2 !do !for ?(m) = p, Q !do ?k_?(m)_?{m}_?[m]; !end !end", {}),
    ("!for ?x = <items> !do [?x] !end", {"items": ["u", "v", "w"]}),
    ("!for ?x = <items> !do [?x] !end", {"items": []}),
    ("!if True !then yes !else no !end", {}),
    ("!if False !then yes !else no !end", {}),
    ("!if False !then yes !end tail", {}),
    ("!if n > 2 !then !if n > 5 !then big !else medium !end !else small !end", {"n": 4}),
    ("!if n > 2 !then !if n > 5 !then big !else medium !end !else small !end", {"n": 9}),
    ("!if n > 2 !then !if n > 5 !then big !else medium !end !else small !end", {"n": 1}),
    ("!for ?a = 1, 2 !do !if ?a == 1 !then one !else other?a !end !end", {}),
    ("a = <1+2>; b = <<[1, 2, 3]>>; c = <'s'>; d = <(1, (2, 3))>; e = < x >;", {"x": 2.5}),
    ('"description % not a comment" x % comment\ny # comment\nz ... cont\nw \\ latex\n#! kept\n%! kept', {}),
    ("%{ blk\n blk %} keep #{ blk2 #} keep2 %{ x #} still %}", {}),
    ("\n\n\na   \n\n\nb\n   \nc", {}),
    ("{{ v }} and {% if w %}W{% endif %}", {"v": "VAL", "w": 1}),
    ("x = diff(y) + ¡notakeyword; !list(`q) a`q b`q", {}),
    ("!else", {}),
    ("!end", {}),
    ("!if undefined_thing !then a !end", {}),
    ("a = <undefined_thing>;", {}),
]

XTRING_INPUTS = [
    "x=a*x[-1]+y[+2]^2", "x:=a", "a*x-y", "x[-1]===y", "log(x)=exp(y[-10])+a", "x=y=a",
]


def main():
    for name, (source, context, kwargs) in MODELS.items():
        report_model(name, source, context, kwargs)
    #
    out("=" * 70)
    out("VARIATIONS")
    da = guarded("variation A", model_digest, VARIATION_A)
    db = guarded("variation B", model_digest, VARIATION_B)
    out("  A == B", da == db)
    out("  meaning(A) == meaning(B)", meaning(da) == meaning(db))
    out("  B", db)
    out("  A", da)
    # Same source, irrelevant context entries
    dc = guarded("variation A ctx", model_digest, VARIATION_A, context={"unused": 1})
    out("  A == A with unused context", da == dc)
    # pseudofunction spelled out vs written by hand
    src1 = "!variables\n x, y\n!equations\n x = diff(y) + pct(y,-2);\n y = mov_avg(x, -2);"
    src2 = "!variables\n x, y\n!equations\n x = ((y)-(y[-1])) + (100*(y)/(y[-2])-100);\n y = (((x)+(x[-1]))/2);"
    d1 = guarded("pseudo 1", model_digest, src1)
    d2 = guarded("pseudo 2", model_digest, src2)
    out("  pseudo spelled == expanded", d1 == d2)
    out("  pseudo", d1)
    #
    out("=" * 70)
    out("PSEUDOFUNCTIONS")
    for s in PSEUDO_INPUTS:
        out("  ", repr(s), "->", repr(guarded(s, _pseudofunctions.resolve_pseudofunctions, s)))
    for by in (-2, -1, 0, 1, 3):
        s = "x + y[-1]*log(z[+2]) - f(w) + v[1] + 2*x3"
        out("  shift_all_names", by, repr(_pseudofunctions._shift_all_names(s, by)))
    #
    out("=" * 70)
    out("SHIFTS")
    for s in SHIFT_INPUTS:
        out("  ", repr(s), "->", repr(_shifts.standardize_time_shifts(s)))
    #
    out("=" * 70)
    out("LISTS")
    for s in LIST_INPUTS:
        out("  ", repr(s), "->", repr(guarded(s, _lists.resolve_lists, s)))
    #
    out("=" * 70)
    out("PREPARSER")
    for s, ctx in PREPARSER_INPUTS:
        for jinja in (True, False):
            result = guarded(repr(s), _preparser.from_string, s, context=ctx, jinja=jinja)
            if result is not None:
                out("  ", repr(s), sorted(ctx), jinja, "->", repr(result[0]), result[1]["preparser_needed"])
    #
    out("=" * 70)
    out("SUBSTITUTIONS")
    parsed = {
        "substitutions": [("", ("aa:=x+y", ""), (None,)), ("", ("b=x=z", ""), (None,))],
        "transition-equations": [("d", ("q=$aa$*$b$", "q=$b$"), (None,)), ("", ("r=$aa$", ""), (":t",))],
        "measurement-equations": [("", ("m=$aa$$b$", ""), (None,))],
        "steady-autovalues": [("", ("s=$aa$", ""), (None,))],
    }
    res = _substitutions.resolve_substitutions(parsed, ["transition-equations", "measurement-equations"])
    for k in sorted(res):
        out("  ", k, res[k])
    out("  no subs", _substitutions.resolve_substitutions({"transition-equations": [("", ("a=$b$", ""), (None,))]}, ["transition-equations"]))
    #
    out("=" * 70)
    out("XTRINGS")
    name_to_id = {"x": 0, "y": 1, "a": 2}
    for s in XTRING_INPUTS:
        xtring, incidence, tokens = _equations.xtring_from_human(s, name_to_id)
        out("  ", repr(s), "->", repr(xtring), sorted(incidence), list(tokens))
    #
    out("=" * 70)
    out("DIGEST", hashlib.sha256("\n".join(_LINES).encode()).hexdigest())


if __name__ == "__main__":
    main()

"""
Deterministic behaviour digest for property C11 (period conversions round-trip;
frequency conversion preserves containment).

Run as:
    cd /tmp/wt/C11 && PYTHONPATH=/tmp/wt/C11/src /venv/bin/python /tmp/twin_out/C11/behaviour.py

Prints one sha256 digest per section plus an overall digest and a few literal
sample lines. The output must be identical before/after a behaviour-preserving
refactoring of irispie/dates.py.
"""

import datetime as dt
import hashlib
import itertools
import warnings

warnings.simplefilter("ignore")

import irispie
from irispie import dates as D
from irispie.dates import (
    Frequency, Period, Span, EmptySpan,
    yy, hh, qq, mm, dd, ii,
    YearlyPeriod, HalfyearlyPeriod, QuarterlyPeriod, MonthlyPeriod, DailyPeriod, IntegerPeriod,
)

assert irispie.__file__.startswith("/tmp/wt/C11/"), irispie.__file__

CALENDAR_FREQS = (Frequency.YEARLY, Frequency.HALFYEARLY, Frequency.QUARTERLY, Frequency.MONTHLY, Frequency.DAILY, )
REGULAR_FREQS = CALENDAR_FREQS[:-1]
ALL_FREQS = CALENDAR_FREQS + (Frequency.INTEGER, )
POSITIONS = ("start", "middle", "end", )
CLASS = D.PERIOD_CLASS_FROM_FREQUENCY_RESOLUTION

SECTIONS = {}
_current = None


def section(name):
    global _current
    _current = []
    SECTIONS[name] = _current


def rec(*items):
    _current.append(" | ".join(_show(i) for i in items))


def _show(x):
    if isinstance(x, Period) and not x.needs_resolve:
        return f"<{type(x).__name__}:{x.frequency.name}:{x.serial!r}:{type(x.serial).__name__}>"
    if isinstance(x, (tuple, list)):
        return type(x).__name__ + "[" + ", ".join(_show(i) for i in x) + "]"
    if isinstance(x, float):
        return f"float:{x!r}"
    if isinstance(x, bool) or x is None:
        return repr(x)
    if isinstance(x, int):
        return f"{type(x).__name__}:{int(x)!r}"
    return f"{type(x).__name__}:{x!r}" if not isinstance(x, str) else f"str:{x!r}"


def attempt(func, *args, **kwargs):
    """Result of a call, or the exception type and message"""
    try:
        return func(*args, **kwargs)
    except BaseException as exc:
        chain = []
        e = exc
        while e is not None and len(chain) < 4:
            chain.append(f"{type(e).__name__}({str(e)!r})")
            e = e.__cause__ or (None if e.__suppress_context__ else e.__context__)
        return "RAISED " + " <- ".join(chain)


def sample_periods(freq):
    """A representative sample of periods of a frequency"""
    klass = CLASS[freq]
    if freq is Frequency.INTEGER:
        return [klass(s) for s in (-1000, -12, -1, 0, 1, 2, 7, 99, 12345)]
    if freq is Frequency.DAILY:
        out = []
        # Complete years, leap and non-leap, century rules
        for year in (1900, 1999, 2000, 2019, 2020, 2021, 2024, 2100):
            first = dt.date(year, 1, 1).toordinal()
            last = dt.date(year, 12, 31).toordinal()
            out += [klass(s) for s in range(first, last + 1)]
        # Sparse samples over the entire supported calendar
        out += [klass(s) for s in range(1, 3652059, 9973)]
        out += [klass(1), klass(2), klass(365), klass(366), klass(3652059)]
        return out
    # Regular frequencies: dense around several years, plus far out years
    n = freq.value
    out = []
    for year in (1, 2, 99, 100, 999, 1000, 1582, 1899, 1900, 1901, 1969, 1970, 1999, 2000, 2001, 2019, 2020, 2021, 2023, 2024, 2025, 2100, 2400, 9998, 9999):
        out += [klass(year * n + k) for k in range(n)]
    return out


def exotic_regular_periods(freq):
    """Periods outside of the python-date calendar: year 0, negative, 5-digit"""
    klass = CLASS[freq]
    n = freq.value
    return [klass(s) for s in (0, 1, n - 1, -1, -n, -n - 1, -2020 * n, -2020 * n + 1, 10000 * n, 12345 * n + n - 1, 1234567 * n, 123456789 * n + 1)]


# ----------------------------------------------------------------------------
section("frequency")
for f in Frequency:
    rec(f.name, f.value, f.letter, f.is_regular, str(f), )
for letter in ("y", "Y", "a", "h", "H", "q", "m", "w", "d", "i", "u", "_q", "quarterly", "Monthly", "x", ""):
    rec("from_letter", letter, attempt(Frequency.from_letter, letter))
SDMX_TRIALS = (
    "2020", " 2020 ", "0001", "9999", "20201", "202", "abcd", "",
    "2020-H1", "2020-H2", "2020-H3", "2020-H0", " 2020-H1\n", "2020-h1",
    "2020-Q1", "2020-Q4", "2020-Q5", "2020-Q0", "2020-q1", "2020Q1",
    "2020-01", "2020-12", "2020-13", "2020-00", "2020-1",
    "2020-W01", "2020-W53", "2020-W1",
    "2020-01-01", "2020-02-29", "2021-02-29", "2020-12-31", "2020-1-1", "2020-01-01T00", "2020/01/01",
    "(0)", "(1)", "(-1)", "(+5)", "( 5)", "(5", "5", "(12345678901234567890)", "()", "(1.5)", " (7) ",
)
for s in SDMX_TRIALS:
    rec("Frequency.from_sdmx_string", s, attempt(Frequency.from_sdmx_string, s))
    rec("Period.from_sdmx_string", s, attempt(Period.from_sdmx_string, s))
    for f in ALL_FREQS:
        rec("Period.from_sdmx_string", s, f.name, attempt(Period.from_sdmx_string, s, f))
        rec("Period.from_sdmx_string kw", s, f.name, attempt(Period.from_sdmx_string, s, frequency=f))
        rec("class.from_sdmx_string", s, f.name, attempt(CLASS[f].from_sdmx_string, s))
for bad in (None, 2020, 20.5, b"2020", ("2020", ), ):
    rec("Frequency.from_sdmx_string bad", repr(bad), attempt(Frequency.from_sdmx_string, bad))
    rec("Period.from_sdmx_string bad", repr(bad), attempt(Period.from_sdmx_string, bad))
rec("unknown", attempt(Period.from_sdmx_string, "2020", Frequency.UNKNOWN))
rec("weekly", attempt(Period.from_sdmx_string, "2020-W01", Frequency.WEEKLY))
rec("weekly auto", attempt(Period.from_sdmx_string, "2020-W01"))
rec("SDMX_REXP_FORMATS", [(k.name, v[0], v[1].pattern) for k, v in D.SDMX_REXP_FORMATS.items()])
rec("CLASS", [(k.name, v.__name__) for k, v in CLASS.items()])


# ----------------------------------------------------------------------------
section("round_trips")
counts = {}
for f in ALL_FREQS:
    klass = CLASS[f]
    for p in sample_periods(f):
        s = p.to_sdmx_string()
        r = repr(p)
        rec(f.name, p.serial, s, str(p), r, format(p, ">14"), p.to_compact_string(), hash(p) == hash(klass(p.serial)), p.get_distance_from_origin())
        # SDMX: auto-detected and explicit frequency
        assert Frequency.from_sdmx_string(s) is f, (s, f)
        q = Period.from_sdmx_string(s)
        assert type(q) is klass and q.serial == p.serial and q == p, (p, q)
        assert Period.from_sdmx_string(s, f) == p
        assert Period.from_sdmx_string(s, frequency=f) == p
        assert klass.from_sdmx_string(s) == p
        assert klass.from_sdmx_string("  " + s + " ") == p if f is not Frequency.DAILY else True
        assert D.Dater.from_sdmx_string(f, s) == p
        # repr
        q = eval(r)
        assert type(q) is klass and q.serial == p.serial, (p, q)
        if f is Frequency.INTEGER:
            rec(attempt(klass.from_year_segment, None, p.serial), attempt(Period.from_year_segment, f, 2020, p.serial))
            rec(attempt(p.to_ymd), attempt(p.to_iso_string), attempt(p.to_python_date), p.to_plotly_date(), p.to_plotly_edge_before(), p.to_plotly_edge_after())
            continue
        # year, segment
        ys = p.to_year_segment()
        rec(ys, p.year, p.segment, p.period, p.get_year())
        assert isinstance(ys, tuple) and len(ys) == 2
        assert (p.year, p.segment) == ys
        q = klass.from_year_segment(*ys)
        assert type(q) is klass and q.serial == p.serial
        assert Period.from_year_segment(f, *ys) == p
        assert klass.from_year_period(*ys) == p
        # ymd, iso, python date at each position
        for pos in POSITIONS:
            ymd = p.to_ymd(position=pos)
            iso = p.to_iso_string(position=pos)
            pyd = p.to_python_date(position=pos)
            rec(pos, ymd, iso, pyd)
            assert isinstance(ymd, tuple) and len(ymd) == 3
            assert all(type(i) is int for i in ymd), ymd
            assert klass.from_ymd(*ymd) == p
            assert Period.from_ymd(f, *ymd) == p
            assert Period.from_iso_string(iso, f) == p
            assert Period.from_iso_string(iso, frequency=f) == p
            assert klass.from_iso_string(iso) == p
            assert D.Dater.from_iso_string(f, iso) == p
            assert Period.from_python_date(pyd, f) == p
            assert Period.from_python_date(pyd, frequency=f) == p
            assert Period.from_python_date(dt.datetime(pyd.year, pyd.month, pyd.day, 13, 14), frequency=f) == p
            d = p.to_daily(position=pos)
            assert type(d) is DailyPeriod and d.to_ymd() == ymd
            if f is not Frequency.DAILY:
                assert p.to_ymd(pos) == ymd
        rec(p.to_ymd(), p.to_iso_string(), p.to_python_date(), p.to_daily())
        rec(p.to_plotly_date(), p.to_plotly_date("instant"), p.to_plotly_edge_before(), p.to_plotly_edge_before("instant"), p.to_plotly_edge_after(), p.to_plotly_edge_after("instant")) if p.serial > 2*f.value else None
        if f is Frequency.DAILY:
            rec(p.month, p.day, p.create_som(), attempt(p.create_eopm))
        if f is Frequency.HALFYEARLY:
            rec([p.get_month(position=pos) for pos in POSITIONS], p.get_month())
        rec(p.create_soy(), p.create_eoy(), attempt(p.create_eopy), p.create_tty(), attempt(p.shift, "yoy"), p.shift("soy"), p.shift("boy"), attempt(p.shift, "eopy"), p.shift("tty"), attempt(p.shift), attempt(p.shift, 3))
        counts[f.name] = counts.get(f.name, 0) + 1
rec(sorted(counts.items()))


# ----------------------------------------------------------------------------
section("exotic_regular")
for f in REGULAR_FREQS:
    klass = CLASS[f]
    for p in exotic_regular_periods(f):
        rec(f.name, p.serial, attempt(p.to_sdmx_string), attempt(repr, p), attempt(str, p), attempt(p.to_compact_string), p.to_year_segment(), p.year, p.segment)
        assert klass.from_year_segment(*p.to_year_segment()) == p
        q = eval(repr(p))
        assert type(q) is klass and q.serial == p.serial
        for pos in POSITIONS:
            rec(pos, attempt(p.to_ymd, position=pos), attempt(p.to_iso_string, position=pos), attempt(p.to_python_date, position=pos), attempt(p.to_daily, position=pos))
        s = attempt(p.to_sdmx_string)
        rec(attempt(Frequency.from_sdmx_string, s), attempt(Period.from_sdmx_string, s), attempt(klass.from_sdmx_string, s))
        for g in CALENDAR_FREQS:
            for pos in POSITIONS:
                rec(g.name, pos, attempt(p.refrequent, g, position=pos))
for f in ALL_FREQS:
    klass = CLASS[f]
    for args in ((2020, ), (2020, 1), (2020, 2), (2020, "end"), (2020, 0), (2020, -1), (2020, 13), (2020, 366), (2020, 367), (2021, 366), (2020, 2.7), (2020.9, 1), ("2020", "2"), (True, True), (0, 1), (-1, 1), (10000, 1), (None, 5), ()):
        rec("from_year_segment", f.name, repr(args), attempt(klass.from_year_segment, *args), attempt(Period.from_year_segment, f, *args))
    for args in ((2020, ), (2020, 2), (2020, 2, 29), (2021, 2, 29), (2020, 12, 31), (2020, 13, 1), (2020, 0, 1), (2020, 6, 31), (2020, 7, 1), (2020, 6.0, 1), (2020, 7.5, 1), (2020, "7", "1"), (0, 1, 1), (10000, 1, 1), (-3, 5, 6), (True, True, True), ()):
        rec("from_ymd", f.name, repr(args), attempt(klass.from_ymd, *args), attempt(Period.from_ymd, f, *args))
    for kwargs in ({"year": 2020, "month": 5, "day": 17}, {"year": 2020, "day": 17}, {"year": 2021, "month": 11}, {"year": 2021, "segment": 2}, {"year": 2021, "per": 2}, {"year": 2021, "period": 2}):
        rec("kw", f.name, repr(kwargs), attempt(klass.from_ymd, **kwargs), attempt(klass.from_year_segment, **kwargs))
    for m in (-6, 0, 1, 2, 3, 4, 5, 6, 7, 8, 9, 10, 11, 12, 13, 24, 6.0, 6.5, 7.0, 0.9999999999999999, True):
        rec("month_to_segment", f.name, m, attempt(getattr(klass, "month_to_segment", None), m))
for f in REGULAR_FREQS:
    table = CLASS[f]._MONTH_DAY_RESOLUTION if hasattr(CLASS[f], "_MONTH_DAY_RESOLUTION") else None
    if table is not None:
        rec("table", f.name, [(pos, sorted(v.items())) for pos, v in table.items()], [list(v.keys()) for v in table.values()], list(table.keys()))
for f in ALL_FREQS:
    rec("origin", f.name, CLASS[f].origin, CLASS[f].plotly_xaxis_type, CLASS[f].needs_resolve)
for iso in ("2020-02-29", "2021-02-29", "2020-2-9", " 2020-02-29 ", "2020-02", "2020-02-29-01", "2020-02-29T10:00", "2020-13-01", "a-b-c", "2020-Q1", "", "0000-01-01", "10000-01-01", "2020-06-31"):
    for f in ALL_FREQS + (Frequency.WEEKLY, Frequency.UNKNOWN, None, 4, 7, "Q"):
        fname = getattr(f, "name", repr(f))
        rec("iso", iso, fname, attempt(Period.from_iso_string, iso, f), attempt(Period.from_iso_string, iso, frequency=f))
        klass = CLASS.get(f) if not isinstance(f, str) and f is not None else None
        rec("iso class", iso, fname, attempt(getattr(klass, "from_iso_string", None), iso))
    rec("iso default", iso, attempt(Period.from_iso_string, iso))
for pyd in (dt.date(2020, 2, 29), dt.date(1, 1, 1), dt.date(9999, 12, 31), dt.datetime(2021, 6, 30, 23, 59), "2020-01-01", None, (2020, 1, 1)):
    for f in ALL_FREQS + (Frequency.WEEKLY, Frequency.UNKNOWN, None, 12):
        fname = getattr(f, "name", repr(f))
        rec("pyd", repr(pyd), fname, attempt(Period.from_python_date, pyd, f), attempt(Period.from_python_date, pyd, frequency=f))
    rec("pyd default", repr(pyd), attempt(Period.from_python_date, pyd))
for pos in ("start", "middle", "end", "begin", None, "START", 1):
    for p in (yy(2020), hh(2020, 2), qq(2020, 1), mm(2020, 2), mm(2021, 2), dd(2020, 2, 29), ii(5)):
        rec("position", repr(pos), p, attempt(p.to_ymd, position=pos), attempt(p.to_iso_string, position=pos), attempt(p.to_python_date, position=pos), attempt(p.refrequent, Frequency.MONTHLY, position=pos), attempt(getattr(p, "to_daily", None), position=pos))
for p in (yy(2020), hh(2020, 2), qq(2020, 1), mm(2020, 2), dd(2020, 2, 29), ii(5)):
    rec("positional position", p, attempt(p.to_ymd, "end"), attempt(p.to_iso_string, "end"), attempt(p.to_python_date, "end"), attempt(p.refrequent, Frequency.DAILY, "end"), attempt(D.refrequent, p, Frequency.DAILY, "end"), attempt(p.to_sdmx_string, position="end"), attempt(p.to_compact_string, position="end"))
rec("daily_serial_from_ymd", [attempt(D.daily_serial_from_ymd, *a) for a in ((2020, 1, 1), (1, 1, 1), (9999, 12, 31), (2021, 2, 29), (2020, 2, 29))])


# ----------------------------------------------------------------------------
section("constructors")
rec(yy(2020), hh(2020, 1), hh(2020, 2), qq(2020, 3), mm(2020, 11), dd(2020, 2, 29), dd(2020, None, 60), dd(2021, None, 60), dd(2020, None, 366), ii(-3))
rec(attempt(dd, 2021, 2, 29), attempt(dd, 2021, None, 366), attempt(dd, 2021, None, 0), attempt(dd, 2021, 0, 1), attempt(dd, 2021, None, None), attempt(dd, 2021, None, 3.9), attempt(dd, 2021, None, "3"), attempt(dd, 2021, 3.0, 4))
rec(attempt(yy, 2020, ...), attempt(yy, ..., 2020), attempt(qq, 2020, 1, ..., 2021, 4), attempt(mm, 2020, 1, ...), attempt(ii, 1, ..., 5), attempt(hh, ...))
rec(attempt(qq, 2020, "end"), attempt(mm, 2020, "end"), attempt(hh, 2020, "end"), attempt(yy, 2020, "end"), attempt(qq, 2020, 5), attempt(qq, 2020, 0), attempt(qq, 2020, -3), attempt(mm, 2020, 25), attempt(qq, 2020.7, 1.9), attempt(qq, "2020", "3"), attempt(qq, 2020, "x"), attempt(qq, None, 1), attempt(qq))
rec(Period.qq(2020, 2), Period.dd(2020, 1, 2), Period.ii(3), Period.yy(1), Period.hh(5, 2), Period.mm(6, 7))
rec(yy.__name__, hh.__name__, qq.__name__, mm.__name__, ii.__name__, dd.__name__)
for f in ALL_FREQS:
    t = attempt(Period.today, f)
    rec("today", f.name, type(t).__name__)
rec(attempt(Period.today, Frequency.WEEKLY), attempt(Period.today, Frequency.UNKNOWN))
rec(D.resolve_period_or_integer(5), D.resolve_period_or_integer(5.9), D.resolve_period_or_integer(qq(2020, 1)), attempt(D.resolve_period_or_integer, "a"))


# ----------------------------------------------------------------------------
section("refrequent")
mono_checked = 0
for f in CALENDAR_FREQS:
    periods = sample_periods(f)
    if f is Frequency.DAILY:
        periods = periods[::7] + periods[-5:]
    for g in CALENDAR_FREQS:
        gclass = CLASS[g]
        for pos in POSITIONS:
            prev = None
            prev_src = None
            for p in periods:
                t = p.refrequent(g, position=pos)
                rec(f.name, g.name, pos, p, t, t.to_sdmx_string())
                assert type(t) is gclass
                # All spellings of conversion agree
                assert p.convert(g, position=pos) == t
                assert p.convert_to_new_freq(g, position=pos) == t
                assert p.convert_to_new_frequency(g, position=pos) == t
                assert D.refrequent(p, g, position=pos) == t
                assert D.convert_to_new_freq(p, g, position=pos) == t
                assert irispie.refrequent(p, g, position=pos) == t
                # Containment of the chosen position
                ymd = p.to_ymd(position=pos)
                assert t.to_ymd(position="start") <= ymd <= t.to_ymd(position="end"), (p, t, pos)
                # Monotone
                if prev is not None and prev_src < p:
                    assert prev <= t, (prev_src, p, prev, t)
                    mono_checked += 1
                prev, prev_src = t, p
                # Coarser and back never leaves
                if g.value <= f.value:
                    for pos2 in POSITIONS:
                        b = t.refrequent(f, position=pos2)
                        assert b.refrequent(g, position=pos) == t if f is Frequency.DAILY else True
                        assert b.refrequent(g, position="start") == t or f is not Frequency.DAILY or True
                        assert t.refrequent(f, position=pos2).refrequent(g, position=pos2) == t
        rec(f.name, g.name, "default", [p.refrequent(g) for p in periods[:40]])
    rec(f.name, "INTEGER", [attempt(p.refrequent, Frequency.INTEGER) for p in periods[:3]])
    rec(f.name, "WEEKLY", [attempt(p.refrequent, Frequency.WEEKLY) for p in periods[:3]])
    rec(f.name, "UNKNOWN", [attempt(p.refrequent, Frequency.UNKNOWN) for p in periods[:3]])
    rec(f.name, "int", [attempt(p.refrequent, 4) for p in periods[:3]], [attempt(p.refrequent, 5) for p in periods[:3]])
rec("ii", attempt(ii(5).refrequent, Frequency.QUARTERLY), attempt(D.refrequent, ii(5), Frequency.QUARTERLY))
rec("monotone checks", mono_checked)


# ----------------------------------------------------------------------------
section("arithmetics_spans")
P = (yy(2020), hh(2020, 2), qq(2020, 4), mm(2020, 12), dd(2020, 12, 31), ii(7))
for p in P:
    rec(p + 1, 1 + p, p - 1, p + (-5), p - (-5), p + 0, p + True, attempt(lambda: p + 1.9), attempt(lambda: p - 1.9), attempt(lambda: p + "1"), p - (p - 3), (p + 4) - p, p.__index__(), len(p), bool(p), list(p), p.start, p.end, p.copy() if hasattr(p, "copy") else None)
    rec(p == p + 0, p != p + 1, p < p + 1, p <= p, p > p - 1, p >= p + 1)
    for q in P:
        rec("cmp", p, q, attempt(lambda: p == q), attempt(lambda: p != q), attempt(lambda: p < q), attempt(lambda: p <= q), attempt(lambda: p > q), attempt(lambda: p >= q), attempt(lambda: p - q))
    rec(attempt(lambda: p == None), attempt(lambda: p == 5), attempt(lambda: p == "2020"))
    for step in (1, 2, 3, -1, -2, 5):
        a, b = (p, p + 7) if step > 0 else (p + 7, p)
        sp = Span(a, b, step)
        rec("span", step, repr(sp), str(sp), len(sp), list(sp), sp.start, sp.end, sp.step, sp.direction, sp.frequency.name, sp[0], sp[-1], sp[1:3], sp.to_sdmx_strings(), sp.to_compact_strings())
        rec(attempt(sp.to_iso_strings), attempt(sp.to_iso_strings, position="end"), attempt(sp.to_python_dates, position="middle"), attempt(sp.to_plotly_dates))
        rec(repr(sp + 2), repr(2 + sp), repr(sp - 2), sp - p, attempt(lambda: p - sp), sp.__rsub__(p), sp.__rsub__(3), repr(sp.reversed()), sp == Span(a, b, step), sp == Span(a, b + 1, step))
        rec(D.periods_from_until(a, b, step), D.periods_from_to(a, b, step), list(D.period_indexes(list(sp) + [None], p)))
        sp2 = sp.copy(); sp2.shift(3); sp2.shift_start(-1 if step > 0 else 1); sp2.shift_end(2 if step > 0 else -2); rec(repr(sp2), len(sp2))
        sp2.reverse(); rec(repr(sp2), list(sp2))
    rec(repr(p >> p + 3), repr(p + 3 << p), repr(p >> None), repr(None >> p), repr(p << None), repr(None << p), list(p >> p + 3), list(p << p + 3), list(p + 3 << p))
    rec(p ** 1, p ** -1, repr(p ** 4), repr(p ** -4), type(p ** 0).__name__, list(p ** 3), list(p ** -3), attempt(lambda: (p >> p + 9) >> 3), attempt(lambda: (p >> p + 9) >> -3), attempt(lambda: (p + 9 << p) << -3), attempt(lambda: (p + 9 << p) << 3))
rec(attempt(Span, yy(2020), qq(2020, 1)), attempt(D.periods_from_until, yy(2020), qq(2020, 1)), attempt(lambda: list(qq(2021, 1) >> qq(2020, 1))), attempt(lambda: len(Span(qq(2020, 1), qq(2021, 1), 0))))
rec(len(EmptySpan()), list(EmptySpan()), EmptySpan() is EmptySpan())
rec(repr(D.start), repr(D.end), repr(D.start + 2), repr(D.end - 3), bool(D.start), repr(Span()), repr(Span(None, None, -1)), repr(D.start >> qq(2020, 1)), repr(Span(qq(2020, 1), None).resolve(D.ResolutionContext(qq(2019, 1), qq(2022, 4)))), repr((D.start + 1 >> D.end - 1).resolve(D.ResolutionContext(mm(2019, 1), mm(2022, 4)))))
rec(repr(Span.encompassing(qq(2020, 1) >> qq(2021, 1), qq(2019, 3) >> qq(2020, 2), None)), D.get_encompassing_span([mm(2020, 1), None, mm(2019, 5)], mm(2021, 1) >> mm(2021, 3))[1:], D.get_printable_span(qq(2020, 1), qq(2021, 1)), D.get_printable_span(None, None))
rec(D.spans_from_short_span(qq(2020, 1) >> qq(2020, 4), -2, 1), D.spans_from_long_span(mm(2020, 1) >> mm(2020, 6), -2, 1), D.extend_span(qq(2020, 1) >> qq(2020, 4), -2, 1, True, False), D.extend_span(dd(2020, 2, 27) >> dd(2020, 3, 1), -2, 1, False, True))


# ----------------------------------------------------------------------------
section("bulk_converters")
for f in ALL_FREQS:
    ps = sample_periods(f)[:30]
    strings = [p.to_sdmx_string() for p in ps]
    rec(f.name, D.periods_from_sdmx_strings(strings), D.periods_from_sdmx_strings(iter(strings), f), D.periods_from_sdmx_strings(strings, frequency=f), D.daters_from_sdmx_strings(f, strings))
    assert list(D.periods_from_sdmx_strings(strings)) == ps
    if f is Frequency.INTEGER:
        continue
    for pos in POSITIONS:
        isos = [p.to_iso_string(position=pos) for p in ps]
        pyds = [p.to_python_date(position=pos) for p in ps]
        assert list(D.periods_from_iso_strings(isos, frequency=f)) == ps
        assert list(D.daters_from_iso_strings(f, isos)) == ps
        assert list(D.periods_from_python_dates(pyds, frequency=f)) == ps
        rec(f.name, pos, D.periods_from_iso_strings(isos), D.periods_from_python_dates(iter(pyds)), D.periods_from_iso_strings(isos, frequency=Frequency.QUARTERLY), D.periods_from_python_dates(pyds, frequency=Frequency.HALFYEARLY))
rec(D.periods_from_sdmx_strings([]), D.periods_from_sdmx_strings(()), D.periods_from_iso_strings([]), D.periods_from_python_dates([]), attempt(D.periods_from_sdmx_strings, ["2020-Q1", "2020-01"]), attempt(D.periods_from_sdmx_strings, ["2020-01", "2020-Q1"]), attempt(D.periods_from_sdmx_strings, ["nonsense"]), attempt(D.periods_from_iso_strings, ["2020-01-01"], frequency=Frequency.INTEGER), attempt(D.periods_from_iso_strings, ["2020-01-01"], frequency=Frequency.WEEKLY), attempt(D.periods_from_sdmx_strings, ["2020-W01"]))
rec(attempt(D.ensure_period_tuple, [qq(2020, 1), qq(2020, 2)]), attempt(D.ensure_period_tuple, "2020-Q1...2020-Q3"), attempt(D.ensure_period_tuple, "2020-Q1>>2020-Q3", Frequency.QUARTERLY), attempt(D.ensure_period_tuple, "2020-Q1,2020-Q3", Frequency.QUARTERLY), attempt(D.ensure_period_tuple, "2020-Q1", Frequency.QUARTERLY))


# ----------------------------------------------------------------------------
section("series_usage")
import numpy as np
for start, n in ((qq(2020, 1), 12), (mm(2019, 11), 30), (dd(2020, 2, 25), 70), (yy(2000), 5), (hh(2001, 2), 6), (ii(3), 4)):
    x = irispie.Series(start=start, values=np.array([float(i) ** 1.5 for i in range(n)]))
    rec(x.start, x.end, x.frequency.name, list(x.span)[:3], np.round(x.get_data(), 6).ravel().tolist())
    rec(attempt(lambda: x.span.to_iso_strings(position="end")[:4]), attempt(lambda: x.span.to_sdmx_strings()[:4]))
    for g, method in ((Frequency.YEARLY, "mean"), (Frequency.QUARTERLY, "sum"), (Frequency.HALFYEARLY, "last"), (Frequency.MONTHLY, "first")):
        def _agg():
            y = x.copy()
            y.aggregate(g, method=method)
            return (y.start, y.end, np.round(y.get_data(), 6).ravel().tolist())
        rec("aggregate", g.name, method, attempt(_agg))
    for g in (Frequency.QUARTERLY, Frequency.MONTHLY):
        def _dis():
            y = x.copy()
            y.disaggregate(g, method="flat")
            return (y.start, y.end, np.round(y.get_data(), 6).ravel().tolist()[:12])
        rec("disaggregate", g.name, attempt(_dis))


# ----------------------------------------------------------------------------
overall = hashlib.sha256()
for name, lines in SECTIONS.items():
    text = "\n".join(lines)
    digest = hashlib.sha256(text.encode("utf-8")).hexdigest()
    overall.update(digest.encode("ascii"))
    print(f"{name:20s} lines={len(lines):7d} sha256={digest}")
print("OVERALL", overall.hexdigest())

# A few literal lines for eyeballing
for name in ("round_trips", "refrequent", "exotic_regular"):
    lines = SECTIONS[name]
    for i in (0, len(lines) // 3, len(lines) // 2, len(lines) - 2):
        print(f"[{name}#{i}]", lines[i][:300])

"""
Behaviour digest for property C02 (Jacobians from algorithmic differentiation)

Exercises: systemize() matrices A..J (linear and nonlinear, several variants,
log-variables, lags/leads > 1, measurement equations with lagged transition
variables), SystemMap, _create_dynid_matrices, steady-state Jacobian, and the
stacked-time simulation Jacobian including the first-order terminal condition
(Terminator.terminate_jacobian). Prints a deterministic digest.

Run:  cd $WT && PYTHONPATH=$WT/src /venv/bin/python behaviour.py
"""

import sys
import io
import hashlib
import warnings
import contextlib

import numpy as np
import scipy as sp

import irispie as ir
from irispie.fords import descriptors as _descriptors
from irispie.fords import terminators as _terminators
from irispie.fords import systems as _systems
from irispie.incidences.main import Token
from irispie.aldi.maps import ArrayMap


np.set_printoptions(linewidth=250, precision=8, suppress=False, threshold=100000, )

_LINES = []


def out(*args, ):
    line = " ".join(str(i) for i in args)
    _LINES.append(line)
    print(line)


def fmt(x, ):
    """Rounded values for reading, plus a hash of the exact bytes"""
    x = np.ascontiguousarray(np.asarray(x, dtype=float, ))
    exact = hashlib.sha1(x.tobytes()).hexdigest()[:12]
    x = np.round(x, 8, ) + 0.0
    return np.array2string(x, separator=",", ).replace("\n", "") + " #" + exact


def digest_system(label, system, ):
    for n in ("A", "B", "C", "D", "F", "G", "H", "J", ):
        x = getattr(system, n, )
        out(label, n, type(x).__name__, x.dtype, x.shape, fmt(x))


def digest_map(label, m, ):
    def _plain(x, ):
        if isinstance(x, np.ndarray):
            return ("ndarray", x.shape, x.tolist(), )
        if isinstance(x, (tuple, list, )):
            return (type(x).__name__, [_plain(i) for i in x], )
        return x
    out(label, "lhs", _plain(m.lhs), )
    out(label, "rhs", _plain(m.rhs), )


def digest_system_map(label, smap, ):
    for n in ("A", "B", "C", "D", "F", "G", "H", "J", ):
        digest_map(f"{label} map.{n}", getattr(smap, n))
    for n in ("dynid_A", "dynid_B", "dynid_C", "dynid_D", ):
        x = getattr(smap, n)
        out(label, n, x.dtype, x.shape, fmt(x))


#
# Models
#

SOURCE_NONLINEAR = r"""
!transition-variables
    y, c, k, r, a, z, w
!log-variables
    y, c, k, a
!transition-shocks
    ea, ez, eu
!parameters
    alpha, beta, delta, rho, kappa, ss_a
!transition-equations
    y = a * k{-1}^alpha + ea*0;
    1/c = beta * (1/c{+1}) * (alpha*y{+1}/k + 1 - delta) * exp(-kappa*z);
    k = (1-delta)*k{-1} + y - c;
    r = log(alpha*y{+2}/k{+1}) + sqrt(c{-2}) - sqrt(c{-2}) + 0*maximum(r{-3}, 1);
    log(a) = rho*log(a{-1}) + (1-rho)*log(ss_a) + ea;
    z = 0.5*z{-1} + 0.1*z{+1} + ez - 0.2*(log(y) - log(y{-1}));
    w = 0.3*w{-2} + maximum(z{-1}, -1) + logistic(z) - 0.5 + 0.1*(exp(z{+2}) - 1) + eu;
!measurement-variables
    obs_y, obs_c, obs_z
!log-variables
    obs_y
!measurement-shocks
    ey, eoz
!measurement-equations
    obs_y = y * exp(ey);
    obs_c = log(c{-1}) + 2*z;
    obs_z = z{-2} + w + eoz;
"""

SOURCE_LINEAR = r"""
!transition-variables
    x, p, i, g
!transition-shocks
    ex, ep, ei
!unanticipated-shocks
!parameters
    a1, a2, b1, b2, c1, c2, c3
!transition-equations
    x = a1*x{-1} + (1-a1)*x{+1} - a2*(i - p{+1}) + ex;
    p = b1*p{-1} + (1-b1)*p{+1} + b2*x + ep;
    i = c1*i{-1} + (1-c1)*(c2*p{+3} + c3*x) + ei;
    g = x - x{-4} + 0.5*g{-1};
!measurement-variables
    ox, op
!measurement-shocks
    eox
!measurement-equations
    ox = x + 2 + eox;
    op = 4*p{-1} + 1;
"""

SOURCE_LINEAR = SOURCE_LINEAR.replace("!unanticipated-shocks\n", "")


def make_nonlinear(num_variants=1, ):
    m = ir.Simultaneous.from_string(SOURCE_NONLINEAR, )
    if num_variants > 1:
        m.alter_num_variants(num_variants, )
    params = dict(alpha=0.33, beta=0.97, delta=0.08, rho=0.8, kappa=0.1, ss_a=1.0, )
    if num_variants > 1:
        params = {
            k: [v * (1 + 0.01*i) if k not in ("ss_a", ) else v + 0.1*i for i in range(num_variants)]
            for k, v in params.items()
        }
    m.assign(**params, )
    init = dict(y=1.5, c=1.0, k=5.0, r=-1, a=1, z=0, w=0, obs_y=1.5, obs_c=0, obs_z=0, )
    m.assign(**init, )
    return m


def make_linear(num_variants=1, ):
    m = ir.Simultaneous.from_string(SOURCE_LINEAR, linear=True, )
    if num_variants > 1:
        m.alter_num_variants(num_variants, )
    params = dict(a1=0.6, a2=0.2, b1=0.5, b2=0.1, c1=0.7, c2=1.8, c3=0.4, )
    if num_variants > 1:
        params = {
            k: [v * (1 + 0.03*i) for i in range(num_variants)]
            for k, v in params.items()
        }
    m.assign(**params, )
    return m


def quiet(func, *args, **kwargs, ):
    buffer = io.StringIO()
    with contextlib.redirect_stdout(buffer, ):
        return func(*args, **kwargs, )


#
# Part 1: _create_dynid_matrices on hand-made transition vectors
#

def part_dynid():
    out("=== dynid ===")
    vectors = {
        "empty": [],
        "single": [Token(0, 0)],
        "two_lags": [Token(0, -1), Token(0, 0)],
        "mixed": [
            Token(3, 2), Token(3, 1), Token(1, 1),
            Token(3, 0), Token(1, 0), Token(2, 0), Token(0, 0),
            Token(3, -1), Token(0, -1), Token(0, -2),
        ],
        "unsorted": [
            Token(0, -2), Token(5, 0), Token(0, 0), Token(5, 1), Token(0, -1), Token(7, 0),
        ],
    }
    for name, vec in vectors.items():
        for klass in (list, tuple, ):
            a, b = _descriptors._create_dynid_matrices(klass(vec), )
            out(name, klass.__name__, "A", a.dtype, a.shape, fmt(a))
            out(name, klass.__name__, "B", b.dtype, b.shape, fmt(b))


#
# Part 2: descriptors, system maps and systemize()
#

def part_systemize():
    out("=== systemize ===")
    #
    m = make_nonlinear()
    quiet(m.steady, )
    desc = m._invariant.dynamic_descriptor
    out("nonlinear transition_variables", [(t.qid, t.shift) for t in desc.system_vectors.transition_variables])
    out("nonlinear eids", desc.system_vectors.transition_eids, desc.system_vectors.measurement_eids)
    digest_system_map("nonlinear", desc.system_map, )
    smap = _descriptors.SystemMap(desc.system_vectors, )
    digest_system_map("nonlinear-rebuilt", smap, )
    out("steady", fmt([m.get_steady_levels()[n] for n in sorted(m.get_steady_levels().keys())]))
    digest_system("nonlinear", m.systemize(), )
    #
    # Evaluate away from steady state: assign a different point and systemize again
    m2 = m.copy()
    m2.assign(y=1.7, c=0.9, k=4.2, r=0.3, a=1.1, z=0.25, w=-0.4, obs_y=2, obs_c=0.1, obs_z=0.3, )
    digest_system("nonlinear-offsteady", m2.systemize(), )
    #
    # Force linear flag on nonlinear model (C and H from constants)
    try:
        digest_system("nonlinear-as-linear", m2.systemize(linear=True, ), )
    except Exception as exc:
        out("nonlinear-as-linear", type(exc).__name__)
    #
    # Multiple variants
    mv = make_nonlinear(3, )
    quiet(mv.steady, )
    for vid, s in enumerate(mv.systemize(), ):
        digest_system(f"nonlinear-v{vid}", s, )
    out("unpack_singleton=False", type(m.systemize(unpack_singleton=False, )).__name__, len(m.systemize(unpack_singleton=False, )))
    #
    # Linear model
    n = make_linear()
    desc = n._invariant.dynamic_descriptor
    out("linear transition_variables", [(t.qid, t.shift) for t in desc.system_vectors.transition_variables])
    digest_system_map("linear", desc.system_map, )
    digest_system("linear", n.systemize(), )
    nv = make_linear(2, )
    for vid, s in enumerate(nv.systemize(), ):
        digest_system(f"linear-v{vid}", s, )
    #
    # Linear steady state is computed from the unsolved system matrices
    for label, model in (("linear", n), ("linear-2v", nv), ):
        quiet(model.steady, )
        levels = model.get_steady_levels(unpack_singleton=False, )
        changes = model.get_steady_changes(unpack_singleton=False, )
        names = sorted(q.human for q in model.get_quantities(kind=ir.TRANSITION_VARIABLE | ir.MEASUREMENT_VARIABLE, ))
        out(label, "steady levels", fmt([levels[k] for k in names]))
        out(label, "steady changes", fmt([changes[k] for k in names]))
    #
    # Direct System construction with a random admissible data array
    rng = np.random.default_rng(12345, )
    desc = m._invariant.dynamic_descriptor
    min_shift = m._invariant._min_shift
    max_shift = m._invariant._max_shift
    num_columns = -min_shift + 1 + max_shift
    num_rows = 1 + max(q.id for q in m.get_quantities())
    for flag_linear in (False, True, ):
        flags = m.resolve_flags(linear=flag_linear, )
        data = rng.uniform(0.5, 2.0, size=(num_rows, num_columns, ), )
        data_lagged = rng.uniform(0.5, 2.0, size=(num_rows, num_columns, ), )
        s = _systems.System(desc, data.copy(), flags, data_lagged.copy(), -min_shift, )
        digest_system(f"direct-linear={flag_linear}", s, )
    #
    # Solutions derived from the systems
    quiet(m.solve, )
    sol = m.get_solution_matrices() if hasattr(m, "get_solution_matrices") else None
    if sol is not None:
        for n_ in ("T", "P", "R", "K", "Z", "H", "D", ):
            if hasattr(sol, n_):
                out("solution", n_, fmt(getattr(sol, n_)))
    return m, n


#
# Part 3: steady-state Jacobian
#

def part_steady_jacobian(label, m, ):
    out("=== steady jacobian ===", label)
    from irispie.steadiers import evaluators as _steady_evaluators
    import irispie.equations as _eq
    import irispie.quantities as _qu
    all_quantities = m.get_quantities()
    wrt_quantities = m.get_quantities(kind=ir.TRANSITION_VARIABLE | ir.MEASUREMENT_VARIABLE, )
    wrt_qids = sorted(q.id for q in wrt_quantities)
    wrt_equations = m.get_steady_equation_objects(kind=_eq.EquationKind.TRANSITION_EQUATION | _eq.EquationKind.MEASUREMENT_EQUATION, ) \
        if hasattr(m, "get_steady_equation_objects") else None
    if wrt_equations is None:
        out(label, "no steady equation accessor")
        return
    for klass in (_steady_evaluators.FlatSteadyEvaluator, _steady_evaluators.NonflatSteadyEvaluator, ):
        for vid, variant in enumerate(m._variants, ):
            try:
                se = klass(
                    wrt_qids, wrt_qids, wrt_equations, all_quantities, variant,
                    context=m._invariant._context,
                    iter_printer_settings={"every": 100000, },
                )
                guess = np.array(se.get_init_guess(), dtype=float, )
                f, j = quiet(se.eval, guess, )
                if sp.sparse.issparse(j):
                    j = j.toarray()
                out(label, klass.__name__, vid, "x", fmt(guess))
                out(label, klass.__name__, vid, "f", fmt(f))
                out(label, klass.__name__, vid, "J", np.shape(j), fmt(j))
                guess2 = guess + 0.05*np.cos(np.arange(guess.size))
                j2 = quiet(se.eval_jacob, guess2, )
                if sp.sparse.issparse(j2):
                    j2 = j2.toarray()
                out(label, klass.__name__, vid, "J2", np.shape(j2), fmt(j2))
            except Exception as exc:
                out(label, klass.__name__, vid, "EXC", type(exc).__name__, str(exc)[:150])


#
# Part 4: stacked-time Jacobian with first-order terminal condition
#

def part_stacked(m, n, ):
    out("=== stacked time ===")
    from irispie.stacked_time import simulators as _st_sim
    from irispie.stacked_time import _evaluators as _st_eval

    captured = []
    orig_terminate_jacobian = _terminators.Terminator.terminate_jacobian

    def spy(self, jacobian_outcome, /, ):
        before = jacobian_outcome.copy()
        result = orig_terminate_jacobian(self, jacobian_outcome, )
        captured.append((self, before, result, ))
        return result

    _terminators.Terminator.terminate_jacobian = spy
    try:
        scenarios = (
            ("nonlinear-qq", m, ir.qq(2020, 1), 6, {"ea": 0.05, "ez": 0.02, }, ),
            ("nonlinear-dd", m, ir.dd(2021, 2, 27), 7, {"eu": 0.1, "ea": 0.02, }, ),
            ("nonlinear-ii", m, ir.ii(-3), 5, {"ea": -0.03, }, ),
            ("linear-mm", n, ir.mm(2019, 11), 5, {"ex": 0.5, "ei": -0.2, }, ),
        )
        for label, model, start, length, shocks in scenarios:
            span = start >> (start + length - 1)
            if label.startswith("linear"):
                quiet(model.solve, )
            db = ir.Databox.steady(model, span, )
            for name, value in shocks.items():
                db[name][start] = value
            for terminal in ("first_order", "data", ):
                captured.clear()
                try:
                    with warnings.catch_warnings():
                        warnings.simplefilter("ignore", )
                        result = quiet(
                            model.simulate, db, span,
                            method="stacked_time", terminal=terminal,
                        )
                    sim = result[0] if isinstance(result, tuple) else result
                except Exception as exc:
                    out(label, terminal, "EXC", type(exc).__name__, str(exc)[:200])
                    continue
                names = sorted(
                    q.human for q in model.get_quantities(kind=ir.TRANSITION_VARIABLE | ir.MEASUREMENT_VARIABLE, )
                )
                for name in names:
                    values = sim[name].get_data(span, ).flatten()
                    out(label, terminal, name, str(sim[name].start), fmt(values))
                out(label, terminal, "num terminate_jacobian calls", len(captured))
                for count, (terminator, before, after, ) in enumerate(captured[:3], ):
                    out(label, terminal, count, "before", type(before).__name__, before.shape, before.nnz, fmt(before.toarray()))
                    out(label, terminal, count, "after", type(after).__name__, after.shape, fmt(after.toarray()))
                if captured:
                    terminator = captured[0][0]
                    digest_map(f"{label} {terminal} terminal_jacobian_map", terminator.terminal_jacobian_map, )
                    out(label, terminal, "completed", terminator._terminal_jacobian_map_completed)
                    out(label, terminal, "terminal_wrt_spots", [(t.qid, t.shift) for t in terminator.terminal_wrt_spots])
                    out(label, terminal, "terminal_column_index", list(terminator._terminal_column_index))
    finally:
        _terminators.Terminator.terminate_jacobian = orig_terminate_jacobian


#
# Part 5: _complete_terminal_jacobian_map directly
#

def part_complete_map():
    out("=== complete terminal jacobian map ===")
    cases = (
        ([], [], [], ),
        ([0, 3, 4], [2, 5], [0, 1], ),
        ([1], [0, 1, 2], [4, 2, 0], ),
        ([], [1, 2], [3, 4], ),
        ([0, 1, 2], [], [], ),
    )
    for nnz_rows, lhs_columns, rhs_columns in cases:
        am = ArrayMap(lhs=([], list(lhs_columns)), rhs=([], list(rhs_columns)), )
        _terminators._complete_terminal_jacobian_map(am, list(nnz_rows), )
        digest_map(f"complete {nnz_rows} {lhs_columns} {rhs_columns}", am, )
        out("dtypes", [i.dtype for i in am.lhs], [i.dtype for i in am.rhs])


def main():
    part_dynid()
    m, n = part_systemize()
    part_steady_jacobian("nonlinear", m, )
    part_steady_jacobian("nonlinear-3v", make_nonlinear(3, ), )
    part_stacked(m, n, )
    part_complete_map()
    everything = "\n".join(_LINES).encode("utf-8")
    print("DIGEST", hashlib.sha256(everything).hexdigest())


if __name__ == "__main__":
    main()

"""
Behaviour digest for property C20 (copies, pickles, variants, portable round trips)

Run as

    cd /tmp/wt2/C20 && PYTHONPATH=/tmp/wt2/C20/src /venv/bin/python /tmp/twin2_out/C20/behaviour.py

Prints a deterministic digest (independent of PYTHONHASHSEED: every set-derived
string is split and sorted before printing).
"""

import warnings
warnings.filterwarnings("ignore")

import contextlib
import io
import itertools
import json
import os
import pickle
import tempfile

import numpy as np

import irispie as ir
from irispie import quantities as Q
from irispie import equations as E
from irispie.quantities import Quantity, QuantityKind
from irispie.equations import Equation, EquationKind
from irispie.simultaneous._flags import Flags
from irispie.simultaneous._invariants import Invariant


ROUND = 8


def out(*args):
    print(*args)


def quiet(func, *args, **kwargs):
    with contextlib.redirect_stdout(io.StringIO()):
        return func(*args, **kwargs)


def attempt(func, *args, **kwargs):
    try:
        return func(*args, **kwargs)
    except Exception as exc:
        return f"<{type(exc).__name__}>"


def norm_attr_string(s):
    # Attribute strings are joined from sets; sort tokens for a seed-independent digest
    if not isinstance(s, str):
        return s
    return " ".join(sorted(s.split(" ")))


def norm_attr_set(s):
    if s is None:
        return None
    return sorted(s)


def rnd(x):
    if x is None:
        return None
    if isinstance(x, (list, tuple)):
        return [rnd(i) for i in x]
    if isinstance(x, np.ndarray):
        return rnd(x.astype(float).tolist())
    if isinstance(x, (int, float, np.floating, np.integer)):
        x = float(x)
        if x != x:
            return "nan"
        return round(x, ROUND) + 0.0
    return x


def norm_portable_quantity(p):
    p = tuple(p)
    return p[:4] + (norm_attr_string(p[4]), ) + p[5:]


def norm_portable_equation(p):
    p = tuple(p)
    return p[:4] + (norm_attr_string(p[4]), ) + p[5:]


def norm_portable_source(src):
    return {
        "description": src["description"],
        "flags": src["flags"],
        "quantities": [norm_portable_quantity(q) for q in src["quantities"]],
        "equations": [norm_portable_equation(e) for e in src["equations"]],
        "context": src["context"],
    }


def norm_portable(p):
    return {
        "portable_format": p["portable_format"],
        "source": norm_portable_source(p["source"]),
        "variants": [
            {k: rnd(list(v)) for k, v in variant.items()}
            for variant in p["variants"]
        ],
    }


def describe_quantity(q):
    return (
        q.id, q.human, q.kind.name, q.logly, q.description, q.entry,
        norm_attr_set(q.attributes),
    )


def describe_equation(e):
    return (
        e.id, e.human, e.kind.name if e.kind is not None else None,
        e.description, e.xtring, e.entry, norm_attr_set(e.attributes),
    )


#
# Part A: unit level
#


def part_a_quantity_kinds():
    out("== A1 QuantityKind / EquationKind portables")
    for kind in QuantityKind:
        code = attempt(kind.to_portable)
        back = attempt(QuantityKind.from_portable, code).name if isinstance(code, str) and code.startswith("#") else None
        out(" ", kind.name, code, back)
    for name in ("ENDOGENOUS_VARIABLE", "ANY_SHOCK", "PARAMETER_OR_STD", "UNSPECIFIED", ):
        out(" ", name, attempt(QuantityKind[name].to_portable))
    for code in ("#x", "#y", "#u", "#v", "#w", "#p", "#z", "#q", "", None, ):
        r = attempt(QuantityKind.from_portable, code)
        out(" ", repr(code), r.name if isinstance(r, QuantityKind) else r)
    for kind in EquationKind:
        code = attempt(kind.to_portable)
        out(" ", kind.name, code, attempt(EquationKind.from_portable, code))
    out(" ", "ENDOGENOUS_EQUATION", attempt(EquationKind.ENDOGENOUS_EQUATION.to_portable))
    for code in ("#T", "#M", "#A", "#t", "", None, ):
        r = attempt(EquationKind.from_portable, code)
        out(" ", repr(code), r.name if isinstance(r, EquationKind) else r)


def part_a_quantities():
    out("== A2 Quantity.to_portable / from_portable")
    attribute_cases = (None, set(), {":a"}, {":a", ":b", ":c"}, (":x", ":y"), [":only"], frozenset({":f"}), )
    logly_cases = (None, True, False, )
    descriptions = (None, "", "Some !! description", )
    kinds = (
        QuantityKind.TRANSITION_VARIABLE, QuantityKind.MEASUREMENT_VARIABLE,
        QuantityKind.TRANSITION_SHOCK, QuantityKind.ANTICIPATED_SHOCK_VALUE,
        QuantityKind.MEASUREMENT_SHOCK, QuantityKind.PARAMETER,
        QuantityKind.EXOGENOUS_VARIABLE,
    )
    count = 0
    for kind, attrs, logly, desc in itertools.product(kinds, attribute_cases, logly_cases, descriptions):
        q = Quantity(id=count, human=f"n{count}", kind=kind, logly=logly, description=desc, entry=count+3, attributes=attrs, )
        p = q.to_portable()
        assert type(p) is tuple and len(p) == 5
        b = Quantity.from_portable(p)
        assert type(b) is Quantity
        assert type(b.attributes) is set
        b2 = Quantity.from_portable(list(p))
        assert describe_quantity(b) == describe_quantity(b2)
        if count % 37 == 0:
            out(" ", norm_portable_quantity(p), describe_quantity(b))
        # Round trip again
        p2 = b.to_portable()
        assert norm_portable_quantity(p2)[:4] == norm_portable_quantity(p)[:4]
        count += 1
    out("  count", count)
    # Unsupported kinds and malformed portables
    for kind in (QuantityKind.TRANSITION_STD, QuantityKind.MEASUREMENT_STD, QuantityKind.UNSPECIFIED, QuantityKind.LHS_VARIABLE, ):
        q = Quantity(human="s", kind=kind, attributes=None, )
        out(" ", kind.name, attempt(q.to_portable))
    q = Quantity(human="s", kind=QuantityKind.TRANSITION_STD, attributes=5, )
    out("  std+bad attributes", attempt(q.to_portable))
    q = Quantity(human="s", kind=QuantityKind.PARAMETER, attributes=5, )
    out("  bad attributes", attempt(q.to_portable))
    q = Quantity(human="s", kind=QuantityKind.PARAMETER, attributes={1, 2}, )
    out("  nonstring attributes", attempt(q.to_portable))
    for p in (
        ("#x", "a", True, "d", ""),
        ("#x", "a", True, "d", ":a"),
        ("#x", "a", True, "d", ":a :b"),
        ("#x", "a", True, "d", ":a  :b"),
        ("#x", "a", True, "d", " "),
        ("#x", "a", True, "d", ":a\t:b"),
        ("#p", None, None, None, ":a :a"),
        ("#q", "a", True, "d", ""),
        ("#q", "a", True, "d", None),
        ("#x", "a", True, "d", None),
        ("#x", "a", True, "d"),
        ("#x", "a", True, "d", "", "extra"),
        (),
        None,
    ):
        r = attempt(Quantity.from_portable, p)
        out(" ", p, describe_quantity(r) if isinstance(r, Quantity) else r)

    out("== A3 quantities.to_portable / from_portable (module level)")
    qs = [
        Quantity(id=0, human="p1", kind=QuantityKind.PARAMETER, attributes={":p"}, ),
        Quantity(id=1, human="x1", kind=QuantityKind.TRANSITION_VARIABLE, logly=True, description="X1", attributes=set(), ),
        Quantity(id=2, human="std_e", kind=QuantityKind.TRANSITION_STD, ),
        Quantity(id=3, human="e", kind=QuantityKind.TRANSITION_SHOCK, description="E", ),
        Quantity(id=4, human="z", kind=QuantityKind.EXOGENOUS_VARIABLE, logly=False, ),
        Quantity(id=5, human="y1", kind=QuantityKind.MEASUREMENT_VARIABLE, logly=False, ),
        Quantity(id=6, human="x2", kind=QuantityKind.TRANSITION_VARIABLE, logly=False, ),
        Quantity(id=7, human="w", kind=QuantityKind.MEASUREMENT_SHOCK, ),
        Quantity(id=8, human="ant_e", kind=QuantityKind.ANTICIPATED_SHOCK_VALUE, ),
        Quantity(id=9, human="u", kind=QuantityKind.UNSPECIFIED, ),
        Quantity(id=10, human="p0", kind=QuantityKind.PARAMETER, ),
    ]
    for input_ in (qs, tuple(qs), list(reversed(qs)), [], (i for i in qs), iter(qs), ):
        p = Q.to_portable(input_)
        assert type(p) is tuple
        out(" ", [norm_portable_quantity(i) for i in p])
        b = Q.from_portable(p)
        assert type(b) is tuple
        out("   ", [describe_quantity(i) for i in b])
        b = Q.from_portable(i for i in p)
        assert type(b) is tuple
    out(" ", attempt(Q.to_portable, [Quantity(human="p", kind=QuantityKind.PARAMETER, attributes=3, )]))
    out(" ", attempt(Q.to_portable, None))
    out(" ", attempt(Q.from_portable, None))
    out(" ", attempt(Q.from_portable, [("#x", "a", True, "d", ""), ("#x", )]))


def part_a_equations():
    out("== A4 Equation.to_portable / from_portable")
    count = 0
    for kind, human, comp_human, desc, attrs in itertools.product(
        tuple(EquationKind)[:3],
        ("x=y", "", None, ),
        ("x=y", "x=0", "", None, ),
        (None, "", "Desc !! d", ),
        (set(), {":a"}, {":a", ":b"}, (":t", ":u"), ),
    ):
        d = Equation(id=count, human=human, kind=kind, description=desc, xtring="xx", entry=count, attributes=attrs, )
        s = Equation(id=count, human=comp_human, kind=kind, description="other", attributes={":zzz"}, )
        p = d.to_portable(s)
        assert type(p) is tuple and len(p) == 5
        if count % 11 == 0:
            out(" ", norm_portable_equation(p))
        if isinstance(p[1], str):
            r = Equation.from_portable(p)
            assert type(r) is tuple and len(r) == 2
            a, b = r
            assert a is not b
            assert a.attributes is not b.attributes
            assert type(a.attributes) is set and type(b.attributes) is set
            r2 = Equation.from_portable(list(p))
            assert [describe_equation(i) for i in r] == [describe_equation(i) for i in r2]
            if count % 11 == 0:
                out("   ", describe_equation(a), describe_equation(b))
            # Mutating one never affects the other
            a.attributes.add(":mut")
            assert ":mut" not in b.attributes
        count += 1
    out("  count", count)
    d = Equation(human="a=b", kind=EquationKind.TRANSITION_EQUATION, attributes=None, )
    out("  None attributes", attempt(d.to_portable, d))
    d = Equation(human="a=b", kind=EquationKind.ENDOGENOUS_EQUATION, attributes=None, )
    out("  bad kind + None attributes", attempt(d.to_portable, d))
    d = Equation(human="a=b", kind=None, attributes=set(), )
    out("  None kind", attempt(d.to_portable, d))
    d = Equation(human="a=b", kind=EquationKind.TRANSITION_EQUATION, attributes=set(), )
    out("  None complement", attempt(d.to_portable, None))
    out("  bad kind + None complement", attempt(Equation(human="a", kind=EquationKind.ENDOGENOUS_EQUATION, attributes=set()).to_portable, None))
    for p in (
        ("#T", "a=b", None, "d", ""),
        ("#T", "a=b", "", "d", ":a :b"),
        ("#M", "a=b", "a=0", "", ":a  :b"),
        ("#A", "a=b", "a=b", None, " "),
        ("#Q", "a=b", None, "d", ""),
        ("#Q", "a=b", None, "d", None),
        ("#T", "a=b", None, "d", None),
        ("#T", "a=b", None, "d"),
        ("#T", "a=b", None, "d", "", ""),
        (),
        None,
    ):
        r = attempt(Equation.from_portable, p)
        out(" ", p, [describe_equation(i) for i in r] if isinstance(r, tuple) else r)

    out("== A5 equations.to_portable / from_portable (module level)")
    dyn = [
        Equation(id=0, human="m=x", kind=EquationKind.MEASUREMENT_EQUATION, description="M", attributes={":m"}, ),
        Equation(id=1, human="x=x[-1]", kind=EquationKind.TRANSITION_EQUATION, description="T1", attributes=set(), ),
        Equation(id=2, human="a=1", kind=EquationKind.STEADY_AUTOVALUES, description="A", attributes=set(), ),
        Equation(id=3, human="y=y[-1]+x", kind=EquationKind.TRANSITION_EQUATION, description="T2", attributes={":t", ":u"}, ),
        Equation(id=4, human="q=1", kind=EquationKind.ENDOGENOUS_EQUATION, description="E", attributes=set(), ),
    ]
    ste = [
        Equation(id=0, human="m=x", kind=EquationKind.MEASUREMENT_EQUATION, attributes=set(), ),
        Equation(id=1, human="x=0", kind=EquationKind.TRANSITION_EQUATION, attributes=set(), ),
        Equation(id=2, human="a=1", kind=EquationKind.STEADY_AUTOVALUES, attributes=set(), ),
        Equation(id=3, human="y=y[-1]+x", kind=EquationKind.MEASUREMENT_EQUATION, attributes=set(), ),
        Equation(id=4, human="q=2", kind=EquationKind.ENDOGENOUS_EQUATION, attributes=set(), ),
    ]
    for d_in, s_in in (
        (dyn, ste), (tuple(dyn), tuple(ste)), (dyn[:3], ste), (dyn, ste[:2]), ([], []),
        (list(reversed(dyn)), list(reversed(ste))),
        ((i for i in dyn), ste), (dyn, (i for i in ste)), ((i for i in dyn), (i for i in ste)),
    ):
        p = E.to_portable(d_in, s_in)
        assert type(p) is tuple
        out(" ", [norm_portable_equation(i) for i in p])
        r = E.from_portable(p)
        assert type(r) is tuple
        out("   ", len(r), [[describe_equation(j) for j in i] for i in r])
        r = E.from_portable(list(p))
        assert type(r) is tuple
    out(" ", attempt(E.to_portable, None, None))
    out(" ", attempt(E.to_portable, dyn, None))
    out(" ", attempt(E.to_portable, [Equation(human="a", kind=EquationKind.TRANSITION_EQUATION, attributes=None)], [Equation(human="b")]))
    out(" ", attempt(E.from_portable, None))
    out(" ", attempt(E.from_portable, [("#T", "a=b", None, "d", ""), ("#T", )]))


class Truthy:
    def __init__(self, key, value, log):
        self.key = key
        self.value = value
        self.log = log
    def __bool__(self):
        self.log.append((self.key, self.value))
        return bool(self.value)


def part_a_flags():
    out("== A6 Flags")
    values = (None, False, True, 0, 1, "", "yes", [], [0], )
    keys = ("linear", "is_linear", "flat", "is_flat", "deterministic", "is_deterministic", )
    for f in range(8):
        f = Flags(f)
        p = f.to_portable()
        assert type(p) is dict
        back = Flags.from_portable(p)
        assert back == f and type(back) is Flags
        out(" ", int(f), list(p.items()), int(back), [type(v).__name__ for v in p.values()])
    # Single keys and pairs of keys
    for k in keys:
        out(" ", k, [int(Flags.from_kwargs(**{k: v})) for v in values])
    for k1, k2 in itertools.combinations(keys, 2):
        row = [
            int(Flags.from_kwargs(**{k1: v1, k2: v2}))
            for v1, v2 in itertools.product((None, False, True, 0, "x"), repeat=2)
        ]
        out(" ", k1, k2, row)
    # All six keys
    total = 0
    checksum = 0
    for combo in itertools.product((None, False, True), repeat=6):
        f = Flags.from_kwargs(**dict(zip(keys, combo)))
        assert type(f) is Flags
        total += 1
        checksum = (checksum * 7 + int(f)) % 1000003
    out("  all-keys", total, checksum)
    # Unknown keys are swallowed, positional arguments are not accepted
    out(" ", int(Flags.from_kwargs()), int(Flags.from_kwargs(foo=1, LINEAR=True, Linear=True, is_Linear=True)))
    out(" ", attempt(Flags.from_kwargs, True))
    out(" ", int(Flags.from_portable({})), int(Flags.from_portable({"is_flat": 1, "other": 2})))
    out(" ", attempt(Flags.from_portable, None), attempt(Flags.from_portable, [("is_flat", True)]))
    # Order and short-circuit of truthiness evaluation
    for combo in itertools.product((0, 1), repeat=6):
        log = []
        kwargs = {k: Truthy(k, v, log) for k, v in zip(keys, combo)}
        f = Flags.from_kwargs(**kwargs)
        out(" ", combo, int(f), log)
    # Truthiness errors propagate
    out(" ", attempt(Flags.from_kwargs, linear=np.array([1, 2])))
    out(" ", attempt(Flags.from_kwargs, is_deterministic=np.array([1, 2]), linear=True))
    # update_from_kwargs uses from_kwargs
    for f in range(8):
        f = Flags(f)
        out(" ", int(f), [
            int(f.update_from_kwargs(**kw)) for kw in (
                {}, {"linear": True}, {"linear": False}, {"flat": True, "deterministic": None},
                {"deterministic": True, "linear": None}, {"is_linear": True}, {"flat": 0},
            )
        ])
    # Subclass-agnostic result, pickling of flags
    f = Flags.from_kwargs(linear=True, is_deterministic=True)
    out(" ", repr(pickle.loads(pickle.dumps(f))), f.is_linear, f.is_flat, f.is_deterministic, f.is_nonlinear, f.is_nonflat, f.is_stochastic)
    out(" ", [m for m in Flags.__members__])


#
# Part B: model level
#


MODEL_NONLINEAR = r"""
!transition_variables
    "Output !! y" y, "Inflation" pi, r
!transition_variables{:attrA :attrB}
    "With attrs" z
!log-variables
    z
!transition_shocks
    "Shock y" e_y, e_pi
!parameters
    "Persistence" rho, kappa, ss_z
!exogenous-variables
    "Exo" xx
!transition_equations{:eqattr}
    "IS curve" y = rho*y{-1} - 0.2*(r - pi{+1}) + e_y + xx;
!transition_equations
    "PC" pi = 0.5*pi{+1} + 0.4*pi{-1} + kappa*y + e_pi !! pi = 0;
    r = 0.7*r{-1} + 0.3*(1.5*pi + 0.5*y);
    log(z) = rho*log(z{-1}) + (1-rho)*log(ss_z) !! z = ss_z;
!measurement_variables
    "Obs y" obs_y
!measurement_shocks
    m_y
!measurement_equations
    obs_y = y + m_y;
"""


MODEL_LINEAR = r"""
!transition_variables
    a, b, c
!transition_shocks
    shk_a, shk_b, shk_c
!parameters
    ra, rb
!transition_equations
    a = ra*a{-1} + shk_a;
    b = rb*b{-1} + 0.1*a + shk_b;
    c = 0.5*c{-1} + 0.2*b{+1} + shk_c;
!measurement_variables
    oa, ob
!measurement_equations
    oa = a;
    ob = b + c;
"""


MODEL_GROWTH = r"""
!transition_variables
    "Level" k, "Growth" g
!log-variables !all-but
    g
!transition_shocks
    e_g
!parameters
    rho_g, ss_g
!transition_equations
    g = rho_g*g{-1} + (1-rho_g)*ss_g + e_g;
    "Accumulation" k = k{-1}*exp(g) !! k = k{-1}*exp(ss_g);
"""


MODEL_CONTEXT = r"""
!transition_variables
    x, w
!transition_shocks
    e
!parameters
    c0
!transition_equations
    x = c0*myfun(x{-1}) + e;
    w = second(x, w{-1});
"""


def myfun(x):
    return 0.5 * x


def second(a, b):
    return 0.3*a + 0.2*b


def create_models():
    models = {}
    #
    m = ir.Simultaneous.from_string(MODEL_NONLINEAR, linear=False, description="Nonlinear test model", )
    m.assign(rho=0.8, kappa=0.1, ss_z=2, xx=0, )
    models["nonlinear"] = (m, {"rho": (0.5, 0.7, 0.9), "kappa": (0.05, 0.2, 0.3), "ss_z": (1.5, 2.5, 3)})
    #
    m = ir.Simultaneous.from_string(MODEL_LINEAR, linear=True, flat=True, )
    m.assign(ra=0.8, rb=0.5, std_shk_a=0.1, std_shk_b=0.2, std_shk_c=0.3, )
    models["linear"] = (m, {"ra": (0.1, 0.5, 0.95), "rb": (0.2, -0.3, 0.6)})
    #
    m = ir.Simultaneous.from_string(MODEL_LINEAR, linear=True, flat=True, deterministic=True, description="Deterministic", )
    m.assign(ra=0.8, rb=0.5, )
    models["deterministic"] = (m, {"ra": (0.1, 0.5, 0.95), "rb": (0.2, -0.3, 0.6)})
    #
    m = ir.Simultaneous.from_string(MODEL_GROWTH, linear=False, flat=False, )
    m.assign(rho_g=0.6, ss_g=0.02, k=(1, 1.02), g=(0.02, 0), )
    models["growth"] = (m, {"rho_g": (0.1, 0.5, 0.9), "ss_g": (0.01, 0.0, -0.01)})
    #
    m = ir.Simultaneous.from_string(MODEL_CONTEXT, linear=True, flat=True, context={"myfun": myfun, "second": second}, )
    m.assign(c0=0.9, )
    models["context"] = (m, {"c0": (0.2, 0.4, 1.2)})
    #
    return models


def model_structure(m):
    inv = m._invariant
    return {
        "description": m.get_description(),
        "flags": (m.is_linear, m.is_flat, m.is_deterministic, int(inv._flags)),
        "names": list(m.get_names()),
        "quantities": [describe_quantity(q) for q in inv.quantities],
        "dynamic": [describe_equation(e) for e in inv.dynamic_equations],
        "steady": [describe_equation(e) for e in inv.steady_equations],
        "log_status": sorted(m.get_log_status().items()),
        "context_keys": sorted(k for k in inv._context.keys()),
        "max_lag_lead": (m.max_lag, m.max_lead),
    }


def databox_digest(db, names=None):
    result = []
    for n in sorted(db.keys()):
        if names is not None and n not in names:
            continue
        x = db[n]
        if hasattr(x, "get_data"):
            data = x.get_data()
            result.append((n, str(x.start), rnd(np.asarray(data, dtype=float))))
        else:
            result.append((n, rnd(x)))
    return result


def variant_values(m):
    p = m.to_portable()
    return [{k: rnd(list(v)) for k, v in variant.items()} for variant in p["variants"]]


def solution_digest(m):
    result = []
    for s in m.iter_solution():
        if s is None:
            result.append(None)
            continue
        result.append([
            (name, rnd(np.abs(getattr(s, name))) if getattr(s, name, None) is not None else None)
            for name in ("T", "R", "K", "Z", "H", "D")
        ] + [rnd(np.sort(np.abs(np.asarray(s.eigenvalues))))])
    return result


def steady_digest(m):
    lev = m.get_steady_levels(unpack_singleton=False)
    chg = m.get_steady_changes(unpack_singleton=False)
    return (
        sorted((k, rnd(list(v))) for k, v in lev.items()),
        sorted((k, rnd(list(v))) for k, v in chg.items()),
    )


def run_model(m, name):
    """Steady, solve, simulate; return digest"""
    quiet(m.steady)
    chk = attempt(lambda: quiet(m.check_steady, when_fails="silent"))
    m.solve()
    span = ir.qq(2020, 1) >> ir.qq(2021, 2)
    db = ir.Databox.steady(m, span, )
    shock_names = m.get_names(kind=ir.TRANSITION_SHOCK)
    for i, n in enumerate(shock_names):
        db[n][ir.qq(2020, 1) + i] = 0.1 * (i + 1)
    sim = m.simulate(db, span, )
    var_names = m.get_names(kind=ir.ANY_VARIABLE)
    return {
        "steady": steady_digest(m),
        "check": chk if isinstance(chk, str) else repr(chk),
        "solution": solution_digest(m),
        "simulate": databox_digest(sim, names=set(var_names)),
    }


def run_filter(m):
    span = ir.qq(2020, 1) >> ir.qq(2021, 4)
    db = ir.Databox()
    rng = np.random.default_rng(12345)
    for n in m.get_names(kind=ir.MEASUREMENT_VARIABLE):
        values = rng.standard_normal(len(span))
        values[3] = float("nan")
        db[n] = ir.Series(start=span[0], values=values, )
    out_db, info = m.kalman_filter(db, span, return_info=True, ) if "return_info" in m.kalman_filter.__code__.co_varnames else (m.kalman_filter(db, span), None)
    result = []
    for attr in ("smooth_med", "predict_med", "update_med"):
        sub = getattr(out_db, attr, None)
        if sub is None:
            try:
                sub = out_db[attr]
            except Exception:
                continue
        result.append((attr, databox_digest(sub)))
    return result


def part_b_models():
    models = create_models()
    for name, (m, draws) in models.items():
        out(f"== B1 [{name}] structure and portable")
        struct = model_structure(m)
        out(" ", json.dumps(struct, default=str))
        p = m.to_portable()
        assert type(p) is dict
        assert list(p.keys()) == ["portable_format", "source", "variants"]
        assert list(p["source"].keys()) == ["description", "flags", "quantities", "equations", "context"]
        assert type(p["source"]["quantities"]) is tuple and type(p["source"]["equations"]) is tuple
        assert all(type(i) is tuple for i in p["source"]["quantities"])
        assert all(type(i) is tuple for i in p["source"]["equations"])
        assert type(p["source"]["flags"]) is dict and list(p["source"]["flags"].keys()) == ["is_linear", "is_flat", "is_deterministic"]
        assert type(p["source"]["description"]) is str
        out(" ", json.dumps(norm_portable(p)))
        # Invariant-level call twice gives equal results, original not mutated
        p_again = m.to_portable()
        assert norm_portable(p_again) == norm_portable(p)
        assert model_structure(m) == struct

        out(f"== B2 [{name}] portable round trips")
        via_json = json.loads(json.dumps(p))
        context = m.get_context() if hasattr(m, "get_context") else None
        for label, portable in (("direct", p), ("json", via_json)):
            m2 = ir.Simultaneous.from_portable(portable)
            s2 = model_structure(m2)
            same = {k: (s2[k] == struct[k]) for k in struct}
            out(" ", label, json.dumps(same))
            out(" ", label, json.dumps(s2, default=str))
            p2 = m2.to_portable()
            out(" ", label, "portable equal", norm_portable(p2) == norm_portable(p))
            out(" ", label, "flags", m2.is_linear, m2.is_flat, m2.is_deterministic)
            out(" ", label, "values equal", variant_values(m2) == variant_values(m))
            out(" ", label, "context", sorted(m2._invariant._context.items(), key=str))
            # Invariant level
            inv2 = Invariant.from_portable(portable["source"])
            out(" ", label, "invariant", [describe_quantity(q) for q in inv2.quantities] == s2["quantities"],
                norm_portable_source(inv2.to_portable()) == norm_portable_source(p["source"]))
        # File round trip
        with tempfile.TemporaryDirectory() as tmp:
            fn = os.path.join(tmp, "model.json")
            m.to_portable_file(fn)
            m3 = ir.Simultaneous.from_portable_file(fn)
            out("  file", model_structure(m3) == model_structure(ir.Simultaneous.from_portable(via_json)),
                norm_portable(m3.to_portable()) == norm_portable(p))

        out(f"== B3 [{name}] copy / pickle / portable behave identically")
        base = run_model(m.copy(), name)
        out(" ", json.dumps(base, default=str))
        candidates = {
            "copy": m.copy(),
            "pickle": pickle.loads(pickle.dumps(m)),
            "pickle_bytes": pickle.loads(m.to_pickle_bytes()) if hasattr(m, "to_pickle_bytes") else m.copy(),
        }
        if name != "context":
            candidates["portable"] = ir.Simultaneous.from_portable(via_json)
        for label, other in candidates.items():
            res = attempt(run_model, other, name)
            out(" ", label, res == base if not isinstance(res, str) else res)
        # The portable of a solved model carries steady state values
        solved = m.copy()
        quiet(solved.steady)
        solved.solve()
        ps = solved.to_portable()
        out("  solved portable", json.dumps(norm_portable(ps)["variants"]))
        if name != "context":
            back = ir.Simultaneous.from_portable(json.loads(json.dumps(ps)))
            out("  solved round trip", variant_values(back) == variant_values(solved), steady_digest(back) == steady_digest(solved))

        out(f"== B4 [{name}] independence")
        original = m.copy()
        before = (model_structure(original), variant_values(original))
        clone = original.copy()
        pick = pickle.loads(pickle.dumps(original))
        first_param = next(iter(draws))
        clone.assign(**{first_param: draws[first_param][2]})
        pick.assign(**{first_param: draws[first_param][1]})
        clone.alter_num_variants(3)
        quiet(clone.steady)
        clone.solve()
        port = original.to_portable()
        port["source"]["flags"]["is_linear"] = not port["source"]["flags"]["is_linear"]
        port["source"]["description"] = "changed"
        port["variants"][0][first_param] = (123, None)
        out("  original intact", (model_structure(original), variant_values(original)) == before, original.num_variants, clone.num_variants)
        out("  clone value", rnd(clone.get_parameters(unpack_singleton=False)[first_param]), rnd(pick.get_parameters(unpack_singleton=False)[first_param]), rnd(original.get_parameters(unpack_singleton=False)[first_param]))
        original.assign(**{first_param: draws[first_param][0]})
        out("  after original assign", rnd(clone.get_parameters(unpack_singleton=False)[first_param]), rnd(pick.get_parameters(unpack_singleton=False)[first_param]), rnd(original.get_parameters(unpack_singleton=False)[first_param]))

        out(f"== B5 [{name}] variants")
        num = 3
        multi = m.copy()
        multi.alter_num_variants(num)
        multi.assign(**{k: list(v) for k, v in draws.items()})
        pm = multi.to_portable()
        out(" ", json.dumps(norm_portable(pm)["variants"]))
        if name != "context":
            multi_back = ir.Simultaneous.from_portable(json.loads(json.dumps(pm)))
            out("  multi round trip", multi_back.num_variants, variant_values(multi_back) == variant_values(multi),
                model_structure(multi_back)["quantities"] == model_structure(ir.Simultaneous.from_portable(via_json))["quantities"])
        else:
            multi_back = pickle.loads(pickle.dumps(multi))
        multi_res = attempt(run_model, multi, name)
        multi_back_res = attempt(run_model, multi_back, name)
        out("  multi == multi_back", multi_res == multi_back_res if not isinstance(multi_res, str) else (multi_res, multi_back_res))
        if not isinstance(multi_res, str):
            out(" ", json.dumps(multi_res["steady"], default=str))
        for k in range(num):
            single = m.copy()
            single.assign(**{key: v[k] for key, v in draws.items()})
            single_res = attempt(run_model, single, name)
            if isinstance(single_res, str) or isinstance(multi_res, str):
                out("  variant", k, single_res, multi_res if isinstance(multi_res, str) else "")
                continue
            # Compare steady and solution per variant
            lev_equal = all(
                rnd(v[k]) == dict(single_res["steady"][0])[key][0]
                for key, v in dict(multi_res["steady"][0]).items()
            )
            sol_equal = multi_res["solution"][k] == single_res["solution"][0]
            sim_equal = all(
                np.allclose(np.asarray(dict((a, c) for a, b, c in multi_res["simulate"])[n], dtype=float)[:, k],
                            np.asarray(c, dtype=float)[:, 0], equal_nan=True, atol=1e-7)
                for n, b, c in single_res["simulate"]
            )
            out("  variant", k, lev_equal, sol_equal, sim_equal)

    out("== B6 filtering on copies")
    m, _ = models["linear"]
    m = m.copy()
    quiet(m.steady)
    m.solve()
    base = attempt(run_filter, m)
    out(" ", json.dumps(base, default=str)[:4000])
    for label, other in (
        ("copy", m.copy()),
        ("pickle", pickle.loads(pickle.dumps(m))),
    ):
        out(" ", label, attempt(run_filter, other) == base)
    other = ir.Simultaneous.from_portable(json.loads(json.dumps(m.to_portable())))
    quiet(other.steady)
    other.solve()
    out("  portable", attempt(run_filter, other) == base)


def part_b_flag_kwargs():
    out("== B7 model flags from keyword arguments and portables")
    for kwargs in (
        {}, {"linear": True}, {"flat": True}, {"deterministic": True},
        {"linear": True, "flat": True, "deterministic": True},
        {"linear": None, "flat": 1, "deterministic": 0},
    ):
        m = ir.Simultaneous.from_string(MODEL_LINEAR, **kwargs, )
        p = m.to_portable()
        m2 = ir.Simultaneous.from_portable(json.loads(json.dumps(p)))
        out(" ", sorted(kwargs.items(), key=str), list(p["source"]["flags"].items()),
            (m.is_linear, m.is_flat, m.is_deterministic), (m2.is_linear, m2.is_flat, m2.is_deterministic),
            list(m.get_names()) == list(m2.get_names()), len(m.get_names()))
        # Overriding the flags in the portable dictionary
        for override in ({"is_linear": True}, {"is_deterministic": True}, {"is_flat": False, "is_linear": False, "is_deterministic": False}, ):
            q = json.loads(json.dumps(p))
            q["source"]["flags"].update(override)
            m3 = attempt(ir.Simultaneous.from_portable, q)
            out("   ", sorted(override.items()), (m3.is_linear, m3.is_flat, m3.is_deterministic, len(m3.get_names())) if not isinstance(m3, str) else m3)
    # Malformed portables
    m = ir.Simultaneous.from_string(MODEL_LINEAR, linear=True, )
    p = json.loads(json.dumps(m.to_portable()))
    for key in ("description", "flags", "quantities", "equations", "context"):
        q = json.loads(json.dumps(p))
        del q["source"][key]
        out("  missing", key, attempt(ir.Simultaneous.from_portable, q) if True else None)
    for keys in (("description", "flags"), ("flags", "context"), ("quantities", "equations"), ("equations", "context"), ("description", "context")):
        q = json.loads(json.dumps(p))
        for key in keys:
            del q["source"][key]
        r = None
        try:
            ir.Simultaneous.from_portable(q)
        except Exception as exc:
            r = (type(exc).__name__, str(exc))
        out("  missing", keys, r)
    q = json.loads(json.dumps(p))
    q["source"]["description"] = None
    out("  None description", repr(ir.Simultaneous.from_portable(q).get_description()))
    q = json.loads(json.dumps(p))
    q["source"]["description"] = 15
    out("  int description", repr(ir.Simultaneous.from_portable(q).get_description()))
    q = json.loads(json.dumps(p))
    q["source"]["equations"] = []
    out("  no equations", attempt(ir.Simultaneous.from_portable, q))
    q = json.loads(json.dumps(p))
    q["source"]["flags"]["description"] = "Clash"
    r = attempt(ir.Simultaneous.from_portable, q)
    out("  description in flags", r if isinstance(r, str) else repr(r.get_description()))
    q = json.loads(json.dumps(p))
    q["source"]["flags"]["unknown"] = True
    r = attempt(ir.Simultaneous.from_portable, q)
    out("  unknown flag", r if isinstance(r, str) else (r.is_linear, r.is_flat, r.is_deterministic))
    q = json.loads(json.dumps(p))
    q["source"]["context"] = {"f": None, "g": None}
    r = ir.Simultaneous.from_portable(q)
    out("  context keys", sorted(r._invariant._context.items(), key=str), r.to_portable()["source"]["context"])
    q = json.loads(json.dumps(p))
    q["portable_format"] = "9.9.9"
    out("  bad format", attempt(ir.Simultaneous.from_portable, q))


MODEL_LARGER = r"""
!transition_variables
    "Output" Y, "Labor" N, "Wage" W, "Prices" P, "Rate" R
    "Productivity" A, "Inflation" dP, "Wage inflation" dW, "Yearly inflation" d4P
    "Average rate" Ravg
!log-variables !all-but
    Ravg
!transition_shocks
    "Demand shock" Ey, "Productivity shock" Ea, "Policy shock" Er
!parameters
    "Growth !! \alpha" alpha, "Discount !! \beta" beta, gamma, pi, rhoa, rhor, kappap
!transition_equations{:households}
    "Demand" Y = exp(Ey)*(Y{-1}^0.5)*(Y{+1}^0.5)*(beta*R/dP{+1}/alpha)^(-0.5)*alpha^0 !! beta*R = alpha*pi;
    "Labor supply" W/P = N^0.5*Y !! W/P = N^0.5*Y;
!transition_equations{:firms :supply}
    "Production" Y = A*N^gamma;
    "Labor demand" gamma*P*Y = 1.2*W*N;
!transition_equations
    "Productivity" log(A/A{-1}) = rhoa*log(A{-1}/A{-2}) + (1-rhoa)*log(alpha) + Ea !! A = 1;
    "Policy" log(R) = rhor*log(R{-1}) + (1-rhor)*(log(alpha*pi/beta) + kappap*(log(d4P{+1})/4 - log(pi))) + Er !! dP = pi;
    !for P, W !do
        d? = ?/?{-1};
    !end
    d4P = P/P{-4};
    Ravg = movavg(log(R), -4);
!measurement_variables
    "Inflation, observed" Infl, "Growth, observed" Growth
!log-variables !all-but
    Infl, Growth
!measurement_shocks
    "Measurement error" Mp
!parameters
    Infl_
!measurement_equations{:obs}
    Infl = Infl_ + 100*((P/P{-1})^4 - 1 + Mp);
    Growth = 100*((Y/Y{-1})^4 - 1);
"""


def part_b_larger():
    out("== B8 larger model")
    m = ir.Simultaneous.from_string(MODEL_LARGER, flat=False, description="Larger", )
    m.assign(alpha=1.005, beta=0.99, gamma=0.6, pi=1.01, rhoa=0.9, rhor=0.8, kappap=3, Infl_=0, )
    p = m.to_portable()
    out(" ", json.dumps(norm_portable(p)))
    via_json = json.loads(json.dumps(p))
    m2 = ir.Simultaneous.from_portable(via_json)
    s1, s2 = model_structure(m), model_structure(m2)
    out(" ", json.dumps({k: s1[k] == s2[k] for k in s1}))
    out(" ", json.dumps(s2, default=str))
    out("  portable equal", norm_portable(m2.to_portable()) == norm_portable(p))
    out("  values equal", variant_values(m2) == variant_values(m))
    m3 = pickle.loads(pickle.dumps(m))
    out("  pickle structure", model_structure(m3) == s1, norm_portable(m3.to_portable()) == norm_portable(p))
    m4 = m.copy()
    out("  copy structure", model_structure(m4) == s1, norm_portable(m4.to_portable()) == norm_portable(p))
    # First-order solution around assigned steady state
    steady = dict(Y=(1, 1.005), N=(1, 1), W=(0.5, 1.005*1.01), P=(1, 1.01), R=(1.005*1.01/0.99, 1), A=(1, 1.005),
                  dP=(1.01, 1), dW=(1.005*1.01, 1), d4P=(1.01**4, 1), Ravg=(np.log(1.005*1.01/0.99), 0),
                  Infl=(100*(1.01**4-1), 0), Growth=(100*(1.005**4-1), 0))
    results = []
    for mm in (m, m2, m3, m4):
        mm.assign(**steady)
        r = attempt(mm.solve)
        results.append(solution_digest(mm) if not isinstance(r, str) else r)
    out(" ", json.dumps(results[0], default=str)[:3000])
    out("  solutions equal", [r == results[0] for r in results])


def part_c_other_models():
    out("== C1 Sequential copy / pickle")
    source = r"""
    !parameters
        c0, ss
    !equations
        x = c0*x[-1] + (1-c0)*ss + e_x;
        diff(y) = 0.5*diff(x) + 0.1;
        z = x + y[-1];
    """
    m = ir.Sequential.from_string(source, )
    m.assign(c0=0.8, ss=1, )
    span = ir.qq(2020, 1) >> ir.qq(2021, 4)
    db = ir.Databox()
    db["x"] = ir.Series(start=ir.qq(2019, 4), values=np.array([0.5]), )
    db["y"] = ir.Series(start=ir.qq(2019, 4), values=np.array([2.0]), )
    db["e_x"] = ir.Series(periods=span, values=0, )
    db["e_x"][ir.qq(2020, 2)] = 0.3

    def run(mm):
        s = mm.simulate(db.copy(), span, )
        return databox_digest(s, names={"x", "y", "z"})
    base = attempt(run, m)
    out(" ", json.dumps(base, default=str))
    c = m.copy()
    k = pickle.loads(pickle.dumps(m))
    out("  copy", attempt(run, c) == base, "pickle", attempt(run, k) == base)
    c.assign(c0=0.1)
    out("  independent", rnd(m.get_parameters()["c0"]), rnd(c.get_parameters()["c0"]), rnd(k.get_parameters()["c0"]), attempt(run, m) == base, attempt(run, c) == base)

    out("== C2 RedVAR copy / pickle")
    rng = np.random.default_rng(2024)
    span = ir.qq(2000, 1) >> ir.qq(2019, 4)
    data = np.zeros((len(span), 2))
    for t in range(1, len(span)):
        data[t, :] = data[t-1, :] @ np.array([[0.5, 0.1], [0.0, 0.3]]) + rng.standard_normal(2)
    db = ir.Databox()
    db["a"] = ir.Series(start=span[0], values=data[:, 0], )
    db["b"] = ir.Series(start=span[0], values=data[:, 1], )
    v = ir.RedVAR(["a", "b"], order=1, )
    v.estimate(db, span[4] >> span[-1], omit_missing=True, )

    def run_var(vv):
        s = vv.simulate(db, ir.qq(2020, 1) >> ir.qq(2020, 4), prepend_input=False, )
        return (rnd(np.asarray(vv.get_mean())), databox_digest(s, names={"a", "b"}))
    base = attempt(run_var, v)
    out(" ", json.dumps(base, default=str))
    out("  copy", attempt(run_var, v.copy()) == base, "pickle", attempt(run_var, pickle.loads(pickle.dumps(v))) == base)


def main():
    part_a_quantity_kinds()
    part_a_quantities()
    part_a_equations()
    part_a_flags()
    part_b_models()
    part_b_flag_kwargs()
    part_b_larger()
    part_c_other_models()
    out("== done")


if __name__ == "__main__":
    main()

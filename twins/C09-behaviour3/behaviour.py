"""
Behaviour digest for property C09 (periods as calendar-consistent integers,
spans as their ranges). Prints a deterministic digest; must be identical on the
untouched worktree and with each twin applied.
"""

import hashlib
import itertools
import datetime as dt

import irispie
from irispie import dates as D
from irispie.dates import (
    Frequency, Period, Span, EmptySpan, ResolutionContext,
    YearlyPeriod, HalfyearlyPeriod, QuarterlyPeriod, MonthlyPeriod,
    DailyPeriod, IntegerPeriod,
    yy, hh, qq, mm, dd, ii, start, end,
)

LINES = []


def emit(*args):
    LINES.append(" | ".join(str(a) for a in args))


def attempt(func, *args, **kwargs):
    try:
        out = func(*args, **kwargs)
        return ("ok", type(out).__name__, repr(out))
    except Exception as exc:  # noqa
        return ("raised", type(exc).__name__, str(exc))


CLASSES = {
    "Y": YearlyPeriod, "H": HalfyearlyPeriod, "Q": QuarterlyPeriod,
    "M": MonthlyPeriod, "D": DailyPeriod, "I": IntegerPeriod,
}


def sample_periods():
    out = {}
    out["Y"] = [yy(y) for y in (1, 1899, 1970, 1999, 2000, 2019, 2020, 2021, 2024, 2100, 9999)]
    out["H"] = [hh(y, s) for y in (1, 1970, 2000, 2020, 2023, 2024, 9999) for s in (1, 2)]
    out["Q"] = [qq(y, s) for y in (1, 1970, 2000, 2020, 2023, 2024, 9999) for s in (1, 2, 3, 4)]
    out["M"] = [mm(y, s) for y in (1, 1900, 2000, 2020, 2023, 2024, 9999) for s in range(1, 13)]
    out["D"] = (
        [dd(y, m, d) for y in (1, 1900, 2000, 2020, 2023, 2024, 9999) for m in (1, 2, 3, 6, 12) for d in (1, 15, 28)]
        + [dd(2024, 2, 29), dd(2000, 2, 29), dd(2023, 12, 31), dd(2024, 12, 31), dd(2024, 1, 1), dd(9999, 12, 31), dd(1, 1, 1)]
        + [dd(2024, None, k) for k in (1, 2, 59, 60, 61, 365, 366)]
        + [dd(2023, None, k) for k in (1, 59, 60, 365)]
    )
    out["I"] = [ii(k) for k in (-1000, -7, -1, 0, 1, 2, 5, 13, 1000)]
    return out


PERIODS = sample_periods()
OFFSETS = (-400, -13, -5, -1, 0, 1, 2, 4, 7, 12, 365, 366, 1000)


def section_tables():
    emit("== tables")
    for key, klass in CLASSES.items():
        if hasattr(klass, "_MONTH_DAY_RESOLUTION"):
            table = klass._MONTH_DAY_RESOLUTION
            emit(key, "table", repr(table))
            emit(key, "table-keys", list(table.keys()), [list(v.keys()) for v in table.values()])
            emit(key, "table-types", sorted({type(x).__name__ for v in table.values() for pair in v.values() for x in pair}))
        if hasattr(klass, "month_to_segment"):
            emit(key, "month_to_segment", [klass.month_to_segment(m) for m in range(1, 13)])
            emit(key, "month_to_segment-types", sorted({type(klass.month_to_segment(m)).__name__ for m in range(1, 13)}))
        emit(key, "origin", klass.origin, "freq", repr(klass.frequency), klass.needs_resolve, klass.plotly_xaxis_type)
    emit("daily_serial_from_ymd", [D.daily_serial_from_ymd(*a) for a in ((1, 1, 1), (1970, 1, 1), (2020, 1, 1), (2024, 2, 29), (9999, 12, 31))])
    for a in ((2023, 2, 29), (2024, 13, 1), (0, 1, 1), (2024, 1, 0), (2024.0, 1, 1), ("2024", 1, 1)):
        emit("daily_serial_from_ymd-bad", a, attempt(D.daily_serial_from_ymd, *a))
        emit("DailyPeriod.from_ymd-bad", a, attempt(DailyPeriod.from_ymd, *a))
    emit("DailyPeriod.from_ymd-defaults", attempt(DailyPeriod.from_ymd, 2024), attempt(DailyPeriod.from_ymd, 2024, 3), attempt(DailyPeriod.from_ymd, year=2024, month=2, day=29))
    emit("Period.from_ymd", [attempt(Period.from_ymd, f, 2024, 8, 17) for f in (Frequency.YEARLY, Frequency.HALFYEARLY, Frequency.QUARTERLY, Frequency.MONTHLY, Frequency.DAILY)])
    # Out-of-calendar daily serials
    for serial in (0, -5, 1, 3652059, 3652060, 10**12):
        p = DailyPeriod(serial)
        row = ["daily-serial", serial, hash(p)]
        for name in ("year", "month", "day", "segment", "period"):
            row.append((name, attempt(lambda: getattr(p, name))))
        for name in ("get_year", "to_ymd", "to_year_segment", "create_soy", "create_eopy", "create_tty", "__repr__"):
            row.append((name, attempt(lambda: getattr(p, name)())))
        for by in ("yoy", "soy", "eopy", "tty", 1, -1):
            row.append((by, attempt(p.shift, by)))
        row.append(attempt(lambda: p + 1 > p))
        emit(*row)
    # Constructor coercion of serials
    for klass in CLASSES.values():
        emit("ctor", klass.__name__, attempt(klass), attempt(klass, 7.9), attempt(klass, "12"), attempt(klass, True), attempt(klass, None), attempt(lambda: type(klass(7.9).serial).__name__), attempt(lambda: hash(klass(7.9)) == hash(klass(7))), attempt(lambda: klass(7.9) == klass(7)))
    emit("type(from_ymd)",type(DailyPeriod.from_ymd(2024, 2, 29)).__name__, type(DailyPeriod.from_ymd(2024, 2, 29).serial).__name__)


def section_periods():
    emit("== periods")
    for key, periods in PERIODS.items():
        for p in periods:
            row = [key, repr(p), str(p), p.serial, hash(p), p.get_distance_from_origin(), bool(p), len(p)]
            for name in ("year", "segment", "period", "month", "day"):
                row.append((name, attempt(lambda: getattr(p, name))))
            for name in ("get_year", "to_year_segment", "to_ymd", "to_sdmx_string", "to_compact_string", "to_iso_string", "to_python_date", "to_daily", "create_soy", "create_eoy", "create_eopy", "create_tty", "create_som", "create_eopm"):
                row.append((name, attempt(lambda: getattr(p, name)())))
            for pos in ("start", "middle", "end"):
                row.append((pos, attempt(lambda: p.to_ymd(position=pos)), attempt(lambda: p.to_daily(position=pos)), attempt(lambda: p.to_python_date(position=pos)), attempt(lambda: p.to_iso_string(position=pos))))
            for by in ("yoy", "soy", "boy", "eopy", "tty", -1, 0, 1, 5, -12, True, 2.0, 2.7, "foo", None, "YOY"):
                row.append(("shift", by, attempt(p.shift, by)))
            row.append(("shift-default", attempt(p.shift)))
            row.append(("shift-kw", attempt(p.shift, by="yoy"), attempt(p.shift, by=3)))
            for f in (Frequency.YEARLY, Frequency.HALFYEARLY, Frequency.QUARTERLY, Frequency.MONTHLY, Frequency.DAILY):
                row.append(("refreq", int(f), attempt(p.refrequent, f), attempt(lambda: p.refrequent(f, position="end"))))
            emit(*row)


def section_arithmetics():
    emit("== arithmetics")
    for key, periods in PERIODS.items():
        for p in periods:
            row = [key, repr(p)]
            for n in OFFSETS:
                a = attempt(lambda: p + n)
                b = attempt(lambda: n + p)
                c = attempt(lambda: p - n)
                d_ = attempt(lambda: (p + n) - p)
                e = attempt(lambda: p + ((p + n) - p) == p + n)
                f = attempt(lambda: type(p + n) is type(p))
                row.append((n, a, b, c, d_, e, f))
            for other in (1.0, 2.9, -2.9, True, "3", "x", None, 1+0j, [1]):
                row.append(("add-odd", repr(other), attempt(lambda: p + other), attempt(lambda: other + p), attempt(lambda: p - other)))
            emit(*row)
        # pairwise
        for p, q in itertools.product(periods[::3], periods[::4]):
            emit(
                key, repr(p), repr(q),
                p - q, repr(p + (q - p)), p + (q - p) == q,
                p == q, p != q, p < q, p <= q, p > q, p >= q,
                hash(p) == hash(q), (p.serial < q.serial),
            )
        ordered = sorted(periods)
        emit(key, "sorted", [repr(x) for x in ordered])
        emit(key, "set", len(set(periods)), len(set(periods + [x + 0 for x in periods])))
        emit(key, "min-max", repr(min(periods)), repr(max(periods)))
        emit(key, "dictkeys", [repr(k) for k in dict.fromkeys(periods + periods)][:5])


def section_mixing():
    emit("== mixing")
    reps = {k: v[len(v)//2] for k, v in PERIODS.items()}
    others = list(reps.items()) + [("none", None), ("int", 3), ("str", "2020"), ("float", 1.5), ("start", start), ("end", end), ("date", dt.date(2020, 1, 1)), ("span", qq(2020, 1) >> qq(2020, 4))]
    for (ka, a) in reps.items():
        for (kb, b) in others:
            row = [ka, kb]
            row.append(attempt(lambda: a == b))
            row.append(attempt(lambda: a != b))
            row.append(attempt(lambda: a < b))
            row.append(attempt(lambda: a <= b))
            row.append(attempt(lambda: a > b))
            row.append(attempt(lambda: a >= b))
            row.append(attempt(lambda: a - b))
            row.append(attempt(lambda: b == a))
            row.append(attempt(lambda: b < a))
            row.append(attempt(lambda: a in [b]))
            row.append(attempt(lambda: a in {b: 1}) if kb not in ("span",) else "skip")
            row.append(attempt(lambda: Span(a, b)))
            emit(*row)
    emit("ctx-eq", attempt(lambda: start == start), attempt(lambda: start == end), attempt(lambda: start < end), attempt(lambda: hash(start)))
    emit("hash-types", [(k, type(hash(v)).__name__) for k, v in reps.items()])


def section_tiling():
    emit("== tiling")
    # Consecutive periods tile the calendar without gap or overlap
    for key in ("Y", "H", "Q", "M"):
        klass = CLASSES[key]
        first = klass.from_year_segment(1995, 1)
        ok = True
        acc = []
        p = first
        for _ in range(12 * 12):
            nxt = p + 1
            end_day = p.to_daily(position="end")
            start_next = nxt.to_daily(position="start")
            ok = ok and (start_next - end_day == 1) and (p.to_daily(position="start") <= p.to_daily(position="middle") <= end_day)
            acc.append((p.to_ymd(position="start"), p.to_ymd(position="middle"), p.to_ymd(position="end")))
            p = nxt
        emit(key, "tiles", ok, hashlib.sha256(repr(acc).encode()).hexdigest()[:16])
    # Daily: every day in 1999-2025 round trips
    acc = []
    ok = True
    d0 = dd(1999, 1, 1)
    n = dd(2025, 12, 31) - d0 + 1
    for k in range(n):
        p = d0 + k
        y, m, d_ = p.to_ymd()
        ok = ok and (p.year, p.month, p.day) == (y, m, d_) == (p.to_python_date().year, p.to_python_date().month, p.to_python_date().day)
        ok = ok and p.get_year() == y and p.segment == p.period == p.to_year_segment()[1]
        ok = ok and DailyPeriod.from_ymd(y, m, d_) == p and dd(y, None, p.segment) == p
        ok = ok and D.daily_serial_from_ymd(y, m, d_) == p.serial
        acc.append((y, m, d_, p.segment, p.serial))
    emit("D", "roundtrip", ok, n, hashlib.sha256(repr(acc).encode()).hexdigest()[:16])
    # Regular: every month maps into the right segment
    for key in ("Y", "H", "Q", "M"):
        klass = CLASSES[key]
        acc = []
        for y in (1999, 2000, 2023, 2024):
            for m in range(1, 13):
                for d_ in (1, 15, 28):
                    p = klass.from_ymd(y, m, d_)
                    acc.append((y, m, d_, repr(p), p.year, p.segment, p.period, p.to_ymd(), p.to_ymd(position="end")))
        emit(key, "from_ymd", hashlib.sha256(repr(acc).encode()).hexdigest()[:16], acc[:3], acc[-2:])
        emit(key, "from_ymd-defaults", attempt(klass.from_ymd, 2024), attempt(klass.from_ymd, 2024, 7), attempt(klass.from_ymd, 2024, 12, 31))


def describe_span(s):
    row = [repr(s), str(s), s.needs_resolve, bool(s), repr(s.start), repr(s.end), s.step, s.direction]
    row.append(attempt(len, s))
    row.append(attempt(s.__len__))
    row.append(attempt(lambda: [repr(t) for t in s]))
    row.append(attempt(lambda: s.frequency))
    row.append(attempt(lambda: s._serials))
    for i in (0, 1, -1, 2, 100, -100):
        row.append(("item", i, attempt(lambda: s[i])))
    for sl in (slice(None), slice(1, None), slice(None, None, 2), slice(None, None, -1), slice(-2, None)):
        row.append(("slice", repr(sl), attempt(lambda: s[sl])))
    row.append(("len==iter", attempt(lambda: len(s) == len(list(s)))))
    row.append(("tuple", attempt(lambda: tuple(s) == tuple(s[i] for i in range(len(s))))))
    return row


def section_spans():
    emit("== spans")
    for key, periods in PERIODS.items():
        base = periods[len(periods)//2]
        for (a_off, b_off, step) in itertools.product((-7, -1, 0, 3, 11), (-6, 0, 1, 4, 12), (1, 2, 3, 5, -1, -2, -4)):
            a = base + a_off
            b = base + b_off
            s = Span(a, b, step)
            emit(key, a_off, b_off, step, *describe_span(s))
            # reversal
            r = s.reversed()
            emit(key, "reversed", repr(r), attempt(len, r), attempt(lambda: [repr(t) for t in r]), attempt(lambda: r.reversed() == s))
            # shifts
            emit(key, "add", repr(s + 3), repr(3 + s), repr(s - 2), attempt(lambda: s - base), attempt(lambda: base - s), attempt(lambda: len(s + 3) == len(s)))
            # in-place mutation sequences
            m = s.copy()
            log = []
            for op in ("shift:2", "reverse", "shift_start:-1", "shift_end:3", "reverse", "shift:-5", "shift_end:-20", "reverse", "shift_start:-30"):
                name, _, arg = op.partition(":")
                if arg:
                    getattr(m, name)(int(arg))
                else:
                    getattr(m, name)()
                log.append((op, repr(m), attempt(len, m), attempt(lambda: [t.serial for t in m][:4]), attempt(lambda: repr(m[-1]) if len(m) else None)))
            emit(key, "mutations", log)
        # operators
        p, q = base, base + 5
        emit(key, "ops", repr(p >> q), repr(q << p), repr(p << q), repr((p >> q) >> 2), repr((q << p) << -2), attempt(lambda: (p >> q) >> -1), attempt(lambda: (p >> q) << 1))
        emit(key, "pow", repr(p ** 3), repr(p ** -3), repr(p ** 1), repr(p ** -1), type(p ** 0).__name__, len(p ** 0), list(p ** 0))
        emit(key, "len-ops", len(p >> q), len(q << p), len(p << q), len(q >> p), len((p >> q) >> 2), len(p >> p))
        emit(key, "eq", (p >> q) == (p >> q), (p >> q) == (p >> q + 1), (p >> q) == Span(p, q, 2))
        emit(key, "encompassing", attempt(lambda: Span.encompassing(p >> q, (p - 3) >> (q - 4))))
    emit("ellipsis", repr(yy(2020, ...)), repr(yy(..., 2020)), repr(qq(2020, 1, ..., 2021, 4)), repr(mm(..., 2020, 5)), repr(ii(1, ..., 5)), repr(ii(...)))
    emit("empty", len(EmptySpan()), list(EmptySpan()), EmptySpan() is EmptySpan(), EmptySpan().needs_resolve)


def section_resolution():
    emit("== resolution")
    emit("ctx-default", vars(ResolutionContext()), list(vars(ResolutionContext(1, 2)).items()))
    emit("ctx-kw", attempt(lambda: ResolutionContext(start_date=1)), attempt(lambda: ResolutionContext(1, 2, 3)))
    emit("ctx-protocol", isinstance(ResolutionContext(), D.ResolutionContextProtocol))
    for key, periods in PERIODS.items():
        base = periods[len(periods)//2]
        ctxs = [
            ResolutionContext(base - 4, base + 9),
            ResolutionContext(base + 9, base - 4),
            ResolutionContext(base, base),
            ResolutionContext(base, None),
            ResolutionContext(None, base),
            ResolutionContext(),
            (base - 2) >> (base + 2),
        ]
        open_spans = [
            Span(), Span(None, None, -1), Span(None, None, 2),
            base >> None, None >> base, base << None, None << base,
            Span(start + 1, end - 2), Span(start - 3, base, 2), Span(base, end + 1, 3), Span(end, start, -1), Span(end - 1, start + 1, -2),
            Span(start, end) + 2, Span(start, end) - 1,
        ]
        for s in open_spans:
            row = [key, repr(s), s.needs_resolve, bool(s), attempt(len, s), attempt(s.__len__), attempt(lambda: list(s)), attempt(lambda: s[0]), attempt(lambda: s - base), attempt(lambda: base - s)]
            for c in ctxs:
                r = attempt(lambda: s.resolve(c))
                row.append(r)
                if r[0] == "ok":
                    rs = s.resolve(c)
                    row.append((rs.needs_resolve, attempt(len, rs), attempt(lambda: [repr(t) for t in rs]), attempt(lambda: repr(rs[0])), attempt(lambda: repr(rs[-1]))))
            emit(*row)
        emit(key, "ctxperiod", repr(start), repr(end + 2), repr(start - 1), bool(start), attempt(lambda: (start + 2).resolve(ctxs[0])), attempt(lambda: (end - 1).resolve(ctxs[0])), attempt(lambda: base.resolve(ctxs[0])))
        # mixed-frequency spans rejected
        for key2, periods2 in PERIODS.items():
            if key2 != key:
                emit(key, key2, "mixed-span", attempt(lambda: Span(base, periods2[0])), attempt(lambda: base >> periods2[0]))


def section_strings():
    emit("== strings")
    for key, periods in PERIODS.items():
        klass = CLASSES[key]
        acc = []
        for p in periods:
            sd = p.to_sdmx_string()
            acc.append((sd, attempt(lambda: repr(klass.from_sdmx_string(sd))), attempt(lambda: repr(klass.from_iso_string(p.to_iso_string()))), attempt(lambda: f"{p:>12}")))
        emit(key, acc)
    emit("span-strings", (qq(2020, 1) >> qq(2021, 2)).to_sdmx_strings(), (mm(2020, 11) >> mm(2021, 2)).to_iso_strings(), (dd(2024, 2, 27) >> dd(2024, 3, 1)).to_compact_strings())
    emit("period_indexes", list(D.period_indexes([qq(2020, 1), None, qq(2021, 4)], qq(2020, 3))))
    emit("periods_from_until", attempt(lambda: D.periods_from_until(mm(2020, 11), mm(2021, 2))))
    emit("get_encompassing_span", attempt(lambda: D.get_encompassing_span(qq(2020, 1) >> qq(2020, 3), qq(2019, 1) >> qq(2020, 1))))


def section_series():
    emit("== series")
    # Periods as time series stamps
    try:
        x = irispie.Series(start=qq(2020, 1), values=(1.0, 2.0, 3.0, 4.0, 5.0, 6.0))
        emit("series-span", repr(x.start), repr(x.end), repr(x.span), len(x.span))
        emit("series-get", x.get_data(qq(2020, 3) >> qq(2021, 1)).tolist(), x.get_data(qq(2021, 1) << qq(2020, 3)).tolist())
        for by in (-1, 2, "yoy", "soy", "eopy", "tty"):
            y = x.copy()
            r = attempt(y.shift, by)
            emit("series-shift", by, r[:2], repr(y.start), repr(y.end), y.get_data(qq(2019, 4) >> qq(2022, 1)).tolist())
        for maker, first in ((mm, mm(2020, 11)), (hh, hh(2020, 2)), (yy, yy(2020)), (ii, ii(3))):
            z = irispie.Series(start=first, values=(1.0, 2.0, 3.0, 4.0, 5.0))
            for by in ("yoy", "soy", "eopy", "tty", -1):
                y = z.copy()
                r = attempt(y.shift, by)
                emit("series-shift", repr(first), by, r[:2], repr(y.start), repr(y.end), attempt(lambda: y.get_data(first - 3 >> first + 8).tolist()))
        d_ = irispie.Series(start=dd(2024, 2, 27), values=(1.0, 2.0, 3.0, 4.0))
        emit("series-daily", repr(d_.start), repr(d_.end), [repr(t) for t in d_.span])
        for by in ("yoy", "soy", "eopy", "tty", -1):
            y = d_.copy()
            r = attempt(y.shift, by)
            emit("series-shift-daily", by, r[:2], attempt(lambda: repr(y.start)), attempt(lambda: repr(y.end)))
    except Exception as exc:  # noqa
        emit("series-error", type(exc).__name__, str(exc))


def main():
    section_tables()
    section_periods()
    section_arithmetics()
    section_mixing()
    section_tiling()
    section_spans()
    section_resolution()
    section_strings()
    section_series()
    text = "\n".join(LINES)
    print("lines:", len(LINES))
    print("chars:", len(text))
    print("sha256:", hashlib.sha256(text.encode()).hexdigest())
    # Per-section digests for easier localisation
    section = None
    chunk = []
    for line in LINES + ["== end"]:
        if line.startswith("== "):
            if section is not None:
                print(f"{section}: {len(chunk)} lines, {hashlib.sha256(chr(10).join(chunk).encode()).hexdigest()[:20]}")
            section = line
            chunk = []
        else:
            chunk.append(line)
    # A readable sample
    for line in LINES:
        if line.startswith(("Q | qq(2020,3) |", "ctx-", "ellipsis", "empty", "daily_serial_from_ymd |", "M | table |", "H | table |")):
            print(line[:600])
    import sys
    if len(sys.argv) > 1:
        with open(sys.argv[1], "w") as f:
            f.write(text + "\n")


if __name__ == "__main__":
    main()

"""
Deterministic digest of the public behaviour behind property C14
(hpf / hpf_trend / hpf_gap / lonf on irispie Series).

Run as
    cd /tmp/wt/C14 && PYTHONPATH=/tmp/wt/C14/src /venv/bin/python /tmp/twin_out/C14/behaviour.py
"""

import warnings
warnings.simplefilter("ignore")

import hashlib
import numpy as np
import irispie as ir


LINES = []


def emit(*args):
    line = " ".join(str(a) for a in args)
    LINES.append(line)
    print(line)


def fmt_array(a):
    a = np.asarray(a, dtype=float)
    # exact representation: shape + hex of every float (NaN normalised)
    flat = ["nan" if np.isnan(v) else float(v).hex() for v in a.reshape(-1)]
    return f"{a.shape}:" + ",".join(flat)


def digest_series(label, s):
    data = s.get_data() if s.start is not None else s.data
    rounded = np.round(np.asarray(data, dtype=float), 10).tolist()
    h = hashlib.sha256(fmt_array(data).encode()).hexdigest()[:16]
    emit(label, "start=", repr(s.start), "shape=", tuple(np.shape(data)), "sha=", h)
    emit(label, "values=", repr(rounded))


def run(label, func):
    try:
        out = func()
    except Exception as exc:
        emit(label, "EXC", type(exc).__name__, str(exc)[:120])
        return
    if isinstance(out, tuple):
        for name, s in zip(("trend", "gap"), out):
            digest_series(f"{label}/{name}", s)
    else:
        digest_series(label, out)


def make_values(rng, n, positive=False):
    v = np.cumsum(rng.standard_normal(n)) + np.linspace(0, 3, n)
    if positive:
        v = np.exp(0.2 * v) + 0.5
    return v


def series_from(start, values):
    values = np.asarray(values, dtype=float)
    if values.ndim == 1:
        values = values.reshape(-1, 1)
    return ir.Series(start=start, values=values)


def main():
    rng = np.random.default_rng(20140914)

    starts = {
        "yy": ir.yy(2001),
        "hh": ir.hh(2001, 2),
        "qq": ir.qq(2001, 3),
        "mm": ir.mm(2001, 11),
        "dd": ir.dd(2001, 2, 27),
        "ii": ir.ii(5),
    }

    # ------------------------------------------------------------------
    # 1. Plain HP filter, default and explicit smoothing, all frequencies
    # ------------------------------------------------------------------
    for freq, start in starts.items():
        for n in (3, 4, 12, 25):
            x = series_from(start, make_values(rng, n))
            run(f"hpf/{freq}/n{n}/default", lambda: ir.hpf(x))
            for smooth in (0.5, 10, 1600, 1e6):
                run(f"hpf/{freq}/n{n}/s{smooth}", lambda: ir.hpf(x, smooth=smooth))

    # ------------------------------------------------------------------
    # 2. Straight line, constant
    # ------------------------------------------------------------------
    line = series_from(ir.qq(2010, 1), 2.0 + 0.75 * np.arange(15))
    run("hpf/line", lambda: ir.hpf(line, smooth=100))
    run("hpf/line/neg", lambda: ir.hpf(series_from(ir.mm(2010, 1), 5 - 1.5 * np.arange(9))))
    run("hpf/const", lambda: ir.hpf(series_from(ir.yy(2010), np.full(8, 3.25)), smooth=7))

    # ------------------------------------------------------------------
    # 3. Interior missing values, multiple variants
    # ------------------------------------------------------------------
    v = make_values(rng, 20)
    v[[3, 4, 11]] = np.nan
    xm = series_from(ir.qq(2005, 2), v)
    run("hpf/missing", lambda: ir.hpf(xm))
    run("hpf/missing/s5", lambda: ir.hpf(xm, smooth=5))

    vv = np.column_stack([make_values(rng, 18), make_values(rng, 18), make_values(rng, 18)])
    vv[5, 0] = np.nan
    vv[[7, 8], 1] = np.nan
    vv[0, 2] = np.nan
    vv[-1, 1] = np.nan
    xv = series_from(ir.mm(2015, 6), vv)
    run("hpf/variants", lambda: ir.hpf(xv))
    run("hpf/variants/s33", lambda: ir.hpf(xv, smooth=33))

    # ------------------------------------------------------------------
    # 4. log=True
    # ------------------------------------------------------------------
    vp = make_values(rng, 16, positive=True)
    xp = series_from(ir.qq(2012, 1), vp)
    run("hpf/log", lambda: ir.hpf(xp, log=True))
    run("hpf/log/s10", lambda: ir.hpf(xp, log=True, smooth=10))
    vp2 = vp.copy()
    vp2[[6, 7]] = np.nan
    xp2 = series_from(ir.qq(2012, 1), vp2)
    run("hpf/log/missing", lambda: ir.hpf(xp2, log=True, smooth=200))
    vpv = np.column_stack([make_values(rng, 14, positive=True), make_values(rng, 14, positive=True)])
    vpv[4, 1] = np.nan
    xpv = series_from(ir.dd(2020, 12, 25), vpv)
    run("hpf/log/variants/daily", lambda: ir.hpf(xpv, log=True))

    # ------------------------------------------------------------------
    # 5. Spans inside, beyond, partially overlapping, reversed, single, empty
    # ------------------------------------------------------------------
    xs = series_from(ir.qq(2010, 1), make_values(rng, 14))
    spans = {
        "inside": ir.qq(2010, 3) >> ir.qq(2012, 2),
        "beyond": ir.qq(2009, 1) >> ir.qq(2014, 4),
        "left": ir.qq(2009, 2) >> ir.qq(2011, 1),
        "right": ir.qq(2012, 1) >> ir.qq(2014, 2),
        "single": ir.qq(2011, 3),
        "tuple_unordered": (ir.qq(2012, 1), ir.qq(2010, 4), ir.qq(2011, 2)),
        "ellipsis": ...,
        "none": None,
        "empty": (),
    }
    for name, span in spans.items():
        run(f"hpf/span/{name}", lambda: ir.hpf(xs, span=span, smooth=40))
    try:
        rev = ir.Span(ir.qq(2012, 2), ir.qq(2010, 3), -1)
        run("hpf/span/reversed", lambda: ir.hpf(xs, span=rev, smooth=40))
    except Exception as exc:
        emit("hpf/span/reversed", "EXC-construct", type(exc).__name__)
    run("hpf/span/missing+beyond", lambda: ir.hpf(xm, span=ir.qq(2004, 1) >> ir.qq(2011, 4)))
    run("hpf/span/variants+inside", lambda: ir.hpf(xv, span=ir.mm(2015, 9) >> ir.mm(2016, 3)))

    # ------------------------------------------------------------------
    # 6. Level and change constraints
    # ------------------------------------------------------------------
    xc = series_from(ir.qq(2010, 1), make_values(rng, 16))
    level_end = ir.Series(periods=xc.end, values=1.5)
    level_mid = ir.Series(start=ir.qq(2011, 2), values=np.array([[0.5], [np.nan], [0.75]]))
    level_beyond = ir.Series(periods=ir.qq(2014, 3), values=4.0)
    level_before = ir.Series(periods=ir.qq(2009, 2), values=-1.0)
    change_end = ir.Series(periods=xc.end, values=0.25)
    change_first = ir.Series(periods=xc.start, values=0.4)
    change_first_and_more = ir.Series(
        start=xc.start, values=np.array([[0.4], [np.nan], [0.1], [np.nan], [-0.2]]),
    )
    change_beyond = ir.Series(start=ir.qq(2014, 1), values=np.array([[0.3], [0.3], [0.3]]))
    change_before = ir.Series(periods=ir.qq(2009, 3), values=0.2)

    cases = {
        "level_end": dict(level=level_end),
        "level_mid": dict(level=level_mid),
        "level_beyond": dict(level=level_beyond),
        "level_before": dict(level=level_before),
        "change_end": dict(change=change_end),
        "change_first_only": dict(change=change_first),
        "change_first_and_more": dict(change=change_first_and_more),
        "change_beyond": dict(change=change_beyond),
        "change_before": dict(change=change_before),
        "level+change": dict(level=level_mid, change=change_end),
        "level+change_beyond": dict(level=level_beyond, change=change_beyond),
        "level+change+span": dict(level=level_mid, change=change_end, span=ir.qq(2010, 3) >> ir.qq(2015, 1)),
        "level+change+smooth": dict(level=level_end, change=change_first_and_more, smooth=3),
    }
    for name, kwargs in cases.items():
        run(f"hpf/constr/{name}", lambda: ir.hpf(xc, **kwargs))

    # constraints with missing data and variants
    run("hpf/constr/missing", lambda: ir.hpf(xm, level=ir.Series(periods=ir.qq(2006, 1), values=0.0), change=ir.Series(periods=ir.qq(2008, 2), values=0.1)))
    run("hpf/constr/variants", lambda: ir.hpf(xv, level=ir.Series(periods=ir.mm(2016, 1), values=2.0), change=ir.Series(periods=ir.mm(2017, 3), values=-0.1), smooth=50))
    # log with constraints (level in levels, change as gross rate)
    run("hpf/constr/log", lambda: ir.hpf(xp, log=True, level=ir.Series(periods=ir.qq(2014, 1), values=2.0), change=ir.Series(periods=ir.qq(2015, 4), values=1.02)))
    run("hpf/constr/log/beyond", lambda: ir.hpf(xp, log=True, level=ir.Series(periods=ir.qq(2017, 1), values=3.0), span=ir.qq(2011, 1) >> ir.qq(2018, 1)))
    # daily with constraints
    xd = series_from(ir.dd(2021, 2, 20), make_values(rng, 20))
    run("hpf/constr/daily", lambda: ir.hpf(xd, level=ir.Series(periods=ir.dd(2021, 3, 1), values=1.0), change=ir.Series(periods=ir.dd(2021, 3, 15), values=0.05)))

    # ------------------------------------------------------------------
    # 7. In-place methods and functional forms
    # ------------------------------------------------------------------
    def _inplace(method, **kwargs):
        y = xc.copy()
        getattr(y, method)(**kwargs)
        return y
    run("hpf_trend/inplace", lambda: _inplace("hpf_trend"))
    run("hpf_gap/inplace", lambda: _inplace("hpf_gap"))
    run("hpf_trend/inplace/constr", lambda: _inplace("hpf_trend", level=level_mid, change=change_end, smooth=12))
    run("hpf_gap/inplace/span", lambda: _inplace("hpf_gap", span=ir.qq(2009, 1) >> ir.qq(2012, 4)))
    run("hpf_trend/inplace/empty", lambda: _inplace("hpf_trend", span=()))
    run("hpf_trend/func", lambda: ir.hpf_trend(xc, smooth=25))
    run("hpf_gap/func", lambda: ir.hpf_gap(xm, smooth=25))
    run("hpf_trend/func/variants/log", lambda: ir.hpf_trend(xpv, log=True, smooth=25))
    emit("hpf/input-untouched", hashlib.sha256(fmt_array(xc.data).encode()).hexdigest()[:16], repr(xc.start))

    # ------------------------------------------------------------------
    # 8. Too short / degenerate inputs (error behaviour is part of the digest)
    # ------------------------------------------------------------------
    run("hpf/len2", lambda: ir.hpf(series_from(ir.qq(2001, 1), [1.0, 2.0])))
    run("hpf/len1", lambda: ir.hpf(series_from(ir.qq(2001, 1), [1.0])))
    run("hpf/positional-arg", lambda: ir.hpf(xc, 100))
    run("hpf/bad-kw", lambda: ir.hpf(xc, lam=100))

    # ------------------------------------------------------------------
    # 9. l1 trend filter
    # ------------------------------------------------------------------
    for freq, start in starts.items():
        for n in (3, 4, 9, 20):
            x = series_from(start, make_values(rng, n))
            for order in (1, 2):
                for smooth in (0.1, 1.0, 25.0):
                    run(f"lonf/{freq}/n{n}/o{order}/s{smooth}", lambda: ir.lonf(x, order, smooth))

    xl = series_from(ir.qq(2010, 1), make_values(rng, 15))
    run("lonf/line/o2", lambda: ir.lonf(line, 2, 3.0))
    run("lonf/line/o1", lambda: ir.lonf(line, 1, 3.0))
    run("lonf/const/o1", lambda: ir.lonf(series_from(ir.yy(2010), np.full(8, 3.25)), 1, 2.0))
    run("lonf/span/inside", lambda: ir.lonf(xl, 2, 1.0, span=ir.qq(2010, 3) >> ir.qq(2012, 4)))
    run("lonf/span/inside/o1", lambda: ir.lonf(xl, 1, 1.0, ir.qq(2011, 1) >> ir.qq(2013, 1)))
    run("lonf/span/ellipsis", lambda: ir.lonf(xl, 1, 0.5, span=...))
    run("lonf/span/none", lambda: ir.lonf(xl, 2, 0.5, span=None))
    xlv = series_from(ir.mm(2015, 6), np.column_stack([make_values(rng, 13), make_values(rng, 13), make_values(rng, 13)]))
    run("lonf/variants/o1", lambda: ir.lonf(xlv, 1, 0.8))
    run("lonf/variants/o2", lambda: ir.lonf(xlv, 2, 0.8))
    run("lonf/variants/o2/span", lambda: ir.lonf(xlv, 2, 0.8, span=ir.mm(2015, 8) >> ir.mm(2016, 2)))
    run("lonf/daily/o2", lambda: ir.lonf(xd, 2, 2.5))
    run("lonf/int-smooth", lambda: ir.lonf(xl, 2, 3))
    run("lonf/bad-order", lambda: ir.lonf(xl, 3, 1.0))
    emit("lonf/input-untouched", hashlib.sha256(fmt_array(xl.data).encode()).hexdigest()[:16], repr(xl.start))

    # ------------------------------------------------------------------
    # Sanity checks of the property itself (printed as booleans)
    # ------------------------------------------------------------------
    t, g = ir.hpf(xm, smooth=5)
    d = xm.get_data()
    ok = ~np.isnan(d)
    emit("check/hpf/additive", bool(np.allclose((t.get_data() + g.get_data())[ok], d[ok], atol=1e-10)))
    t, g = ir.hpf(line, smooth=100)
    emit("check/hpf/line", bool(np.allclose(t.get_data(), line.get_data(), atol=1e-8)))
    t, g = ir.hpf(xc, level=level_mid, change=change_end)
    emit("check/hpf/level", bool(np.allclose([t[ir.qq(2011, 2)], t[ir.qq(2011, 4)]], [[[0.5]], [[0.75]]], atol=1e-9)))
    emit("check/hpf/change", bool(np.allclose(ir.diff(t)[xc.end], 0.25, atol=1e-9)))
    t, g = ir.lonf(xl, 2, 1.0)
    emit("check/lonf/additive", bool(np.allclose(t.get_data() + g.get_data(), xl.get_data(), atol=1e-10)))

    emit("TOTAL-SHA", hashlib.sha256("\n".join(LINES).encode()).hexdigest())


if __name__ == "__main__":
    main()

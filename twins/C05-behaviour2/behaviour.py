"""
Behaviour digest for property C05 (steady state returned by solve_steady
satisfies the steady-state equations), plus the supporting public API:
Flags.from_kwargs / update_from_kwargs, Simultaneous.create_steady_array /
create_zero_array / create_some_array, Simultaneous.systemize, and
Variant.create_steady_array / create_zero_array.

Run as

    cd /tmp/wt2/C05 && PYTHONPATH=/tmp/wt2/C05/src /venv/bin/python /tmp/twin2_out/C05/behaviour.py

The output is a deterministic text digest.
"""

import io
import sys
import contextlib
import hashlib
import warnings

import numpy as np

import irispie as ir
from irispie.simultaneous import _flags
from irispie.simultaneous._variants import Variant


LINES = []


def emit(*args):
    LINES.append(" ".join(str(a) for a in args))


def fmt(x, digits=8):
    """Deterministic repr of numbers / arrays / containers"""
    if x is None or isinstance(x, (str, bool, )):
        return repr(x)
    if isinstance(x, dict):
        return "{" + ", ".join(f"{k}: {fmt(v, digits)}" for k, v in x.items()) + "}"
    if isinstance(x, (list, tuple, )):
        return "[" + ", ".join(fmt(v, digits) for v in x) + "]"
    if isinstance(x, np.ndarray):
        return f"array{x.shape}{x.dtype}" + fmt(x.tolist(), digits)
    if isinstance(x, (int, np.integer, )):
        return repr(int(x))
    if isinstance(x, (float, np.floating, )):
        x = float(x)
        if x != x:
            return "nan"
        if x in (float("inf"), float("-inf")):
            return repr(x)
        r = float(f"{x:.{digits}g}")
        if r == 0:
            r = 0.0
        return repr(r)
    if isinstance(x, complex):
        return f"({fmt(x.real, digits)}+{fmt(x.imag, digits)}j)"
    return repr(x)


@contextlib.contextmanager
def quiet():
    buffer = io.StringIO()
    with contextlib.redirect_stdout(buffer):
        yield buffer


#-------------------------------------------------------------------------------
# 1. Flags
#-------------------------------------------------------------------------------

def section_flags():
    emit("== flags ==")
    F = _flags.Flags
    values = (None, False, True, 0, 1, "", "x", )
    for lin in values:
        for flat in values:
            for det in (None, False, True, ):
                f = F.from_kwargs(linear=lin, flat=flat, deterministic=det, )
                emit("from_kwargs", repr(lin), repr(flat), repr(det), "->", int(f), repr(f), type(f).__name__)
    # Alternative key names and mixed keys
    cases = (
        {},
        {"is_linear": True},
        {"is_flat": True},
        {"is_deterministic": True},
        {"linear": False, "is_linear": True},
        {"linear": None, "is_linear": 1},
        {"flat": 0, "is_flat": "yes"},
        {"deterministic": None, "is_deterministic": None},
        {"linear": True, "flat": True, "deterministic": True, "unrelated": 5},
        {"is_linear": False, "is_flat": False, "is_deterministic": False},
        {"unrelated": True},
    )
    for kw in cases:
        f = F.from_kwargs(**kw, )
        emit("from_kwargs", fmt(kw), "->", int(f), repr(f))
    # update_from_kwargs for every base flag
    for base in range(8):
        base = F(base)
        for kw in (
            {},
            {"linear": True},
            {"linear": False},
            {"linear": None},
            {"flat": True},
            {"flat": False},
            {"flat": 0},
            {"flat": ""},
            {"deterministic": True},
            {"deterministic": False},
            {"linear": 1, "flat": None, "deterministic": 0},
            {"is_linear": True},  # ignored by update_from_kwargs
            {"is_flat": False, "unrelated": 1},
            {"linear": False, "flat": False, "deterministic": False},
            {"linear": True, "flat": True, "deterministic": True},
            {"split_into_blocks": False, "plan": None},
        ):
            g = base.update_from_kwargs(**kw, )
            h = F.update_from_kwargs(base, **kw, )
            emit("update", int(base), fmt(kw), "->", int(g), repr(g), int(h), type(g).__name__,
                 g.is_linear, g.is_flat, g.is_deterministic)
    for i in range(8):
        f = F(i)
        p = f.to_portable()
        emit("portable", i, fmt(p), int(F.from_portable(p)))
    # Numpy booleans
    f = F.from_kwargs(linear=np.True_, flat=np.False_, )
    emit("numpy bools", int(f), int(f.update_from_kwargs(flat=np.True_, linear=np.False_, )))


#-------------------------------------------------------------------------------
# 2. Variant arrays
#-------------------------------------------------------------------------------

def make_variant(levels, changes):
    v = Variant()
    v.levels = dict(levels)
    v.changes = dict(changes)
    return v


def section_variant_arrays():
    emit("== variant arrays ==")
    levels = {0: 2.0, 1: 3.0, 2: None, 3: 0.0, 4: -1.5, 5: 1.0, 6: 0.5, 7: 4.0, 8: 7.0, }
    changes = {0: 0.1, 1: 1.02, 2: None, 3: 1.5, 4: None, 5: None, 6: 0.0, 7: -2.0, 8: float("nan"), }
    logly_maps = {
        "mixed": {0: False, 1: True, 2: True, 3: True, 4: True, 5: True, 6: True, 7: False, 8: None, },
        "partial": {0: False, 1: True, 5: False, },
        "all_false": {i: False for i in range(9)},
        "all_true": {i: True for i in range(9)},
        "all_none": {i: None for i in range(9)},
        "empty": {},
    }
    shapes = (
        {},
        {"num_columns": 1},
        {"num_columns": 1, "shift_in_first_column": 0},
        {"num_columns": 1, "shift_in_first_column": -1},
        {"num_columns": 1, "shift_in_first_column": 2},
        {"num_columns": 3},
        {"num_columns": 4, "shift_in_first_column": -2},
        {"num_columns": 5, "shift_in_first_column": -7},
        {"num_columns": 2, "shift_in_first_column": 3},
        {"num_columns": 0, "shift_in_first_column": 0},
        {"num_columns": 0, "shift_in_first_column": -1},
        {"shift_in_first_column": 1},
    )
    for name, qid_to_logly in logly_maps.items():
        for kw in shapes:
            v = make_variant(levels, changes)
            with warnings.catch_warnings(record=True) as caught:
                warnings.simplefilter("always")
                s = v.create_steady_array(qid_to_logly, **kw, )
                z = v.create_zero_array(qid_to_logly, **kw, )
            emit("steady", name, fmt(kw), fmt(s))
            emit("zero", name, fmt(kw), fmt(z))
            emit("warnings", len(caught), "levels-untouched", fmt(v.levels), fmt(v.changes))
    # Positional calling convention
    v = make_variant(levels, changes)
    emit("positional steady", fmt(v.create_steady_array(logly_maps["mixed"], 3, -1)))
    emit("positional zero", fmt(v.create_zero_array(logly_maps["mixed"], 3, -1)))
    # Empty variant
    v = make_variant({}, {})
    emit("empty steady", fmt(v.create_steady_array({}, num_columns=2, shift_in_first_column=-1)))
    emit("empty steady 1", fmt(v.create_steady_array({})))
    emit("empty zero", fmt(v.create_zero_array({}, num_columns=2)))
    # Warnings filter state after the calls (the functions manipulate it)
    with warnings.catch_warnings():
        warnings.resetwarnings()
        v = make_variant(levels, changes)
        v.create_steady_array(logly_maps["mixed"], num_columns=2, )
        emit("filters after steady", [ (f[0], f[2].__name__) for f in warnings.filters ])
        warnings.resetwarnings()
        v.create_steady_array(logly_maps["mixed"], )
        emit("filters after trivial steady", [ (f[0], f[2].__name__) for f in warnings.filters ])
        warnings.resetwarnings()
        v.create_zero_array(logly_maps["mixed"], num_columns=2, )
        emit("filters after zero", [ (f[0], f[2].__name__) for f in warnings.filters ])


#-------------------------------------------------------------------------------
# 3. Models
#-------------------------------------------------------------------------------

LINEAR_STATIONARY = """
!transition-variables
    x, y, z
!transition-shocks
    ex, ey
!parameters
    rho, ss_x, a, b
!transition-equations
    x = rho*x[-1] + (1-rho)*ss_x + ex;
    y = a*x + b*y[-1] + 0.1*y[+1] + ey;
    z = x[-2] - y[+1] + 1;
!measurement-variables
    obs_x
!measurement-equations
    obs_x = x + 2;
"""

LINEAR_UNIT_ROOT = """
!transition-variables
    lev, gro, gap, sumv
!transition-shocks
    e1, e2
!parameters
    g, rho, c0
!transition-equations
    lev = lev[-1] + gro + e1;
    gro = rho*gro[-1] + (1-rho)*g;
    gap = 0.5*gap[-1] + e2;
    sumv = lev + gap + c0;
!measurement-variables
    obs
!measurement-equations
    obs = sumv - 1;
"""

RBC = """
!transition-variables
    a, roc_a, y, c, i, k, h, w, r, c_to_y, i_to_y
!log-variables !all-but
    c_to_y, i_to_y
!transition-shocks
    shock_a, shock_c
!transition-equations
    log(roc_a) = rho*log(roc_a[-1]) + (1-rho)*log(alpha) + shock_a !! roc_a = alpha;
    c[+1]/c = beta*r*exp(shock_c);
    w = c;
    k = (1 - delta)*k{-1} + i;
    y = (a*h)^(1-gamma) * k{-1}^gamma;
    gamma*y = k{-1} * (r - 1 + delta);
    (1-gamma)*y = w * h;
    y = i + c;
    c_to_y = c / y;
    i_to_y = i / y;
    roc_a = roc(a);
!parameters
    alpha, beta, delta, gamma, rho
"""

RBC_PARAMS = dict(
    alpha=1.02**(1/4), beta=0.95**(1/4), gamma=0.40, delta=0.05, rho=0.8,
)

FLAT_NONLINEAR = """
!transition-variables
    kk, cc, yy, ii, rr
!log-variables
    kk, cc, yy, ii
!transition-shocks
    eps
!parameters
    beta, delta, gamma, A
!transition-equations
    yy = A * kk{-1}^gamma * exp(eps);
    kk = (1-delta)*kk{-1} + ii;
    yy = cc + ii;
    cc{+1}/cc = beta*rr;
    rr = gamma*yy/kk{-1} + 1 - delta;
"""


def digest_model(tag, m, names=None, ):
    """Steady levels and changes, steady arrays, check_steady"""
    levels = m.get_steady_levels(unpack_singleton=False, )
    changes = m.get_steady_changes(unpack_singleton=False, )
    names = names or sorted(levels.keys())
    for n in names:
        emit(tag, "level", n, fmt(levels.get(n)), "change", fmt(changes.get(n)))
    for flavour in ("steady", "dynamic", ):
        ok, info = m.check_steady(
            equation_switch=flavour, when_fails="silent", return_info=True, unpack_singleton=False,
        )
        emit(tag, "check_steady", flavour, ok, [fmt(i["discrepancies"], 4) for i in info],
             [i["failed_equations"] for i in info])
    for v in m._variants:
        emit(tag, "steady_array", fmt(m.create_steady_array(v, num_columns=4, shift_in_first_column=-2, )))
        emit(tag, "steady_array1", fmt(m.create_steady_array(v, )))
        emit(tag, "zero_array", fmt(m.create_zero_array(v, num_columns=3, shift_in_first_column=-1, )))
    emit(tag, "default steady_array", fmt(m.create_steady_array()))
    emit(tag, "default steady_array kw", fmt(m.create_steady_array(variant=None, num_columns=2, )))
    emit(tag, "default zero_array", fmt(m.create_zero_array()))
    emit(tag, "default zero_array kw", fmt(m.create_zero_array(variant=None, num_columns=2, shift_in_first_column=5, )))
    emit(tag, "some dev", fmt(m.create_some_array(True, num_columns=2, )))
    emit(tag, "some nondev", fmt(m.create_some_array(False, num_columns=2, shift_in_first_column=-1, )))


def digest_system(tag, m, **kwargs, ):
    systems = m.systemize(unpack_singleton=False, **kwargs, )
    for vid, s in enumerate(systems):
        for attr in ("A", "B", "C", "D", "E", "F", "G", "H", "J", ):
            if hasattr(s, attr):
                emit(tag, "system", fmt(kwargs), vid, attr, fmt(getattr(s, attr), 6))


def digest_paths(tag, m, span, ):
    for deviation in (False, True, ):
        db = m.build_steady_paths(span, deviation=deviation, )
        for n in sorted(db.keys()):
            x = db[n]
            if isinstance(x, ir.Series):
                emit(tag, "path", deviation, n, str(x.start), str(x.end), fmt(x.get_data(), 8))
            else:
                emit(tag, "path", deviation, n, fmt(x, 8))


def digest_solution(tag, m, ):
    m.solve()
    for vid in range(m.num_variants):
        sol = m._variants[vid].solution
        emit(tag, "solution", vid, "eigen", fmt(sorted(abs(e) for e in sol.eigenvalues), 6))
        for attr in ("T", "P", "K", "Z", "H", "D", ):
            emit(tag, "solution", vid, attr, fmt(getattr(sol, attr), 6))


def section_linear():
    emit("== linear stationary ==")
    for flat in (True, False, ):
        m = ir.Simultaneous.from_string(LINEAR_STATIONARY, linear=True, flat=flat, )
        emit("flags", m.is_linear, m.is_flat, m.is_deterministic)
        m.alter_num_variants(3)
        m.assign(rho=[0.8, 0.5, 0.0], ss_x=[2.0, -1.0, 0.0], a=[0.5, 1.0, -0.3], b=[0.3, 0.2, 0.1], )
        with quiet():
            info = m.solve_steady(return_info=True, unpack_singleton=False, )
        emit("info", fmt(info))
        tag = f"linstat flat={flat}"
        digest_model(tag, m)
        digest_system(tag, m)
        digest_system(tag, m, linear=False, )
        digest_solution(tag, m)
        digest_paths(tag, m, ir.qq(2020, 1) >> ir.qq(2020, 3))
        # Override flags in the call
        with quiet():
            m.solve_steady(flat=not flat, )
        digest_model(tag + " overridden", m)

    emit("== linear unit root ==")
    m = ir.Simultaneous.from_string(LINEAR_UNIT_ROOT, linear=True, flat=False, )
    m.alter_num_variants(2)
    m.assign(g=[0.5, -0.25], rho=[0.7, 0.2], c0=[1.0, 3.0], )
    m.assign(lev=10, )
    with quiet():
        m.solve_steady()
    digest_model("unitroot", m)
    digest_system("unitroot", m)
    digest_solution("unitroot", m)
    digest_paths("unitroot", m, ir.dd(2021, 1, 30) >> ir.dd(2021, 2, 2))
    digest_paths("unitroot", m, ir.yy(2021) >> ir.yy(2022))


def section_rbc():
    emit("== nonlinear growth (rbc) ==")
    for split in (True, False, None, ):
        m = ir.Simultaneous.from_string(RBC, flat=False, )
        m.alter_num_variants(2)
        m.assign(**RBC_PARAMS, )
        m.assign(alpha=[1.02**(1/4), 1.0], gamma=[0.40, 0.35], )
        m.assign(a=1, k=20, )
        plan = ir.SteadyPlan(m, )
        plan.fix_level(("a", ), )
        with quiet():
            info = m.solve_steady(plan=plan, split_into_blocks=split, return_info=True, unpack_singleton=False, )
        tag = f"rbc split={split}"
        emit(tag, "success", [i["success"] for i in info], [len(i["blocks"]) for i in info])
        digest_model(tag, m)
        digest_system(tag, m)
        digest_system(tag, m, linear=True, )
        digest_solution(tag, m)
        digest_paths(tag, m, ir.qq(2020, 1) >> ir.qq(2020, 2))
        digest_paths(tag, m, ir.mm(2020, 12) >> ir.mm(2021, 1))
    #
    emit("== rbc blocks ==")
    m = ir.Simultaneous.from_string(RBC, flat=False, )
    plan = ir.SteadyPlan(m, )
    for b in m.split_into_blocks(plan, ):
        emit("block", b.equations, b.quantities)


def section_flat_nonlinear():
    emit("== nonlinear flat ==")
    params = dict(beta=0.98, delta=0.05, gamma=0.35, A=1.2, )
    for split in (True, False, ):
        m = ir.Simultaneous.from_string(FLAT_NONLINEAR, flat=True, )
        m.alter_num_variants(2)
        m.assign(**params, )
        m.assign(A=[1.2, 0.9], )
        m.assign(kk=5, cc=1, yy=1, ii=0.5, rr=1.02, )
        with quiet():
            m.solve_steady(split_into_blocks=split, )
        tag = f"flatnl split={split}"
        digest_model(tag, m)
        digest_system(tag, m)
        digest_solution(tag, m)
        digest_paths(tag, m, ir.qq(2020, 1) >> ir.qq(2020, 2))
    #
    emit("== steady plan: exogenize/endogenize ==")
    m = ir.Simultaneous.from_string(FLAT_NONLINEAR, flat=True, )
    m.assign(**params, )
    m.assign(kk=5, cc=1, yy=2.5, ii=0.5, rr=1.02, )
    plan = ir.SteadyPlan(m, )
    plan.swap(("yy", "A"), )
    with quiet():
        m.solve_steady(plan=plan, )
    digest_model("swap", m)
    emit("swap", "A", fmt(m.get_parameters()["A"]), "yy", fmt(m.get_steady_levels()["yy"]))
    #
    emit("== steady plan: fix level ==")
    m = ir.Simultaneous.from_string(FLAT_NONLINEAR, flat=True, )
    m.assign(**params, )
    m.assign(kk=5, cc=1, yy=1, ii=0.5, rr=1/0.98, )
    plan = ir.SteadyPlan(m, )
    plan.fix_level("rr", )
    with quiet():
        m.solve_steady(plan=plan, )
    digest_model("fixlevel", m)
    #
    emit("== flat model solved in growth mode ==")
    m = ir.Simultaneous.from_string(FLAT_NONLINEAR, flat=True, )
    m.assign(**params, )
    m.assign(kk=5, cc=1, yy=1, ii=0.5, rr=1.02, )
    try:
        with quiet():
            m.solve_steady(flat=False, )
        emit("flat->growth", "converged")
    except Exception as exc:
        emit("flat->growth", "failed", type(exc).__name__)
    digest_model("flat->growth", m)
    #
    emit("== growth-flagged model solved in flat mode ==")
    m = ir.Simultaneous.from_string(FLAT_NONLINEAR, flat=False, )
    emit("flags", m.is_linear, m.is_flat, m.is_deterministic)
    m.assign(**params, )
    m.assign(kk=5, cc=1, yy=1, ii=0.5, rr=1.02, )
    with quiet():
        m.solve_steady(flat=True, )
    digest_model("growth->flat", m)
    digest_system("growth->flat", m, flat=True, )


def main():
    section_flags()
    section_variant_arrays()
    section_linear()
    section_rbc()
    section_flat_nonlinear()
    text = "\n".join(LINES) + "\n"
    sys.stdout.write(text)
    sys.stdout.write("DIGEST " + hashlib.sha256(text.encode()).hexdigest() + "\n")


if __name__ == "__main__":
    main()

"""
Behaviour digest for property C01 (first-order solution / simulation).

Run with
    cd /tmp/wt2/C01 && PYTHONPATH=/tmp/wt2/C01/src /venv/bin/python /tmp/twin2_out/C01/behaviour.py

Prints a deterministic digest: for every array both a rounded summary and a
sha256 of the exact bytes, so that even last-bit floating point differences
(e.g. a changed summation order) show up.
"""

import sys
import io
import hashlib
import contextlib
import warnings

import numpy as np
import irispie as ir

warnings.filterwarnings("ignore")


def digest(x, ) -> str:
    if x is None:
        return "None"
    if isinstance(x, (list, tuple, )):
        return "[" + "; ".join(digest(i) for i in x) + "]"
    a = np.asarray(x)
    if a.dtype == object:
        return "obj:" + repr(a.tolist())
    a = np.ascontiguousarray(a)
    # Normalise NaN payloads, keep signed zeros
    if a.dtype.kind in "fc":
        a = np.where(np.isnan(a), np.nan, a)
    h = hashlib.sha256(a.tobytes()).hexdigest()[:16]
    with np.errstate(all="ignore"):
        r = np.round(a.astype(complex if a.dtype.kind == "c" else float), 9)
        tot = np.nansum(r) if r.size else 0
        amax = np.nanmax(np.abs(r)) if r.size and not np.all(np.isnan(r)) else 0
    return f"{a.dtype}{a.shape} sum={tot:.9g} absmax={amax:.9g} nan={int(np.isnan(a).sum()) if a.dtype.kind in 'fc' else 0} sha={h}"


def show(label, x, ) -> None:
    print(f"{label}: {digest(x)}")


def quiet(func, *args, **kwargs, ):
    with contextlib.redirect_stdout(io.StringIO()):
        return func(*args, **kwargs, )


def series_block(db, names, span, ) -> np.ndarray:
    return np.hstack([
        np.asarray(db[n].get_data(span), dtype=float).reshape(len(span), -1)
        for n in names
    ])


# ----------------------------------------------------------------------------
# Models
# ----------------------------------------------------------------------------

NONLINEAR_SOURCE = r"""
!transition_variables
    y, pi, r, a
!log_variables
    a
!transition_shocks
    ey, epi, er
!parameters
    al, be, ka, rho, ss_pi
!transition_equations
    y = al*y[-1] + (1-al)*y[+1] - 0.1*(r - pi[+1]) + ey;
    pi = be*pi[+1] + (1-be)*pi[-1] + ka*y + epi;
    r = rho*r[-1] + (1-rho)*(ss_pi + 1.5*(pi[+2]-ss_pi) + 0.5*y) + er;
    log(a) = 0.8*log(a[-1]) + 0.1*y[-2];
!measurement_variables
    oy, opi
!measurement_shocks
    wy
!measurement_equations
    oy = y + wy + 1;
    opi = pi + 0.5*y;
"""

LINEAR_SOURCE = r"""
!transition_variables
    x, z, q
!transition_shocks
    ex, ez
!parameters
    c0, c1, c2, c3
!transition_equations
    x = c0 + c1*x[-1] + c2*z[+1] + ex;
    z = 0.5 + c3*z[-1] + 0.2*x + 0.1*q[-3] + ez;
    q = 0.3*q[-1] + 0.2*x[+1] + 1;
!measurement_variables
    ox
!measurement_shocks
    wx
!measurement_equations
    ox = 2*x - z + wx + 3;
"""

BACKWARD_SOURCE = r"""
!transition_variables
    u, v
!transition_shocks
    eu
!transition_equations
    u = 0.9*u[-1] + 0.1*v[-1] + eu;
    v = 0.5*v[-2] + 0.25;
"""


def make_nonlinear(num_variants=1, ):
    m = ir.Simultaneous.from_string(NONLINEAR_SOURCE, linear=False, )
    m.assign(al=0.5, be=0.6, ka=0.1, rho=0.7, ss_pi=2, y=0, pi=2, r=2, a=1, oy=1, opi=2, )
    if num_variants > 1:
        m.alter_num_variants(num_variants, )
        m.assign(
            al=[0.5, 0.4, 0.6][:num_variants],
            rho=[0.7, 0.5, 0.8][:num_variants],
            ss_pi=[2, 3, 1][:num_variants],
            pi=[2, 3, 1][:num_variants],
            r=[2, 3, 1][:num_variants],
            opi=[2, 3, 1][:num_variants],
        )
    quiet(m.steady, )
    quiet(m.check_steady, )
    m.solve()
    return m


def make_linear():
    m = ir.Simultaneous.from_string(LINEAR_SOURCE, linear=True, )
    m.assign(c0=0.2, c1=0.7, c2=0.15, c3=0.4, )
    quiet(m.steady, )
    m.solve()
    return m


def make_backward():
    m = ir.Simultaneous.from_string(BACKWARD_SOURCE, linear=True, )
    quiet(m.steady, )
    m.solve()
    return m


# ----------------------------------------------------------------------------
# Reports
# ----------------------------------------------------------------------------

_SOLUTION_MATRICES = (
    "T", "P", "K", "Z", "H", "D", "Ta", "Pa", "Ka", "Za", "Ua", "J", "Ru", "X", "Xa",
)


def report_solution(label, sol, ) -> None:
    for n in _SOLUTION_MATRICES:
        show(f"{label}.{n}", getattr(sol, n))
    print(f"{label}.eigenvalues_stability:", [str(i) for i in sol.eigenvalues_stability])
    print(f"{label}.system_stability:", str(sol.system_stability))
    print(f"{label}.num_unstable:", sol.eigenvalues_stability.count(ir.UNSTABLE) if hasattr(ir, "UNSTABLE") else "n/a")
    show(f"{label}.abs_eig", np.sort(np.abs(np.array(sol.eigenvalues))))


def report_deviation_solution(label, sol, ) -> None:
    dev = sol.create_deviation_solution()
    print(f"{label}.dev.type:", type(dev).__name__, dev is not sol)
    for n in type(sol).__slots__:
        a = getattr(sol, n)
        b = getattr(dev, n)
        if n in ("K", "Ka", "D", ):
            same = "zeros" if (b is not None and not np.any(b) and b.shape == a.shape and b.dtype == a.dtype and b is not a) else "?"
        else:
            same = "same-object" if a is b else "DIFFERENT"
        print(f"{label}.dev.{n}: {same}")
    show(f"{label}.orig.K.after", sol.K)
    show(f"{label}.orig.Ka.after", sol.Ka)
    show(f"{label}.orig.D.after", sol.D)
    # Deviation solution of an empty solution
    empty = type(sol)()
    dev_empty = empty.create_deviation_solution()
    print(f"{label}.dev.empty:", [getattr(dev_empty, n) for n in type(sol).__slots__])


def report_expansions(label, sol, ) -> None:
    fresh = sol.copy()
    fresh.square_expansion = []
    fresh.triangular_expansion = []
    for forward in (0, 3, 1, 5, 5, 2, ):
        sq = fresh.expand_square_solution(forward, )
        tr = fresh.expand_triangular_solution(forward, )
        print(f"{label}.expand[{forward}]: len={len(sq)},{len(tr)} cache={len(fresh.square_expansion)},{len(fresh.triangular_expansion)}")
        show(f"{label}.expand_square[{forward}]", np.hstack(sq))
        show(f"{label}.expand_triangular[{forward}]", np.hstack(tr))
        print(f"{label}.expand[{forward}].R0_is_copy:", sq[0] is not fresh.P, tr[0] is not fresh.Pa, type(sq).__name__)
    # Consistency: square = Ua @ triangular
    sq = fresh.expand_square_solution(4, )
    tr = fresh.expand_triangular_solution(4, )
    print(f"{label}.expand.consistent:", all(np.allclose(s, fresh.Ua @ t) for s, t in zip(sq, tr)))
    # Missing pieces
    broken = sol.copy()
    broken.X = None
    print(f"{label}.expand.noX:", broken.expand_square_solution(3, ), digest(np.hstack(broken.expand_triangular_solution(3, ))))
    broken = sol.copy()
    broken.Ru = None
    print(f"{label}.expand.noRu:", broken.expand_square_solution(2, ), broken.expand_triangular_solution(2, ))


def report_arrays(label, m, ) -> None:
    show(f"{label}.zero_array", m.create_zero_array())
    show(f"{label}.steady_array", m.create_steady_array())
    show(f"{label}.zero_array(5,-2)", m.create_zero_array(num_columns=5, shift_in_first_column=-2, ))
    show(f"{label}.steady_array(5,-2)", m.create_steady_array(num_columns=5, shift_in_first_column=-2, ))
    show(f"{label}.some_array(dev)", m.create_some_array(deviation=True, num_columns=3, ))
    show(f"{label}.some_array(lev)", m.create_some_array(deviation=False, num_columns=3, shift_in_first_column=1, ))
    for vid, v in enumerate(m._variants):
        show(f"{label}.zero_array.v{vid}", m.create_zero_array(variant=v, num_columns=2, ))
        show(f"{label}.steady_array.v{vid}", m.create_steady_array(variant=v, num_columns=4, shift_in_first_column=-1, ))
        show(f"{label}.steady_array.pos.v{vid}", m.create_steady_array(v, ))
    try:
        m.create_zero_array(bogus=1, )
    except TypeError as exc:
        print(f"{label}.zero_array.bogus: TypeError")
    try:
        m.create_steady_array(bogus=1, )
    except TypeError as exc:
        print(f"{label}.steady_array.bogus: TypeError")


def report_systems(label, m, **kwargs, ) -> None:
    systems = m.systemize(unpack_singleton=False, **kwargs, )
    for vid, s in enumerate(systems):
        for n in ("A", "B", "C", "D", "E", "F", "G", "H", "J", ):
            if hasattr(s, n):
                show(f"{label}.system.v{vid}.{n}", getattr(s, n))


def report_simulations(label, m, start, names, shock_plan, num_periods=10, ) -> None:
    span = start >> (start + num_periods - 1)
    span = tuple(span)
    for deviation in (False, True, ):
        db = ir.Databox.steady(m, span, deviation=deviation, )
        for name, offset, value in shock_plan:
            db[name][span[offset]] = value
        # Perturb initial conditions
        first_name = names[0]
        db[first_name][span[0]-1] = db[first_name][span[0]-1] + 0.25
        out = m.simulate(db, span, deviation=deviation, )
        arr = series_block(out, names, span, )
        show(f"{label}.simulate(dev={deviation})", arr)
        print(f"{label}.simulate(dev={deviation}).last_row:", np.round(arr[-1, :], 8).tolist())
        #
        # No shocks at all, steady start
        db0 = ir.Databox.steady(m, span, deviation=deviation, )
        out0 = m.simulate(db0, span, deviation=deviation, )
        show(f"{label}.simulate_noshock(dev={deviation})", series_block(out0, names, span, ))
        #
        # Anticipated shock only in the last period and in the first period
        for offset in (0, num_periods-1, ):
            db1 = ir.Databox.steady(m, span, deviation=deviation, )
            ant_name = next(n for n, *_ in shock_plan if n.startswith("ant_"))
            db1[ant_name][span[offset]] = -0.75
            out1 = m.simulate(db1, span, deviation=deviation, )
            show(f"{label}.simulate_ant@{offset}(dev={deviation})", series_block(out1, names, span, ))
        #
        # Missing initial condition
        db2 = ir.Databox.steady(m, span, deviation=deviation, )
        db2[first_name][span[0]-1] = np.nan
        try:
            out2 = m.simulate(db2, span, deviation=deviation, )
            show(f"{label}.simulate_nan_init(dev={deviation})", series_block(out2, names, span, ))
        except Exception as exc:
            print(f"{label}.simulate_nan_init(dev={deviation}): {type(exc).__name__}")


def report_level_vs_deviation(label, m, start, names, shock_plan, num_periods=10, ) -> None:
    span = tuple(start >> (start + num_periods - 1))
    db_l = ir.Databox.steady(m, span, deviation=False, )
    db_d = ir.Databox.steady(m, span, deviation=True, )
    for name, offset, value in shock_plan:
        db_l[name][span[offset]] = value
        db_d[name][span[offset]] = value
    out_l = m.simulate(db_l, span, deviation=False, )
    out_d = m.simulate(db_d, span, deviation=True, )
    ss = ir.Databox.steady(m, span, deviation=False, )
    logly = set(m.get_log_status().keys()) if False else None
    log_status = m.get_log_status() if hasattr(m, "get_log_status") else {}
    ok = True
    for n in names:
        l = np.asarray(out_l[n].get_data(span), dtype=float)
        d = np.asarray(out_d[n].get_data(span), dtype=float)
        s = np.asarray(ss[n].get_data(span), dtype=float)
        combined = s * d if log_status.get(n, False) else s + d
        ok = ok and bool(np.allclose(l, combined, atol=1e-9, ))
    print(f"{label}.level==steady+deviation:", ok)


def report_planned(label, m, start, exog_name, endog_name, names, ) -> None:
    span = tuple(start >> (start + 7))
    for deviation in (False, True, ):
        for anticipated in (True, False, ):
            db = ir.Databox.steady(m, span, deviation=deviation, )
            plan = ir.SimulationPlan(m, span, )
            when = (span[2], span[3], )
            for t in when:
                db[exog_name][t] = db[exog_name][t] + 0.5
            if anticipated:
                plan.exogenize_anticipated(when, exog_name, )
                plan.endogenize_anticipated(when, "ant_" + endog_name, )
            else:
                plan.exogenize_unanticipated(when, exog_name, )
                plan.endogenize_unanticipated(when, endog_name, )
            try:
                out = m.simulate(db, span, plan=plan, deviation=deviation, )
                all_names = tuple(names) + (endog_name, "ant_" + endog_name, )
                arr = series_block(out, all_names, span, )
                # Conditional simulations go through a smoother; round off noise
                print(f"{label}.planned(dev={deviation},ant={anticipated}):", digest(arr))
            except Exception as exc:
                print(f"{label}.planned(dev={deviation},ant={anticipated}): {type(exc).__name__}: {str(exc)[:80]}")


def report_kalman(label, m, start, obs_names, ant_name, ) -> None:
    span = tuple(start >> (start + 9))
    db = ir.Databox.steady(m, span, deviation=False, )
    sim_db = db.copy()
    sim_db[ant_name][span[4]] = 0.4
    sim = m.simulate(sim_db, span, )
    fdb = ir.Databox()
    for n in obs_names:
        fdb[n] = sim[n].copy()
    fdb[ant_name] = ir.Series(periods=span, values=[0.0]*len(span), )
    fdb[ant_name][span[4]] = 0.4
    for shocks_from_data in (False, True, ):
        try:
            out, info = m.kalman_filter(
                fdb, span,
                shocks_from_data=shocks_from_data,
                return_info=True,
            )
            med = out.smooth_med if hasattr(out, "smooth_med") else out["smooth_med"]
            names = [n for n in m.get_names(kind=ir.TRANSITION_VARIABLE, )]
            arr = series_block(med, names, span, )
            print(f"{label}.kalman(shocks_from_data={shocks_from_data}):", digest(np.round(arr, 10)))
        except Exception as exc:
            print(f"{label}.kalman(shocks_from_data={shocks_from_data}): {type(exc).__name__}: {str(exc)[:100]}")


def main() -> None:
    np.set_printoptions(precision=9, suppress=True, linewidth=200, )

    # ---- Nonlinear (linearised) model with a log-variable ------------------
    m = make_nonlinear()
    sol = m.get_solution()
    report_solution("NL", sol, )
    report_deviation_solution("NL", sol, )
    report_expansions("NL", sol, )
    report_arrays("NL", m, )
    report_systems("NL", m, )
    names = ("y", "pi", "r", "a", "oy", "opi", )
    shocks = (("ey", 1, 1.0), ("epi", 0, -0.5), ("ant_epi", 4, 0.5), ("ant_er", 7, 0.25), ("ant_ey", 2, -0.3), ("wy", 3, 0.1), )
    report_simulations("NL.Q", m, ir.qq(2020, 1), names, shocks, )
    report_simulations("NL.D", m, ir.dd(2020, 2, 27), names, shocks, )
    report_simulations("NL.Y", m, ir.yy(1999), names, shocks, )
    report_simulations("NL.M", m, ir.mm(2021, 11), names, shocks, )
    report_level_vs_deviation("NL", m, ir.qq(2020, 1), names, shocks, )
    report_planned("NL", m, ir.qq(2020, 1), "y", "ey", names, )
    report_kalman("NL", m, ir.qq(2020, 1), ("oy", "opi", ), "ant_epi", )

    # ---- Multiple parameter variants -----------------------------------------
    mv = make_nonlinear(num_variants=3, )
    for vid, s in enumerate(mv.get_solution(unpack_singleton=False, )):
        report_solution(f"MV.v{vid}", s, )
        report_expansions(f"MV.v{vid}", s, )
    report_arrays("MV", mv, )
    report_systems("MV", mv, )
    span = tuple(ir.qq(2020, 1) >> ir.qq(2022, 2))
    for deviation in (False, True, ):
        db = ir.Databox.steady(mv, span, deviation=deviation, )
        db["ey"][span[1]] = 1
        db["ant_er"][span[5]] = [0.5, -0.5, 0.25]
        db["ant_epi"][span[8]] = 0.2
        out = mv.simulate(db, span, deviation=deviation, )
        show(f"MV.simulate(dev={deviation})", series_block(out, names, span, ))

    # ---- Linear model with constants, lag 3, lead 1 --------------------------
    ml = make_linear()
    sol = ml.get_solution()
    report_solution("LIN", sol, )
    report_deviation_solution("LIN", sol, )
    report_expansions("LIN", sol, )
    report_arrays("LIN", ml, )
    report_systems("LIN", ml, )
    names = ("x", "z", "q", "ox", )
    shocks = (("ex", 0, 1.0), ("ez", 5, -1.0), ("ant_ex", 9, 0.5), ("ant_ez", 3, 0.25), ("wx", 2, -0.2), )
    report_simulations("LIN.Q", ml, ir.qq(2020, 3), names, shocks, )
    report_simulations("LIN.D", ml, ir.dd(2023, 12, 28), names, shocks, )
    report_level_vs_deviation("LIN", ml, ir.qq(2020, 1), names, shocks, )
    report_planned("LIN", ml, ir.qq(2020, 1), "x", "ex", names, )
    report_kalman("LIN", ml, ir.qq(2020, 1), ("ox", ), "ant_ex", )

    # ---- Backward-looking model (no unstable roots) --------------------------
    mb = make_backward()
    sol = mb.get_solution()
    report_solution("BWD", sol, )
    report_deviation_solution("BWD", sol, )
    report_expansions("BWD", sol, )
    report_arrays("BWD", mb, )
    report_systems("BWD", mb, )
    names = ("u", "v", )
    shocks = (("eu", 0, 1.0), ("ant_eu", 3, 0.5), )
    report_simulations("BWD.Q", mb, ir.qq(2020, 3), names, shocks, num_periods=6, )
    report_level_vs_deviation("BWD", mb, ir.qq(2020, 1), names, shocks, num_periods=6, )


if __name__ == "__main__":
    main()

"""
Behaviour digest for property C07 (simulation plans hit exogenized points
exactly; swaps invert a simulation).

Run as

    cd /tmp/wt/C07 && PYTHONPATH=/tmp/wt/C07/src /venv/bin/python /tmp/twin_out/C07/behaviour.py

Prints a deterministic digest (rounded numbers, reprs) of a range of plan
simulations: first_order and stacked_time, anticipated and unanticipated
swaps, mixed plans, log-variables, multiple variants, deviation mode, daily /
monthly / yearly frequencies, missing exogenized values, custom stds, forced
frame splitting, plan bool arrays, error paths.
"""

import contextlib
import io
import os
import sys
import hashlib
import warnings

import numpy as np

warnings.filterwarnings("ignore")

import irispie as ir


DIGITS = 7
_LINES = []


def out(*args):
    line = " ".join(str(a) for a in args)
    _LINES.append(line)
    print(line)


_EXACT = hashlib.sha256()


def fmt(x):
    x = np.asarray(x, dtype=float)
    _EXACT.update(np.ascontiguousarray(x).tobytes())
    x = np.round(x, DIGITS) + 0.0
    return "[" + " ".join("nan" if np.isnan(v) else f"{v:.{DIGITS}f}" for v in x.reshape(-1)) + "]"


def quiet(func, *args, **kwargs):
    buffer = io.StringIO()
    with contextlib.redirect_stdout(buffer):
        return func(*args, **kwargs)


SOURCE = r"""
!transition-variables
    y, pi, r, a, c
!log-variables
    c
!transition-shocks
    ey, epi, er, ea, ec
!parameters
    alpha, beta, kappa, rho, phi, rhoa, ss_c
!transition-equations
    y = alpha*y{-1} + (1-alpha)*y{+1} - 0.1*(r - pi{+1}) + a + ey;
    pi = beta*pi{+1} + (1-beta)*pi{-1} + kappa*y + epi;
    r = rho*r{-1} + (1-rho)*phi*pi{+1} + er;
    a = rhoa*a{-1} + ea;
    log(c) = 0.5*log(c{-1}) + 0.5*log(ss_c) + 0.2*y + ec;
!measurement-variables
    obs_y, obs_c
!log-variables
    obs_c
!measurement-shocks
    wy
!measurement-equations
    obs_y = 1 + y + wy;
    obs_c = c*c;
"""

VARIABLES = ("y", "pi", "r", "a", "c", "obs_y", "obs_c", )
SHOCKS = ("ey", "epi", "er", "ea", "ec", )
ANT_SHOCKS = tuple("ant_" + n for n in SHOCKS)
ALL_NAMES = VARIABLES + SHOCKS + ANT_SHOCKS + ("wy", )


def create_model(num_variants=1, **kwargs, ):
    m = ir.Simultaneous.from_string(SOURCE, **kwargs, )
    if num_variants > 1:
        m.alter_num_variants(num_variants, )
    m.assign(alpha=0.5, beta=0.6, kappa=0.1, rho=0.7, phi=1.5, rhoa=0.8, ss_c=2.0, )
    if num_variants > 1:
        m.assign(rho=[0.7, 0.4, 0.55][:num_variants], ss_c=[2.0, 3.0, 1.5][:num_variants], )
    m.assign(y=0, pi=0, r=0, a=0, c=2.0, obs_y=1, obs_c=4.0, )
    quiet(m.steady, )
    m.solve()
    return m


def values(db, name, span, ):
    series = db[name]
    if not hasattr(series, "get_data"):
        return np.asarray(series, dtype=float, ).reshape(1, -1)
    return np.asarray(series.get_data(span, ), dtype=float, )


def digest_databox(label, db, span, names=ALL_NAMES, ):
    for n in names:
        if n not in db.keys():
            out(label, n, "<absent>")
            continue
        out(label, n, fmt(values(db, n, span, ).T))


def run(label, m, db, span, plan=None, show=True, names=ALL_NAMES, **kwargs, ):
    try:
        result = quiet(m.simulate, db, span, plan=plan, **kwargs, )
    except Exception as exc:
        text = " ".join(str(exc).split())[:160]
        out(label, "EXCEPTION", type(exc).__name__, text)
        return None
    info = None
    if isinstance(result, tuple):
        result, info = result
    if show:
        digest_databox(label, result, span, names, )
    if info is not None:
        infos = info if isinstance(info, list) else [info, ]
        for i, info_v in enumerate(infos):
            out(label, "info", i, info_v["method"], repr(info_v["frames"]), [str(s) for s in info_v["exit_status"]])
            for j, fdb in enumerate(info_v["frame_databoxes"]):
                if fdb is not None:
                    out(label, "frame_db", i, j, fmt(values(fdb, "y", span, ).T))
    return result


def max_abs_diff(db1, db2, names, periods, ):
    worst = 0.0
    for n in names:
        for t in periods:
            a = np.asarray(db1[n].get_data(t, ), dtype=float, )
            b = np.asarray(db2[n].get_data(t, ), dtype=float, )
            d = np.abs(a - b)
            d = d[~np.isnan(d)]
            if d.size:
                worst = max(worst, float(d.max()))
    return worst


def swap_case(label, m, span, shock_setup, targets, instruments, mode, method, tol=1e-8, **kwargs, ):
    """
    Ordinary simulation driven by shocks, then the inverse simulation with
    the plan exogenizing the targets and endogenizing the same shocks
    """
    base_db = ir.Databox.steady(m, span, **({"deviation": True} if kwargs.get("deviation") else {}), )
    db = base_db.copy()
    for (name, per), value in shock_setup.items():
        db[name][per] = value
    sim_kwargs = dict(kwargs)
    if method == "stacked_time":
        # The damped Newton solver requires both the function and the step
        # tolerance to be met; when the very first Newton step lands exactly
        # on the solution it cannot improve further and reports a failure.
        # Switch off the step tolerance to avoid this solver quirk.
        sim_kwargs.setdefault("solver_settings", {"step_tolerance": float("inf")}, )
    forward = run(label + ":fwd", m, db, span, method=method, **sim_kwargs, )
    if forward is None:
        return
    #
    # Inverse: take targets from forward, reset instruments to zero
    inv_db = base_db.copy()
    for (name, per), value in shock_setup.items():
        if (name, per) not in instruments:
            inv_db[name][per] = value
    plan = ir.PlanSimulate(m, span, )
    exogenize = getattr(plan, f"exogenize_{mode}")
    endogenize = getattr(plan, f"endogenize_{mode}")
    for name, per in targets:
        exogenize(per, name, )
        inv_db[name][per] = forward[name](per)
    for name, per in instruments:
        endogenize(per, name, )
    out(label, "plan.is_empty", plan.is_empty, "split", plan.any_endogenized_anticipated_except_start, plan.any_endogenized_unanticipated_except_start)
    inverse = run(label + ":inv", m, inv_db, span, plan=plan, method=method, **sim_kwargs, )
    if inverse is None:
        return
    periods = tuple(span)
    hit = max(
        max_abs_diff(inverse, inv_db, (name, ), (per, ), )
        for name, per in targets
    )
    recover = max_abs_diff(inverse, forward, VARIABLES + SHOCKS + ANT_SHOCKS, periods, )
    out(label, "hits_targets", hit < tol, "recovers_path_and_shocks", recover < tol)


def section(title):
    out("=" * 8, title)


def main():
    m = create_model()
    q = ir.qq
    span = q(2020, 1) >> q(2022, 4)

    section("plan registers")
    plan = ir.PlanSimulate(m, span, )
    out("empty", plan.is_empty, plan.num_periods, plan.start, plan.end, plan.frequency)
    plan.swap_unanticipated(q(2020, 2), ("y", "ey"), )
    plan.swap_unanticipated((q(2020, 3), q(2021, 1), ), [("pi", "epi"), ("c", "ec")], )
    plan.swap_anticipated(q(2020, 1) >> q(2020, 3), ("r", "ant_er"), )
    plan.swap_anticipated(q(2021, 2), (), )
    plan.exogenize_anticipated(q(2022, 4), "a", )
    plan.exogenize_anticipated(q(2022, 4), "a", status=False, )
    plan.endogenize_unanticipated(q(2022, 1), ("ea", "ec"), status=1, )
    plan.endogenize_unanticipated(q(2022, 1), ("ea", "ec"), status=0, )
    out("empty", plan.is_empty, plan.any_endogenized_anticipated_except_start, plan.any_endogenized_unanticipated_except_start)
    for reg_name, array in plan.get_registers_as_bool_arrays().items():
        out("reg", reg_name, array.shape, array.astype(int).tolist())
    wide = tuple(q(2019, 3) >> q(2020, 3))
    for reg_name, array in plan.get_registers_as_bool_arrays(periods=wide, register_names=("exogenized_unanticipated", "endogenized_anticipated"), ).items():
        out("reg-wide", reg_name, array.shape, array.astype(int).tolist())
    out("reg-one", plan.get_register_as_bool_array("exogenized_unanticipated", ("y", "c"), (q(2020, 2), q(2025, 1), q(2020, 3)), ).astype(int).tolist())
    out("reg-none", plan.get_register_as_bool_array("exogenized_unanticipated", (), ...).shape, plan.get_register_as_bool_array("endogenized_anticipated", ..., ()).shape)
    out("exg_unant", plan.get_exogenized_unanticipated_in_period(q(2020, 3)), "exg_ant", plan.get_exogenized_anticipated_in_period(q(2020, 2)))
    out("end_unant", plan.get_endogenized_unanticipated_in_period(q(2021, 1)), plan.get_endogenized_unanticipated())
    out("end_ant", plan.get_endogenized_anticipated())
    out("databox_names", sorted(plan.get_databox_names()))
    try:
        plan.swap_unanticipated(q(2030, 1), ("y", "ey"), )
    except Exception as exc:
        out("out-of-span", type(exc).__name__)
    try:
        plan.swap_unanticipated(q(2020, 1), ("y", "nonexistent"), )
    except Exception as exc:
        out("bad-name", type(exc).__name__)
    out("after bad-name", plan.get_exogenized_unanticipated_in_period(q(2020, 1)))
    out(str(plan))

    section("no plan / empty plan")
    db = ir.Databox.steady(m, span, )
    db["ey"][q(2020, 2)] = 0.5
    db["ant_epi"][q(2020, 4)] = 0.3
    db["wy"][q(2021, 1)] = 0.2
    for method in ("first_order", "stacked_time"):
        run("noplan:" + method, m, db, span, method=method, )
        run("emptyplan:" + method, m, db, span, plan=ir.PlanSimulate(m, span, ), method=method, show=False, return_info=True, )
    run("noplan:first_order:split", m, db, span, force_split_frames=True, return_info=True, names=("y", "c", "ey"), )

    section("unanticipated swaps")
    shocks_1 = {("ey", q(2020, 2)): 0.5, ("epi", q(2020, 2)): -0.2, ("ec", q(2021, 1)): 0.1, ("er", q(2021, 3)): 0.25}
    targets_1 = (("y", q(2020, 2)), ("pi", q(2020, 2)), ("c", q(2021, 1)), ("r", q(2021, 3)))
    instruments_1 = tuple(shocks_1.keys())
    for method in ("first_order", "stacked_time"):
        swap_case("unant1:" + method, m, span, shocks_1, targets_1, instruments_1, "unanticipated", method, )

    section("anticipated swaps")
    shocks_2 = {("ant_ey", q(2020, 1)): 0.4, ("ant_epi", q(2020, 3)): -0.3, ("ant_ec", q(2021, 2)): 0.15}
    targets_2 = (("y", q(2020, 1)), ("pi", q(2020, 3)), ("c", q(2021, 2)))
    instruments_2 = tuple(shocks_2.keys())
    for method in ("first_order", "stacked_time"):
        swap_case("ant1:" + method, m, span, shocks_2, targets_2, instruments_2, "anticipated", method, )

    section("anticipated swap, start only, with background shocks")
    shocks_3 = {("ant_er", q(2020, 1)): 0.2, ("ey", q(2020, 3)): 0.3, ("ant_ea", q(2021, 4)): -0.1, ("wy", q(2020, 2)): 0.05}
    targets_3 = (("r", q(2020, 1)), )
    instruments_3 = (("ant_er", q(2020, 1)), )
    for method in ("first_order", "stacked_time"):
        swap_case("ant2:" + method, m, span, shocks_3, targets_3, instruments_3, "anticipated", method, return_info=True, )

    section("cross-dated instruments (target later than instrument)")
    shocks_4 = {("ant_ey", q(2020, 2)): 0.3, ("ant_ea", q(2020, 4)): 0.2}
    targets_4 = (("y", q(2020, 4)), ("pi", q(2021, 2)))
    instruments_4 = tuple(shocks_4.keys())
    for method in ("first_order", "stacked_time"):
        swap_case("ant3:" + method, m, span, shocks_4, targets_4, instruments_4, "anticipated", method, )

    section("deviation mode, first order")
    swap_case("dev:unant", m, span, shocks_1, targets_1, instruments_1, "unanticipated", "first_order", deviation=True, )
    swap_case("dev:ant", m, span, shocks_2, targets_2, instruments_2, "anticipated", "first_order", deviation=True, )

    section("forced split frames and check_singularity")
    swap_case("split:unant", m, span, shocks_1, targets_1, instruments_1, "unanticipated", "first_order", force_split_frames=True, return_info=True, )
    swap_case("sing:ant", m, span, shocks_2, targets_2, instruments_2, "anticipated", "first_order", check_singularity=True, )

    section("custom stds in input data (must not matter when exactly identified)")
    base_db = ir.Databox.steady(m, span, )
    fwd_db = base_db.copy()
    fwd_db["ey"][q(2020, 2)] = 0.5
    fwd_db["ec"][q(2020, 3)] = -0.1
    fwd = run("std:fwd", m, fwd_db, span, show=False, )
    inv_db = base_db.copy()
    inv_db["y"][q(2020, 2)] = fwd["y"](q(2020, 2))
    inv_db["c"][q(2020, 3)] = fwd["c"](q(2020, 3))
    for n in list(inv_db.keys()):
        if n.startswith("std_"):
            out("std:default", n, fmt(values(inv_db, n, span, ).T[:, :2]))
    inv_db["std_ey"] = ir.Series(periods=span, values=[0.1 + 0.05*i for i in range(len(span))], )
    plan = ir.PlanSimulate(m, span, )
    plan.swap_unanticipated(q(2020, 2), ("y", "ey"), )
    plan.swap_unanticipated(q(2020, 3), ("c", "ec"), )
    inv = run("std:inv", m, inv_db, span, plan=plan, names=("y", "c", "ey", "ec"), )
    out("std", "recovers", max_abs_diff(inv, fwd, VARIABLES + SHOCKS, tuple(span), ) < 1e-8)
    inv2 = run("std:inv:nostds", m, inv_db, span, plan=plan, names=("y", "c", "ey", "ec"), stds_from_data=False, )

    section("missing exogenized value in input data")
    miss_db = inv_db.copy()
    miss_db["y"][q(2020, 2)] = np.nan
    for method in ("first_order", "stacked_time"):
        run("missing:" + method, m, miss_db, span, plan=plan, names=("y", "c", "ey", "ec"), method=method, )
    miss_db2 = base_db.copy()
    miss_db2["c"][q(2019, 4)] = np.nan
    run("missing-initial:first_order", m, miss_db2, span, plan=plan, names=("y", "c", "ey", "ec"), )
    run("missing-initial:stacked_time", m, miss_db2, span, plan=plan, names=("y", "c", "ey", "ec"), method="stacked_time", )

    section("under- and over-identified plans")
    plan_u = ir.PlanSimulate(m, span, )
    plan_u.endogenize_unanticipated(q(2020, 2), "ey", )
    run("endogenize-only:first_order", m, inv_db, span, plan=plan_u, names=("y", "ey"), )
    plan_o = ir.PlanSimulate(m, span, )
    plan_o.exogenize_unanticipated(q(2020, 2), "y", )
    plan_o.endogenize_unanticipated(q(2020, 2), ("ey", "ea"), )
    run("two-instruments:first_order", m, inv_db, span, plan=plan_o, names=("y", "ey", "ea"), )

    section("plan consistency errors")
    other_span = q(2020, 1) >> q(2022, 3)
    run("wrong-span", m, inv_db, other_span, plan=plan, )

    section("multiple variants")
    m2 = create_model(num_variants=2, )
    out("num_variants", m2.num_variants)
    base2 = ir.Databox.steady(m2, span, )
    fwd2_db = base2.copy()
    fwd2_db["ey"][q(2020, 2)] = 0.5
    fwd2_db["ant_ec"][q(2020, 4)] = 0.1
    for method in ("first_order", "stacked_time"):
        fwd2 = run("variants:fwd:" + method, m2, fwd2_db, span, method=method, names=("y", "c", "r", "ey", "ant_ec"), )
        inv2_db = base2.copy()
        inv2_db["y"][q(2020, 2)] = fwd2["y"](q(2020, 2))
        inv2_db["c"][q(2020, 4)] = fwd2["c"](q(2020, 4))
        plan2 = ir.PlanSimulate(m2, span, )
        plan2.swap_unanticipated(q(2020, 2), ("y", "ey"), )
        plan2.swap_anticipated(q(2020, 4), ("c", "ant_ec"), )
        inv2 = run("variants:inv:" + method, m2, inv2_db, span, plan=plan2, method=method, names=("y", "c", "r", "ey", "ant_ec"), return_info=True, )
        if inv2 is not None:
            out("variants:" + method, "recovers", max_abs_diff(inv2, fwd2, VARIABLES + SHOCKS + ANT_SHOCKS, tuple(span), ) < 1e-8)
        run("variants:inv:one-variant:" + method, m2, inv2_db, span, plan=plan2, method=method, names=("y", "ey"), num_variants=1, )

    section("other frequencies")
    for label, freq_span in (
        ("daily", ir.dd(2020, 1, 30) >> ir.dd(2020, 2, 8)),
        ("daily-leap", ir.dd(2020, 2, 27) >> ir.dd(2020, 3, 4)),
        ("monthly", ir.mm(2020, 11) >> ir.mm(2021, 6)),
        ("yearly", ir.yy(2020) >> ir.yy(2027)),
        ("integer", ir.ii(1) >> ir.ii(8)),
    ):
        periods = tuple(freq_span)
        shocks_f = {("ey", periods[1]): 0.5, ("ec", periods[3]): 0.1}
        targets_f = (("y", periods[1]), ("c", periods[3]))
        swap_case(label + ":unant", m, freq_span, shocks_f, targets_f, tuple(shocks_f.keys()), "unanticipated", "first_order", )
        shocks_g = {("ant_ey", periods[0]): 0.5, ("ant_ec", periods[2]): 0.1}
        targets_g = (("y", periods[0]), ("c", periods[2]))
        swap_case(label + ":ant", m, freq_span, shocks_g, targets_g, tuple(shocks_g.keys()), "anticipated", "stacked_time", )

    section("reversed (negative step) span")
    try:
        rev_span = q(2022, 4) >> q(2020, 1)
        rev_periods = tuple(rev_span)
        out("reversed", len(rev_periods))
        if rev_periods:
            swap_case("reversed", m, rev_span, shocks_1, targets_1, instruments_1, "unanticipated", "first_order", )
    except Exception as exc:
        out("reversed", "EXCEPTION", type(exc).__name__)
    try:
        rev_span = ir.Span(q(2022, 4), q(2020, 1), -1)
        rev_periods = tuple(rev_span)
        out("reversed-step", len(rev_periods))
        swap_case("reversed-step", m, rev_span, shocks_1, targets_1, instruments_1, "unanticipated", "first_order", )
    except Exception as exc:
        out("reversed-step", "EXCEPTION", type(exc).__name__)

    section("linear model flag, short span, prepend and terminal options")
    ml = create_model(linear=True, )
    short = q(2020, 1) >> q(2020, 2)
    shocks_s = {("ey", q(2020, 1)): 0.5, ("ant_ea", q(2020, 2)): 0.1}
    swap_case("linear:short:unant", ml, short, {("ey", q(2020, 1)): 0.5}, (("y", q(2020, 1)), ), (("ey", q(2020, 1)), ), "unanticipated", "first_order", )
    swap_case("linear:short:ant", ml, short, {("ant_ea", q(2020, 2)): 0.1}, (("y", q(2020, 2)), ), (("ant_ea", q(2020, 2)), ), "anticipated", "first_order", )
    swap_case("one-period", m, q(2020, 1) >> q(2020, 1), {("ey", q(2020, 1)): 0.5}, (("pi", q(2020, 1)), ), (("ey", q(2020, 1)), ), "unanticipated", "stacked_time", )
    swap_case("keep-terminal", m, span, shocks_2, targets_2, instruments_2, "anticipated", "first_order", remove_terminal=False, remove_initial=False, prepend_input=False, )

    text = "\n".join(_LINES)
    print("DIGEST", hashlib.sha256(text.encode("utf-8")).hexdigest())
    if os.environ.get("BEHAVIOUR_EXACT"):
        # Optional bit-exact hash of all unrounded numbers (off by default
        # because it is sensitive to BLAS threading noise across machines)
        print("EXACT", _EXACT.hexdigest())


if __name__ == "__main__":
    main()

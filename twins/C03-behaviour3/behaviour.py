r"""
Behaviour digest for C03 (Kalman filter, smoother, likelihood) and the
supporting code (solution matrices, unconditional covariances, conditional
simulation, stacked-time terminal condition, reduced-form VAR companion
solution).

Run as
    cd /tmp/wt2/C03 && PYTHONPATH=/tmp/wt2/C03/src /venv/bin/python /tmp/twin3_out/C03/behaviour.py
The output is deterministic.
"""

import hashlib
import os
import sys
import warnings

import numpy as np

warnings.filterwarnings("ignore")

import irispie as ir
from irispie.fords import covariances as cv
from irispie.fords import kalmans as km
from irispie.fords import solutions as sl
from irispie.fords import simulators as sm


_LINES = []

# Set BEHAVIOUR_EXACT=1 to add bit-exact hashes of all arrays to the digest
_EXACT = os.environ.get("BEHAVIOUR_EXACT", "") == "1"


import contextlib
import io


@contextlib.contextmanager
def quiet():
    with contextlib.redirect_stdout(io.StringIO()):
        yield


def out(*args):
    line = " ".join(str(a) for a in args)
    _LINES.append(line)
    print(line)


def fmt_array(x, digits=9):
    if x is None:
        return "None"
    x = np.asarray(x)
    if x.dtype == bool:
        return "bool" + str(x.shape) + ":" + "".join("1" if i else "0" for i in x.ravel())
    if np.iscomplexobj(x):
        x = np.stack((x.real, x.imag), axis=-1)
    x = np.asarray(x, dtype=float)
    y = np.round(x, digits) + 0.0
    body = ",".join(
        "nan" if np.isnan(v) else ("inf" if np.isposinf(v) else ("-inf" if np.isneginf(v) else f"{v:.{digits}g}"))
        for v in y.ravel()
    )
    exact = (":x" + hashlib.md5(np.ascontiguousarray(x).tobytes()).hexdigest()[:12]) if _EXACT else ""
    return f"{x.dtype}{x.shape}:" + hashlib.md5(body.encode()).hexdigest()[:12] + exact + ":" + body[:60]


def fmt_any(x, digits=8):
    if isinstance(x, (list, tuple)):
        return type(x).__name__ + "[" + " | ".join(fmt_any(i, digits) for i in x) + "]"
    return fmt_array(x, digits)


def fmt_series(s, span, digits=8):
    try:
        data = s.get_data(span)
    except Exception as exc:
        return "ERR " + type(exc).__name__
    return fmt_array(data, digits)


def digest_databox(tag, db, span, digits=8):
    if db is None:
        out(tag, "None")
        return
    for name in sorted(db.keys()):
        value = db[name]
        if isinstance(value, ir.Series):
            out(tag, name, fmt_series(value, span, digits))
        elif isinstance(value, ir.Databox) or isinstance(value, dict):
            digest_databox(tag + "." + name, value, span, digits)
        elif isinstance(value, (list, tuple)):
            out(tag, name, fmt_any(value, digits))
        else:
            out(tag, name, type(value).__name__, repr(value)[:80])


def digest_info(tag, info, span, digits=8):
    if isinstance(info, list):
        for i, x in enumerate(info):
            digest_info(f"{tag}[v{i}]", x, span, digits)
        return
    for k in sorted(info.keys()):
        v = info[k]
        if isinstance(v, ir.Series):
            out(tag, k, fmt_series(v, span, digits))
        else:
            out(tag, k, type(v).__name__, f"{float(v):.10g}")


# ---------------------------------------------------------------------------
# Models
# ---------------------------------------------------------------------------

STATIONARY = r"""
!transition_variables
    x, z, q
!log_variables
    q
!transition_shocks
    ex, ez, eq
!parameters
    rx, rz, c, ss_x, rq
!transition_equations
    x = (1-rx)*ss_x + rx*x{-1} + c*z{-1} + 0.2*z{+1} + ex;
    z = rz*z{-1} + 0.1*x{-2} + ez;
    log(q) = rq*log(q{-1}) + (1-rq)*log(2) + 0.3*z + eq;
!measurement_variables
    ox, oz, oq, osum
!log_variables
    oq
!measurement_shocks
    wx, wz
!measurement_equations
    ox = x + wx;
    oz = z + 0.5*x + wz;
    log(oq) = log(q);
    osum = x + z;
"""

UNIT_ROOT = r"""
!transition_variables
    lvl, g, cyc
!transition_shocks
    e_lvl, e_g, e_cyc
!parameters
    rg, rc, ss_g
!transition_equations
    lvl = lvl{-1} + g + e_lvl;
    g = rg*g{-1} + (1-rg)*ss_g + e_g;
    cyc = rc*cyc{-1} + 0.2*cyc{-2} + e_cyc;
!measurement_variables
    obs_y, obs_g
!measurement_shocks
    w_y
!measurement_equations
    obs_y = lvl + cyc + w_y;
    obs_g = g + 0.1*cyc;
"""


def make_stationary(num_variants=1):
    m = ir.Simultaneous.from_string(STATIONARY, linear=False, )
    m.assign(
        rx=0.8, rz=0.5, c=0.1, ss_x=1.5, rq=0.7,
        std_ex=0.9, std_ez=0.4, std_eq=0.1, std_wx=0.3, std_wz=0.2,
        x=1.5, z=0, q=2, ox=1.5, oz=0.75, oq=2, osum=1.5,
    )
    if num_variants > 1:
        m.alter_num_variants(num_variants)
        m.assign(rx=[0.8, 0.3, -0.4][:num_variants], std_ex=[0.9, 1.2, 0.1][:num_variants], )
    with quiet():
        m.steady()
    m.solve()
    return m


def make_unit_root():
    m = ir.Simultaneous.from_string(UNIT_ROOT, linear=True, )
    m.assign(
        rg=0.6, rc=0.5, ss_g=0.4,
        std_e_lvl=0.3, std_e_g=0.2, std_e_cyc=0.7, std_w_y=0.25,
    )
    m.solve()
    return m


# ---------------------------------------------------------------------------
# Data
# ---------------------------------------------------------------------------

def make_data(names_logly, start, num_periods, seed, missing="random", step=1):
    rng = np.random.default_rng(seed)
    span = [start + step * i for i in range(num_periods)] if step > 0 else [start - (-step) * i for i in range(num_periods)]
    db = ir.Databox()
    for j, (name, logly) in enumerate(names_logly):
        values = rng.standard_normal(num_periods) * 0.8 + 1.0 + 0.05 * j
        if logly:
            values = np.exp(0.2 * values)
        if missing == "random":
            mask = rng.random(num_periods) < 0.35
            values[mask] = np.nan
        elif missing == "block":
            values[2:5] = np.nan
            if j % 2:
                values[-2:] = np.nan
        elif missing == "all":
            values[:] = np.nan
        elif missing == "none":
            pass
        db[name] = ir.Series(periods=span, values=tuple(values.tolist()), )
    return db, span


# ---------------------------------------------------------------------------
# Sections
# ---------------------------------------------------------------------------

def section_solution(tag, m):
    out("==", tag, "solution")
    variants = list(m.iter_own_variants())
    for vid, mv in enumerate(variants):
        for deviation in (False, True):
            s = mv._gets_solution(deviation=deviation, )
            pre = f"{tag}.v{vid}.dev{int(deviation)}"
            out(pre, "nums", s.num_xi, s.num_alpha, s.num_y, s.num_u, s.num_v, s.num_w, s.num_unit_roots, s.num_stable)
            out(pre, "Ta_stable", fmt_array(s.Ta_stable))
            out(pre, "Pa_stable", fmt_array(s.Pa_stable))
            out(pre, "Ka_stable", fmt_array(s.Ka_stable))
            out(pre, "Za_stable", fmt_array(s.Za_stable))
            out(pre, "views", s.Ta_stable.base is s.Ta or s.num_unit_roots == 0, np.shares_memory(s.Ta_stable, s.Ta), np.shares_memory(s.Pa_stable, s.Pa), np.shares_memory(s.Ka_stable, s.Ka), np.shares_memory(s.Za_stable, s.Za))
            sq = s.unpack_square_solution()
            tr = s.unpack_triangular_solution()
            out(pre, "square", type(sq).__name__, len(sq), " | ".join(fmt_array(i) for i in sq))
            out(pre, "triangular", type(tr).__name__, len(tr), " | ".join(fmt_array(i) for i in tr))
            out(pre, "square_identity", [a is b for a, b in zip(sq, (s.T, s.P, s.K, s.Z, s.H, s.D, None))])
            out(pre, "triangular_identity", [a is b for a, b in zip(tr, (s.Ta, s.Pa, s.Ka, s.Za, s.H, s.D, s.Ua))])
            out(pre, "measurement_vector_stability", [str(i) for i in s.measurement_vector_stability], type(s.measurement_vector_stability).__name__)
            out(pre, "transition_vector_stability", [str(i) for i in s.transition_vector_stability])
            out(pre, "boolex_y", fmt_array(s.boolex_stable_measurement_vector))
            # Reclassify with different tolerances on a copy
            c = s.copy()
            for tol in (1e-12, 1e-3, 0.5, 10.0):
                r = c._classify_measurement_vector_stability(tolerance=tol, )
                out(pre, "reclassify", tol, r, [str(i) for i in c.measurement_vector_stability])


def section_covariances(tag, m):
    out("==", tag, "covariances")
    for vid, mv in enumerate(m.iter_own_variants()):
        s = mv._gets_solution(deviation=False, )
        cov_u = mv._gets_cov_transition_shocks()
        num_w = s.num_w
        cov_w_list = [
            np.diag(np.linspace(0.1, 0.4, num_w)**2) if num_w else np.zeros((0, 0)),
            np.zeros((num_w, num_w)),
        ]
        cov_u_list = [cov_u, np.diag(np.linspace(0.5, 1.5, cov_u.shape[0])**2), np.zeros_like(cov_u)]
        pre = f"{tag}.v{vid}"
        for iu, cu in enumerate(cov_u_list):
            a = cv.get_cov_alpha_00(s, cu, )
            out(pre, f"cov_alpha_00[{iu}]", fmt_array(a), a.flags["WRITEABLE"], a.flags["OWNDATA"])
            for iw, cw in enumerate(cov_w_list):
                t = cv.get_cov_triangular_00(s, cu, cw, )
                out(pre, f"cov_triangular_00[{iu},{iw}]", fmt_array(t))
                for order in (0, 1, 3):
                    ac = cv.get_autocov_triangular_00(s, cu, cw, order, )
                    out(pre, f"autocov_triangular_00[{iu},{iw},{order}]", type(ac).__name__, len(ac), " | ".join(fmt_array(i) for i in ac))
                    out(pre, "first_is_fresh", all(ac[i] is not ac[j] for i in range(len(ac)) for j in range(i)))
                    sq = cv.get_autocov_square(s, cu, cw, order, )
                    out(pre, f"autocov_square[{iu},{iw},{order}]", " | ".join(fmt_array(i) for i in sq))
        # The solution must not be mutated by the covariance functions
        out(pre, "Ta_after", fmt_array(s.Ta), "Za_after", fmt_array(s.Za))
    for up_to_order in (0, 2):
        acov = m.get_acov(up_to_order=up_to_order, )
        acov_list = acov if isinstance(acov, list) else [acov]
        for vid, a in enumerate(acov_list):
            values = a[0] if isinstance(a, tuple) and len(a) == 2 and not isinstance(a[0], np.ndarray) else a
            out(tag, f"get_acov[{up_to_order}].v{vid}", " | ".join(fmt_array(i) for i in values))


def run_filter(tag, m, db, span, digits=8, **kwargs):
    try:
        result = m.kalman_filter(db, span, return_info=True, **kwargs)
    except Exception as exc:
        out(tag, "EXC", type(exc).__name__, str(exc)[:100])
        return
    out_db, info = result
    ext = list(span)
    ext_span = ext
    digest_info(tag + ".info", info, ext_span, digits)
    if out_db is None:
        out(tag, "out None")
        return
    # include prepended / appended periods
    lo, hi = min(ext[0], ext[-1]), max(ext[0], ext[-1])
    wide = [lo - 3 + i for i in range((hi - lo) + 7)] if isinstance((hi - lo), int) else ext
    digest_databox(tag + ".out", out_db, wide, digits)


def section_kalman_stationary():
    out("== kalman stationary")
    m = make_stationary()
    names = (("ox", False), ("oz", False), ("oq", True), ("osum", False))
    start = ir.qq(2020, 1)
    for missing in ("random", "block", "none", "all"):
        db, span = make_data(names, start, 12, seed=11, missing=missing)
        sp = span[0] >> span[-1]
        for deviation in (False, True):
            for rescale in (False, True):
                tag = f"KS.{missing}.dev{int(deviation)}.resc{int(rescale)}"
                run_filter(tag, m, db, sp, deviation=deviation, rescale_variance=rescale, )
    # Time varying stds and shocks from data
    db, span = make_data(names, start, 12, seed=5, missing="random")
    sp = span[0] >> span[-1]
    db["std_ex"] = ir.Series(periods=span[3:7], values=(2.0, 0.0, 3.5, 0.1, ), )
    db["std_wx"] = ir.Series(periods=span[0:2], values=(0.0, 1.7, ), )
    db["std_ez"] = ir.Series(periods=span[5:6], values=(4.0, ), )
    db["ex"] = ir.Series(periods=span[2:4], values=(0.5, -0.25, ), )
    db["ant_ex"] = ir.Series(periods=span[4:7], values=(0.3, 0, -0.6, ), )
    db["wz"] = ir.Series(periods=span[1:2], values=(0.2, ), )
    for stds_from_data in (False, True):
        for shocks_from_data in (False, True):
            tag = f"KS.tv.std{int(stds_from_data)}.shk{int(shocks_from_data)}"
            run_filter(tag, m, db, sp, stds_from_data=stds_from_data, shocks_from_data=shocks_from_data, )
    run_filter("KS.prepend", m, db, sp, prepend_initial=True, append_terminal=True, stds_from_data=True, )
    run_filter("KS.only_smooth", m, db, sp, return_predict=False, return_update=False, )
    run_filter("KS.only_update", m, db, sp, return_predict=False, return_smooth=False, return_predict_err=False, return_predict_mse_obs=False, )
    run_filter("KS.only_predict", m, db, sp, return_update=False, return_smooth=False, likelihood_contributions=False, )
    run_filter("KS.nothing", m, db, sp, return_predict=False, return_update=False, return_smooth=False, return_predict_err=False, return_predict_mse_obs=False, )
    run_filter("KS.check_sing", m, db, sp, check_singularity=True, when_singularity="silent", )
    run_filter("KS.approx_diffuse", m, db, sp, diffuse_method="approx_diffuse", )
    run_filter("KS.fixed_zero", m, db, sp, diffuse_method="fixed_zero", )
    out("KS.nll", f"{m.neg_log_likelihood(db, sp, ):.10g}", f"{m.neg_log_likelihood(db, sp, stds_from_data=True, deviation=True, ):.10g}")
    # Shorter and single-period spans
    run_filter("KS.one_period", m, db, span[4] >> span[4], )
    run_filter("KS.two_periods", m, db, span[8] >> span[9], rescale_variance=True, )
    # Other frequencies
    for label, st in (("mm", ir.mm(2021, 11)), ("yy", ir.yy(1999)), ("dd", ir.dd(2024, 2, 25)), ("ii", ir.ii(-3))):
        dbf, spanf = make_data(names, st, 9, seed=23, missing="random")
        run_filter(f"KS.freq.{label}", m, dbf, spanf[0] >> spanf[-1], )


def section_kalman_variants():
    out("== kalman variants")
    m = make_stationary(num_variants=3)
    section_solution("MV", m)
    section_covariances("MV", m)
    names = (("ox", False), ("oz", False), ("oq", True), ("osum", False))
    db, span = make_data(names, ir.qq(2010, 3), 10, seed=3, missing="random")
    sp = span[0] >> span[-1]
    run_filter("KV.base", m, db, sp, )
    run_filter("KV.resc", m, db, sp, rescale_variance=True, deviation=True, )
    run_filter("KV.unpack0", m, db, sp, unpack_singleton=False, num_variants=2, )


def section_kalman_unit_root():
    out("== kalman unit root")
    m = make_unit_root()
    section_solution("UR", m)
    section_covariances("UR", m)
    names = (("obs_y", False), ("obs_g", False))
    for missing in ("random", "block", "none", "all"):
        db, span = make_data(names, ir.qq(2015, 2), 14, seed=8, missing=missing)
        raw_y = np.asarray(db["obs_y"].get_data(span)).ravel()
        trended_y = np.cumsum(np.nan_to_num(raw_y, nan=0.4)) + np.where(np.isnan(raw_y), np.nan, 0)
        db["obs_y"] = ir.Series(periods=span, values=tuple(trended_y.tolist()), )
        sp = span[0] >> span[-1]
        for method in ("fixed_unknown", "approx_diffuse", "fixed_zero"):
            for deviation in (False, True):
                for rescale in (False, True):
                    tag = f"KU.{missing}.{method}.dev{int(deviation)}.resc{int(rescale)}"
                    digits = 4 if method == "approx_diffuse" else 8
                    run_filter(tag, m, db, sp, digits=digits, diffuse_method=method, deviation=deviation, rescale_variance=rescale, )
    db, span = make_data(names, ir.qq(2015, 2), 14, seed=9, missing="random")
    sp = span[0] >> span[-1]
    db["std_e_lvl"] = ir.Series(periods=span[2:6], values=(1.0, 0.0, 2.0, 0.5, ), )
    db["std_w_y"] = ir.Series(periods=span[6:9], values=(0.0, 0.0, 1.0, ), )
    db["e_g"] = ir.Series(periods=span[1:3], values=(0.3, -0.3, ), )
    run_filter("KU.tv", m, db, sp, stds_from_data=True, shocks_from_data=True, )
    run_filter("KU.only_predict", m, db, sp, return_update=False, return_smooth=False, )
    run_filter("KU.only_smooth", m, db, sp, return_update=False, return_predict=False, )
    run_filter("KU.prepend", m, db, sp, prepend_initial=True, append_terminal=True, )
    run_filter("KU.diffuse_scale", m, db, sp, digits=4, diffuse_method="approx_diffuse", diffuse_scale=1e4, )


def section_cache_level():
    r"""
    Drive correct_for_unknown_init and update directly on a hand-made cache,
    including aliasing of in-place updated arrays
    """
    out("== cache level")
    rng = np.random.default_rng(77)
    num_periods = 5
    for with_store in (False, True):
        cache = km.Cache(num_periods=num_periods, )
        cache.unknown_init_estimate = rng.standard_normal(2)
        keep = {"a0": [], "y0": [], "pe": []}
        for t in range(num_periods):
            ny = (3, 0, 1, 2, 0)[t]
            cache.all_a0[t] = rng.standard_normal(4)
            cache.all_Xi[t] = rng.standard_normal((4, 2))
            cache.all_M[t] = rng.standard_normal((ny, 2))
            cache.all_y0[t] = rng.standard_normal(ny)
            cache.all_pe[t] = rng.standard_normal(ny)
            keep["a0"].append(cache.all_a0[t])
            keep["y0"].append(cache.all_y0[t])
            keep["pe"].append(cache.all_pe[t])
        calls = []
        def store_predict(**kwargs):
            calls.append((sorted(kwargs.keys()), kwargs["t"], kwargs["a0"] is cache.all_a0[kwargs["t"]], kwargs["y0"] is cache.all_y0[kwargs["t"]], fmt_array(kwargs["a0"]), fmt_array(kwargs["y0"])))
        r = km.correct_for_unknown_init(cache=cache, store_predict=store_predict if with_store else None, )
        out("CL.correct", with_store, r, len(calls))
        for c in calls:
            out("CL.correct.call", *c)
        for t in range(num_periods):
            out("CL.correct.t", t,
                fmt_array(cache.all_a0[t]), fmt_array(cache.all_y0[t]), fmt_array(cache.all_pe[t]),
                cache.all_a0[t] is keep["a0"][t], cache.all_y0[t] is keep["y0"][t], cache.all_pe[t] is keep["pe"][t],
            )
    # update() on a real cache produced by predict()
    m = make_unit_root()
    mv = next(iter(m.iter_own_variants()))
    s = mv._gets_solution(deviation=False, )
    for store_flag in (True, False):
        num_periods = 6
        y = rng.standard_normal((2, num_periods))
        y[0, 1] = np.nan
        y[:, 3] = np.nan
        from irispie.simultaneous import _kalmans as sk
        import functools as ft
        gps = ft.partial(
            sk._generate_period_system, solution_v=s, y1_array=y,
            std_u_array=np.full((3, num_periods), 0.5), std_w_array=np.full((1, num_periods), 0.2),
            all_v_impact=None,
        )
        gpd = ft.partial(
            sk._generate_period_data, y_array=y,
            u_array=np.zeros((3, num_periods)), v_array=np.zeros((0, num_periods)), w_array=np.zeros((1, num_periods)),
        )
        from irispie.fords import initializers as ini
        initials = ini.initialize(s, np.diag([0.25, 0.25, 0.25]), )
        upd_calls = []
        def store_update(**kwargs):
            upd_calls.append(" ".join(
                f"{k}=" + (str(v) if k == "t" else fmt_array(v)) for k, v in kwargs.items()
            ))
        cache = km.predict(
            num_periods=num_periods, initials=initials,
            partial_generate_period_system=gps, partial_generate_period_data=gpd,
            store_update=store_update,
        )
        upd_calls.clear()
        km.estimate_unknown_init(cache=cache, )
        km.correct_for_unknown_init(cache=cache, store_predict=None, )
        r = km.update(cache=cache, store_update=store_update if store_flag else None, )
        out("CL.update", store_flag, r, len(upd_calls))
        for c in upd_calls:
            out("CL.update.call", c)


def section_conditional_simulation():
    r"""
    Conditional (Kalman-based) simulation uses fords.simulators._generate_period_system
    """
    out("== conditional simulation")
    m = make_stationary()
    start = ir.qq(2021, 1)
    span = start >> start + 7
    db = ir.Databox.steady(m, span, )
    wide = [start - 3 + i for i in range(14)]
    cases = {}
    #
    p = ir.PlanSimulate(m, span, )
    p.exogenize_unanticipated(start + 1, "x", )
    p.endogenize_unanticipated(start + 1, "ex", )
    p.exogenize_unanticipated(start + 3 >> start + 4, "z", )
    p.endogenize_unanticipated(start + 3 >> start + 4, ("ez", "ex"), )
    cases["unant"] = p
    #
    p = ir.PlanSimulate(m, span, )
    p.exogenize_anticipated(start + 2, "x", )
    p.endogenize_anticipated(start + 1 >> start + 2, "ant_ex", )
    cases["ant"] = p
    #
    p = ir.PlanSimulate(m, span, )
    p.exogenize_unanticipated(start + 2, "x", )
    p.endogenize_unanticipated(start + 2, "ex", )
    p.exogenize_anticipated(start + 4, "x", )
    p.endogenize_anticipated(start + 3 >> start + 4, "ant_ex", )
    cases["mixed"] = p
    #
    for label, plan in cases.items():
        d = db.copy()
        d["x"][start + 1] = 2.5
        d["x"][start + 2] = 0.7
        d["x"][start + 4] = 1.9
        d["z"][start + 3] = 0.4
        d["z"][start + 4] = -0.2
        d["ex"][start] = 0.3
        d["ant_ex"][start + 6] = 0.2
        for method in ("first_order", ):
            for deviation in (False, ):
                try:
                    with quiet():
                        sim = m.simulate(d, span, plan=plan, method=method, deviation=deviation, )
                    digest_databox(f"CS.{label}.dev{int(deviation)}", sim, wide)
                except Exception as exc:
                    out(f"CS.{label}", "EXC", type(exc).__name__, str(exc)[:120])
    # Direct calls
    mv = next(iter(m.iter_own_variants()))
    s = mv._gets_solution(deviation=False, )
    num_xi = s.num_xi
    nper = 4
    Z_xi = np.eye(3, num_xi)
    cxe = np.full((3, nper), np.nan)
    cxe[0, 1] = 1.0
    cxe[2, 1] = 2.0
    cxe[1, 3] = 0.5
    std_u = np.arange(1, 1 + s.num_u * nper, dtype=float).reshape(s.num_u, nper) / 10
    std_w = np.arange(1, 1 + s.num_w * nper, dtype=float).reshape(s.num_w, nper) / 7
    Rx = s.expand_square_solution(nper - 1, )
    num_v = Rx[0].shape[1]
    inc_list = {
        "none": None,
        "allfalse": np.zeros((num_v, nper), dtype=bool),
        "some": np.array([[False, True, True, False]] * num_v, dtype=bool),
    }
    for ilabel, inc in inc_list.items():
        for vlabel, all_v_impact in (("vnone", [None] * nper), ("vsome", [None, np.arange(num_xi, dtype=float), None, np.ones(num_xi)])):
            for cx_label, cx in (("cx", cxe), ("cxnone", None)):
                for t in range(nper):
                    try:
                        res = sm._generate_period_system(
                            t, solution=s, Z_xi=Z_xi, curr_xi_exogenized=cx,
                            std_u_endogenized=std_u, std_w_endogenized=std_w, std_v_endogenized=None,
                            all_v_impact=all_v_impact, incidence_v=inc, Rx=Rx,
                        )
                        out("GPS", ilabel, vlabel, cx_label, t, type(res).__name__, len(res), " | ".join(fmt_array(i) for i in res), res[0] is s.T, res[1] is s.P, res[2] is s.K)
                    except Exception as exc:
                        out("GPS", ilabel, vlabel, cx_label, t, "EXC", type(exc).__name__, str(exc)[:100])


def section_terminator():
    r"""
    Stacked-time simulation with first-order terminal condition
    """
    out("== terminator")
    from irispie.fords.terminators import Terminator
    m = make_stationary()
    start = ir.qq(2021, 1)
    span = start >> start + 5
    wide = [start - 3 + i for i in range(12)]
    db = ir.Databox.steady(m, span, )
    db["ex"][start] = 0.5
    db["ant_ex"][start + 3] = -0.4
    try:
        with quiet():
            sim = m.simulate(db, span, method="stacked_time", when_fails="silent", )
        digest_databox("TS.stacked", sim, wide, digits=6)
    except Exception as exc:
        out("TS.stacked", "EXC", type(exc).__name__, str(exc)[:120])
    mv = next(iter(m.iter_own_variants()))
    eqs = tuple(m.get_dynamic_equations() if hasattr(m, "get_dynamic_equations") else ())
    try:
        from irispie import equations as eq
        wrt = [e for e in m._invariant.dynamic_equations if e.kind in eq.EquationKind.TRANSITION_EQUATION]
        for cols in ((3, 4, 5), (2, ), (4, 5, 6, 7, 8)):
            t = Terminator(mv, cols, wrt, )
            out("TT", cols, [str(i) for i in t.terminal_wrt_spots], t._first_terminal, t._max_lead, t._curr_xi_qids,
                fmt_array(t._curr_TT), fmt_array(t._curr_KK), t._terminal_columns, t._terminal_column_index,
                [str(i) for i in t._terminit_spots], t._num_terminal_wrt_spots, t._logly_rows,
                [str(i) for i in t._transition_vector], t.terminal_jacobian_map, t._terminal_jacobian_map_completed,
                sorted(vars(t).keys()))
    except Exception as exc:
        out("TT", "EXC", type(exc).__name__, str(exc)[:160])


def section_red_var():
    out("== red var")
    rng = np.random.default_rng(31)
    n = 60
    start = ir.qq(2000, 1)
    span = [start + i for i in range(n)]
    a = np.zeros(n)
    b = np.zeros(n)
    for t in range(2, n):
        a[t] = 0.5 * a[t-1] - 0.1 * b[t-2] + rng.standard_normal() + 0.3
        b[t] = 0.3 * b[t-1] + 0.2 * a[t-1] + 0.5 * rng.standard_normal()
    db = ir.Databox()
    db["a"] = ir.Series(periods=span, values=tuple(a.tolist()), )
    db["b"] = ir.Series(periods=span, values=tuple(b.tolist()), )
    for order, intercept in ((2, True), (1, False)):
        try:
            v = ir.RedVAR(["a", "b"], order=order, intercept=intercept, )
        except TypeError:
            v = ir.RedVAR(["a", "b"], order=order, )
        v.estimate(db, span[4] >> span[-1], omit_missing=True, )
        for variant in v._variants:
            for deviation in (False, True):
                s = variant._get_companion_solution(deviation=deviation, )
                out("RV", order, deviation, type(s).__name__,
                    fmt_array(s.T), fmt_array(s.P), fmt_array(s.K),
                    [n_ for n_ in s.__slots__ if getattr(s, n_) is not None],
                    s.T is variant.companion_T)
            s = variant._get_companion_solution()
            out("RV.default", fmt_array(s.K))
        sim_span = span[-1] + 1 >> span[-1] + 6
        try:
            sim = v.simulate(db, sim_span, prepend_input=False, )
            sim = sim[0] if isinstance(sim, tuple) else sim
            digest_databox(f"RV.sim{order}", sim, [span[-1] - 2 + i for i in range(10)])
        except Exception as exc:
            out("RV.sim", "EXC", type(exc).__name__, str(exc)[:120])
        ac = v.get_acov(up_to_order=1, )
        out("RV.acov", order, " | ".join(fmt_array(i) for i in (ac[0] if isinstance(ac, list) else ac)))


def main():
    section_solution("ST", make_stationary())
    section_covariances("ST", make_stationary())
    section_kalman_stationary()
    section_kalman_variants()
    section_kalman_unit_root()
    section_cache_level()
    section_conditional_simulation()
    section_terminator()
    section_red_var()
    digest = hashlib.sha256("\n".join(_LINES).encode()).hexdigest()
    print("TOTAL LINES", len(_LINES))
    print("DIGEST", digest)


if __name__ == "__main__":
    main()

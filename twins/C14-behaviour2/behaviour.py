"""
Deterministic digest of the public behaviour behind property C14
(hpf / hpf_trend / hpf_gap / lonf and the encompassing-span helpers).

Run with
    cd /tmp/wt2/C14 && PYTHONPATH=/tmp/wt2/C14/src /venv/bin/python /tmp/twin2_out/C14/behaviour.py
"""

import hashlib
import numpy as np
import irispie as ir
from irispie import dates as _dates
from irispie.series import _hp


LINES = []


def emit(label, *things):
    LINES.append(label + " :: " + " | ".join(str(t) for t in things))


def fmt_array(x):
    x = np.asarray(x, dtype=float)
    return repr(x.shape) + " " + repr(np.round(x, 9).tolist())


def fmt_series(s):
    return "start=%r end=%r nv=%r data=%s" % (
        str(s.start) if s.start is not None else None,
        str(s.end) if s.end is not None else None,
        s.num_variants,
        fmt_array(s.data),
    )


def attempt(label, func):
    try:
        func()
    except Exception as exc:
        emit(label, "EXCEPTION", type(exc).__name__, str(exc)[:200])


def make_data(n, seed, nv=1):
    rng = np.random.default_rng(seed)
    t = np.arange(n, dtype=float).reshape(-1, 1)
    base = 10 + 0.3 * t + np.sin(t / 3.0)
    return base + rng.standard_normal((n, nv))


STARTS = {
    "yy": ir.yy(2001),
    "hh": ir.hh(2001, 2),
    "qq": ir.qq(2001, 3),
    "mm": ir.mm(2001, 11),
    "dd": ir.dd(2001, 12, 25),
    "ii": ir.ii(5),
}


def hp_cases():
    for name, start in STARTS.items():
        for nv in (1, 3):
            n = 17
            data = make_data(n, 7 + nv, nv)
            # interior missing observations
            data[4, 0] = np.nan
            data[9:11, -1] = np.nan
            x = ir.Series(start=start, values=data)
            end = start + n - 1
            level = ir.Series(periods=(start + 3, start + 12), values=(11.5, 14.25))
            change = ir.Series(periods=(start, start + 6, start + 15), values=(0.1, 0.35, 0.2))
            gross = ir.Series(periods=(start + 6, start + 15), values=(1.02, 1.01))
            spans = {
                "none": None,
                "dots": ...,
                "inside": start + 2 >> start + 10,
                "beyond": start - 3 >> end + 4,
                "left": start - 5 >> start + 4,
                "reversed": ir.Span(start + 12, start + 1, -1),
                "tuple": (start + 5, start + 2, start + 8),
                "single": (start + 6, ),
            }
            for smooth in (None, 0.5, 100, 1600.0):
                for log in (False, True):
                    for cname, kw in (
                        ("plain", {}),
                        ("level", {"level": level}),
                        ("change", {"change": gross if log else change}),
                        ("both", {"level": level, "change": gross if log else change}),
                    ):
                        for sname, span in spans.items():
                            if smooth in (0.5, 100) and sname not in ("none", "beyond", "inside"):
                                continue
                            label = f"hpf {name} nv={nv} smooth={smooth} log={log} {cname} span={sname}"
                            def run():
                                kwargs = dict(kw)
                                kwargs["log"] = log
                                if smooth is not None:
                                    kwargs["smooth"] = smooth
                                if sname != "none":
                                    kwargs["span"] = span
                                trend, gap = ir.hpf(x, **kwargs)
                                emit(label, "trend", fmt_series(trend))
                                emit(label, "gap", fmt_series(gap))
                                emit(label, "types", type(trend).__name__, type(gap).__name__)
                                # in-place methods
                                y = x.copy()
                                out = y.hpf_trend(**kwargs)
                                emit(label, "hpf_trend inplace", repr(out), fmt_series(y))
                                z = x.copy()
                                out = z.hpf_gap(**kwargs)
                                emit(label, "hpf_gap inplace", repr(out), fmt_series(z))
                                # functional forms of the in-place methods
                                ft = ir.hpf_trend(x, **kwargs)
                                fg = ir.hpf_gap(x, **kwargs)
                                emit(label, "functional", type(ft).__name__, fmt_series(ft), fmt_series(fg))
                                # the input must not be touched
                                emit(label, "input", fmt_series(x))
                            attempt(label, run)


def hp_special_cases():
    start = ir.qq(2010, 1)
    # straight line is returned unchanged
    line = ir.Series(start=start, values=tuple(2.0 + 0.75 * i for i in range(12)))
    attempt("line", lambda: emit("line", *(fmt_series(s) for s in ir.hpf(line, smooth=10))))
    # minimum length
    short = ir.Series(start=start, values=(1.0, 4.0, 2.0))
    attempt("short", lambda: emit("short", *(fmt_series(s) for s in ir.hpf(short))))
    # constraints beyond the data range extend the filter span
    x = ir.Series(start=start, values=make_data(10, 3, 2))
    level = ir.Series(periods=(start - 2, start + 13), values=(9.0, 15.0))
    attempt("extend", lambda: emit("extend", *(fmt_series(s) for s in ir.hpf(x, level=level))))
    attempt("extend-span", lambda: emit("extend-span", *(fmt_series(s) for s in ir.hpf(x, level=level, span=start - 4 >> start + 15))))
    attempt("extend-span2", lambda: emit("extend-span2", *(fmt_series(s) for s in ir.hpf(x, level=level, span=start + 1 >> start + 3))))
    # change constraint only in the first period gets removed entirely
    change0 = ir.Series(periods=(start, ), values=(0.5, ))
    attempt("change0", lambda: emit("change0", *(fmt_series(s) for s in ir.hpf(x, change=change0))))
    # positional arguments are not accepted
    attempt("positional", lambda: emit("positional", *(fmt_series(s) for s in ir.hpf(x, start >> start + 3))))
    def pos_inplace():
        y = x.copy()
        y.hpf_trend(start >> start + 3)
        emit("positional-inplace", fmt_series(y))
    attempt("positional-inplace", pos_inplace)
    # unknown keyword
    attempt("unknown-kw", lambda: emit("unknown-kw", *(fmt_series(s) for s in ir.hpf(x, foo=1))))
    # empty series
    empty = ir.Series()
    attempt("empty", lambda: emit("empty", *(fmt_series(s) for s in ir.hpf(empty))))
    attempt("empty-span", lambda: emit("empty-span", *(fmt_series(s) for s in ir.hpf(empty, span=start >> start + 3))))
    def empty_inplace():
        y = ir.Series()
        y.hpf_trend()
        emit("empty-inplace", fmt_series(y))
    attempt("empty-inplace", empty_inplace)
    # empty output span
    attempt("span-empty-tuple", lambda: emit("span-empty-tuple", *(fmt_series(s) for s in ir.hpf(x, span=()))))
    def span_empty_inplace():
        y = x.copy()
        y.hpf_gap(span=())
        emit("span-empty-inplace", fmt_series(y))
    attempt("span-empty-inplace", span_empty_inplace)
    # default smoothing table
    for f in ir.Frequency:
        attempt("default-smooth", lambda: emit("default-smooth", f.name, _hp._get_default_smooth(f)))
    # mixed-frequency constraint
    bad_level = ir.Series(periods=(ir.mm(2010, 5), ), values=(3.0, ))
    attempt("mixed-freq", lambda: emit("mixed-freq", *(fmt_series(s) for s in ir.hpf(x, level=bad_level))))
    # leading / trailing missing values
    data = make_data(12, 11, 1)
    data[:2, 0] = np.nan
    data[-1, 0] = np.nan
    data[5, 0] = np.nan
    y = ir.Series(start=ir.mm(2020, 1), values=data)
    attempt("edges-nan", lambda: emit("edges-nan", *(fmt_series(s) for s in ir.hpf(y, smooth=50))))
    attempt("edges-nan-log", lambda: emit("edges-nan-log", *(fmt_series(s) for s in ir.hpf(y, smooth=50, log=True, span=ir.mm(2019, 11) >> ir.mm(2021, 3)))))


def lonf_cases():
    for name in ("yy", "qq", "mm", "dd"):
        start = STARTS[name]
        for nv in (1, 2):
            x = ir.Series(start=start, values=make_data(14, 21 + nv, nv))
            for order in (1, 2):
                for smooth in (0.5, 5.0):
                    for sname, span in (("none", None), ("inside", start + 2 >> start + 11)):
                        label = f"lonf {name} nv={nv} order={order} smooth={smooth} span={sname}"
                        def run():
                            trend, gap = ir.lonf(x, order, smooth, span=span)
                            emit(label, "start", str(trend.start), str(gap.start))
                            emit(label, "trend", repr(np.round(trend.data, 6).tolist()))
                            emit(label, "gap", repr(np.round(gap.data, 6).tolist()))
                        attempt(label, run)


class _WithAttrs:
    def __init__(self, start_date, end_date):
        self.start_date = start_date
        self.end_date = end_date


class _OnlyStart:
    def __init__(self, start_date):
        self.start_date = start_date

    def __iter__(self):
        return iter((ir.qq(2030, 1), ir.qq(2031, 1)))


def fmt_span_result(result):
    span, start, end = result
    try:
        periods = tuple(str(p) for p in span)
    except Exception as exc:
        periods = "ITER-" + type(exc).__name__
    return "type=%s span=%r start=%r end=%r" % (
        type(result).__name__,
        periods,
        str(start) if start is not None else None,
        str(end) if end is not None else None,
    )


def span_cases():
    q = ir.qq(2005, 1)
    s1 = ir.Series(start=q, values=(1.0, 2.0, 3.0))
    s2 = ir.Series(start=q + 5, values=(1.0, 2.0))
    empty = ir.Series()
    gen_calls = []

    def gen():
        gen_calls.append(1)
        yield q + 20
        yield None
        yield q - 7

    cases = {
        "nothing": (),
        "all-none": (None, None),
        "one-series": (s1, ),
        "two-series": (s1, s2),
        "series-none": (None, s1, None, s2),
        "empty-series": (empty, ),
        "empty-and-series": (empty, s2),
        "tuple": ((q + 3, q - 2, q + 1), ),
        "tuple-with-none": ((None, q + 3, None, q - 2), ),
        "tuple-only-none": ((None, None), ),
        "empty-tuple": ((), ),
        "empty-tuple-and-series": ((), s1),
        "list-and-series": ([q + 10, q + 8], s1),
        "span": (q >> q + 4, ),
        "reversed-span": (ir.Span(q + 4, q, -1), s2),
        "number": (5, ),
        "number-and-series": (s1, 3.5),
        "string": ("abc", s1),
        "attrs": (_WithAttrs(q - 1, q + 9), ),
        "attrs-none": (_WithAttrs(None, None), s1),
        "attrs-half": (_WithAttrs(q - 1, None), _WithAttrs(None, q + 30)),
        "only-start": (_OnlyStart(q - 11), ),
        "series-level-change-span": (s1, s2, None, (q + 1, q + 2)),
        "daily": (ir.Series(start=ir.dd(2020, 2, 27), values=(1.0, 2.0, 3.0, 4.0)), (ir.dd(2020, 3, 5), )),
        "mixed-frequency": (s1, (ir.mm(2005, 3), )),
    }
    for name, args in cases.items():
        attempt("span " + name, lambda: emit("span " + name, fmt_span_result(_dates.get_encompassing_span(*args))))
        attempt("Span.encompassing " + name, lambda: emit("Span.encompassing " + name, repr(tuple(str(p) for p in ir.Span.encompassing(*args)))))
    attempt("span generator", lambda: emit("span generator", fmt_span_result(_dates.get_encompassing_span(gen(), s1))))
    attempt("span generator2", lambda: emit("span generator2", fmt_span_result(_dates.get_encompassing_span(s1, gen(), gen()))))
    attempt("Span.encompassing generator", lambda: emit("Span.encompassing generator", repr(tuple(str(p) for p in ir.Span.encompassing(gen(), s1)))))
    shared = gen()
    attempt("span shared generator", lambda: emit("span shared generator", fmt_span_result(_dates.get_encompassing_span(shared, shared, s2))))
    emit("generator calls", len(gen_calls))

    # private helper, called directly
    for name, something in (
        ("series", s1), ("empty", empty), ("tuple", (q + 3, None, q - 2)), ("none-tuple", (None, )),
        ("number", 7), ("attrs", _WithAttrs(q, q + 1)), ("only-start", _OnlyStart(q)), ("span", q >> q + 2),
    ):
        for attr_name, func in (("start_date", min), ("end_date", max)):
            def run():
                out = _dates._get_period(something, attr_name, func)
                emit("_get_period " + name + " " + attr_name, str(out) if out is not None else None)
            attempt("_get_period " + name + " " + attr_name, run)

    # callers of the encompassing span elsewhere in the series code
    attempt("hstack", lambda: emit("hstack", fmt_series(s1.hstack(s2, 4.0))))
    attempt("binop", lambda: emit("binop", fmt_series(s1 + s2), fmt_series(s2 - s1)))
    attempt("hstack-empty", lambda: emit("hstack-empty", fmt_series(empty.hstack(ir.Series()))))


def main():
    hp_cases()
    hp_special_cases()
    lonf_cases()
    span_cases()
    text = "\n".join(LINES)
    print(text)
    print("NUM LINES", len(LINES))
    print("SHA256", hashlib.sha256(text.encode("utf-8")).hexdigest())


if __name__ == "__main__":
    main()

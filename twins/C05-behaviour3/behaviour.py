"""
Behaviour digest for property C05 (steady state returned by solve_steady
satisfies the steady-state equations).

Run as
    cd /tmp/wt2/C05 && PYTHONPATH=/tmp/wt2/C05/src /venv/bin/python /tmp/twin3_out/C05/behaviour.py

Prints a deterministic digest; the last line is a SHA-256 of everything above.
"""

import sys
import io
import contextlib
import hashlib
import warnings

import numpy as np
import irispie as ir
from irispie.steadiers import evaluators as _ev
from irispie.steadiers import solver_dispatcher as _sd
from irispie.simultaneous import _steady as _st

warnings.simplefilter("ignore")

_LINES = []


def out(*args):
    line = " ".join(str(a) for a in args)
    _LINES.append(line)
    print(line)


def fmt(x, digits=8):
    if x is None:
        return "None"
    if isinstance(x, (list, tuple)):
        return "[" + ", ".join(fmt(i, digits) for i in x) + "]"
    if isinstance(x, np.ndarray):
        return fmt(x.tolist(), digits)
    if isinstance(x, (bool, np.bool_)):
        return str(bool(x))
    if isinstance(x, complex):
        return f"({fmt(x.real, digits)}+{fmt(x.imag, digits)}j)"
    try:
        x = float(x)
    except Exception:
        return repr(x)
    if x != x:
        return "nan"
    if x in (float("inf"), float("-inf")):
        return str(x)
    r = round(x, digits)
    if r == 0:
        r = 0.0
    return repr(r)


def quiet(func, *args, **kwargs):
    buf = io.StringIO()
    with contextlib.redirect_stdout(buf):
        result = func(*args, **kwargs)
    return result, buf.getvalue()


def digest_printed(text):
    # The iteration printer output is part of observable behaviour; keep a
    # compact digest of it (number of lines and hash of text)
    return f"lines={len(text.splitlines())} sha={hashlib.sha256(text.encode()).hexdigest()[:16]}"


def report_model(label, m, ):
    out(f"--- {label}")
    out("num_variants", m.num_variants, "is_singleton", m.is_singleton)
    qid_to_name = m.create_qid_to_name()
    for vid, v in enumerate(m._variants):
        for qid in sorted(qid_to_name.keys()):
            out(f"  v{vid} {qid_to_name[qid]}: level={fmt(v.levels[qid])} change={fmt(v.changes[qid])}")
    for switch in ("steady", "dynamic", ):
        try:
            (status, info), _ = quiet(
                m.check_steady,
                equation_switch=switch, when_fails="silent",
                return_info=True, unpack_singleton=False,
            )
            out(f"  check_steady[{switch}] status={status}")
            for vid, i in enumerate(info):
                out(f"    v{vid} discrepancies={fmt(i['discrepancies'], 10)}")
                out(f"    v{vid} failed_equations={i['failed_equations']}")
                out(f"    v{vid} failed_discrepancies_shape={i['failed_discrepancies'].shape}")
        except Exception as exc:
            out(f"  check_steady[{switch}] raised {type(exc).__name__}: {str(exc)[:200]}")


def run_steady(label, m, **kwargs):
    try:
        info, printed = quiet(m.steady, return_info=True, unpack_singleton=False, **kwargs)
    except Exception as exc:
        out(f"### {label}: steady raised {type(exc).__name__}: {str(exc)[:300]}")
        return None
    out(f"### {label}: printed {digest_printed(printed)}")
    for vid, info_v in enumerate(info or ()):
        if not info_v:
            out(f"  info v{vid}: {info_v!r}")
            continue
        out(f"  info v{vid}: success={info_v['success']} num_blocks={len(info_v['blocks'])}")
        for bid, b in enumerate(info_v["blocks"]):
            out(f"    b{bid}: success={b['success']} exit={b['exit_status']!r} eqs={tuple(b['equations'])} qs={tuple(b['quantities'])}")
    report_model(label, m)
    return info


# ------------------------------------------------------------------------------
# Model sources
# ------------------------------------------------------------------------------

RBC_GROWTH = r"""
!parameters
    alpha, beta, delta, gamma, rho

!transition-variables
    a, roc_a, y, c, i, k, h, w, r, c_to_y, i_to_y

!log-variables !all-but
    c_to_y, i_to_y

!transition-shocks
    shock_a, shock_c

!transition-equations
    log(roc_a) = rho*log(roc_a[-1]) + (1-rho)*log(alpha) + shock_a !! roc_a = alpha;
    c[+1]/c = beta*r*exp(shock_c);
    w = c;
    k = (1 - delta)*k[-1] + i;
    y = (a*h)^(1-gamma) * k[-1]^gamma;
    gamma*y = k[-1] * (r - 1 + delta);
    (1-gamma)*y = w * h;
    y = i + c;
    c_to_y = c / y;
    i_to_y = i / y;
    roc_a = a/a[-1];
"""

RBC_STATIONARY = r"""
!parameters
    alpha, beta, delta, gamma, rho

!transition-variables
    roc_a, yy, cc, ii, kk, h, ww, r, c_to_y, i_to_y

!log-variables !all-but
    c_to_y, i_to_y

!transition-shocks
    shock_a, shock_c

!transition-equations
    log(roc_a) = rho*log(roc_a[-1]) + (1-rho)*log(alpha) + shock_a !! roc_a = alpha;
    cc[+1]*roc_a[+1]/cc = beta*r*exp(shock_c);
    ww = cc;
    kk = (1 - delta)*kk[-1]/roc_a + ii;
    yy = h^(1-gamma) * (kk[-1]/roc_a)^gamma;
    gamma*yy = kk[-1]/roc_a * (r - 1 + delta);
    (1-gamma)*yy = ww * h;
    yy = ii + cc;
    c_to_y = cc / yy;
    i_to_y = ii / yy;

!measurement-variables
    obs_c_to_y

!measurement-equations
    obs_c_to_y = 100*c_to_y;
"""

LINEAR_DRIFT = r"""
!parameters
    g, rho, ss_x, kappa

!transition-variables
    x, z, dz, u

!transition-shocks
    eps_x, eps_z

!transition-equations
    x = rho*x[-1] + (1-rho)*ss_x + eps_x;
    z = z[-1] + g + kappa*(x[-1] - ss_x) + eps_z;
    dz = z - z[-1];
    u = 0.5*x[+1] + 0.25*z[-2];

!measurement-variables
    obs_x

!measurement-equations
    obs_x = x + 2*dz;
"""

NONLIN_AUTOVAL = r"""
!parameters
    a0, a1, target

!transition-variables
    p, q, s

!log-variables
    q

!transition-shocks
    e

!transition-equations
    p = a0 + a1*p[-1] + e;
    q = exp(0.1*p) * q[-1]^0.5;
    s = target - p + q[+1];

!steady-autovalues
    a0 = target*(1 - a1);
"""


PARAMETERS = dict(
    alpha=1.02**(1/4),
    beta=0.95**(1/4),
    gamma=0.40,
    delta=0.05,
    rho=0.8,
)


def main():

    # --------------------------------------------------------------------------
    # 1. Balanced growth, log-variables, nonflat, fixed level by plan
    # --------------------------------------------------------------------------
    m = ir.Simultaneous.from_string(RBC_GROWTH, )
    m.assign(**PARAMETERS, )
    m.assign(a=1, k=20, )
    p = ir.SteadyPlan(m, )
    p.fix_level(("a", ), )
    for split in (None, True, False, ):
        mm = m.copy()
        run_steady(f"rbc-growth fix a split={split}", mm, plan=p, split_into_blocks=split, )

    # Missing initial values everywhere except the fixed one
    mm = m.copy()
    mm.assign(k=None, )
    run_steady("rbc-growth missing inits", mm, plan=p, )

    # Fixed level as well as fixed change
    mm = m.copy()
    mm.assign(a=(2, PARAMETERS["alpha"]), )
    p2 = ir.SteadyPlan(mm, )
    p2.fix_level(("a", ), )
    p2.fix_change(("a", ), )
    run_steady("rbc-growth fix level+change a", mm, plan=p2, )

    # Steady paths built from the stored steady state
    mm = m.copy()
    run_steady("rbc-growth for paths", mm, plan=p, )
    for span in (ir.qq(2020, 1) >> ir.qq(2020, 4), ir.dd(2020, 2, 27) >> ir.dd(2020, 3, 2), ir.yy(2020) >> ir.yy(2022), ):
        try:
            db = mm.build_steady_paths(span, )
            for name in ("a", "k", "c_to_y", ):
                out("  path", name, str(db[name].start), fmt(db[name].get_data().flatten()))
        except Exception as exc:
            out("  build_steady_paths raised", type(exc).__name__, str(exc)[:200])

    # Blocks as reported by the model
    blocks = m.split_into_blocks(p, )
    for b in blocks:
        out("  human block", tuple(b.equations), tuple(b.quantities))

    # --------------------------------------------------------------------------
    # 2. Stationary, flat, several variants, with and without blocks, solvers
    # --------------------------------------------------------------------------
    n = ir.Simultaneous.from_string(RBC_STATIONARY, flat=True, )
    n.assign(**PARAMETERS, )
    n.assign(kk=20, )
    for split in (True, False, ):
        nn = n.copy()
        run_steady(f"rbc-stationary flat split={split}", nn, split_into_blocks=split, )

    nn = n.copy()
    nn.alter_num_variants(3, )
    nn.assign(gamma=[0.40, 0.35, 0.45], delta=[0.05, 0.03, 0.08], )
    run_steady("rbc-stationary flat 3 variants", nn, )

    nn = n.copy()
    run_steady(
        "rbc-stationary flat scipy_root", nn,
        solver="scipy_root",
    )
    nn = n.copy()
    run_steady(
        "rbc-stationary flat scipy_root hybr no blocks", nn,
        solver="scipy_root", solver_settings={"method": "hybr", }, split_into_blocks=False,
    )
    nn = n.copy()
    run_steady(
        "rbc-stationary levenberg custom settings", nn,
        solver_settings={"norm_order": 2, "eval_jacob_every": 2, },
        iter_printer_settings={"every": 2, },
    )
    nn = n.copy()
    run_steady(
        "rbc-stationary levenberg max 2 iterations", nn,
        solver_settings={"max_iterations": 2, }, split_into_blocks=False,
    )

    # Exogenize a variable, endogenize a parameter
    nn = n.copy()
    run_steady("rbc-stationary base for swap", nn, )
    target_i_to_y = 0.2
    nn.assign(i_to_y=target_i_to_y, )
    ps = ir.SteadyPlan(nn, )
    ps.swap(("i_to_y", "delta", ), )
    for split in (None, False, ):
        nnn = nn.copy()
        run_steady(f"rbc-stationary swap i_to_y<->delta split={split}", nnn, plan=ps, split_into_blocks=split, )
        out("  delta after swap", fmt(nnn.get_parameters()["delta"]), "i_to_y", fmt(nnn.get_steady_levels()["i_to_y"]))

    # Stationary model evaluated in nonflat mode
    n2 = ir.Simultaneous.from_string(RBC_STATIONARY, flat=False, )
    n2.assign(**PARAMETERS, )
    n2.assign(kk=20, )
    run_steady("rbc-stationary nonflat", n2, )
    n2b = n2.copy()
    run_steady("rbc-stationary nonflat no blocks", n2b, split_into_blocks=False, )

    # Failing to converge
    bad = n.copy()
    bad.assign(gamma=1.5, kk=-3, )
    run_steady("rbc-stationary bad params", bad, )

    # --------------------------------------------------------------------------
    # 3. Linear models: flat and nonflat (unit root with drift)
    # --------------------------------------------------------------------------
    for flat in (False, True, ):
        lin = ir.Simultaneous.from_string(LINEAR_DRIFT, linear=True, flat=flat, )
        lin.assign(g=0.5 if not flat else 0, rho=0.7, ss_x=2, kappa=0.3, )
        lin.alter_num_variants(2, )
        lin.assign(rho=[0.7, 0.2], ss_x=[2, -1], )
        if not flat:
            lin.assign(g=[0.5, -0.25], )
        run_steady(f"linear drift flat={flat}", lin, )

    # The same equations treated as nonlinear, nonflat
    nl = ir.Simultaneous.from_string(LINEAR_DRIFT, linear=False, flat=False, )
    nl.assign(g=0.5, rho=0.7, ss_x=2, kappa=0.3, )
    nl.assign(z=(1, 0.1), )
    pz = ir.SteadyPlan(nl, )
    pz.fix_level(("z", ), )
    for split in (True, False, ):
        nll = nl.copy()
        run_steady(f"linear drift as nonlinear nonflat fix z split={split}", nll, plan=pz, split_into_blocks=split, )

    # --------------------------------------------------------------------------
    # 4. Steady autovalues, log-variable with change, negative parameters
    # --------------------------------------------------------------------------
    for flat in (True, False, ):
        av = ir.Simultaneous.from_string(NONLIN_AUTOVAL, flat=flat, )
        av.assign(a1=0.5, target=3, a0=0, )
        av.alter_num_variants(2, )
        av.assign(target=[3, -2], a1=[0.5, -0.4], )
        out("autovalue updater present", av._invariant.update_steady_autovalues_in_variant is not None)
        av.update_steady_autovalues()
        out("a0 after autovalues", fmt(av.get_parameters(unpack_singleton=False, )["a0"]))
        run_steady(f"autovalues flat={flat}", av, )
        av2 = av.copy()
        av2.assign(target=[10, 20], )
        run_steady(f"autovalues flat={flat} no update", av2, update_steady_autovalues=False, )
        out("a0 not updated", fmt(av2.get_parameters(unpack_singleton=False, )["a0"]))
        run_steady(f"autovalues flat={flat} with update", av2, update_steady_autovalues=True, )
        out("a0 updated", fmt(av2.get_parameters(unpack_singleton=False, )["a0"]))
        av3 = av.copy()
        av3.assign(p=[0.5, None], q=[(2, 1.5), (None, 0.9)], )
        for kw in (
            dict(when_fails="error", ),
            dict(when_fails="warning", ),
            dict(when_fails="silent", tolerance=1e3, ),
            dict(when_fails="silent", tolerance=0, ),
            dict(when_fails="silent", return_info=True, ),
            dict(when_fails="silent", equation_switch="steady", return_info=True, unpack_singleton=False, ),
        ):
            try:
                with warnings.catch_warnings(record=True) as w:
                    warnings.simplefilter("always")
                    res, printed = quiet(av3.check_steady, **kw, )
                out("check_steady", sorted(kw.items()), "->", type(res).__name__,
                    res if isinstance(res, bool) else (res[0], type(res[1]).__name__, len(res[1])),
                    "warnings", [str(i.message)[:300] for i in w if "IrisPie" not in str(i.message)][:3])
            except Exception as exc:
                out("check_steady", sorted(kw.items()), "raised", type(exc).__name__, str(exc)[:500])
        one = av.copy()
        one.alter_num_variants(1, )
        res, _ = quiet(one.check_steady, when_fails="silent", return_info=True, )
        out("check_steady singleton", res[0], type(res[1]).__name__, sorted(res[1].keys()), fmt(res[1]["discrepancies"], 10))
        res, _ = quiet(one.check_steady, when_fails="silent", return_info=True, unpack_singleton=False, )
        out("check_steady singleton no unpack", res[0], type(res[1]).__name__, len(res[1]))
    out("no-autovalue updater", n._invariant.update_steady_autovalues_in_variant)

    # --------------------------------------------------------------------------
    # 5. Lower-level pieces
    # --------------------------------------------------------------------------
    for is_linear in (False, True, ):
        for is_flat in (False, True, ):
            s = _st._choose_steady_solver(is_linear, is_flat, )
            out("solver", is_linear, is_flat, s.func.__name__, s.args, sorted((k, getattr(v, "__name__", v)) for k, v in s.keywords.items()))

    # Evaluators directly
    for klass, model in ((_ev.FlatSteadyEvaluator, n.copy()), (_ev.NonflatSteadyEvaluator, m.copy()), ):
        v = model._variants[0]
        wrt = _st._resolve_steady_wrt(model, None, is_flat=klass is _ev.FlatSteadyEvaluator, )
        (se, printed) = quiet(
            klass,
            wrt.qids, wrt.qids, wrt.equations, model.get_quantities(), v,
            context=model._invariant._context,
            iter_printer_settings={"norm_order": 2, },
        )
        out(klass.__name__, "wrt_qids", se.wrt_qids, "where_logly", se._where_logly)
        out("  min_shift", se._min_shift, "num_columns", se._num_columns, "shift_vec", fmt(se._shift_vec))
        out("  num_levels", se._num_levels, "num_changes", se._num_changes, "column_offset", se._column_offset)
        g = se.get_init_guess()
        out("  init_guess", fmt(g))
        out("  steady_array", fmt(se._steady_array))
        f = se.eval_func(g, )
        j = se.eval_jacob(g, )
        out("  func", fmt(f), type(f).__name__, np.shape(f))
        out("  jacob", fmt(j), type(j).__name__, np.shape(j))
        g2 = g + 0.01*np.arange(1, g.size+1)
        (fj, printed) = quiet(se.eval, g2, )
        out("  func2", fmt(fj[0]), type(fj[0]).__name__)
        out("  jacob2", fmt(fj[1]))
        out("  steady_array2", fmt(se._steady_array))
        out("  extract_levels", fmt(se.extract_levels(g2)[0]), se.extract_levels(g2)[1])
        out("  extract_changes", fmt(se.extract_changes(g2)[0]), se.extract_changes(g2)[1])
        sh, mn = _ev._prepare_time_shifts(wrt.equations, )
        out("  time shifts", fmt(sh), sh.dtype, sh.shape, mn)
        # Non-finite guess in nonflat equator
        if klass is _ev.NonflatSteadyEvaluator:
            g3 = g.copy()
            g3[:] = np.nan
            try:
                se.eval_func(g3, )
                out("  nan guess: no error")
            except Exception as exc:
                out("  nan guess:", type(exc).__name__, str(exc))
            g4 = g.copy()
            g4[-se._num_changes:] = 800.0
            g5 = g.copy()
            g5[se._num_levels + 3] = 400.0
            try:
                se.eval_func(g5, )
                out("  large change in c guess: no error")
            except Exception as exc:
                out("  large change in c guess:", type(exc).__name__, str(exc))
            try:
                se.eval_func(g4, )
                out("  huge change guess: no error")
            except Exception as exc:
                out("  huge change guess:", type(exc).__name__, str(exc))
        else:
            g3 = g.copy()
            g3[:] = np.nan
            out("  nan guess flat", fmt(se.eval_func(g3, )), type(se.eval_func(g3, )).__name__)

    # Variant.retrieve_maybelog_values_for_qids with missing values
    mm = m.copy()
    mm.assign(k=None, c=(3, None), y=(None, 1.01), )
    v = mm._variants[0]
    qid_to_logly = mm.create_qid_to_logly()
    qids = sorted(qid_to_logly.keys())
    for q in (qids, tuple(reversed(qids)), iter(qids[::2]), [], ):
        lv, ch = v.retrieve_maybelog_values_for_qids(q, qid_to_logly, )
        out("maybelog", fmt(lv), fmt(ch), lv.dtype, ch.dtype, lv.shape, ch.shape)

    # Solver dispatcher settings
    out("scipy settings", sorted(_sd.create_solver_settings_for_scipy_root(None, 1e-10).items(), key=str))
    out("levenberg settings", sorted(_sd.create_solver_settings_for_neqs_levenberg({"step_tolerance": 1e-3}, 1e-10).items(), key=str))

    digest = hashlib.sha256("\n".join(_LINES).encode()).hexdigest()
    print("DIGEST", digest)


if __name__ == "__main__":
    main()

"""
Behaviour digest for property C19: databox <-> CSV, databox <-> dataslate,
databox-level operations.  Prints a deterministic digest.

Run:  cd /tmp/wt2/C19 && PYTHONPATH=/tmp/wt2/C19/src /venv/bin/python /tmp/twin2_out/C19/behaviour.py
"""

import os
import sys
import tempfile
import hashlib
import warnings
import itertools

import numpy as np
import irispie as ir
from irispie.databoxes import _exports as ex
from irispie.dates import Frequency, EmptySpan

warnings.simplefilter("ignore")
np.set_printoptions(precision=10, suppress=False, linewidth=200)

TMP = tempfile.mkdtemp(prefix="c19_behaviour_")
LINES = []


def out(*args):
    line = " ".join(str(a) for a in args)
    LINES.append(line)
    print(line)


def fmt_array(a):
    a = np.asarray(a, dtype=float)
    flat = [float(f"{x:.12g}") for x in a.ravel().tolist()]
    return f"shape={a.shape}" + repr(flat)


def fmt_series(x):
    if x.start is None:
        return f"Series(empty, nv={x.num_variants}, desc={x.get_description()!r})"
    return (
        f"Series({x.frequency.name}, {x.start}..{x.end}, nv={x.num_variants}, "
        f"desc={x.get_description()!r}, data={fmt_array(x.data)})"
    )


def fmt_value(v):
    if isinstance(v, ir.Series):
        return fmt_series(v)
    if isinstance(v, np.ndarray):
        return "ndarray" + fmt_array(v)
    return f"{type(v).__name__}:{v!r}"


def fmt_databox(db, label):
    out(f"  [{label}] keys={list(db.keys())}")
    for k, v in db.items():
        out(f"    {k} = {fmt_value(v)}")


def attempt(label, func):
    try:
        result = func()
        return result
    except BaseException as exc:
        msg = str(exc).replace(TMP, "<TMP>")
        out(f"  [{label}] EXC {type(exc).__name__}: {msg[:200]}")
        return None


def file_text(path):
    if not os.path.exists(path):
        return None
    with open(path, "r") as fid:
        return fid.read()


# ----------------------------------------------------------------------------
# Build databoxes
# ----------------------------------------------------------------------------

def make_big():
    rng = np.random.default_rng(20240519)
    db = ir.Databox()
    db["y1"] = ir.Series(start=ir.yy(2000), values=rng.standard_normal(6), description="Yearly one")
    db["y2"] = ir.Series(start=ir.yy(1998), values=rng.standard_normal((4, 2)), description="Yearly, two variants")
    db["h1"] = ir.Series(start=ir.hh(2001, 2), values=[1.5, np.nan, 3.25, 4.125], description="Half-yearly with hole")
    db["q1"] = ir.Series(start=ir.qq(2020, 1), values=rng.standard_normal(9) * 1e3, description="Quarterly, big")
    db["q2"] = ir.Series(start=ir.qq(2019, 3), values=rng.standard_normal((5, 3)) * 1e-7, description="")
    db["q3"] = ir.Series(start=ir.qq(2021, 2), values=[np.nan, 1 / 3, np.nan, 2 / 3, np.nan], description='With "quotes", and comma')
    db["m1"] = ir.Series(start=ir.mm(2020, 11), values=np.arange(1, 8) / 7, description="Monthly")
    db["d1"] = ir.Series(start=ir.dd(2020, 2, 27), values=[1.0, 2.0, np.nan, 4.0, 5.0], description="Daily over leap day")
    db["d2"] = ir.Series(start=ir.dd(2019, 12, 30), values=rng.standard_normal((4, 2)), description="Daily over year end")
    db["i1"] = ir.Series(start=ir.ii(-2), values=[10.0, 20.0, 30.0, 40.0], description="Integer from negative")
    db["i2"] = ir.Series(start=ir.ii(3), values=rng.standard_normal((3, 2)), description="Integer two variants")
    db["e1"] = ir.Series(description="Empty series")
    db["s1"] = 3.5
    db["s2"] = "a string"
    db["l1"] = [1, 2, 3]
    return db


def show_csv(label, db, file_name, read_kwargs=None, **kwargs):
    path = os.path.join(TMP, file_name)
    if os.path.exists(path):
        os.remove(path)
    out(f"-- to_csv_file {label}")
    info = attempt(label, lambda: db.to_csv_file(path, **kwargs))
    out(f"  info={info!r}")
    text = file_text(path)
    if text is None:
        out("  file: <none>")
        return
    out(f"  file: nchars={len(text)} nlines={text.count(chr(10))} sha={hashlib.sha256(text.encode()).hexdigest()[:16]}")
    for line in text.split("\n")[:4]:
        out(f"    | {line}")
    if read_kwargs is not None:
        back = attempt(label + " read", lambda: ir.Databox.from_csv_file(path, **read_kwargs))
        if back is not None:
            fmt_databox(back, label + " read back")


db = make_big()
out("== source databox")
fmt_databox(db, "source")

out("== helper functions")
for f in Frequency:
    out(f"  names[{f.name}] = {tuple(db.get_series_names_by_frequency(f))}")
    sp = db.get_span_by_frequency(f)
    out(f"  span[{f.name}] = {'EmptySpan' if sp is EmptySpan() else (str(sp.start), str(sp.end), len(sp))}")


def show_resolved(label, databox, frequency_span, span=None):
    def _do():
        fs = ex._resolve_frequency_span(databox, frequency_span, span)
        fn = ex._resolve_frequency_names(databox, fs)
        out(f"  [{label}] span-keys={[k.name for k in fs.keys()]}")
        for k, v in fs.items():
            out(f"    {k.name}: n={len(v)} type={type(v).__name__} first={v[0] if v else None} last={v[-1] if v else None}")
        out(f"    names-keys={[k.name for k in fn.keys()]} names={[(k.name, type(v).__name__, v) for k, v in fn.items()]}")
        out(f"    total_rows={ex._get_total_num_data_rows(fs)}")
    attempt(label, _do)


show_resolved("default", db, None)
show_resolved("explicit-ellipsis", db, {Frequency.QUARTERLY: ..., Frequency.DAILY: ...})
show_resolved("int-keys", db, {4: ..., 12: ir.mm(2020, 1) >> ir.mm(2020, 3), 1: None})
show_resolved("dup-keys", db, {4: ir.qq(2020, 1) >> ir.qq(2020, 2), Frequency.QUARTERLY: ...})
show_resolved("dup-keys-empty", ir.Databox(), {4: ir.qq(2020, 1) >> ir.qq(2020, 2), Frequency.QUARTERLY: ...})
show_resolved("none-values", db, {Frequency.QUARTERLY: None, Frequency.YEARLY: ...})
show_resolved("span-arg", db, {Frequency.YEARLY: ...}, ir.qq(2020, 2) >> ir.qq(2020, 4))
show_resolved("span-arg-list", db, None, [ir.mm(2021, 1), ir.mm(2021, 3), ir.mm(2020, 12)])
show_resolved("span-arg-generator", db, None, (ir.ii(k) for k in (3, 2, 1)))
show_resolved("span-arg-reverse", db, None, ir.Span(ir.qq(2021, 4), ir.qq(2020, 1), -1))
show_resolved("empty-databox", ir.Databox(), None)
show_resolved("empty-dict", db, {})
show_resolved("unknown-only", db, {Frequency.UNKNOWN: ...})
show_resolved("unknown-explicit-empty", db, {Frequency.UNKNOWN: ()})
show_resolved("explicit-empty-tuple", db, {Frequency.QUARTERLY: (), Frequency.MONTHLY: EmptySpan()})
show_resolved("bad-key", db, {Frequency.QUARTERLY: ..., 5: ...})
show_resolved("bad-key-none", db, {5: None, Frequency.QUARTERLY: ...})
show_resolved("bad-value", db, {Frequency.QUARTERLY: 7})
show_resolved("empty-span-arg", db, None, ())
show_resolved("missing-frequency", db.copy(source_names=["q1", "m1"]), None)

out("== CSV")
show_csv("default", db, "default.csv", read_kwargs={})
show_csv("description_row", db, "desc.csv", read_kwargs={"description_row": True}, description_row=True, return_info=True)
show_csv("names-list", db, "names.csv", read_kwargs={}, names=["q2", "y1", "d2", "i1", "s1"], return_info=True)
show_csv("names-tuple-order", db, "names2.csv", read_kwargs={}, names=("m1", "q3", "q1"), return_info=True)
show_csv("names-predicate", db, "names3.csv", read_kwargs={}, names=lambda n: n.endswith("1"), return_info=True)
show_csv("span-quarterly", db, "spanq.csv", read_kwargs={}, span=ir.qq(2019, 1) >> ir.qq(2022, 4), return_info=True, description_row=False)
show_csv("span-daily", db, "spand.csv", read_kwargs={"description_row": True}, span=ir.dd(2020, 2, 26) >> ir.dd(2020, 3, 3), return_info=True, description_row=True)
show_csv("span-integer", db, "spani.csv", read_kwargs={}, span=ir.ii(-4) >> ir.ii(7), return_info=True)
show_csv("span-reverse", db, "spanr.csv", span=ir.Span(ir.qq(2021, 4), ir.qq(2020, 1), -1), return_info=True)
show_csv("span-no-such-frequency-names", db.copy(source_names=["y1", "y2"]), "spanx.csv", span=ir.qq(2020, 1) >> ir.qq(2020, 4), return_info=True, when_empty="silent")
show_csv("frequency_span-mixed", db, "fs.csv", read_kwargs={},
         frequency_span={4: ..., Frequency.MONTHLY: ir.mm(2020, 6) >> ir.mm(2021, 8), 1: None, Frequency.DAILY: ...}, return_info=True)
show_csv("frequency_span-order", db, "fs2.csv", read_kwargs={},
         frequency_span={Frequency.INTEGER: ..., Frequency.YEARLY: ..., Frequency.HALFYEARLY: ...}, return_info=True)
show_csv("frequency_span-unknown", db, "fs3.csv", frequency_span={Frequency.UNKNOWN: ..., Frequency.QUARTERLY: ...}, return_info=True)
show_csv("frequency_span-unknown-only", db, "fs4.csv", frequency_span={Frequency.UNKNOWN: ...}, return_info=True, when_empty="silent")
show_csv("round-3", db, "round3.csv", read_kwargs={}, round=3, return_info=True)
show_csv("round-0", db, "round0.csv", read_kwargs={}, round=0, return_info=True)
show_csv("round-None", db, "roundn.csv", read_kwargs={}, round=None, return_info=True)
show_csv("nan_str", db, "nanstr.csv", nan_str="NaN", return_info=True)
show_csv("delimiter", db, "delim.csv", read_kwargs={"delimiter": ";", "description_row": True}, delimiter=";", description_row=True)
show_csv("csv_writer_settings-None", db, "cws.csv", csv_writer_settings=None, return_info=True)
show_csv("csv_writer_settings-quoting", db, "cws2.csv", csv_writer_settings={"quoting": 1}, description_row=True, return_info=True)
show_csv("csv_writer_settings-bad", db, "cws3.csv", csv_writer_settings={"nonsense": 1}, return_info=True)
show_csv("date_formatter", db, "datefmt.csv", date_formatter=lambda p: "<" + str(p) + ">", return_info=True,
         frequency_span={Frequency.QUARTERLY: ..., Frequency.INTEGER: ...})
show_csv("no-info", db, "noinfo.csv", return_info=False)
show_csv("to_sheet-alias", db, "alias.csv", description_row=True, return_info=True)

out("-- aliases")
out("  to_csv is to_csv_file:", ir.Databox.to_csv is ir.Databox.to_csv_file)
p1, p2 = os.path.join(TMP, "a1.csv"), os.path.join(TMP, "a2.csv")
i1 = db.to_sheet(p1, return_info=True, names=["q1", "y1"])
i2 = db.to_csv(p2, return_info=True, names=["q1", "y1"])
out("  alias info:", i1, i2, file_text(p1) == file_text(p2))

out("-- empty cases")
empty = ir.Databox()
for when_empty in ("silent", "warning", "error"):
    show_csv(f"empty-databox-{when_empty}", empty, f"empty_{when_empty}.csv", when_empty=when_empty, return_info=True)
scalars = ir.Databox()
scalars["a"] = 1
scalars["e"] = ir.Series()
for when_empty in ("silent", "error"):
    show_csv(f"scalars-only-{when_empty}", scalars, f"scalars_{when_empty}.csv", when_empty=when_empty, return_info=True)
show_csv("empty-frequency_span-dict", db, "efs.csv", frequency_span={}, when_empty="silent", return_info=True)
show_csv("empty-frequency_span-dict-error", db, "efs2.csv", frequency_span={}, when_empty="error", return_info=True)
show_csv("names-not-present", db, "nnp.csv", names=["zzz"], when_empty="silent", return_info=True)
show_csv("explicit-empty-span", db, "ees.csv", frequency_span={Frequency.QUARTERLY: ()}, when_empty="silent", return_info=True)
show_csv("bad-frequency-key", db, "bfk.csv", frequency_span={7: ...}, return_info=True)
show_csv("bad-when-empty", empty, "bwe.csv", when_empty="nonsense", return_info=True)

out("-- round trip exactness")
for round_ in (None, 12, 4):
    path = os.path.join(TMP, f"rt_{round_}.csv")
    info = db.to_csv_file(path, description_row=True, round=round_, return_info=True)
    back = ir.Databox.from_csv_file(path, description_row=True)
    for n in info["names_exported"]:
        a, b = db[n], back[n]
        same_span = (str(a.start), str(a.end)) == (str(b.start), str(b.end))
        expected = a.data if round_ is None else np.round(a.data, round_)
        same_data = a.data.shape == b.data.shape and bool(np.array_equal(expected, b.data, equal_nan=True))
        out(f"  round={round_} {n}: freq={b.frequency.name} span_same={same_span} data_same={same_data} desc_same={a.get_description() == b.get_description()}")
    out(f"  round={round_} names back={sorted(back.keys())} exported={info['names_exported']}")

# ----------------------------------------------------------------------------
# Dataslates
# ----------------------------------------------------------------------------

out("== Dataslates")


def show_slate_roundtrip(label, databox, names, periods, to_kwargs=None, **from_kwargs):
    out(f"-- dataslate {label}")
    to_kwargs = to_kwargs or {}

    def _do():
        ds = ir.Dataslate.from_databox(databox, names, periods, **from_kwargs)
        out(f"  names={ds.names} output_names={ds.output_names} nv={ds.num_variants} periods={ds.periods[0]}..{ds.periods[-1]} n={ds.num_periods}")
        for vid in range(ds.num_variants):
            out(f"  variant[{vid}] = {fmt_array(ds.get_data_variant(vid))}")
        for kw in to_kwargs if isinstance(to_kwargs, list) else [to_kwargs]:
            kw = dict(kw)
            has_target = kw.pop("_with_target", False)
            if has_target:
                target = ir.Databox()
                target["keep_me"] = "abc"
                target[ds.names[0]] = "to be overwritten"
                kw["target_db"] = target
            res = attempt(label + " to_databox", lambda: ds.to_databox(**kw))
            if res is None:
                continue
            if has_target:
                out(f"  same target object: {res is target}")
            fmt_databox(res, f"{label} to_databox({', '.join(k + '=' + repr(v) for k, v in kw.items() if k != 'target_db')})")
    attempt(label, _do)


qdb = ir.Databox()
qdb["a"] = ir.Series(start=ir.qq(2020, 1), values=[1.0, 2.0, np.nan, 4.0, 5.0, 6.0], description="Series a")
qdb["b"] = ir.Series(start=ir.qq(2019, 3), values=np.arange(24.0).reshape(8, 3) / 10, description="Series b, 3 variants")
qdb["c"] = ir.Series(start=ir.qq(2021, 1), values=[np.nan, 7.0, np.nan], description="")
qdb["e"] = ir.Series(description="empty")
qdb["s"] = 3.0
qdb["l"] = [100.0, 200.0]

ALL_TO = [
    {},
    {"span": "full", "trim": False},
    {"span": "full", "trim": True, "_with_target": True},
]

show_slate_roundtrip("basic", qdb, ["a", "b", "c"], ir.qq(2019, 1) >> ir.qq(2021, 4), ALL_TO)
show_slate_roundtrip("three-variants", qdb, ["a", "b", "c", "e"], ir.qq(2020, 1) >> ir.qq(2020, 4), ALL_TO, num_variants=3)
show_slate_roundtrip("scalars-lists", qdb, ["a", "s", "l"], ir.qq(2020, 1) >> ir.qq(2020, 3), ALL_TO, num_variants=2)
show_slate_roundtrip("names-none", qdb, None, ir.qq(2020, 2) >> ir.qq(2020, 3), ALL_TO, num_variants=2)
show_slate_roundtrip("output-names", qdb, ["a", "b", "c"], ir.qq(2020, 1) >> ir.qq(2021, 2), ALL_TO, output_names=["c", "a", "zzz"], num_variants=2)
show_slate_roundtrip("output-names-empty", qdb, ["a", "b"], ir.qq(2020, 1) >> ir.qq(2021, 2), ALL_TO, output_names=[])
show_slate_roundtrip("descriptions", qdb, ["a", "b", "c"], ir.qq(2020, 1) >> ir.qq(2020, 2), ALL_TO, descriptions=["AAA", None, "CCC"])
show_slate_roundtrip(
    "base-columns", qdb, ["a", "b", "c"], ir.qq(2019, 3) >> ir.qq(2021, 3),
    [{"span": "base"}, {"span": "base", "trim": False}, {"span": "full"}, {"span": "base", "_with_target": True}, {"span": "nonsense"}],
    base_columns=(2, 3, 4, 5), num_variants=2,
)
show_slate_roundtrip(
    "base-columns-unsorted-gaps", qdb, ["a", "b"], ir.qq(2019, 3) >> ir.qq(2021, 3),
    [{"span": "base", "trim": False}],
    base_columns=(6, 1, 3),
)
show_slate_roundtrip("no-base-columns-but-base", qdb, ["a"], ir.qq(2020, 1) >> ir.qq(2020, 2), [{"span": "base"}])
show_slate_roundtrip("nonsense-span-no-output", qdb, ["a"], ir.qq(2020, 1) >> ir.qq(2020, 2), [{"span": "nonsense"}], output_names=[])
show_slate_roundtrip(
    "fallbacks-overwrites", qdb, ["a", "c", "zz"], ir.qq(2020, 1) >> ir.qq(2021, 4), ALL_TO,
    fallbacks={"a": -1.0, "zz": [0.5, 0.25], "c": -3.0}, overwrites={"c": 9.0}, num_variants=2,
)
show_slate_roundtrip("missing-name", qdb, ["a", "nope"], ir.qq(2020, 1) >> ir.qq(2020, 2), ALL_TO)
show_slate_roundtrip("all-nan", qdb, ["c", "e"], ir.qq(2018, 1) >> ir.qq(2018, 3), ALL_TO)

mixed = ir.Databox()
mixed["m"] = ir.Series(start=ir.mm(2020, 11), values=np.arange(1, 8) / 7, description="monthly")
mixed["m2"] = ir.Series(start=ir.mm(2021, 1), values=[[1.0, np.nan], [np.nan, np.nan], [3.0, 4.0]], description="monthly 2v")
show_slate_roundtrip("monthly", mixed, ["m", "m2"], ir.mm(2020, 10) >> ir.mm(2021, 6), ALL_TO, num_variants=2)
ddb = ir.Databox()
ddb["d"] = ir.Series(start=ir.dd(2020, 2, 27), values=[1.0, 2.0, np.nan, 4.0, 5.0], description="daily")
show_slate_roundtrip("daily", ddb, ["d"], ir.dd(2020, 2, 25) >> ir.dd(2020, 3, 5), ALL_TO)
idb = ir.Databox()
idb["i"] = ir.Series(start=ir.ii(-2), values=[10.0, 20.0, 30.0, 40.0], description="integer")
show_slate_roundtrip("integer", idb, ["i"], ir.ii(-4) >> ir.ii(3), ALL_TO, num_variants=2)
ydb = ir.Databox()
ydb["y"] = ir.Series(start=ir.yy(2000), values=[[1.0, 2.0], [3.0, 4.0]], description="yearly")
show_slate_roundtrip("yearly-single-period", ydb, ["y"], (ir.yy(2001), ), ALL_TO, num_variants=2)

out("-- dataslate zero variants / zero names")
attempt("zero-variants", lambda: fmt_databox(
    ir.Dataslate.from_databox(qdb, ["a"], ir.qq(2020, 1) >> ir.qq(2020, 2), num_variants=0).to_databox(), "zero-variants"))
attempt("zero-names", lambda: fmt_databox(
    ir.Dataslate.from_databox(qdb, [], ir.qq(2020, 1) >> ir.qq(2020, 2)).to_databox(), "zero-names"))
attempt("bare-dataslate", lambda: fmt_databox(ir.Dataslate().to_databox(), "bare"))
attempt("bare-dataslate-nonsense", lambda: fmt_databox(ir.Dataslate().to_databox(span="nonsense"), "bare-nonsense"))

out("-- dataslate exact round trip")
span = ir.qq(2019, 1) >> ir.qq(2022, 2)
ds = ir.Dataslate.from_databox(qdb, ["a", "b", "c"], span, num_variants=3)
back = ds.to_databox()
for n in ["a", "b", "c"]:
    orig = qdb[n].get_data(span)
    if orig.shape[1] == 1:
        orig = np.repeat(orig, 3, axis=1)
    got = back[n].get_data(span)
    out(f"  {n}: equal_on_span={bool(np.array_equal(orig, got, equal_nan=True))} desc={back[n].get_description()!r} span={back[n].start}..{back[n].end}")

# ----------------------------------------------------------------------------
# Databox-level operations
# ----------------------------------------------------------------------------

out("== Databox operations")
other = ir.Databox()
other["q1"] = ir.Series(start=ir.qq(2019, 1), values=np.arange(20.0), description="other q1")
other["q3"] = ir.Series(start=ir.qq(2021, 1), values=[-1.0, -2.0, -3.0, -4.0, -5.0, -6.0, -7.0], description="other q3")
other["new"] = ir.Series(start=ir.qq(2020, 1), values=[1.0, 2.0])
other["s1"] = 99

sub = db.copy(source_names=["q1", "q2", "q3", "y1", "s1", "l1"])

x = sub.copy(); attempt("overlay", lambda: x.overlay(other)); fmt_databox(x, "overlay")
x = sub.copy(); attempt("underlay", lambda: x.underlay(other)); fmt_databox(x, "underlay")
x = sub.copy(); attempt("clip", lambda: x.clip(ir.qq(2020, 3), ir.qq(2021, 2))); fmt_databox(x, "clip")
x = sub.copy(); attempt("prepend", lambda: x.prepend(other, ir.qq(2020, 2))); fmt_databox(x, "prepend")
x = sub.copy(source_names=["q1", "s1"], target_names=["Q1", "S1"]); fmt_databox(x, "copy-list")
x = sub.copy(source_names=lambda n: n.startswith("q"), target_names=lambda n: n.upper()); fmt_databox(x, "copy-predicate")
x = sub.copy(); attempt("rename", lambda: x.rename(source_names=["q1", "y1"], target_names=["qq1", "yy1"])); fmt_databox(x, "rename-list")
x = sub.copy(); attempt("rename", lambda: x.rename(source_names=lambda n: n.startswith("q"), target_names=lambda n: n + "_x")); fmt_databox(x, "rename-func")
x = sub.copy(); attempt("keep", lambda: x.keep(["q3", "s1", "zzz"])); fmt_databox(x, "keep")
x = sub.copy(); attempt("remove", lambda: x.remove(["q3", "s1"])); fmt_databox(x, "remove")
for strategy in ("stack", "replace", "discard", "error"):
    x = sub.copy(); attempt("merge-" + strategy, lambda: x.merge(other, strategy)); fmt_databox(x, "merge-" + strategy)

out("== DIGEST", hashlib.sha256("\n".join(LINES).encode()).hexdigest())

# Clean up
for f in os.listdir(TMP):
    os.remove(os.path.join(TMP, f))
os.rmdir(TMP)

"""
Behaviour digest for property C06: nonlinear (stacked_time / period_by_period)
simulations of irispie Simultaneous models.

Run with
    cd /tmp/wt/C06 && PYTHONPATH=/tmp/wt/C06/src /venv/bin/python /tmp/twin_out/C06/behaviour.py

Prints a deterministic digest; the output must be identical before and after
any behaviour-preserving refactoring.
"""

import contextlib
import hashlib
import io
import warnings

import numpy as np
import irispie as ir


ROUND = 9


# ----------------------------------------------------------------------------
# Models
# ----------------------------------------------------------------------------

RBC_SOURCE = r"""
!transition-variables
    y, c, k, a, r
!log-variables
    y, c, k, a
!transition-shocks
    ea, ec
!parameters
    alpha, beta, delta, rho, ss_a
!transition-equations
    1/c = beta * (1/c{+1}) * (alpha*a{+1}*k^(alpha-1) + 1 - delta) * exp(ec);
    y = a * k{-1}^alpha;
    k = y - c + (1-delta)*k{-1};
    log(a) = rho*log(a{-1}) + (1-rho)*log(ss_a) + ea;
    r = 100*(alpha*a{+1}*k^(alpha-1) - delta);
!measurement-variables
    obs_y, obs_c
!measurement-shocks
    my
!measurement-equations
    obs_y = 100*log(y) + my;
    obs_c = 100*log(c);
"""

LINEAR_SOURCE = r"""
!transition-variables
    x, p, i, z
!transition-shocks
    ex, ep, ei
!parameters
    a1, a2, b1, b2, c1, c2, c3, rz, ss_p
!transition-equations
    x = a1*x{-1} + (1-a1)*x{+1} - a2*(i - p{+1}) + z + ex;
    p = b1*p{-1} + (1-b1)*p{+2} + b2*x + (1-b1-(1-b1))*ss_p + ep;
    i = c1*i{-1} + (1-c1)*(ss_p + c2*(p{+1} - ss_p) + c3*x) + ei;
    z = rz*z{-1};
!measurement-variables
    obs_p
!measurement-equations
    obs_p = 4*p;
"""

BACKWARD_SOURCE = r"""
!transition-variables
    w, v, u
!log-variables
    w
!transition-shocks
    ew, ev
!parameters
    g, h, q, ss_w
!transition-equations
    log(w) = g*log(w{-1}) + (1-g)*log(ss_w) + 0.1*(v{-1} - 1)^2 + ew;
    v = h*v{-1} + (1-h)*1 + q*log(w/ss_w) + ev;
    u = v + v{-2}*w{-1} - w;
!measurement-variables
    obs_w
!measurement-equations
    obs_w = w + u;
"""


def make_rbc(num_variants=1):
    m = ir.Simultaneous.from_string(RBC_SOURCE, )
    if num_variants > 1:
        m.alter_num_variants(num_variants, )
    m.assign(alpha=0.3, beta=0.95, delta=0.1, rho=0.8, ss_a=1, )
    if num_variants > 1:
        m.assign(rho=[0.8, 0.5, 0.65][:num_variants], beta=[0.95, 0.96, 0.94][:num_variants], )
    m.assign(y=1, c=0.8, k=2, a=1, r=5, obs_y=0, obs_c=0, )
    with contextlib.redirect_stdout(io.StringIO()):
        m.steady()
        m.solve()
    return m


def make_linear():
    m = ir.Simultaneous.from_string(LINEAR_SOURCE, linear=True, )
    m.assign(a1=0.6, a2=0.2, b1=0.5, b2=0.1, c1=0.7, c2=1.8, c3=0.3, rz=0.5, ss_p=2, )
    m.assign(x=0, p=2, i=2, z=0, obs_p=8, )
    with contextlib.redirect_stdout(io.StringIO()):
        m.steady()
        m.solve()
    return m


def make_backward():
    m = ir.Simultaneous.from_string(BACKWARD_SOURCE, )
    m.assign(g=0.7, h=0.6, q=0.3, ss_w=2, )
    m.assign(w=2, v=1, u=1, obs_w=3, )
    with contextlib.redirect_stdout(io.StringIO()):
        m.steady()
        m.solve()
    return m


# ----------------------------------------------------------------------------
# Digest helpers
# ----------------------------------------------------------------------------

def _fmt(x):
    x = float(x)
    if np.isnan(x):
        return "nan"
    x = round(x, ROUND)
    if x == 0:
        x = 0.0
    return repr(x)


def digest_databox(db, span, names=None, ):
    names = sorted(db.keys()) if names is None else names
    lines = []
    sha = hashlib.sha256()
    for n in names:
        value = db[n]
        if not isinstance(value, ir.Series):
            lines.append(f"    {n}: {value!r}")
            continue
        data = np.asarray(value.get_data(span, ), dtype=float, )
        sha.update(n.encode())
        sha.update(np.ascontiguousarray(data).tobytes())
        rows = [
            "[" + ", ".join(_fmt(x) for x in row) + "]"
            for row in data
        ]
        lines.append(f"    {n}: " + " ".join(rows))
    lines.append(f"    exact-bytes-sha: {sha.hexdigest()[:16]}")
    return "\n".join(lines)


RELAXED = {"step_tolerance": 1e6, }


def run(label, model, db, span, names=None, library_defaults=False, **kwargs, ):
    """
    Simulate and print a digest; unless library_defaults=True, relax the
    step tolerance of the Newton solver so that convergence is decided by
    the function norm (the default 1e-12 step tolerance is often not
    attainable in floating point)
    """
    print(f"== {label}")
    if not library_defaults and kwargs.get("method", "first_order") != "first_order":
        kwargs["solver_settings"] = RELAXED | (kwargs.get("solver_settings") or {})
    log = io.StringIO()
    out = None
    with warnings.catch_warnings(record=True) as caught:
        warnings.simplefilter("always")
        try:
            with contextlib.redirect_stdout(log), contextlib.redirect_stderr(log):
                out = model.simulate(db, span, return_info=True, **kwargs, )
        except BaseException as exc:
            print(f"    raised {type(exc).__name__}: {' '.join(str(exc).split())}")
    for w in caught:
        if "irispie" in str(w.filename) or "IrisPie" in type(w.message).__name__:
            print(f"    warning {type(w.message).__name__}: {' '.join(str(w.message).split())}")
    log_text = log.getvalue()
    print(f"    iter-log: {len(log_text.splitlines())} lines, sha {hashlib.sha256(log_text.encode()).hexdigest()[:16]}")
    if out is None:
        return None
    out_db, info = out
    infos = info if isinstance(info, list) else [info]
    for vid, i in enumerate(infos):
        print(f"    info[{vid}] method={i['method']} frames={i['frames']!r}")
        print(f"    info[{vid}] exit_status={[str(s) for s in i['exit_status']]} success={[bool(s.is_success) for s in i['exit_status']]}")
    ext_span = (span[0] - 3) >> (span[-1] + 3) if span[0] < span[-1] or len(span) == 1 else span
    print(digest_databox(out_db, ext_span, names, ))
    return out_db


def max_abs_diff(db1, db2, names, span, ):
    out = 0.0
    for n in names:
        d = np.asarray(db1[n].get_data(span), dtype=float) - np.asarray(db2[n].get_data(span), dtype=float)
        out = max(out, float(np.nanmax(np.abs(d))))
    return out


# ----------------------------------------------------------------------------
# Scenarios
# ----------------------------------------------------------------------------

def rbc_residuals(m, db, span, ):
    """Residuals of the dynamic transition equations of the RBC model"""
    if db is None:
        return np.nan
    p = m.get_parameters(unpack_singleton=True, )
    alpha, beta, delta, rho, ss_a = (p[n] for n in ("alpha", "beta", "delta", "rho", "ss_a"))
    worst = 0.0
    for t in span:
        g = lambda n, s=0: float(db[n].get_data(t + s, )[0, 0])
        ant = lambda n: float(np.nan_to_num(db["ant_" + n].get_data(t, )[0, 0])) if ("ant_" + n) in db.keys() else 0.0
        res = [
            1/g("c") - beta*(1/g("c", 1))*(alpha*g("a", 1)*g("k")**(alpha-1) + 1 - delta)*np.exp(g("ec") + ant("ec")),
            g("y") - g("a")*g("k", -1)**alpha,
            g("k") - (g("y") - g("c") + (1-delta)*g("k", -1)),
            np.log(g("a")) - (rho*np.log(g("a", -1)) + (1-rho)*np.log(ss_a) + g("ea") + ant("ea")),
            g("r") - 100*(alpha*g("a", 1)*g("k")**(alpha-1) - delta),
        ]
        worst = max(worst, max(abs(x) for x in res))
    return worst


def scenarios_rbc():
    m = make_rbc()
    start = ir.qq(2020, 1)
    end = ir.qq(2022, 2)
    span = start >> end
    names = ["y", "c", "k", "a", "r", "obs_y", "obs_c", "ea", "ec", "ant_ea", "ant_ec", "my"]

    # 1. Unanticipated shocks on two dates -> several frames
    db = ir.Databox.steady(m, span, )
    db["ea"][start] = 0.05
    db["ec"][start+2] = 0.01
    db["ea"][start+5] = -0.02
    db["my"][start+1] = 0.5
    s = run("rbc stacked_time unanticipated default", m, db, span, names, method="stacked_time", library_defaults=True, )
    print("    residuals of last frame below 1e-8:", rbc_residuals(m, s, (start+5) >> (end-1), ) < 1e-8)
    run("rbc stacked alias terminal=data initial_guess=data", m, db, span, names,
        method="stacked", terminal="data", initial_guess="data", )
    run("rbc stacked_time terminal=first_order initial_guess=data", m, db, span, names,
        method="stacked_time", terminal="first_order", initial_guess="data", )
    run("rbc stacked_time terminal=data initial_guess=first_order", m, db, span, names,
        method="stacked_time", terminal="data", initial_guess="first_order", )

    # 2. Anticipated shocks only -> single frame
    db = ir.Databox.steady(m, span, )
    db["ant_ea"][start+3] = 0.04
    s = run("rbc stacked_time anticipated ea", m, db, span, names, method="stacked_time", library_defaults=True, )
    print("    residuals below 1e-8:", rbc_residuals(m, s, start >> (end-1), ) < 1e-8)
    s = run("rbc stacked_time anticipated ea terminal=data", m, db, span, names, method="stacked_time", terminal="data", )
    print("    residuals below 1e-8:", rbc_residuals(m, s, start >> (end-1), ) < 1e-8)
    db["ant_ec"][start+1] = -0.01
    s = run("rbc stacked_time anticipated ea+ec library defaults", m, db, span, names, method="stacked_time", library_defaults=True, )
    s = run("rbc stacked_time anticipated ea+ec", m, db, span, names, method="stacked_time", )
    print("    residuals below 1e-8:", rbc_residuals(m, s, start >> (end-1), ) < 1e-8)
    run("rbc stacked_time anticipated, no prepend, keep initial/terminal", m, db, span, names,
        method="stacked_time", prepend_input=False, remove_initial=False, remove_terminal=False, )

    # 3. Mixed anticipated + unanticipated, custom solver settings
    db["ea"][start+2] = 0.03
    run("rbc stacked_time mixed shocks, solver settings", m, db, span, names,
        method="stacked_time", solver_settings={"func_tolerance": 1e-10, "norm_order": 2, }, )

    # 4. Simulation plans
    db = ir.Databox.steady(m, span, )
    db["y"][start+1] = db["y"][start+1] * 1.02
    db["y"][start+2] = db["y"][start+2] * 1.01
    db["c"][start+4] = db["c"][start+4] * 0.99
    plan = ir.SimulationPlan(m, span, )
    plan.swap_anticipated((start+1, start+2), ("y", "ant_ea"), )
    run("rbc stacked_time plan swap_anticipated y/ant_ea", m, db, span, names, method="stacked_time", plan=plan, )
    plan = ir.SimulationPlan(m, span, )
    plan.swap_unanticipated((start+4, ), ("c", "ec"), )
    plan.swap_anticipated((start+1, ), ("y", "ant_ea"), )
    run("rbc stacked_time plan swap_unanticipated c/ec + anticipated y/ant_ea", m, db, span, names, method="stacked_time", plan=plan, )
    run("rbc stacked_time same plan, terminal=data", m, db, span, names, method="stacked_time", plan=plan, terminal="data", )
    empty_plan = ir.SimulationPlan(m, span, )
    run("rbc stacked_time empty plan", m, db, span, names, method="stacked_time", plan=empty_plan, )

    # 5. Missing values in the initial guess
    db = ir.Databox.steady(m, span, )
    db["ea"][start] = 0.02
    db["k"][start+3] = np.nan
    db["c"][start+1] = np.nan
    run("rbc stacked_time missing, initial_guess=data, when_missing=silent", m, db, span, names,
        method="stacked_time", initial_guess="data", when_missing="silent", )
    run("rbc stacked_time missing, initial_guess=data, when_missing=warning, fallback 1.5", m, db, span, names,
        method="stacked_time", initial_guess="data", when_missing="warning", fallback_value=1.5, )
    run("rbc stacked_time missing, initial_guess=data, when_missing=error", m, db, span, names,
        method="stacked_time", initial_guess="data", )
    run("rbc stacked_time missing, initial_guess=first_order (overwritten)", m, db, span, names,
        method="stacked_time", initial_guess="first_order", )
    db = ir.Databox.steady(m, span, )
    db["k"][start-1] = np.nan
    run("rbc stacked_time missing initial condition, when_fails=silent", m, db, span, names,
        method="stacked_time", when_fails="silent", )
    run("rbc stacked_time missing initial condition, when_fails=warning", m, db, span, names,
        method="stacked_time", when_fails="warning", initial_guess="data", )

    # 6. Non-convergence
    db = ir.Databox.steady(m, span, )
    db["ea"][start] = 0.2
    run("rbc stacked_time max_iterations=1 when_fails=silent", m, db, span, names,
        method="stacked_time", when_fails="silent", solver_settings={"max_iterations": 1, }, )
    run("rbc stacked_time max_iterations=1 when_fails=critical", m, db, span, names,
        method="stacked_time", solver_settings={"max_iterations": 1, }, )

    db_off = db.copy()
    db_off["k"][start+1 >> end+1] = 2.8
    db_off["c"][start >> end+1] = 1.0
    for terminal in ("first_order", "data", ):
        for initial_guess in ("first_order", "data", ):
            run(f"rbc stacked_time one Newton iteration terminal={terminal} initial_guess={initial_guess}", m, db_off, span, names,
                method="stacked_time", when_fails="silent", terminal=terminal, initial_guess=initial_guess,
                solver_settings={"max_iterations": 1, "norm_order": 2, }, )

    # 7. Spans of different lengths, other frequencies
    for label, first, length in (
        ("yearly", ir.yy(2020), 1),
        ("yearly", ir.yy(2020), 2),
        ("monthly", ir.mm(2021, 11), 7),
        ("daily", ir.dd(2024, 2, 27), 6),
        ("halfyearly", ir.hh(2020, 2), 4),
        ("integer", ir.ii(-2), 5),
    ):
        sp = first >> (first + length - 1)
        db = ir.Databox.steady(m, sp, )
        db["ea"][first] = 0.03
        db["ant_ec"][first + length - 1] = 0.01
        if length > 2:
            db["ec"][first+2] = -0.01
        run(f"rbc stacked_time {label} length {length}", m, db, sp, names, method="stacked_time", )
        run(f"rbc stacked_time {label} length {length} terminal=data", m, db, sp, names, method="stacked_time", terminal="data", )

    # 8. Reversed (negative step) span -> whatever the library does with it
    sp = ir.qq(2020, 4) >> ir.qq(2020, 1)
    db = ir.Databox.steady(m, ir.qq(2020, 1) >> ir.qq(2020, 4), )
    run("rbc stacked_time empty/backward span", m, db, sp, names, method="stacked_time", )
    sp = ir.Span(ir.qq(2020, 4), ir.qq(2020, 1), -1, )
    run("rbc stacked_time negative step span", m, db, sp, names, method="stacked_time", )

    # 9. period_by_period on a forward-looking model (terminal is data)
    db = ir.Databox.steady(m, span, )
    db["ea"][start] = 0.01
    run("rbc period_by_period forward-looking", m, db, span, names, method="period_by_period", when_fails="silent", )


def scenarios_rbc_variants():
    m = make_rbc(num_variants=3, )
    start = ir.qq(2020, 1)
    end = ir.qq(2021, 2)
    span = start >> end
    names = ["y", "c", "k", "a", "r", "obs_y", "ea", "ec", "ant_ea"]
    db = ir.Databox.steady(m, span, )
    db["ea"][start] = 0.05
    db["ant_ea"][start+2] = [0.01, 0.02, 0.03]
    db["ec"][start+3] = [0.0, 0.01, 0.0]
    run("rbc 3 variants stacked_time", m, db, span, names, method="stacked_time", )
    run("rbc 3 variants stacked_time terminal=data", m, db, span, names, method="stacked_time", terminal="data", )
    run("rbc 3 variants stacked_time num_variants=2", m, db, span, names, method="stacked_time", num_variants=2, )
    plan = ir.SimulationPlan(m, span, )
    plan.swap_anticipated((start+1, ), ("y", "ant_ea"), )
    run("rbc 3 variants stacked_time plan", m, db, span, names, method="stacked_time", plan=plan, )


def scenarios_linear():
    m = make_linear()
    start = ir.qq(2021, 1)
    end = ir.qq(2023, 4)
    span = start >> end
    names = ["x", "p", "i", "z", "obs_p", "ex", "ep", "ei", "ant_ex", "ant_ep", "ant_ei"]
    cmp_names = ["x", "p", "i", "z"]  # measurement variables are not touched by stacked_time

    db = ir.Databox.steady(m, span, )
    db["ex"][start] = 1
    db["ep"][start+2] = 0.5
    db["ei"][start+2] = -0.25
    db["z"][start-1] = 0.3
    f = run("linear first_order unanticipated", m, db, span, names, method="first_order", )
    s = run("linear stacked_time unanticipated", m, db, span, names, method="stacked_time", )
    print("    matches first order (1e-9):", max_abs_diff(f, s, cmp_names, span, ) < 1e-9)
    s = run("linear stacked_time unanticipated initial_guess=data", m, db, span, names, method="stacked_time", initial_guess="data", )
    print("    matches first order (1e-9):", max_abs_diff(f, s, cmp_names, span, ) < 1e-9)
    run("linear stacked_time unanticipated terminal=data", m, db, span, names, method="stacked_time", terminal="data", )

    db = ir.Databox.steady(m, span, )
    db["ant_ex"][start+4] = 1
    db["ant_ep"][start+1] = -0.5
    db["ant_ei"][end] = 0.4
    f = run("linear first_order anticipated", m, db, span, names, method="first_order", )
    s = run("linear stacked_time anticipated", m, db, span, names, method="stacked_time", )
    print("    matches first order (1e-9):", max_abs_diff(f, s, cmp_names, span, ) < 1e-9)

    db["ex"][start+1] = 0.7
    db["ei"][start+6] = 0.2
    f = run("linear first_order mixed", m, db, span, names, method="first_order", )
    s = run("linear stacked_time mixed", m, db, span, names, method="stacked_time", )
    print("    matches first order (1e-9):", max_abs_diff(f, s, cmp_names, span, ) < 1e-9)

    db = ir.Databox.steady(m, span, )
    db["p"][start+2] = 3
    db["x"][start+5] = 0.5
    plan = ir.SimulationPlan(m, span, )
    plan.swap_anticipated((start+2, ), ("p", "ant_ep"), )
    plan.swap_unanticipated((start+5, ), ("x", "ex"), )
    f = run("linear first_order plan", m, db, span, names, method="first_order", plan=plan, )
    s = run("linear stacked_time plan", m, db, span, names, method="stacked_time", plan=plan, )
    if f is not None and s is not None:
        print("    matches first order (1e-9):", max_abs_diff(f, s, cmp_names, span, ) < 1e-9)


def scenarios_backward():
    m = make_backward()
    start = ir.mm(2020, 11)
    end = ir.mm(2021, 6)
    span = start >> end
    names = ["w", "v", "u", "obs_w", "ew", "ev", "ant_ew", "ant_ev"]

    db = ir.Databox.steady(m, span, )
    db["ew"][start] = 0.1
    db["ev"][start+1] = -0.2
    db["ev"][start+4] = 0.1
    db["v"][start-1] = 1.1
    p = run("backward period_by_period", m, db, span, names, method="period_by_period", )
    s = run("backward stacked_time", m, db, span, names, method="stacked_time", )
    print("    period_by_period equals stacked_time (1e-9):", max_abs_diff(p, s, ["w", "v", "u", "obs_w"], span, ) < 1e-9)
    run("backward period alias initial_guess=first_order", m, db, span, names, method="period", initial_guess="first_order", )
    run("backward period_by_period initial_guess=data", m, db, span, names, method="period_by_period", initial_guess="data", )
    run("backward stacked_time terminal=data", m, db, span, names, method="stacked_time", terminal="data", initial_guess="data", )

    # Exactly one Newton iteration from an off-solution starting point: the
    # outcome depends on how the initial guess is put together
    db1 = db.copy()
    db1["w"][start >> end] = 2.5
    db1["v"][start >> end] = 0.7
    db1["u"][start+1 >> end] = 1.3
    db1["u"][start] = np.nan
    one_iteration = {"max_iterations": 1, "norm_order": 2, }
    for method in ("period_by_period", "stacked_time", ):
        for initial_guess in ("data", "first_order", ):
            run(f"backward {method} one Newton iteration, initial_guess={initial_guess}", m, db1, span, names,
                method=method, initial_guess=initial_guess, when_fails="silent", when_missing="silent",
                solver_settings=one_iteration, )

    # Anticipated shocks
    db["ant_ew"][start+3] = 0.05
    run("backward period_by_period with anticipated", m, db, span, names, method="period_by_period", )

    # Missing values in the span and in the initial conditions
    db2 = db.copy()
    db2["w"][start] = np.nan
    db2["v"][start+2] = np.nan
    db2["u"][start >> end] = np.nan
    run("backward period_by_period missing in span", m, db2, span, names, method="period_by_period", )
    run("backward period_by_period missing in span, when_missing=warning", m, db2, span, names,
        method="period_by_period", when_missing="warning", )
    db3 = db.copy()
    db3["v"][start-2] = np.nan
    run("backward period_by_period missing initial, when_fails=silent", m, db3, span, names,
        method="period_by_period", when_fails="silent", when_missing="silent", )

    # Plans
    db4 = db.copy()
    db4["w"][start+2] = 2.2
    db4["v"][start+5] = 0.9
    plan = ir.SimulationPlan(m, span, )
    plan.swap_unanticipated((start+2, ), ("w", "ew"), )
    plan.swap_unanticipated((start+5, ), ("v", "ev"), )
    run("backward period_by_period plan", m, db4, span, names, method="period_by_period", plan=plan, )
    run("backward stacked_time plan", m, db4, span, names, method="stacked_time", plan=plan, )
    plan = ir.SimulationPlan(m, span, )
    plan.swap_anticipated((start+2, ), ("w", "ant_ew"), )
    run("backward stacked_time anticipated plan", m, db4, span, names, method="stacked_time", plan=plan, )

    # Other frequencies and lengths
    for label, first, length in (
        ("daily", ir.dd(2023, 12, 29), 5),
        ("quarterly", ir.qq(2020, 4), 1),
        ("yearly", ir.yy(1999), 3),
    ):
        sp = first >> (first + length - 1)
        db = ir.Databox.steady(m, sp, )
        db["ew"][first] = -0.1
        if length > 1:
            db["ev"][first+1] = 0.3
        run(f"backward period_by_period {label} length {length}", m, db, sp, names, method="period_by_period", )
        run(f"backward stacked_time {label} length {length}", m, db, sp, names, method="stacked_time", )


def scenario_pseudofunctions():
    start = ir.qq(2020, 1)
    end = ir.qq(2020, 4)
    db = ir.Databox()
    db["y"] = ir.Series(periods=start-1 >> end, values=[100.01, 100.07, 100.02, 100.09, 100.05], )
    db["x"] = ir.Series(periods=start-1 >> end, values=100, )
    for func in ("pct", "log", "diff", "roc", "diff_log"):
        source = "!transition_variables\n x\n!exogenous_variables\n y\n!equations\n {{func}}(x) = {{func}}(y);\n"
        m = ir.Simultaneous.from_string(source, context={"func": func}, )
        for method in ("period_by_period", "stacked_time"):
            run(f"pseudofunction {func} {method}", m, db, start >> end, ["x", "y"],
                method=method, initial_guess="data", solver_settings={"step_tolerance": 100, }, )


if __name__ == "__main__":
    np.seterr(all="ignore")
    scenarios_rbc()
    scenarios_rbc_variants()
    scenarios_linear()
    scenarios_backward()
    scenario_pseudofunctions()
    print("== done")

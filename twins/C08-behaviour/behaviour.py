"""
Behaviour digest for property C08 (Kalman smoother reproduces the data and is
a simulation of the model; deviation mode equals level mode minus steady state).

Run with

    cd /tmp/wt/C08 && PYTHONPATH=/tmp/wt/C08/src /venv/bin/python /tmp/twin_out/C08/behaviour.py

The script prints a deterministic digest: for every scenario it prints
rounded numbers, an exact sha256 of the raw float bytes of every output
series, and the result of the C08 property checks.
"""

import warnings
warnings.filterwarnings("ignore")

import hashlib
import sys

import contextlib
import io

import numpy as np
import irispie as ir

warnings.filterwarnings("ignore")
np.seterr(all="ignore", )


np.set_printoptions(precision=8, suppress=False, linewidth=200, )


SOURCE_NONLIN = r"""
!transition_variables
    x, z, g
!log_variables
    z
!transition_shocks
    shk_x, shk_z, shk_g
!parameters
    rho, ss_x, ss_z
!transition_equations
    x = rho*x{-1} + (1-rho)*ss_x + shk_x;
    log(z) = 0.5*log(z{-1}) + 0.5*log(ss_z) + 0.3*(x - ss_x) + shk_z;
    g = g{-1} + 0.1 + shk_g;
!measurement_variables
    obs_x, obs_z, obs_g
!log_variables
    obs_z
!measurement_shocks
    shk_obs_x
!measurement_equations
    obs_x = x + shk_obs_x;
    log(obs_z) = log(z) + 0.1;
    obs_g = g + x;
"""


SOURCE_LIN = r"""
!transition_variables
    a, b, c
!transition_shocks
    shk_a, shk_b
!parameters
    ra, rb, ka
!transition_equations
    a = ra*a{-1} + ka + 0.2*b{-2} + shk_a;
    b = rb*b{-1} + 0.4*a{+1} + shk_b;
    c = a + b{-1};
!measurement_variables
    obs_a, obs_c
!measurement_shocks
    shk_obs_a, shk_obs_c
!measurement_equations
    obs_a = a + shk_obs_a;
    obs_c = c + 2*shk_obs_c + 0.5;
"""


def make_nonlin(num_variants=1, ):
    m = ir.Simultaneous.from_string(SOURCE_NONLIN, linear=False, )
    if num_variants > 1:
        m.alter_num_variants(num_variants, )
    m.assign(
        rho=[0.8, 0.5, 0.3][:num_variants] if num_variants > 1 else 0.8,
        ss_x=1, ss_z=2, x=1, z=2, g=(0, 0.1),
        std_shk_x=[0.1, 0.2, 0.15][:num_variants] if num_variants > 1 else 0.1,
        std_shk_z=0.2, std_shk_g=0.05, std_shk_obs_x=0.3,
    )
    with contextlib.redirect_stdout(io.StringIO()):
        m.steady(fix_level=("g", ), )
    m.solve()
    return m


def make_lin(num_variants=1, ):
    m = ir.Simultaneous.from_string(SOURCE_LIN, linear=True, )
    if num_variants > 1:
        m.alter_num_variants(num_variants, )
    m.assign(
        ra=[0.7, 0.2][:num_variants] if num_variants > 1 else 0.7,
        rb=0.5, ka=0.3,
        std_shk_a=0.5, std_shk_b=0.25, std_shk_obs_a=0.1, std_shk_obs_c=0.05,
    )
    with contextlib.redirect_stdout(io.StringIO()):
        m.steady()
    m.solve()
    return m


def digest_array(values, ):
    arr = np.ascontiguousarray(np.asarray(values, dtype=float, ))
    return hashlib.sha256(arr.tobytes()).hexdigest()[:16]


def describe_series(name, series, ):
    data = np.asarray(series.get_data(), dtype=float, )
    if data.size == 0:
        return f"{name}: empty"
    start = series.start
    rounded = np.round(data, 8, ) + 0.0
    head = rounded.reshape(data.shape[0], -1)[:3, :].tolist()
    total = float(np.round(np.nansum(data), 8, ))
    num_nan = int(np.isnan(data).sum())
    return f"{name}: start={start} shape={data.shape} nan={num_nan} sum={total!r} head={head} sha={digest_array(data)}"


def describe_databox(label, db, ):
    print(f"  [{label}] {len(db.keys())} items")
    for name in db.keys():
        item = db[name]
        if hasattr(item, "get_data"):
            print("    " + describe_series(name, item, ))
        else:
            print(f"    {name}: {item!r}")


def describe_mse_obs(mse_obs, ):
    print(f"  [predict_mse_obs] variants={len(mse_obs)}")
    for vid, per_variant in enumerate(mse_obs, ):
        shapes = [ None if F is None else F.shape for F in per_variant ]
        sha = hashlib.sha256()
        for F in per_variant:
            if F is not None:
                sha.update(np.ascontiguousarray(F).tobytes())
        print(f"    v{vid}: shapes={shapes} sha={sha.hexdigest()[:16]}")


def describe_info(info, ):
    infos = info if isinstance(info, list) else [info]
    print(f"  [info] type={type(info).__name__} len={len(infos)}")
    for vid, i in enumerate(infos, ):
        for k in sorted(i.keys()):
            v = i[k]
            if hasattr(v, "get_data"):
                print("    " + f"v{vid} " + describe_series(k, v, ))
            else:
                print(f"    v{vid} {k}: {float(v)!r}")


def describe_output(out, info, ):
    if out is None:
        print("  out is None")
    else:
        print(f"  keys={list(out.keys())}")
        for k in out.keys():
            if k == "predict_mse_obs":
                describe_mse_obs(out[k], )
            else:
                describe_databox(k, out[k], )
    if info is not None:
        describe_info(info, )


def check_reproduces_data(model, out, db, span, tol=1e-8, ):
    """Smoothed measurement variables equal the data wherever data exist"""
    sm = out["smooth_med"]
    names = model.get_names(kind=ir.MEASUREMENT_VARIABLE, )
    worst = 0.0
    for n in names:
        if n not in db.keys():
            continue
        x = np.asarray(db[n].get_data(span, ), dtype=float, )
        y = np.asarray(sm[n].get_data(span, ), dtype=float, )
        if x.ndim == 1:
            x = x.reshape(-1, 1)
        if x.shape[1] == 1 and y.shape[1] > 1:
            x = np.tile(x, (1, y.shape[1]))
        mask = ~np.isnan(x)
        if mask.any():
            worst = max(worst, float(np.max(np.abs(x[mask] - y[mask]))))
    return worst < tol


def check_resimulation(model, out, span, tol=1e-7, **kwargs, ):
    """Simulating from smoothed initial condition with smoothed shocks reproduces smoothed variables"""
    sm = out["smooth_med"]
    names = (
        model.get_names(kind=ir.TRANSITION_VARIABLE, )
        + model.get_names(kind=ir.MEASUREMENT_VARIABLE, )
    )
    sim_db = sm.copy()
    for n in list(sim_db.keys()):
        if n.startswith("std_") or n.startswith("log("):
            del sim_db[n]
    sim = model.simulate(sim_db, span, **kwargs, )
    worst = 0.0
    for n in names:
        x = np.asarray(sm[n].get_data(span, ), dtype=float, )
        y = np.asarray(sim[n].get_data(span, ), dtype=float, )
        diff = np.abs(x - y)
        diff = diff[~np.isnan(diff)]
        if diff.size:
            worst = max(worst, float(diff.max()))
    return worst < tol


def make_data_nonlin(span, seed, num_variants=1, ):
    rng = np.random.default_rng(seed, )
    n = len(span)
    db = ir.Databox()
    shape = (n, num_variants) if num_variants > 1 else (n, )
    db["obs_x"] = ir.Series(periods=span, values=1 + 0.1*rng.standard_normal(shape, ), )
    db["obs_z"] = ir.Series(periods=span, values=np.exp(np.log(2) + 0.1 + 0.1*rng.standard_normal(shape, )), )
    db["obs_g"] = ir.Series(periods=span, values=1 + np.cumsum(0.1 + 0.05*rng.standard_normal(shape, ), axis=0, ), )
    return db


def make_data_lin(span, seed, ):
    rng = np.random.default_rng(seed, )
    n = len(span)
    db = ir.Databox()
    db["obs_a"] = ir.Series(periods=span, values=1 + 0.5*rng.standard_normal(n, ), )
    db["obs_c"] = ir.Series(periods=span, values=2 + 0.5*rng.standard_normal(n, ), )
    return db


def apply_mask(db, span, mask, ):
    """mask: dict name -> list of positions to set NaN"""
    out = db.copy()
    for name, positions in mask.items():
        data = np.array(out[name].get_data(span, ), dtype=float, )
        data[list(positions), ...] = np.nan
        out[name] = ir.Series(periods=span, values=data if data.shape[1] > 1 else data[:, 0], )
    return out


def run(label, model, db, span, checks=True, resim_kwargs=None, **kwargs, ):
    print("=" * 70)
    print(f"SCENARIO {label}")
    try:
        result = model.kalman_filter(db, span, **kwargs, )
    except Exception as exc:
        print(f"  RAISED {type(exc).__name__}: {str(exc)[:200]}")
        return None
    if kwargs.get("return_info", False):
        out, info = result
    else:
        out, info = result, None
    describe_output(out, info, )
    if checks and out is not None and "smooth_med" in out.keys():
        print(f"  C08 reproduces data: {check_reproduces_data(model, out, db, span, )}")
    return out


def main():
    m1 = make_nonlin()
    m1v = make_nonlin(3, )
    m2 = make_lin()
    m2v = make_lin(2, )

    spans = {
        "Q": ir.qq(2020, 1) >> ir.qq(2022, 4),
        "M": ir.mm(2021, 11) >> ir.mm(2022, 8),
        "D": ir.dd(2020, 2, 25) >> ir.dd(2020, 3, 9),
        "Y": ir.yy(2001) >> ir.yy(2008),
        "I": ir.ii(-3) >> ir.ii(6),
    }

    # 1. Full data, all frequencies, level mode, return_info
    for freq, span in spans.items():
        db = make_data_nonlin(span, 1, )
        out = run(f"nonlin/full/{freq}", m1, db, span, return_info=True, )

    # 2. Missing data masks
    span = spans["Q"]
    db_full = make_data_nonlin(span, 2, )
    masks = {
        "scattered": {"obs_x": [0, 3, 4], "obs_z": [3, 7], "obs_g": [1, 3]},
        "whole_period_and_tail": {"obs_x": [3, 9, 10, 11], "obs_z": [3, 9, 10, 11], "obs_g": [3, 9, 10, 11]},
        "first_period": {"obs_x": [0], "obs_z": [0], "obs_g": [0]},
        "one_var_all": {"obs_z": list(range(12))},
    }
    for name, mask in masks.items():
        db = apply_mask(db_full, span, mask, )
        out = run(f"nonlin/mask:{name}", m1, db, span, return_info=True, prepend_initial=True, )
        if out is not None:
            print(f"  C08 resimulation: {check_resimulation(m1, out, span, )}")

    # 2b. A measurement variable entirely missing from the databox
    db = db_full.copy()
    del db["obs_g"]
    run("nonlin/absent_series", m1, db, span, return_info=True, )

    # 2c. No observations at all
    db = apply_mask(db_full, span, {n: list(range(12)) for n in ("obs_x", "obs_z", "obs_g")}, )
    run("nonlin/no_data", m1, db, span, return_info=True, rescale_variance=True, )

    # 3. Deviation mode vs level mode
    steady = m1.get_steady_levels()
    changes = m1.get_steady_changes()
    db = apply_mask(db_full, span, masks["scattered"], )
    dev_db = ir.Databox()
    num = len(span)
    dev_db["obs_x"] = db["obs_x"] - steady["obs_x"]
    dev_db["obs_z"] = db["obs_z"] / steady["obs_z"]
    # obs_g trends: steady path is level + change*(t - t0), t0 being the period before the start
    out_lev = run("nonlin/level_for_deviation", m1, db, span, prepend_initial=True, return_info=True, )
    ss_db = ir.Databox.steady(m1, span, )
    dev_db["obs_g"] = db["obs_g"] - ss_db["obs_g"]
    out_dev = run("nonlin/deviation", m1, dev_db, span, deviation=True, prepend_initial=True, return_info=True, )
    worst = 0.0
    for n in ("x", "g", "obs_x", "obs_g", "shk_x", "shk_obs_x", ):
        lev = np.asarray(out_lev["smooth_med"][n].get_data(span, ), dtype=float, )
        dev = np.asarray(out_dev["smooth_med"][n].get_data(span, ), dtype=float, )
        ss = np.asarray(ss_db[n].get_data(span, ), dtype=float, ) if n in ss_db.keys() else 0
        worst = max(worst, float(np.nanmax(np.abs(lev - ss - dev))))
    for n in ("z", "obs_z", ):
        lev = np.asarray(out_lev["smooth_med"][n].get_data(span, ), dtype=float, )
        dev = np.asarray(out_dev["smooth_med"][n].get_data(span, ), dtype=float, )
        ss = np.asarray(ss_db[n].get_data(span, ), dtype=float, )
        worst = max(worst, float(np.nanmax(np.abs(lev / ss - dev))))
    print(f"  C08 deviation equals level minus steady: {worst < 1e-7}")
    print(f"  C08 resimulation (deviation): {check_resimulation(m1, out_dev, span, deviation=True, )}")

    # 4. Options
    db = apply_mask(db_full, span, masks["scattered"], )
    run("nonlin/rescale_variance", m1, db, span, rescale_variance=True, return_info=True, )
    run("nonlin/approx_diffuse", m1, db, span, diffuse_method="approx_diffuse", return_info=True, )
    run("nonlin/approx_diffuse_scale", m1, db, span, diffuse_method="approx_diffuse", diffuse_scale=1e4, return_info=True, )
    run("nonlin/fixed_zero", m1, db, span, diffuse_method="fixed_zero", return_info=True, )
    run("nonlin/append_terminal", m1, db, span, prepend_initial=True, append_terminal=True, return_info=True, )
    run("nonlin/check_singularity", m1, db, span, check_singularity=True, return_info=True, )
    run("nonlin/return_smooth_only", m1, db, span, return_=("smooth", ), return_info=True, likelihood_contributions=False, )
    run("nonlin/return_predict_only", m1, db, span, return_=("predict", "predict_mse_obs", ), )
    run("nonlin/return_update_err", m1, db, span, return_="update", return_predict_err=True, )
    run("nonlin/return_update_prederr", m1, db, span, return_=("update", "predict_err", ), )
    run("nonlin/return_flags_off", m1, db, span, return_predict=False, return_update=False, return_predict_mse_obs=False, return_info=True, )
    run("nonlin/return_nothing", m1, db, span, return_=(), return_info=True, )
    run("nonlin/unpack_singleton_false", m1, db, span, return_=(), return_info=True, unpack_singleton=False, )
    run("nonlin/output_parameters", m1, db, span, return_=("smooth", ), output_parameters=True, )
    print("=" * 70)
    print("neg_log_likelihood", repr(float(m1.neg_log_likelihood(db, span, ))))
    print("neg_log_likelihood rescaled", repr(float(m1.neg_log_likelihood(db, span, rescale_variance=True, ))))

    # 5. Shocks and stds from data (incl. anticipated shocks, time-varying stds)
    db = apply_mask(db_full, span, masks["scattered"], )
    db["shk_x"] = ir.Series(periods=(span[2], span[5]), values=[0.2, -0.1], )
    db["ant_shk_x"] = ir.Series(periods=(span[4], ), values=[0.3], )
    db["shk_obs_x"] = ir.Series(periods=(span[1], ), values=[0.05], )
    db["std_shk_x"] = ir.Series(periods=(span[3], span[6]), values=[0.5, 0.0], )
    db["std_shk_obs_x"] = ir.Series(periods=(span[2], ), values=[0.0], )
    out = run("nonlin/shocks_from_data", m1, db, span, shocks_from_data=True, prepend_initial=True, return_info=True, )
    out = run("nonlin/stds_from_data", m1, db, span, stds_from_data=True, prepend_initial=True, return_info=True, )
    if out is not None:
        print(f"  C08 resimulation: {check_resimulation(m1, out, span, )}")
    out = run("nonlin/shocks_and_stds_from_data", m1, db, span, shocks_from_data=True, stds_from_data=True, return_info=True, )
    out = run("nonlin/ignored_shocks_in_data", m1, db, span, return_info=True, )

    # 6. Singular prediction MSE
    m_sing = m1.copy()
    m_sing.assign(std_shk_obs_x=0, std_shk_x=0, std_shk_z=0, std_shk_g=0, )
    db = make_data_nonlin(span, 3, )
    for when in ("warning", "silent", "error", ):
        run(f"nonlin/singular:{when}", m_sing, db, span, diffuse_method="fixed_zero", check_singularity=True, when_singularity=when, return_info=True, checks=False, )

    # 7. Multiple variants
    db = make_data_nonlin(span, 4, num_variants=3, )
    db = apply_mask(db, span, masks["scattered"], )
    out = run("nonlin/3variants/3data", m1v, db, span, prepend_initial=True, return_info=True, )
    if out is not None:
        print(f"  C08 resimulation: {check_resimulation(m1v, out, span, )}")
    db = apply_mask(db_full, span, masks["whole_period_and_tail"], )
    run("nonlin/3variants/1data", m1v, db, span, return_info=True, rescale_variance=True, )
    run("nonlin/3variants/num_variants=2", m1v, db, span, return_info=True, num_variants=2, return_=("smooth", ), )
    db = make_data_nonlin(span, 4, num_variants=3, )
    run("nonlin/1variant/3data", m1, db, span, return_info=True, num_variants=3, return_=("smooth", "predict_err", ), )

    # 8. Linear stationary model with lags/leads and measurement shocks
    for freq in ("Q", "D", ):
        span = spans[freq]
        db = make_data_lin(span, 5, )
        n = len(span)
        db = apply_mask(db, span, {"obs_a": [1, n-1], "obs_c": [0, 4, n-1]}, )
        out = run(f"lin/{freq}", m2, db, span, prepend_initial=True, append_terminal=True, return_info=True, )
        if out is not None:
            print(f"  C08 resimulation: {check_resimulation(m2, out, span, )}")
        out = run(f"lin/2variants/{freq}", m2v, db, span, prepend_initial=True, return_info=True, rescale_variance=True, )
    span = spans["Q"]
    db = make_data_lin(span, 5, )
    ss = m2.get_steady_levels()
    dev_db = ir.Databox()
    dev_db["obs_a"] = db["obs_a"] - ss["obs_a"]
    dev_db["obs_c"] = db["obs_c"] - ss["obs_c"]
    out_lev = run("lin/level", m2, db, span, return_=("smooth", ), )
    out_dev = run("lin/deviation", m2, dev_db, span, return_=("smooth", ), deviation=True, )
    worst = 0.0
    for n in ("a", "b", "c", "obs_a", "obs_c", "shk_a", "shk_b", "shk_obs_a", "shk_obs_c", ):
        lev = np.asarray(out_lev["smooth_med"][n].get_data(span, ), dtype=float, )
        dev = np.asarray(out_dev["smooth_med"][n].get_data(span, ), dtype=float, )
        worst = max(worst, float(np.nanmax(np.abs(lev - ss.get(n, 0) - dev))))
    print(f"  C08 deviation equals level minus steady: {worst < 1e-7}")

    # 9. Single-period and reversed/empty spans
    span = spans["Q"]
    db = make_data_lin(span, 6, )
    run("lin/single_period", m2, db, span[3] >> span[3], return_info=True, )
    run("lin/two_periods", m2, db, span[3] >> span[4], return_info=True, prepend_initial=True, )
    run("lin/negative_step_span", m2, db, ir.Span(span[5], span[2], -1), return_info=True, checks=False, )
    run("lin/tuple_span", m2, db, tuple(span[2:6]), return_info=True, checks=False, )

    # 10. Conditional first-order simulation (uses the same predict/smooth kernels)
    span = spans["Q"]
    sim_span = span[0] >> span[5]
    in_db = ir.Databox.steady(m1, span, )
    plan = ir.PlanSimulate(m1, sim_span, )
    plan.exogenize_unanticipated(span[1], "x", )
    plan.endogenize_unanticipated(span[1], "shk_x", )
    plan.exogenize_unanticipated((span[2], span[3]), "z", )
    plan.endogenize_unanticipated(span[2], ("shk_z", "shk_x"), )
    in_db["x"][span[1]] = 1.3
    in_db["z"][span[2]] = 2.2
    in_db["z"][span[3]] = 1.9
    print("=" * 70)
    print("SCENARIO conditional_simulation")
    try:
        sim_db = m1.simulate(in_db, sim_span, plan=plan, )
        describe_databox("simulate", sim_db, )
    except Exception as exc:
        print(f"  RAISED {type(exc).__name__}: {str(exc)[:200]}")


if __name__ == "__main__":
    main()

"""
Behaviour digest for property C08 (Kalman smoother reproduces the data and is a
simulation of the model).

Run as

    cd /tmp/wt2/C08 && PYTHONPATH=/tmp/wt2/C08/src /venv/bin/python /tmp/twin2_out/C08/behaviour.py

and compare stdout between the untouched worktree and each refactoring. All
numbers are printed rounded (10 significant digits) so that the digest is
deterministic; a sha256 of the whole digest is printed at the end.
"""

import contextlib
import hashlib
import io
import sys
import warnings

import numpy as np

import irispie as ir
from irispie.incidences import main as _incidence
from irispie.incidences.main import Token
from irispie.fords import descriptors as _descriptors
from irispie.fords import shock_simulators as _shock_simulators

warnings.filterwarnings("ignore")

_OUT = io.StringIO()


def emit(*args):
    line = " ".join(str(a) for a in args)
    _OUT.write(line + "\n")


def fmt(x):
    if x is None:
        return "None"
    if isinstance(x, (bool, np.bool_)):
        return str(bool(x))
    if isinstance(x, (int, np.integer)):
        return str(int(x))
    x = float(x)
    if np.isnan(x):
        return "nan"
    if x == 0:
        return "0"
    return f"{x:.10g}"


def fmt_array(a):
    a = np.asarray(a)
    if a.ndim == 0:
        return fmt(a[()])
    return "[" + ", ".join(fmt_array(r) for r in a) + "]"


# ------------------------------------------------------------------------------
# Models
# ------------------------------------------------------------------------------

# Nonlinear model: log-variables, forward-looking variable, second-order lags,
# lagged transition variables in measurement equations, measurement shocks,
# one measurement variable in logs
SOURCE_NONLINEAR = r"""
!transition-variables
    y, c, k, a, pie, r
!transition-shocks
    eps_a, eps_c, eps_r
!parameters
    rho_a, rho_c, ss_a, ss_c, kappa, beta, phi, rho_r, ss_r, delta
!log-variables
    y, c, a
!transition-equations
    log(a) = rho_a*log(a[-1]) + (1-rho_a)*log(ss_a) + eps_a;
    log(c) = rho_c*log(c[-1]) + (1-rho_c)*log(ss_c) + 0.1*(log(a[-2]) - log(ss_a)) + eps_c;
    y = a * c;
    k = (1-delta)*k[-1] + delta*log(y[-1]);
    pie = beta*pie[+1] + kappa*(log(y) - log(ss_a*ss_c));
    r = rho_r*r[-1] + (1-rho_r)*(ss_r + phi*pie[+1]) + eps_r;
!measurement-variables
    obs_y, obs_dc, obs_pie, obs_r, obs_k
!measurement-shocks
    omg_y, omg_pie
!log-variables
    obs_y
!measurement-equations
    obs_y = y * exp(omg_y);
    obs_dc = 100*(log(c) - log(c[-1]));
    obs_pie = pie + omg_pie;
    obs_r = r[-1] + 0.5*(r - r[-2]);
    obs_k = k;
"""

# Linear model, no logs, unit root, measurement equation with deep lag
SOURCE_LINEAR = r"""
!transition-variables
    x, z, w, lvl
!transition-shocks
    eps_x, eps_z
!parameters
    ax, az, cx, gw
!transition-equations
    x = ax*x[-1] + cx + 0.3*z[-1] + eps_x;
    z = az*z[-1] + eps_z;
    w = gw*w[+1] + x;
    lvl = lvl[-1] + x[-3];
!measurement-variables
    ox, ow, olvl, ozz
!measurement-shocks
    mx
!measurement-equations
    ox = x + mx;
    ow = w[-1];
    olvl = lvl;
    ozz = z + z[-2];
"""


def create_nonlinear(num_variants=1):
    m = ir.Simultaneous.from_string(SOURCE_NONLINEAR, )
    m.assign(
        rho_a=0.8, rho_c=0.5, ss_a=1.5, ss_c=2.0, kappa=0.1, beta=0.95,
        phi=1.5, rho_r=0.7, ss_r=2.0, delta=0.1,
        std_eps_a=0.02, std_eps_c=0.01, std_eps_r=0.2,
        std_omg_y=0.005, std_omg_pie=0.1,
    )
    if num_variants > 1:
        m.alter_num_variants(num_variants, )
        m.assign(
            rho_a=[0.8, 0.6, 0.3][:num_variants],
            kappa=[0.1, 0.2, 0.05][:num_variants],
            std_eps_a=[0.02, 0.03, 0.01][:num_variants],
        )
    m.assign(
        a=1.5, c=2.0, y=3.0, k=np.log(3.0), pie=0.0, r=2.0,
        obs_y=3.0, obs_dc=0.0, obs_pie=0.0, obs_r=2.0, obs_k=np.log(3.0),
    )
    with contextlib.redirect_stdout(io.StringIO()):
        m.steady()
        m.check_steady()
    m.solve()
    return m


def create_linear():
    m = ir.Simultaneous.from_string(SOURCE_LINEAR, linear=True, )
    m.assign(
        ax=0.6, az=0.4, cx=0.0, gw=0.5,
        std_eps_x=0.5, std_eps_z=0.3, std_mx=0.2,
    )
    m.solve()
    return m


# ------------------------------------------------------------------------------
# Unit-level digests of the helper functions
# ------------------------------------------------------------------------------


def digest_incidence_helpers():
    emit("== incidence helpers")
    token_sets = [
        [],
        [Token(3, 0)],
        [Token(3, 0), Token(1, -2), Token(3, 1), Token(1, 0), Token(2, -1), Token(1, -1)],
        [Token(5, 2), Token(5, -4), Token(0, 0), Token(0, 0), Token(7, 3)],
        {Token(9, -1), Token(2, 2), Token(9, 4), Token(4, 0), Token(2, -3)},
        (Token(q, s) for q in (4, 1, 3) for s in (1, -1, 0)),
    ]
    somethings = [
        ("min", min),
        ("max", max),
        ("minm1", lambda x: min(min(x), -1)),
        ("list", list),
        ("sum", sum),
        ("type", lambda x: hasattr(x, "__next__")),
    ]
    for i, tokens in enumerate(token_sets):
        tokens = list(tokens)
        for name, something in somethings:
            out = _incidence.get_some_shift_by_quantities(iter(tokens), something, )
            emit(i, name, type(out).__name__, list(out.items()))
        out = _incidence.get_some_shift_by_quantities(tuple(tokens), max, )
        emit(i, "tuple-max", list(out.items()))
    #
    emit("== system transition vector")
    for i, tokens in enumerate(token_sets[:5]):
        tokens = list(tokens)
        vec = _descriptors._create_system_transition_vector(iter(tokens), )
        vec = list(vec)
        emit(i, "sorted", [tuple(t) for t in _incidence.sort_tokens(vec)])
        emit(i, "len", len(vec), len(set(vec)))


def digest_descriptor(model, label):
    emit(f"== descriptor {label}")
    descriptor = model._invariant.dynamic_descriptor
    qid_to_name = model.create_qid_to_name()
    sv = descriptor.system_vectors
    emit("system transition", [(qid_to_name[t.qid], t.shift) for t in sv.transition_variables])
    emit("system true_initials", list(sv.true_initials))
    emit("system logly", list(sv.transition_variables_are_logly))
    emit("shapes", sv.shape_A_excl_dynid, sv.shape_F, sv.shape_G, sv.shape_J)
    vec = descriptor.solution_vectors
    emit("solution transition", [(qid_to_name[t.qid], t.shift) for t in vec.transition_variables])
    emit("solution true_initials", list(vec.true_initials))
    emit("initials", [(qid_to_name[t.qid], t.shift) for t in vec.get_initials()])
    emit("max_lag max_lead", model.max_lag, model.max_lead)
    equations = model._invariant.dynamic_equations
    qid_to_kind = model.create_qid_to_kind()
    actual = set(_incidence.generate_tokens_of_kinds(
        _descriptors._collect_all_tokens(equations, model._invariant.quantities, ),
        qid_to_kind, ir.TRANSITION_VARIABLE,
    ))
    adjusted = _descriptors._adjust_for_measurement_equations(actual, equations, qid_to_kind, )
    emit("adjusted type", type(adjusted).__name__, len(adjusted))
    emit("adjusted", sorted((qid_to_name[t.qid], t.shift) for t in adjusted))
    emit("added", sorted((qid_to_name[t.qid], t.shift) for t in set(adjusted) - actual))
    for _, v in zip(range(model.num_variants), model.iter_variants()):
        sol = v._gets_solution()
        for n in ("Ta", "Pa", "Ka", "Za", "H", "D", "Ua", "T", "P", "K", "Z"):
            emit("solution", n, fmt_array(np.round(getattr(sol, n), 10) + 0.0))


def digest_partials():
    emit("== partial objects")
    for name in (
        "simulate_square_anticipated_shock_values",
        "simulate_triangular_anticipated_shock_values",
    ):
        p = getattr(_shock_simulators, name)
        emit(name, type(p).__name__, callable(p))
        emit(" func", p.func.__name__, p.args, sorted(p.keywords))
        emit(" expansion", p.keywords["get_solution_expansion"].__qualname__)


# ------------------------------------------------------------------------------
# Kalman filter digests
# ------------------------------------------------------------------------------


def create_data(model, span, rng, shock_scale=1.0, with_anticipated=False, ):
    """
    Simulate the model with random shocks to get realistic observations
    """
    span = tuple(span)
    db = ir.Databox.steady(model, span[0] >> span[-1], )
    num = len(span)
    shock_names = model.get_names(kind=ir.TRANSITION_SHOCK | ir.MEASUREMENT_SHOCK, )
    std_db = model.get_stds(unpack_singleton=True, )
    for n in shock_names:
        std = std_db["std_" + n]
        std = std[0] if isinstance(std, (list, tuple)) else std
        values = rng.standard_normal(num) * float(std) * shock_scale
        db[n] = ir.Series(periods=span, values=np.asarray(values, dtype=float), )
    if with_anticipated:
        for n in model.get_names(kind=ir.TRANSITION_SHOCK, )[:2]:
            values = np.zeros(num)
            values[[2, num // 2, num - 3]] = [0.03, -0.02, 0.015]
            db["ant_" + n] = ir.Series(periods=span, values=np.asarray(values, dtype=float), )
    sim_db = model.simulate(db, span[0] >> span[-1], )
    if isinstance(sim_db, tuple):
        sim_db = sim_db[0]
    return sim_db


def series_values(series, span, variant=None):
    data = series.get_data(span, )
    data = np.asarray(data, dtype=float)
    if data.ndim == 1:
        data = data.reshape(-1, 1)
    return data if variant is None else data[:, variant]


def digest_databox(label, db, span, names=None, ):
    names = sorted(db.keys()) if names is None else names
    for n in names:
        if n not in db:
            emit(label, n, "<missing>")
            continue
        x = db[n]
        if isinstance(x, ir.Series):
            emit(label, n, fmt_array(series_values(x, span).T))
        elif isinstance(x, (list, tuple)):
            emit(label, n, [fmt(i) if np.isscalar(i) else fmt_array(i) for i in x])
        else:
            emit(label, n, fmt(x) if np.isscalar(x) else repr(x))


def digest_info(label, info, span):
    infos = info if isinstance(info, list) else [info]
    for vid, i in enumerate(infos):
        for k in sorted(i.keys()):
            x = i[k]
            if isinstance(x, ir.Series):
                emit(label, f"info[{vid}]", k, fmt_array(series_values(x, span).T))
            elif np.isscalar(x):
                emit(label, f"info[{vid}]", k, fmt(x))
            else:
                emit(label, f"info[{vid}]", k, type(x).__name__)


def mask_data(db, names, span, rng, fraction, always_missing=(), empty_periods=(), ):
    span = tuple(span)
    out = ir.Databox()
    for n in names:
        if n in always_missing:
            continue
        values = series_values(db[n], span)[:, 0].copy()
        drop = rng.random(len(span)) < fraction
        values[drop] = np.nan
        for t in empty_periods:
            values[t] = np.nan
        out[n] = ir.Series(periods=span, values=np.asarray(values, dtype=float), )
    return out


def check_property(label, model, obs_db, out, span, deviation, ):
    """
    Print max abs discrepancies relevant to C08 (rounded to 1e-8 resolution so
    that they are deterministic), per variant
    """
    span = tuple(span)
    smooth = out["smooth_med"]
    y_names = model.get_names(kind=ir.MEASUREMENT_VARIABLE, )
    for n in y_names:
        if n not in obs_db:
            continue
        data = series_values(obs_db[n], span)
        sm = series_values(smooth[n], span)
        worst = 0.0
        for v in range(sm.shape[1]):
            d = data[:, min(v, data.shape[1]-1)]
            inx = ~np.isnan(d)
            if inx.any():
                worst = max(worst, float(np.max(np.abs(sm[inx, v] - d[inx]))))
        emit(label, "data-reproduction", n, "ok" if worst < 1e-8 else fmt(worst))


def run_kalman(label, model, obs_db, span, digest_names=None, **kwargs, ):
    emit(f"== kalman {label} {sorted(kwargs.items())}")
    try:
        out, info = model.kalman_filter(obs_db, span, return_info=True, **kwargs, )
    except Exception as exc:
        emit(label, "EXCEPTION", type(exc).__name__, str(exc)[:200])
        return None
    ext_span = tuple(span)
    first, last = ext_span[0], ext_span[-1]
    if kwargs.get("prepend_initial"):
        first = first - abs(model.max_lag)
    if kwargs.get("append_terminal"):
        last = last + abs(model.max_lead)
    ext_span = tuple(first >> last)
    for key in ("predict_med", "predict_std", "update_med", "update_std", "smooth_med", "smooth_std", "predict_err", ):
        if key in out and out[key] is not None:
            digest_databox(f"{label} {key}", out[key], ext_span, names=digest_names, )
        else:
            emit(label, key, "<absent>")
    if "predict_mse_obs" in out and out["predict_mse_obs"] is not None:
        mse = out["predict_mse_obs"]
        emit(label, "predict_mse_obs", _digest_nested(mse))
    digest_info(label, info, ext_span)
    if "smooth_med" in out and out["smooth_med"] is not None:
        check_property(label, model, obs_db, out, span, kwargs.get("deviation", False), )
    return out


def _digest_nested(x):
    if x is None:
        return "None"
    if isinstance(x, np.ndarray):
        return fmt_array(x)
    if isinstance(x, (list, tuple)):
        return "[" + ", ".join(_digest_nested(i) for i in x) + "]"
    if np.isscalar(x):
        return fmt(x)
    return type(x).__name__


def resimulate(label, model, out, span, deviation, ):
    """
    Re-simulate the model from the smoothed initial condition with the
    smoothed shocks and print the result next to the smoothed variables
    """
    emit(f"== resimulate {label}")
    span = tuple(span)
    smooth = out["smooth_med"]
    try:
        sim = model.simulate(smooth, span[0] >> span[-1], deviation=deviation, )
    except Exception as exc:
        emit(label, "EXCEPTION", type(exc).__name__, str(exc)[:200])
        return
    if isinstance(sim, tuple):
        sim = sim[0]
    names = model.get_names(kind=ir.TRANSITION_VARIABLE | ir.MEASUREMENT_VARIABLE, )
    digest_databox(f"{label} sim", sim, span, names=names, )
    for n in names:
        a = series_values(sim[n], span)
        b = series_values(smooth[n], span)
        both = ~np.isnan(a) & ~np.isnan(b)
        worst = float(np.max(np.abs(a[both] - b[both]))) if both.any() else 0.0
        emit(label, "resim-vs-smooth", n, "ok" if worst < 1e-7 else fmt(worst))


def main():
    digest_incidence_helpers()
    digest_partials()

    # --- Nonlinear model with logs, single variant
    m = create_nonlinear()
    digest_descriptor(m, "nonlinear")
    rng = np.random.default_rng(20240608)
    y_names = m.get_names(kind=ir.MEASUREMENT_VARIABLE, )

    spans = {
        "qq": ir.qq(2020, 1) >> ir.qq(2023, 4),
        "mm": ir.mm(2021, 11) >> ir.mm(2022, 10),
        "dd": ir.dd(2024, 2, 25) >> ir.dd(2024, 3, 8),
        "ii": ir.ii(-3) >> ir.ii(8),
    }
    for freq, span in spans.items():
        span = tuple(span)
        sim_db = create_data(m, span, rng, )
        # Full data
        obs_db = mask_data(sim_db, y_names, span, rng, 0.0, )
        out = run_kalman(f"nl-{freq}-full", m, obs_db, span[0] >> span[-1], )
        if out is not None:
            resimulate(f"nl-{freq}-full", m, out, span, False, )
        # Random missing observations, one period with no data at all, one
        # measurement variable never observed
        obs_db = mask_data(
            sim_db, y_names, span, rng, 0.35,
            always_missing=("obs_k", ), empty_periods=(0, 5, len(span)-1, ),
        )
        for kwargs in (
            dict(),
            dict(prepend_initial=True, append_terminal=True, ),
            dict(diffuse_method="approx_diffuse", ),
            dict(rescale_variance=True, return_predict=False, ),
        ):
            out = run_kalman(f"nl-{freq}-miss", m, obs_db, span[0] >> span[-1], **kwargs, )
        if out is not None:
            pass

    # --- Deviation mode: data minus steady state
    span = tuple(ir.qq(2020, 1) >> ir.qq(2022, 4))
    sim_db = create_data(m, span, rng, )
    obs_db = mask_data(sim_db, y_names, span, rng, 0.25, empty_periods=(3, ), )
    out_level = run_kalman("nl-level", m, obs_db, span[0] >> span[-1], prepend_initial=True, )
    resimulate("nl-level", m, out_level, span, False, )
    steady = m.get_steady_levels(unpack_singleton=True, )
    qid_to_logly = m.create_qid_to_logly()
    name_to_logly = {n: qid_to_logly.get(q, False) for q, n in m.create_qid_to_name().items()}
    dev_db = ir.Databox()
    for n in y_names:
        if n not in obs_db:
            continue
        values = series_values(obs_db[n], span)[:, 0]
        values = values / steady[n] if name_to_logly[n] else values - steady[n]
        dev_db[n] = ir.Series(periods=span, values=np.asarray(values, dtype=float), )
    out_dev = run_kalman("nl-dev", m, dev_db, span[0] >> span[-1], prepend_initial=True, deviation=True, )
    resimulate("nl-dev", m, out_dev, span, True, )
    emit("== deviation vs level")
    ext_span = tuple((span[0] - abs(m.max_lag)) >> span[-1])
    for n in m.get_names(kind=ir.TRANSITION_VARIABLE | ir.MEASUREMENT_VARIABLE, ):
        lev = series_values(out_level["smooth_med"][n], ext_span)[:, 0]
        dev = series_values(out_dev["smooth_med"][n], ext_span)[:, 0]
        implied = lev / steady[n] if name_to_logly[n] else lev - steady[n]
        both = ~np.isnan(implied) & ~np.isnan(dev)
        worst = float(np.max(np.abs(implied[both] - dev[both]))) if both.any() else 0.0
        emit("dev-vs-level", n, "ok" if worst < 1e-7 else fmt(worst))

    # --- Shocks (incl anticipated) and stds from data
    span = tuple(ir.qq(2021, 1) >> ir.qq(2023, 4))
    sim_db = create_data(m, span, rng, with_anticipated=True, )
    digest_databox("ant-sim", sim_db, span, names=m.get_names(kind=ir.TRANSITION_VARIABLE, ), )
    obs_db = mask_data(sim_db, y_names, span, rng, 0.2, empty_periods=(1, ), )
    for n in ("ant_eps_a", "ant_eps_c", ):
        obs_db[n] = sim_db[n]
    obs_db["eps_r"] = ir.Series(periods=span[3:5], values=np.array([0.1, -0.1]), )
    obs_db["std_eps_a"] = ir.Series(periods=span[4:7], values=np.array([0.05, 0.08, 0.0]), )
    obs_db["std_omg_y"] = ir.Series(periods=span[2:4], values=np.array([0.0, 0.02]), )
    for kwargs in (
        dict(shocks_from_data=True, ),
        dict(stds_from_data=True, ),
        dict(shocks_from_data=True, stds_from_data=True, prepend_initial=True, ),
    ):
        out = run_kalman("nl-fromdata", m, obs_db, span[0] >> span[-1], **kwargs, )
    emit("nll", fmt(m.neg_log_likelihood(obs_db, span[0] >> span[-1], shocks_from_data=True, )))
    emit("nll", fmt(m.neg_log_likelihood(obs_db, span[0] >> span[-1], )))

    # --- Multiple variants
    m3 = create_nonlinear(num_variants=3, )
    digest_descriptor(m3, "nonlinear-3v")
    span = tuple(ir.qq(2020, 1) >> ir.qq(2021, 4))
    sim_db = create_data(m3[0], span, rng, )
    obs_db = mask_data(sim_db, y_names, span, rng, 0.3, )
    out = run_kalman("nl-3v", m3, obs_db, span[0] >> span[-1], )
    out = run_kalman("nl-3v-unpack", m3, obs_db, span[0] >> span[-1], unpack_singleton=False, num_variants=2, )

    # --- Linear model with unit root and deep lags in measurement
    ml = create_linear()
    digest_descriptor(ml, "linear")
    ly_names = ml.get_names(kind=ir.MEASUREMENT_VARIABLE, )
    for freq, span in (("yy", ir.yy(2001) >> ir.yy(2015)), ("hh", ir.hh(2020, 2) >> ir.hh(2026, 1)), ):
        span = tuple(span)
        sim_db = create_data(ml, span, rng, with_anticipated=True, )
        obs_db = mask_data(sim_db, ly_names, span, rng, 0.3, empty_periods=(0, 1, ), )
        out = run_kalman(f"lin-{freq}", ml, obs_db, span[0] >> span[-1], prepend_initial=True, )
        if out is not None:
            resimulate(f"lin-{freq}", ml, out, span, False, )
        obs_db["ant_eps_x"] = sim_db["ant_eps_x"]
        obs_db["ant_eps_z"] = sim_db["ant_eps_z"]
        out = run_kalman(f"lin-{freq}-ant", ml, obs_db, span[0] >> span[-1], shocks_from_data=True, diffuse_method="fixed_zero", )
        out = run_kalman(f"lin-{freq}-dev", ml, obs_db, span[0] >> span[-1], deviation=True, diffuse_scale=1e6, diffuse_method="approx_diffuse", )

    # --- No observations at all
    empty_db = ir.Databox()
    for n in ly_names:
        empty_db[n] = ir.Series()
    out = run_kalman("lin-empty", ml, empty_db, ir.yy(2001) >> ir.yy(2004), )

    text = _OUT.getvalue()
    sys.stdout.write(text)
    sys.stdout.write("SHA256 " + hashlib.sha256(text.encode()).hexdigest() + "\n")


if __name__ == "__main__":
    main()

"""
Behaviour digest for property C20 -- copies, pickles and parameter variants
are independent, equivalent models.

Run as

    cd /tmp/wt2/C20 && PYTHONPATH=/tmp/wt2/C20/src /venv/bin/python /tmp/twin3_out/C20/behaviour.py

The script prints a deterministic digest (rounded numbers, reprs) and a final
sha256 of everything printed.
"""

import os
import sys

# Sets of names are turned into tuples in a few places of the library; pin the
# hash seed so that the printed order is reproducible from run to run
if os.environ.get("PYTHONHASHSEED") != "0":
    os.environ["PYTHONHASHSEED"] = "0"
    os.execv(sys.executable, [sys.executable] + sys.argv)

import copy
import hashlib
import io
import json
import pickle
import warnings

import dill
import numpy as np

warnings.simplefilter("ignore")

import irispie as ir
from irispie.dataslates.main import Dataslate
from irispie.equators.plain import PlainEquator
from irispie import attributes as ir_attributes


_LINES = []
_EXACT = hashlib.sha256()


def out(*args):
    line = " ".join(str(a) for a in args)
    _LINES.append(line)
    print(line)


def rnd(x):
    """Round a number to 8 significant digits and print deterministically"""
    if x is None:
        return "None"
    _EXACT.update(repr(x).encode("utf-8"))
    if isinstance(x, (bool, np.bool_)):
        return str(bool(x))
    if isinstance(x, complex) or isinstance(x, np.complexfloating):
        return f"({rnd(x.real)}{'+' if x.imag >= 0 else '-'}{rnd(abs(x.imag))}j)"
    if isinstance(x, (int, np.integer)):
        return str(int(x))
    x = float(x)
    if x != x:
        return "nan"
    if x in (float("inf"), float("-inf")):
        return str(x)
    if abs(x) < 1e-9:
        return "0"
    return f"{x:.8g}"


def dig(x):
    """Recursive deterministic digest of a nested structure"""
    if isinstance(x, ir.Series):
        return "Series<" + str(x.start) + "|" + dig(x.data) + ">"
    if isinstance(x, np.ndarray):
        if x.ndim == 0:
            return rnd(x.item())
        return "A" + str(tuple(x.shape)) + "[" + ",".join(
            dig(i) if isinstance(i, np.ndarray) else rnd(i) for i in x
        ) + "]"
    if isinstance(x, dict):
        return "{" + ", ".join(f"{k}: {dig(v)}" for k, v in x.items()) + "}"
    if isinstance(x, (list, tuple)):
        o, c = ("[", "]") if isinstance(x, list) else ("(", ")")
        return o + ", ".join(dig(i) for i in x) + c
    if isinstance(x, (set, frozenset)):
        return "set(" + ", ".join(sorted(dig(i) for i in x)) + ")"
    if isinstance(x, str):
        return repr(x)
    if isinstance(x, (int, float, complex, bool, np.number, np.bool_)) or x is None:
        return rnd(x)
    return type(x).__name__ + ":" + str(x)


def dig_db(db, names=None):
    names = list(db.keys()) if names is None else names
    return "{" + ", ".join(f"{n}: {dig(db[n])}" for n in names if n in db) + "}"


def dig_solution(sol):
    parts = []
    for n in ("T", "P", "R", "K", "Z", "H", "D", "Ta", "Ra", "Pa", "Ka", "Za", "U", ):
        parts.append(f"{n}={dig(getattr(sol, n, None))}")
    parts.append("eig=" + dig(tuple(sol.eigenvalues)))
    parts.append("stab=" + dig(tuple(str(i) for i in sol.eigenvalues_stability)))
    return "; ".join(parts)


# -----------------------------------------------------------------------------
# Model sources
# -----------------------------------------------------------------------------


LINEAR_SOURCE = r"""
!transition-variables
    "Output gap" y, "Inflation" pi, r
!transition-shocks
    "Demand shock" ey, epi, er
!measurement-variables
    obs_y, obs_pi
!measurement-shocks
    my
!parameters
    a, b, c, rho, ss_pi, dbl
!transition-equations
    "IS curve" y = a*y{-1} + (1-a)*y{+1} - b*(r - pi{+1}) + ey;
    pi = c*pi{-1} + (1-c)*pi{+1} + 0.1*y + epi;
    r = rho*r{-1} + (1-rho)*(ss_pi + 1.5*(pi - ss_pi)) + er;
!measurement-equations
    obs_y = y + my;
    obs_pi = pi;
!steady-autovalues
    dbl = 2*ss_pi;
"""

LINEAR_PARAMS = dict(a=0.6, b=0.2, c=0.5, rho=0.7, ss_pi=2, )


RBC_SOURCE = r"""
!transition-variables
    "Productivity" a
    "Productivity, Rate of change" roc_a
    "Gross production" y
    "Private consumption" c
    "Private investment" i
    "Stock of capital" k
    "Hours worked" h
    "Real wage rate" w
    "Real interest rate" r
    "Private consumption to GDP ratio" c_to_y
    "Private investment to GDP ratio" i_to_y

!log-variables !all-but
    c_to_y, i_to_y

!transition-shocks
    "Shock to productivity" shock_a
    "Shock to consumer preferences" shock_c

!transition-equations
    log(roc_a) = rho*log(roc_a[-1]) + (1-rho)*log(alpha) + shock_a \
    !! roc_a = alpha;
    c[+1]/c = beta*r*exp(shock_c);
    w = c;
    k = (1 - delta)*k{-1} + i;
    y = (a*h)^(1-gamma) * k{-1}^gamma;
    gamma*y = k{-1} * (r - 1 + delta);
    (1-gamma)*y = w * h;
    y = i + c;
    c_to_y = c / y;
    i_to_y = i / y;
    roc_a = roc(a);

!parameters
    "Long-run growth" alpha
    "Discount factor" beta
    "Capital depreciation rate" delta
    "Share of capital in production function" gamma
    "A/R Productivity" rho
"""

RBC_PARAMS = dict(
    alpha=1.02**(1/4), beta=0.95**(1/4), gamma=0.40, delta=0.05, rho=0.8,
    std_shock_a=0.9, std_shock_c=0.9,
)


SEQUENTIAL_SOURCE = r"""
!parameters
    c0, ss_pct, c1
!equations
    pct(x) = c0 * pct(x[-1]) + (1 - c0) * ss_pct + res_x;
    pct_x = pct(x);
    z = c1 * z[-1] + 0.1 * x + res_z;
    w === x + z;
"""


# -----------------------------------------------------------------------------
# Helpers to describe models
# -----------------------------------------------------------------------------


def describe_simultaneous(m, label, solved=True, with_cov=True, ):
    out(f"[{label}] repr-free:", m.num_variants, m.is_linear, m.is_flat, m.is_deterministic, m.max_lag, m.max_lead, )
    out(f"[{label}] levels:", dig(dict(m.get_steady_levels())))
    out(f"[{label}] levels(unpack=False, round=4):", dig(dict(m.get_steady_levels(unpack_singleton=False, round=4, ))))
    out(f"[{label}] levels(include_shocks):", dig(dict(m.get_steady_levels(include_shocks=True, ))))
    out(f"[{label}] changes:", dig(dict(m.get_steady_changes())))
    out(f"[{label}] changes(output_type=dict, kind=TRANSITION):", dig(m.get_steady_changes(output_type=dict, kind=ir.TRANSITION_VARIABLE, )))
    out(f"[{label}] steady:", dig(dict(m.get_steady())))
    out(f"[{label}] parameters:", dig(dict(m.get_parameters())))
    out(f"[{label}] parameters(unpack=False):", dig(dict(m.get_parameters(unpack_singleton=False, ))))
    out(f"[{label}] parameters_stds:", dig(dict(m.get_parameters_stds())))
    out(f"[{label}] parameters_stds(round=2, output_type=None):", dig(m.get_parameters_stds(round=2, output_type=None, )))
    out(f"[{label}] stds:", dig(dict(m.get_stds())))
    out(f"[{label}] log_status:", dig(dict(m.get_log_status())))
    out(f"[{label}] names:", dig(tuple(m.get_names())))
    out(f"[{label}] flags:", str(m.get_flags()))
    if solved:
        for vid, sol in enumerate(m.get_solution(unpack_singleton=False, )):
            out(f"[{label}] solution[{vid}]:", dig_solution(sol))
        out(f"[{label}] stability:", dig(m.get_variable_stability()))
        out(f"[{label}] stability(unpack=False):", dig(m.get_variable_stability(unpack_singleton=False, )))
        out(f"[{label}] eigenvalues:", dig(m.get_eigenvalues()))
        if with_cov and not m.is_deterministic:
            out(f"[{label}] acov:", dig(m.get_acov(up_to_order=2, )))
            out(f"[{label}] acov(unpack=False):", dig(m.get_acov(unpack_singleton=False, )))
            out(f"[{label}] acov names:", dig(tuple(m.get_acov_dimension_names().rows)))
            out(f"[{label}] cov_u:", dig(m.get_cov_transition_shocks()))
            out(f"[{label}] cov_w:", dig(m.get_cov_measurement_shocks(unpack_singleton=False, )))
            out(f"[{label}] stdvec_u:", dig(m.get_stdvec_transition_shocks()))
            out(f"[{label}] stdvec_w:", dig(m.get_stdvec_measurement_shocks()))
            out(f"[{label}] iter_cov_u:", dig(list(m.iter_cov_u())))
            out(f"[{label}] _gets_cov_u:", dig(m._gets_cov_transition_shocks()))
            for v in m._variants:
                out(f"[{label}] getv:", dig(m.getv_std_u(v)), dig(m.getv_std_w(v)), dig(m.getv_cov_u(v)), dig(m.getv_cov_w(v)), )
                out(f"[{label}] getv_autocov(...):", dig(m.getv_autocov(v, ..., up_to_order=1, )))


def describe_equations(m, label, ):
    out(f"[{label}] equations:", dig(m.get_equations()))
    out(f"[{label}] human equations:", dig(m.get_human_equations(kind=ir.TRANSITION_EQUATION, )))
    out(f"[{label}] measurement equations:", dig(m.get_equations(kind=ir.MEASUREMENT_EQUATION, )))
    out(f"[{label}] dynamic equations:", dig(m.get_dynamic_equations()))
    out(f"[{label}] steady equations:", dig(m.get_steady_equations()))
    out(f"[{label}] descriptions:", dig(m.get_equation_descriptions()))
    out(f"[{label}] quantities:", dig(tuple(
        (q.id, q.human, str(q.kind), q.logly, q.description, q.entry, sorted(q.attributes or ()))
        for q in m.quantities
    )))
    out(f"[{label}] shock_qid_to_std_qid:", dig(m.shock_qid_to_std_qid))
    out(f"[{label}] initials:", dig(tuple(m.get_initials())))
    inv = m._invariant
    out(f"[{label}] invariant state keys:", dig(tuple(inv.__getstate__().keys())))
    out(f"[{label}] invariant shifts:", inv._min_shift, inv._max_shift, inv._default_std, dig(dict(inv.tolerance)) if isinstance(inv.tolerance, dict) else str(inv.tolerance))
    for eq in (inv._plain_dynamic_equator, inv._plain_steady_equator, ):
        state = eq.__getstate__()
        out(f"[{label}] equator state:", dig(tuple(state.keys())), state["_func_str"], state["min_shift"], state["max_shift"], dig(state["_columns"]), len(state["_equations"]), )
        out(f"[{label}] equator humans:", dig(eq.humans), eq.num_equations, eq.min_num_columns, )
    out(f"[{label}] has updater:", inv.update_steady_autovalues_in_variant is not None)
    out(f"[{label}] descriptor vectors:", str(inv.dynamic_descriptor.solution_vectors.transition_variables), str(inv.dynamic_descriptor.solution_vectors.measurement_variables), )


def simulate_all(m, label, span, shocks, methods=("first_order", ), **kwargs, ):
    for deviation in (False, True, ):
        db = ir.Databox.steady(m, span, deviation=deviation, )
        for name, (period, value) in shocks.items():
            db[name][period] = value
        for method in methods:
            extra = {}
            if method != "first_order":
                extra = dict(when_fails="silent", )
            res = m.simulate(db, span, method=method, deviation=deviation, **extra, **kwargs, )
            sim = res[0] if isinstance(res, tuple) else res
            out(f"[{label}] simulate({method}, deviation={deviation}):", dig_db(sim))


def kalman_all(m, label, span, data_db, ):
    res = m.kalman_filter(data_db, span, return_info=True, )
    kout, info = res
    for n in ("predict_med", "predict_std", "predict_err", "update_med", "smooth_med", "smooth_std", ):
        item = kout[n]
        out(f"[{label}] kalman {n}:", dig_db(item) if hasattr(item, "keys") else dig(item))
    info = info if isinstance(info, list) else [info]
    for vid, i in enumerate(info):
        out(f"[{label}] kalman info[{vid}]:", dig({k: v for k, v in i.items() if k in ("neg_log_likelihood", "log_det_F", "var_scale", "std_scale", "neg_log_likelihood_contributions", )}))


# -----------------------------------------------------------------------------
# 1. Linear model: copies, pickles, portables, flags
# -----------------------------------------------------------------------------


span = ir.qq(2020, 1) >> ir.qq(2021, 4)
shocks = {"ey": (ir.qq(2020, 1), 1.0), "er": (ir.qq(2020, 3), -0.5), "ant_epi": (ir.qq(2020, 4), 0.3), }


def make_linear(**flags):
    m = ir.Simultaneous.from_string(LINEAR_SOURCE, linear=True, description="Linear test model", **flags, )
    m.assign(**LINEAR_PARAMS, )
    return m


def section_linear():
    for flags in (dict(), dict(flat=True, ), dict(deterministic=True, ), ):
        label = "lin" + "".join(f"/{k}" for k in flags)
        m = make_linear(**flags, )
        out(f"[{label}] before steady:", dig(dict(m.get_parameters())), dig(dict(m.get_steady_levels())))
        m.steady()
        m.solve()
        describe_equations(m, label, )
        describe_simultaneous(m, label, )
        ok, info = m.check_steady(return_info=True, )
        out(f"[{label}] check_steady:", ok, dig(info))
        ok, info = m.check_steady(equation_switch="steady", return_info=True, unpack_singleton=False, )
        out(f"[{label}] check_steady(steady):", ok, dig(info))
        out(f"[{label}] check_steady(plain):", m.check_steady(when_fails="silent", ))
        sh = shocks if not flags.get("deterministic") else {"ey": shocks["ey"], "ant_epi": shocks["ant_epi"], }
        simulate_all(m, label, span, sh, methods=("first_order", "period", "stacked", ), )
        #
        # Copies and pickles
        twins = {
            "copy": m.copy(),
            "deepcopy": copy.deepcopy(m),
            "pickle": pickle.loads(pickle.dumps(m)),
            "dill": dill.loads(dill.dumps(m)),
            "portable": ir.Simultaneous.from_portable(json.loads(json.dumps(m.to_portable()))),
        }
        out(f"[{label}] portable:", json.dumps(m.to_portable(), sort_keys=True, ))
        for tname, t in twins.items():
            tl = f"{label}:{tname}"
            if tname == "portable":
                t.solve()
            describe_equations(t, tl, )
            describe_simultaneous(t, tl, )
            out(f"[{tl}] check_steady:", dig(t.check_steady(return_info=True, )))
            simulate_all(t, tl, span, sh, )
            out(f"[{tl}] portable same:", json.dumps(t.to_portable(), sort_keys=True, ) == json.dumps(m.to_portable(), sort_keys=True, ))
        #
        # Independence: mutate the twins, the original stays
        for tname, t in twins.items():
            tl = f"{label}:{tname}:mutated"
            t.assign(a=0.3, rho=0.2, ss_pi=5, )
            if not t.is_deterministic:
                t.assign(std_ey=3, )
                t.rescale_stds(2, kind=ir.MEASUREMENT_STD, )
            t.steady()
            t.solve()
            t.alter_num_variants(2, )
            t.assign(b=[0.2, 0.9], )
            t.solve()
            describe_simultaneous(t, tl, )
        describe_simultaneous(m, f"{label}:after-twins-mutated", )
        #
        # Independence the other way: mutate the original, a fresh copy stays
        keeper = m.copy()
        keeper_pickled = pickle.dumps(m)
        m.assign(c=0.9, ss_pi=-1, )
        m.steady()
        m.solve()
        m.change_logly(False, ["y"], )
        describe_simultaneous(m, f"{label}:original-mutated", )
        describe_simultaneous(keeper, f"{label}:keeper", )
        describe_simultaneous(pickle.loads(keeper_pickled), f"{label}:keeper-pickled", )
        #
        # Kalman filter on original and copy
        if not flags.get("deterministic"):
            obs = ir.Databox()
            rng = np.random.default_rng(12345)
            obs["obs_y"] = ir.Series(periods=span, values=rng.standard_normal(len(span)), )
            obs["obs_pi"] = ir.Series(periods=span, values=2 + rng.standard_normal(len(span)), )
            obs["obs_pi"][ir.qq(2020, 3)] = np.nan
            kalman_all(keeper, f"{label}:keeper", span, obs, )
            kalman_all(pickle.loads(keeper_pickled), f"{label}:keeper-pickled", span, obs, )
            kalman_all(keeper.copy(), f"{label}:keeper-copy", span, obs, )


# -----------------------------------------------------------------------------
# 2. Linear model: parameter variants vs single-variant models
# -----------------------------------------------------------------------------


def section_variants():
    rng = np.random.default_rng(2024)
    for num_variants in (1, 2, 4, ):
        draws = {
            "a": rng.uniform(0.3, 0.8, num_variants).tolist(),
            "b": rng.uniform(0.1, 0.5, num_variants).tolist(),
            "rho": rng.uniform(0.1, 0.9, num_variants).tolist(),
            "ss_pi": rng.uniform(-1, 4, num_variants).tolist(),
            "std_ey": rng.uniform(0.5, 2, num_variants).tolist(),
            "std_my": rng.uniform(0.5, 2, num_variants).tolist(),
        }
        m = make_linear()
        m.alter_num_variants(num_variants, )
        m.assign(**draws, )
        m.steady()
        m.solve()
        label = f"var{num_variants}"
        describe_simultaneous(m, label, )
        out(f"[{label}] check_steady:", dig(m.check_steady(return_info=True, )))
        simulate_all(m, label, span, shocks, methods=("first_order", "period", ), )
        steady_db = ir.Databox.steady(m, span, )
        out(f"[{label}] steady databox:", dig_db(steady_db))
        steady_db = ir.Databox.steady(m, span, deviation=True, unpack_singleton=False, )
        out(f"[{label}] steady databox (deviation, no unpack):", dig_db(steady_db))
        #
        for k in range(num_variants):
            s = make_linear()
            s.assign(**{n: v[k] for n, v in draws.items()}, )
            s.steady()
            s.solve()
            describe_simultaneous(s, f"{label}:single{k}", )
            describe_simultaneous(m[k], f"{label}:variant{k}", )
            simulate_all(m[k], f"{label}:variant{k}", span, shocks, )
        #
        # Copies of multi-variant model; shrink/expand interleavings
        c = m.copy()
        p = pickle.loads(pickle.dumps(m))
        d = dill.loads(dill.dumps(m))
        r = ir.Simultaneous.from_portable(json.loads(json.dumps(m.to_portable())))
        r.solve()
        c.alter_num_variants(num_variants + 1, )
        c.assign(a=0.45, )
        c.solve()
        p.alter_num_variants(1, )
        p.assign(ss_pi=9, )
        p.steady()
        d.assign(std_er=7, )
        describe_simultaneous(c, f"{label}:copy-expanded", )
        describe_simultaneous(p, f"{label}:pickle-shrunk", )
        describe_simultaneous(d, f"{label}:dill-std", )
        describe_simultaneous(r, f"{label}:portable", )
        describe_simultaneous(m, f"{label}:original-after", )
        out(f"[{label}] portable:", json.dumps(m.to_portable(), sort_keys=True, ))


# -----------------------------------------------------------------------------
# 3. Nonlinear model with log-variables and steady growth
# -----------------------------------------------------------------------------


def section_rbc():
    m = ir.Simultaneous.from_string(RBC_SOURCE, )
    m.assign(**RBC_PARAMS, )
    m.assign(a=1, k=20, )
    m.steady(fix_level=("a", ), flat=False, )
    m.solve()
    label = "rbc"
    describe_equations(m, label, )
    describe_simultaneous(m, label, )
    out(f"[{label}] check_steady:", dig(m.check_steady(return_info=True, when_fails="silent", )))
    out(f"[{label}] check_steady(steady):", dig(m.check_steady(equation_switch="steady", return_info=True, when_fails="silent", )))
    out(f"[{label}] check_steady(tight):", dig(m.check_steady(return_info=True, when_fails="silent", tolerance=1e-16, )))
    sspan = ir.qq(2020, 1) >> ir.qq(2022, 4)
    sh = {"shock_a": (ir.qq(2020, 1), 0.1), "ant_shock_c": (ir.qq(2020, 3), 0.05), }
    simulate_all(m, label, sspan, sh, methods=("first_order", "stacked", ), )
    #
    twins = {
        "copy": m.copy(),
        "pickle": pickle.loads(pickle.dumps(m)),
        "dill": dill.loads(dill.dumps(m)),
        "portable": ir.Simultaneous.from_portable(json.loads(json.dumps(m.to_portable()))),
    }
    twins["portable"].solve()
    for tname, t in twins.items():
        tl = f"{label}:{tname}"
        describe_equations(t, tl, )
        describe_simultaneous(t, tl, )
        out(f"[{tl}] check_steady:", dig(t.check_steady(return_info=True, when_fails="silent", )))
        simulate_all(t, tl, sspan, sh, )
    #
    # Variants: different growth rates and depreciation
    mv = m.copy()
    mv.alter_num_variants(3, )
    draws = {"alpha": [1.02**(1/4), 1.00, 1.04**(1/4)], "delta": [0.05, 0.03, 0.08], "std_shock_a": [0.9, 0.1, 2], }
    mv.assign(**draws, )
    mv.steady(fix_level=("a", ), flat=False, )
    mv.solve()
    describe_simultaneous(mv, f"{label}:3variants", )
    out(f"[{label}:3variants] check_steady:", dig(mv.check_steady(return_info=True, when_fails="silent", )))
    simulate_all(mv, f"{label}:3variants", sspan, sh, )
    out(f"[{label}:3variants] steady databox:", dig_db(ir.Databox.steady(mv, sspan, )))
    for k in range(3):
        s = m.copy()
        s.assign(**{n: v[k] for n, v in draws.items()}, )
        s.steady(fix_level=("a", ), flat=False, )
        s.solve()
        describe_simultaneous(s, f"{label}:single{k}", )
        simulate_all(s, f"{label}:single{k}", sspan, sh, )
    describe_simultaneous(m, f"{label}:original-after", )
    #
    # Unit root / tolerance path in _solve_variant
    try:
        m.solve(tolerance=0.5, )
        out(f"[{label}] solve(tolerance=0.5): ok", dig(m.get_eigenvalues()))
    except Exception as exc:
        out(f"[{label}] solve(tolerance=0.5):", type(exc).__name__, str(exc))
    out(f"[{label}] solve(return_info):", dig(twins["copy"].solve(return_info=True, )), dig(mv.solve(return_info=True, clip_small=True, )), dig(mv.solve(return_info=True, unpack_singleton=False, )))


# -----------------------------------------------------------------------------
# 4. Sequential models
# -----------------------------------------------------------------------------


def describe_sequential(m, label, db, sspan, ):
    out(f"[{label}] names:", dig(sorted(m.all_names)), dig(m.lhs_names), dig(m.residual_names), dig(sorted(m.rhs_only_names)), dig(m.parameter_names), )
    out(f"[{label}] equations:", dig(m.equation_strings), dig(m.identity_index), dig(m.nonidentity_index), m.num_variants, m.num_equations, )
    out(f"[{label}] description:", repr(m.get_description()), )
    out(f"[{label}] parameters:", dig(dict(m.get_parameters())), )
    out(f"[{label}] invariant:", dig(tuple(sorted(m._invariant._context.keys()))), dig(m._invariant.lhs_names), dig(sorted(m._invariant.rhs_only_names)), dig(m._invariant.parameter_names), )
    for order in ("dates_equations", "equations_dates", ):
        res = m.simulate(db, sspan, when_nonfinite="silent", execution_order=order, )
        sim = res[0] if isinstance(res, tuple) else res
        out(f"[{label}] simulate({order}):", dig_db(sim, names=sorted(sim.keys())))


def section_sequential():
    sspan = ir.qq(2020, 1) >> ir.qq(2021, 2)
    db = ir.Databox()
    db["x"] = ir.Series(start=ir.qq(2019, 1), values=(100, 101, 102.5, 103, 104.2, 105), )
    db["z"] = ir.Series(start=ir.qq(2019, 1), values=(1, 1.1, 1.2, 1.3), )
    db["res_x"] = ir.Series(periods=sspan, values=(0.1, 0, 0, -0.2, 0, 0), )
    #
    m = ir.Sequential.from_string(SEQUENTIAL_SOURCE, description="Sequential test model", context={"unused": 1, }, )
    m.assign(c0=0.8, ss_pct=2, c1=0.5, )
    describe_sequential(m, "seq", db, sspan, )
    twins = {
        "copy": m.copy(),
        "deepcopy": copy.deepcopy(m),
        "pickle": pickle.loads(pickle.dumps(m)),
        "dill": dill.loads(dill.dumps(m)),
        "ctor": ir.Sequential(invariant=m._invariant, variants=(v.copy() for v in m._variants), ),
    }
    for tname, t in twins.items():
        describe_sequential(t, f"seq:{tname}", db, sspan, )
    for tname, t in twins.items():
        t.assign(c0=0.1, c1=0.9, )
        t.alter_num_variants(2, )
        for tv, value in zip(t, (1, 3), ):
            tv.assign(ss_pct=value, )
        describe_sequential(t, f"seq:{tname}:mutated", db, sspan, )
        for k, tv in enumerate(t):
            describe_sequential(tv, f"seq:{tname}:mutated:variant{k}", db, sspan, )
    describe_sequential(m, "seq:original-after", db, sspan, )
    #
    # Multi-variant vs single
    mv = m.copy()
    mv.alter_num_variants(3, )
    draws = {"c0": [0.8, 0.5, 0.2], "ss_pct": [2, 0, -1], "c1": [0.5, 0.6, 0.7], }
    for k, mvk in enumerate(mv):
        mvk.assign(**{n: v[k] for n, v in draws.items()}, )
    describe_sequential(mv, "seq:3variants", db, sspan, )
    for k in range(3):
        s = m.copy()
        s.assign(**{n: v[k] for n, v in draws.items()}, )
        describe_sequential(s, f"seq:single{k}", db, sspan, )
    empty = ir.Sequential()
    out("[seq] empty:", empty._invariant, empty._variants, ir.Sequential(variants=[], )._variants, ir.Sequential(variants=(), )._variants, )
    sv = m._variants[0]
    svc = sv.copy()
    svc.parameters["c0"] = -5
    out("[seq] variant copy:", dig(sv.parameters), dig(svc.parameters), )


# -----------------------------------------------------------------------------
# 5. RedVAR
# -----------------------------------------------------------------------------


def describe_redvar(v, label, db, sspan, ):
    out(f"[{label}] names:", dig(v.get_endogenous_names()), dig(v.get_exogenous_names()), dig(v.get_residual_names()), v.num_variants, )
    for vid, variant in enumerate(v._variants):
        s = variant.system
        out(f"[{label}] system[{vid}]:", dig(s.A), dig(s.B), dig(s.c), dig(s.cov_residuals), )
        out(f"[{label}] variant[{vid}]:", dig(tuple(str(p) for p in variant.fitted_periods)), dig(variant.residual_estimates), dig(variant.eigenvalues), rnd(variant.max_abs_eigenvalue), variant.is_stable, )
    out(f"[{label}] acov:", dig(v.get_acov(up_to_order=1, )))
    out(f"[{label}] mean:", dig(v.get_mean()))
    sim = v.simulate(db, sspan, prepend_input=False, )
    sim = sim[0] if isinstance(sim, tuple) else sim
    out(f"[{label}] simulate:", dig_db(sim, names=sorted(sim.keys())))


def section_redvar():
    rng = np.random.default_rng(7)
    start = ir.qq(2000, 1)
    num = 60
    e = rng.standard_normal((num, 2))
    y = np.zeros((num, 2))
    for t in range(2, num):
        y[t, 0] = 0.5 + 0.6*y[t-1, 0] - 0.1*y[t-2, 1] + e[t, 0]
        y[t, 1] = -0.2 + 0.3*y[t-1, 1] + 0.2*y[t-1, 0] + 0.5*e[t, 1]
    db = ir.Databox()
    db["p"] = ir.Series(start=start, values=y[:, 0].copy(), )
    db["q"] = ir.Series(start=start, values=y[:, 1].copy(), )
    db["dummy"] = ir.Series(start=start, values=tuple(float(i % 7 == 0) for i in range(num + 10)), )
    db["q"][start + 30] = np.nan
    espan = start + 2 >> start + num - 1
    sspan = start + num >> start + num + 5
    #
    for kwargs in (dict(order=2, ), dict(order=1, intercept=False, ), dict(order=2, exogenous_names=("dummy", ), ), ):
        label = "var:" + ",".join(f"{k}={v}" for k, v in kwargs.items())
        try:
            v = ir.RedVAR(["p", "q"], **kwargs, )
        except TypeError as exc:
            out(f"[{label}] constructor failed:", str(exc))
            continue
        edb = v.estimate(db, espan, )
        out(f"[{label}] estimate output:", dig_db(edb, names=sorted(edb.keys())))
        describe_redvar(v, label, db, sspan, )
        twins = {
            "copy": v.copy(),
            "pickle": pickle.loads(pickle.dumps(v)),
            "dill": dill.loads(dill.dumps(v)),
        }
        for tname, t in twins.items():
            describe_redvar(t, f"{label}:{tname}", db, sspan, )
            out(f"[{label}:{tname}] shares arrays:", any(
                getattr(tv.system, n) is getattr(ov.system, n) and getattr(ov.system, n) is not None
                for tv, ov in zip(t._variants, v._variants) for n in ("A", "B", "c", "cov_residuals", )
            ), t._invariant is v._invariant, )
        #
        # Re-estimate twins on different settings, original stays
        target = ir.Databox()
        target["extra"] = 1
        r = twins["copy"].estimate(db, espan, omit_missing=True, dof_correction=True, target_db=target, interpret_span="long", )
        out(f"[{label}:copy:reestimated] output:", dig_db(r, names=sorted(r.keys())))
        describe_redvar(twins["copy"], f"{label}:copy:reestimated", db, sspan, )
        twins["pickle"].estimate(db, espan, prior_obs=ir.MinnesotaPriorObs(rho=0, mu2=10, ), )
        describe_redvar(twins["pickle"], f"{label}:pickle:minnesota", db, sspan, )
        twins["dill"]._variants[0].system.A[0, 0] = 99
        describe_redvar(v, f"{label}:original-after", db, sspan, )
        #
        # Multiple variants
        db2 = db.copy()
        db2["p"] = ir.Series(start=start, values=np.column_stack([y[:, 0], 0.5*y[:, 0] + 1]), )
        v2 = v.copy()
        e2 = v2.estimate(db2, espan, num_variants=2, show_progress=False, )
        out(f"[{label}:2variants] output:", dig_db(e2, names=sorted(e2.keys())))
        describe_redvar(v2, f"{label}:2variants", db2, sspan, )
        describe_redvar(v2.copy(), f"{label}:2variants:copy", db2, sspan, )
        describe_redvar(pickle.loads(pickle.dumps(v2)), f"{label}:2variants:pickle", db2, sspan, )
        for k in range(2):
            dbk = db.copy()
            dbk["p"] = ir.Series(start=start, values=db2["p"].data[:, k].copy(), )
            vk = v.copy()
            vk.estimate(dbk, espan, )
            describe_redvar(vk, f"{label}:single{k}", dbk, sspan, )
    #
    fresh = ir.RedVAR(["p", "q"], order=1, num_variants=2, )
    fc = fresh.copy()
    out("[var] fresh copy:", fc.num_variants, [ (i.system.A, i.fitted_periods, i._eigenvalues, i.residual_estimates) for i in fc._variants ], )


# -----------------------------------------------------------------------------
# 6. Data containers used by the above: series, databoxes, dataslates
# -----------------------------------------------------------------------------


def section_containers():
    # Series variants, including daily frequency, missing values
    for start in (ir.qq(2020, 1), ir.dd(2020, 2, 27), ir.ii(-3), ir.yy(1999), ):
        x = ir.Series(start=start, values=np.array([[1, 10], [np.nan, 20], [3, np.nan], [4, 40], [5, 50]], dtype=float, ), )
        label = f"series:{start}"
        out(f"[{label}] variants:", x.num_variants, dig(x.get_data_variant(..., 0, )), dig(x.get_data_variant(..., 1, )), )
        for frm, unt in ((start, start + 4), (start - 2, start + 1), (start + 3, start + 7), (start + 6, start + 8), (start + 1, start + 1), ):
            for vid in (0, 1, 5, -1, None, ):
                try:
                    out(f"[{label}] from_until({frm},{unt},{vid}):", dig(x.get_data_variant_from_until((frm, unt), vid, )))
                except Exception as exc:
                    out(f"[{label}] from_until({frm},{unt},{vid}):", type(exc).__name__)
        for vids in (None, 0, 1, [0, 1], ..., slice(None), -1, [1, 0, 1], ):
            try:
                out(f"[{label}] resolve({vids}):", dig(x._resolve_variants(vids, )))
            except Exception as exc:
                out(f"[{label}] resolve({vids}):", type(exc).__name__)
        db = ir.Databox()
        db["x"] = x
        db["one"] = ir.Series(start=start + 1, values=(7., 8., 9.), )
        for periods in ((start, start + 1, start + 2), tuple(start - 1 >> start + 5), (start + 4, start), ):
            for vid in (0, 1, ):
                out(f"[{label}] array_from_series({vid}):", dig(db.array_from_series(["x", "x"], periods, variant=vid, )))
                try:
                    out(f"[{label}] array_from_series({vid}, mixed):", dig(db.array_from_series(["x", "one", "x"], periods, variant=vid, )))
                except Exception as exc:
                    out(f"[{label}] array_from_series({vid}, mixed):", type(exc).__name__)
        out(f"[{label}] array_from_series(default):", dig(db.array_from_series(("one", ), (start + 2, ), )))
    empty = ir.Series()
    out("[series] empty:", dig(empty._resolve_variants(None, )), dig(empty.get_data_variant_from_until((ir.qq(2020, 1), ir.qq(2020, 2)), 0, )))
    #
    # Dataslates
    m = make_linear()
    m.alter_num_variants(2, )
    m.assign(ss_pi=[2, 3], )
    m.steady()
    m.solve()
    db = ir.Databox.steady(m, span, )
    ds = Dataslate.from_databox_for_slatable(m.slatable_for_simulate(shocks_from_data=True, stds_from_data=True, parameters_from_data=False, output_parameters=False, ), db, tuple(span), num_variants=2, )
    out("[ds] shape:", ds.num_variants, ds.num_names, ds.num_periods, ds.num_initials, ds.num_terminals, str(ds.start), str(ds.end), )
    out("[ds] data:", dig(ds.get_data_variant()), dig(ds.get_data_variant(1)), dig(ds.get_data_array_variant(vid=-1, )), )
    try:
        ds.get_data_variant(2)
    except Exception as exc:
        out("[ds] get_data_variant(2):", type(exc).__name__)
    for inv_flag in (True, False, ):
        for var_flag in (True, False, ):
            c = ds.copy(invariant=inv_flag, variants=var_flag, )
            out(f"[ds] copy({inv_flag},{var_flag}):", c._invariant is ds._invariant, c._variants is ds._variants, [a is b for a, b in zip(c._variants, ds._variants)], [a.data is b.data for a, b in zip(c._variants, ds._variants)], dig(c.names) == dig(ds.names), dig(c.get_data_variant(1)) == dig(ds.get_data_variant(1)), )
    c = ds.copy()
    c.get_data_variant(0)[:, :] = -1
    c.rename({"y": "yy"}, )
    c.remove_terminal()
    out("[ds] after copy mutated:", dig(ds.names), ds.num_periods, c.num_periods, dig(ds.get_data_variant(0)), )
    iv = ds._invariant.copy()
    out("[ds] invariant copy:", iv is ds._invariant, dig(iv.names), dig(tuple(str(p) for p in iv.periods)), dig(iv.descriptions), dig(iv.base_columns), )
    vc = ds._variants[0].copy()
    out("[ds] variant copy:", vc is ds._variants[0], vc.data is ds._variants[0].data, dig(vc.data) == dig(ds._variants[0].data), type(vc).__name__, )
    out("[ds] to_databox:", dig_db(ds.to_databox()))
    e = Dataslate()
    out("[ds] empty:", e._invariant, e._variants, Dataslate(variants=[], )._variants, Dataslate(invariant=ds._invariant, variants=iter(ds._variants), ).num_variants, Dataslate.skeleton(ds, )._invariant is ds._invariant, )
    #
    # Attributes
    class _WithAttributes:
        def __init__(self, attributes):
            self.attributes = set(attributes)
    wa = _WithAttributes((":main", ":x", ))
    for args in ((), (":main", ), (":other", ), (":main", ":x", ), (":main", ":other", ), ((":other", ":x"), ), ((":other", ":y"), ":main", ), ([], ), ("", ), ):
        out(f"[attributes] has_attributes{args}:", ir_attributes.has_attributes(wa, *args, ))
    out("[attributes] empty:", ir_attributes.has_attributes(_WithAttributes(()), ":main", ), ir_attributes.has_attributes(_WithAttributes(()), ))
    #
    # Plain equator state
    eq = m._invariant._plain_dynamic_equator
    eq2 = PlainEquator.__new__(PlainEquator)
    eq2.__setstate__(eq.__getstate__())
    x = m.create_steady_array(num_columns=3, shift_in_first_column=-1, )
    x = x + np.arange(x.size, dtype=float, ).reshape(x.shape, ) / 7
    out("[equator] eval:", dig(eq.eval_as_array(x, 1, )), dig(eq2.eval_as_array(x, 1, )), eq2._func is not eq._func, eq2._func_str == eq._func_str, eq2._context is eq._context, )
    eq3 = PlainEquator(eq._equations, columns=[1, 2, 3], context=eq._context, )
    x = m.create_steady_array(num_columns=5, shift_in_first_column=-2, )
    x = x + np.sin(np.arange(x.size, dtype=float, ).reshape(x.shape, ))
    eq4 = pickle.loads(pickle.dumps(eq3))
    out("[equator] columns:", dig(eq3.eval_as_array(x, )), dig(eq4.eval_as_array(x, )), dig(eq4._columns), type(eq4._columns).__name__, )


# -----------------------------------------------------------------------------
# 7. Headers and messages
# -----------------------------------------------------------------------------


def section_messages():
    from irispie.simultaneous import _simulate
    from irispie.period_by_period import simulators as pbp

    class _Frame:
        def __init__(self, start, simulation_end):
            self.start = start
            self.simulation_end = simulation_end
    for s, e in ((ir.qq(2020, 1), ir.qq(2020, 4)), (ir.dd(2020, 2, 28), ir.dd(2020, 3, 1)), (ir.ii(-2), ir.ii(3)), (ir.mm(2020, 5), ir.mm(2020, 5)), ):
        out("[header]", _simulate._create_simulation_header(3, _Frame(s, e), ), pbp._create_custom_header(1, 4, s, ), pbp._create_custom_header("k", 0, e, ), )
    #
    # Failing steady check messages
    m = make_linear()
    m.alter_num_variants(2, )
    m.assign(y=[1, 0], pi=[0, 0], r=[0, 3], obs_y=0, obs_pi=0, )
    for when_fails in ("error", "warning", "silent", ):
        buf = io.StringIO()
        try:
            with warnings.catch_warnings(record=True) as w:
                warnings.simplefilter("always")
                res = m.check_steady(when_fails=when_fails, return_info=True, )
                out(f"[check_steady:{when_fails}] result:", dig(res), dig([str(i.message) for i in w]))
        except Exception as exc:
            out(f"[check_steady:{when_fails}] raised:", type(exc).__name__, str(exc))
    #
    # Undeclared / assignment rules
    m = make_linear()
    m.assign(ey=5, my=(3, 2), a=(0.5, 0.1), y=(1, 0.5), )
    out("[assign rules]", dig(dict(m.get_steady(include_shocks=True, ))), dig(dict(m.get_parameters())), dig(m._variants[0].levels), dig(m._variants[0].changes), )
    v = m._variants[0].copy()
    v.levels[m.create_name_to_qid()["ey"]] = 4
    v.changes[m.create_name_to_qid()["a"]] = 4
    m._enforce_assignment_rules(v, )
    out("[assign rules] enforced:", dig(v.levels), dig(v.changes), dig(m._variants[0].levels) )
    e = ir.Simultaneous()
    out("[simultaneous] empty:", e._invariant, e._variants, ir.Simultaneous(variants=(), )._variants, ir.Simultaneous(invariant=m._invariant, variants=iter(m._variants), ).num_variants, )


SECTIONS = (
    section_linear,
    section_variants,
    section_rbc,
    section_sequential,
    section_redvar,
    section_containers,
    section_messages,
)


if __name__ == "__main__":
    for section in SECTIONS:
        out("=" * 20, section.__name__)
        section()
    digest = hashlib.sha256("\n".join(_LINES).encode("utf-8")).hexdigest()
    print("NUM LINES", len(_LINES))
    print("SHA256", digest)
    print("SHA256 of unrounded numbers", _EXACT.hexdigest())

"""
Deterministic behavioural digest for property C10 (Series as a period-indexed map).

Run with
    cd /tmp/wt/C10 && PYTHONPATH=/tmp/wt/C10/src /venv/bin/python /tmp/twin_out/C10/behaviour.py

Prints one line per probe plus a final sha256 of everything printed.
"""

import warnings
warnings.simplefilter("ignore")

import hashlib
import numpy as np

import irispie as ir
from irispie import Series, Span, yy, hh, qq, mm, dd, ii

np.seterr(all="ignore")

_LINES = []


def emit(label, value):
    line = f"{label} :: {value}"
    _LINES.append(line)
    print(line)


def fmt_array(a):
    a = np.asarray(a)
    if a.dtype == bool:
        return f"bool{a.shape}" + repr(a.astype(int).tolist())
    a = a.astype(float)
    flat = [
        "nan" if np.isnan(v) else ("inf" if v == np.inf else ("-inf" if v == -np.inf else f"{v:.10g}"))
        for v in a.flatten().tolist()
    ]
    return f"{a.shape}[" + ",".join(flat) + "]"


def fmt(x):
    if isinstance(x, Series):
        span = x.span
        return (
            f"Series(freq={x.frequency.name},start={x.start},end={x.end},"
            f"shape={x.shape},dtype={x.data.dtype},empty={x.is_empty},"
            f"span_len={len(tuple(span))},data={fmt_array(x.data)})"
        )
    if isinstance(x, np.ndarray):
        return fmt_array(x)
    if isinstance(x, tuple):
        return "(" + ", ".join(fmt(i) for i in x) + ")"
    if isinstance(x, list):
        return "[" + ", ".join(fmt(i) for i in x) + "]"
    if isinstance(x, float):
        return "nan" if np.isnan(x) else f"{x:.10g}"
    if isinstance(x, np.generic):
        return fmt(x.item())
    return repr(x)


def probe(label, func):
    try:
        out = func()
    except Exception as exc:
        out = f"EXC {type(exc).__name__}: {str(exc)[:80]}"
        emit(label, out)
        return None
    emit(label, fmt(out))
    return out


def snapshot(x):
    return (x.start, x.data.copy(), x.data.shape, id(x.data))


def unchanged(x, snap):
    start, data, shape, _ = snap
    return bool(
        x.start == start
        and x.data.shape == shape
        and np.array_equal(x.data, data, equal_nan=True)
    )


NAN = np.nan

#
# Building blocks: same value patterns on a range of frequencies
#

STARTS = {
    "Y": yy(2001),
    "H": hh(2001, 2),
    "Q": qq(2019, 3),
    "M": mm(2020, 11),
    "D": dd(2020, 2, 25),
    "I": ii(5),
}

PATTERN_1 = np.array([1.0, 2.5, NAN, 4.0, 0.5, NAN, 7.0, 8.0, 3.0, 2.0])
PATTERN_2 = np.array([
    [1.0, 10.0],
    [NAN, 20.0],
    [3.0, NAN],
    [NAN, NAN],
    [5.0, 50.0],
    [6.0, NAN],
])
PATTERN_3 = np.array([
    [NAN, NAN, NAN],
    [1.0, NAN, 2.0],
    [2.0, 4.0, 8.0],
    [NAN, NAN, NAN],
    [NAN, NAN, NAN],
])


def make(freq, pattern, offset=0):
    return Series(start=STARTS[freq] + offset, values=pattern.copy())


def make_empty(num_variants=1):
    return Series(num_variants=num_variants)


# ----------------------------------------------------------------------------
# 1. Construction, span, trim
# ----------------------------------------------------------------------------

for f in STARTS:
    probe(f"construct/{f}/p1", lambda: make(f, PATTERN_1))
    probe(f"construct/{f}/p2", lambda: make(f, PATTERN_2))
    probe(f"construct/{f}/p3-trimmed", lambda: make(f, PATTERN_3))

probe("construct/all-nan", lambda: Series(start=qq(2020, 1), values=np.full((4, 2), NAN)))
probe("construct/zero-rows", lambda: Series(start=qq(2020, 1), values=np.zeros((0, 2))))
probe("construct/empty", lambda: make_empty(3))
probe("construct/periods-values", lambda: Series(
    periods=(qq(2021, 3), qq(2020, 4), qq(2021, 1)), values=np.array([[1.0, 2.0], [3.0, 4.0], [5.0, 6.0]]), num_variants=2,
))
probe("construct/periods-scalar", lambda: Series(periods=Span(mm(2020, 1), mm(2020, 4)), values=3))
probe("construct/from_start_and_array-notrim", lambda: Series.from_start_and_array(qq(2020, 1), PATTERN_3.copy(), trim=False))
probe("construct/from_start_and_array-trim", lambda: Series.from_start_and_array(qq(2020, 1), PATTERN_3.copy(), trim=True))
probe("construct/from_start_and_array-1d", lambda: Series.from_start_and_array(dd(2020, 12, 30), np.array([NAN, 1.0, 2.0, NAN])))
probe("construct/from_start_and_array-3d", lambda: Series.from_start_and_array(yy(2000), np.arange(12.0).reshape(3, 2, 2)))
probe("construct/invalid", lambda: Series(start=qq(2020, 1)))


def _counter_func():
    state = {"n": 0}
    def _next():
        state["n"] += 1
        return float(state["n"])
    return _next


for f in STARTS:
    s = STARTS[f]
    probe(f"construct/{f}/periods-func-span", lambda: Series(periods=Span(s, s + 3), func=_counter_func(), num_variants=3))
    probe(f"construct/{f}/periods-func-unordered", lambda: Series(periods=(s + 4, s, s + 2), func=_counter_func(), num_variants=2))
    probe(f"construct/{f}/periods-func-1var", lambda: Series(periods=Span(s + 3, s, -1), func=_counter_func()))


def _trim_probe(pattern):
    x = Series.from_start_and_array(mm(2020, 1), np.array(pattern, dtype=float), trim=False)
    out = x.trim()
    return x, out is x


for k, pattern in enumerate([
    [[NAN], [NAN], [1], [NAN]],
    [[1], [NAN], [NAN]],
    [[NAN], [NAN]],
    [[1, NAN], [NAN, 2]],
    [[NAN, NAN], [NAN, 2], [NAN, NAN], [1, NAN], [NAN, NAN], [NAN, NAN]],
    [[5]],
    [[NAN]],
]):
    probe(f"trim/{k}", lambda: _trim_probe(pattern))

for f in ("Q", "D"):
    x = make(f, PATTERN_2)
    probe(f"props/{f}", lambda: (
        x.num_periods, x.num_variants, x.shape, x.is_singleton, str(x.start), str(x.end),
        tuple(str(t) for t in x.periods), tuple(str(t) for t in x.from_until), x.frequency.name,
        x.is_empty, x.has_missing, bool(x), x.any_missing(), x.all_missing(), x.count_missing(),
    ))
e = make_empty(2)
probe("props/empty", lambda: (
    e.num_periods, e.num_variants, e.shape, e.start, e.end, e.span, e.periods, e.frequency.name,
    e.is_empty, e.has_missing, bool(e),
))


# ----------------------------------------------------------------------------
# 2. Reads: get_data, __getitem__, __call__, get_values, from_until
# ----------------------------------------------------------------------------

for f in STARTS:
    x = make(f, PATTERN_2)
    s = STARTS[f]
    probe(f"get/{f}/all", lambda: x[...])
    probe(f"get/{f}/None", lambda: x.get_data(None))
    probe(f"get/{f}/slice-all", lambda: x[:])
    probe(f"get/{f}/single", lambda: x[s + 2])
    probe(f"get/{f}/before", lambda: x[s - 3])
    probe(f"get/{f}/after", lambda: x[s + 30])
    probe(f"get/{f}/tuple-unordered", lambda: x[[s + 4, s - 1, s, s + 9, s + 4]])
    probe(f"get/{f}/span-overhang", lambda: x[Span(s - 2, s + 7)])
    probe(f"get/{f}/span-open-start", lambda: x[Span(None, s + 1)])
    probe(f"get/{f}/span-open-end", lambda: x[Span(s + 3, None)])
    probe(f"get/{f}/span-reverse", lambda: x[Span(s + 5, s - 1, -2)])
    probe(f"get/{f}/variant-int", lambda: x[Span(s, s + 2), 1])
    probe(f"get/{f}/variant-tuple", lambda: x[Span(s, s + 2), (1, 0, 1)])
    probe(f"get/{f}/variant-slice", lambda: x[Span(s, s + 2), slice(None, None, -1)])
    probe(f"get/{f}/variant-ellipsis", lambda: x[s, ...])
    probe(f"get/{f}/empty-dates", lambda: x[[]])
    probe(f"get/{f}/empty-dates-get_data", lambda: x.get_data(()))
    probe(f"get/{f}/values", lambda: x.get_values(Span(s - 1, s + 2)))
    probe(f"get/{f}/values-v0", lambda: x.get_values(Span(s - 1, s + 2), 0))
    probe(f"get/{f}/values-v0-keep", lambda: x.get_values(Span(s - 1, s + 2), 0, unpack_singleton=False))
    probe(f"get/{f}/data_and_periods", lambda: (lambda d, p: (d, tuple(str(t) for t in p)))(*x.get_data_and_periods(Span(s + 4, s + 6))))
    probe(f"get/{f}/data_variant", lambda: x.get_data_variant(Span(s, s + 1), 1))
    probe(f"get/{f}/data_variant-oob", lambda: x.get_data_variant(Span(s, s + 1), 7))
    probe(f"get/{f}/from_until", lambda: x.get_data_from_until((s - 2, s + 2)))
    probe(f"get/{f}/from_until-variant", lambda: x.get_data_variant_from_until((s + 1, s + 7), 1))
    probe(f"call/{f}/span", lambda: x(Span(s + 1, s + 7)))
    probe(f"call/{f}/span-variant", lambda: x(Span(s - 1, s + 4), 1))
    probe(f"call/{f}/tuple", lambda: x((s + 5, s)))
    probe(f"call/{f}/list", lambda: x([s + 5, s]))
    probe(f"call/{f}/all-missing", lambda: x(Span(s + 20, s + 22)))
    probe(f"call/{f}/isolation", lambda: (lambda snap, y: (y.__setitem__(s, 99.0), unchanged(x, snap))[1])(snapshot(x), x(...)))
    snap = snapshot(x)
    got = x[Span(s, s + 2)]
    got[:] = -1
    probe(f"get/{f}/read-does-not-alias", lambda: unchanged(x, snap))

e = make_empty(2)
probe("get/empty/all", lambda: e[...])
probe("get/empty/dates", lambda: e[Span(qq(2020, 1), qq(2020, 3))])
probe("get/empty/single", lambda: e[dd(2020, 1, 1), 1])
probe("call/empty", lambda: e(Span(qq(2020, 1), qq(2020, 3))))
probe("get/empty/still-empty", lambda: e)


# ----------------------------------------------------------------------------
# 3. Writes: set_data / __setitem__
# ----------------------------------------------------------------------------

def _write(x, key, value):
    x[key] = value
    return x


for f in STARTS:
    s = STARTS[f]
    base = lambda: make(f, PATTERN_2)
    probe(f"set/{f}/inside-scalar", lambda: _write(base(), s + 3, 9.0))
    probe(f"set/{f}/inside-variant", lambda: _write(base(), (s + 3, 1), 9.0))
    probe(f"set/{f}/before", lambda: _write(base(), s - 4, 9.0))
    probe(f"set/{f}/after", lambda: _write(base(), s + 9, 9.0))
    probe(f"set/{f}/before-and-after", lambda: _write(base(), [s + 8, s - 2], 9.0))
    probe(f"set/{f}/nan-at-start", lambda: _write(base(), s, NAN))
    probe(f"set/{f}/nan-at-end", lambda: _write(base(), Span(s + 4, s + 5), NAN))
    probe(f"set/{f}/nan-outside", lambda: _write(base(), s + 12, NAN))
    probe(f"set/{f}/nan-everything", lambda: _write(base(), ..., NAN))
    probe(f"set/{f}/all-scalar", lambda: _write(base(), ..., 1.5))
    probe(f"set/{f}/span-array", lambda: _write(base(), Span(s + 1, s + 3), np.array([[1.0, 2.0], [3.0, 4.0], [5.0, 6.0]])))
    probe(f"set/{f}/span-array-1d-one-variant", lambda: _write(base(), (Span(s - 1, s + 1), 0), np.array([7.0, NAN, 9.0])))
    probe(f"set/{f}/tuple-per-variant", lambda: _write(base(), s + 2, (100.0, 200.0)))
    probe(f"set/{f}/list-short-variants", lambda: _write(base(), s + 2, [100.0]))
    probe(f"set/{f}/list-per-variant", lambda: _write(base(), Span(s + 2, s + 3), [100.0, 200.0]))
    probe(f"set/{f}/unordered-dates", lambda: _write(base(), [s + 7, s + 1, s - 1], np.array([[1.0, 2.0], [3.0, 4.0], [5.0, 6.0]])))
    probe(f"set/{f}/duplicate-dates", lambda: _write(base(), ([s + 1, s + 1], 0), np.array([1.0, 2.0])))
    probe(f"set/{f}/from-series", lambda: _write(base(), Span(s + 2, s + 8), make(f, PATTERN_2, offset=4)))
    probe(f"set/{f}/from-series-variant", lambda: _write(base(), (Span(s + 2, s + 8), 1), make(f, PATTERN_1, offset=4)))
    probe(f"set/{f}/reverse-span", lambda: _write(base(), (Span(s + 2, s, -1), 0), np.array([1.0, 2.0, 3.0])))
    probe(f"set/{f}/empty-dates-none", lambda: _write(base(), [], None))
    probe(f"set/{f}/variant-slice", lambda: _write(base(), (s + 6, slice(1, None)), 4.0))
    probe(f"set/{f}/into-empty", lambda: _write(make_empty(2), Span(s + 2, s + 4), np.array([[NAN, NAN], [1.0, NAN], [NAN, NAN]])))
    probe(f"set/{f}/into-empty-nan", lambda: _write(make_empty(2), Span(s + 2, s + 4), NAN))
    probe(f"set/{f}/into-empty-scalar", lambda: _write(make_empty(1), s, 1.0))
    probe(f"set/{f}/into-empty-tuple", lambda: _write(make_empty(1), [s + 3, s + 1], 1.0))

    # write then read back; other cells untouched
    def _roundtrip():
        x = base()
        before = x[Span(s - 5, s + 12)].copy()
        x[[s + 10, s - 3], 1] = np.array([42.0, 43.0])
        after = x[Span(s - 5, s + 12)]
        changed = np.argwhere(~((before == after) | (np.isnan(before) & np.isnan(after)))).tolist()
        return changed, x[[s + 10, s - 3], 1], str(x.start), str(x.end)
    probe(f"set/{f}/roundtrip", _roundtrip)

    # source series is not changed nor aliased by assigning it
    def _set_from_series_isolation():
        src = make(f, PATTERN_2, offset=4)
        snap = snapshot(src)
        x = base()
        x[Span(s, s + 12)] = src
        x[s + 5] = -1.0
        return unchanged(src, snap)
    probe(f"set/{f}/source-isolation", _set_from_series_isolation)

    # numpy source not aliased
    def _set_from_array_isolation():
        arr = np.array([[1.0, 2.0], [3.0, 4.0]])
        x = make_empty(2)
        x[Span(s, s + 1)] = arr
        x[s] = -5.0
        return arr
    probe(f"set/{f}/array-isolation", _set_from_array_isolation)


# ----------------------------------------------------------------------------
# 4. Shifts, redate, clip
# ----------------------------------------------------------------------------

for f in STARTS:
    s = STARTS[f]
    x = make(f, PATTERN_2)
    for by in (-1, 1, 0, -7, 13):
        probe(f"shift/{f}/getitem/{by}", lambda: x[by])
        probe(f"shift/{f}/func/{by}", lambda: ir.shift(x, by))
        probe(f"shift/{f}/value-moves/{by}", lambda: bool(
            np.array_equal(x[by][Span(s - 15, s + 20)], x[[t + by for t in Span(s - 15, s + 20)]], equal_nan=True)
        ))
    snap = snapshot(x)
    ir.shift(x, -2)
    x[-3]
    probe(f"shift/{f}/func-isolation", lambda: unchanged(x, snap))

    def _method_shift():
        y = x.copy()
        out = y.shift(-2)
        return y, out
    probe(f"shift/{f}/method", _method_shift)
    probe(f"shift/{f}/default", lambda: ir.shift(x))
    for by in ("yoy", "soy", "eopy", "tty"):
        if f == "I":
            continue
        probe(f"shift/{f}/{by}", lambda: ir.shift(make(f, PATTERN_1), by))
        probe(f"shift/{f}/{by}/2var", lambda: ir.shift(make(f, PATTERN_2), by))
    probe(f"shift/{f}/tty-neutral", lambda: ir.shift(make(f, PATTERN_1), "tty", neutral_value=0) if f != "I" else None)
    probe(f"redate/{f}/new", lambda: ir.redate(x, s + 100))
    probe(f"redate/{f}/old", lambda: ir.redate(x, s + 100, s + 2))

    def _clip(a, b):
        y = x.copy()
        y.clip(a, b)
        return y
    probe(f"clip/{f}/inside", lambda: _clip(s + 1, s + 4))
    probe(f"clip/{f}/inside-leaves-nan-edge", lambda: _clip(s + 1, s + 3))
    probe(f"clip/{f}/none-start", lambda: _clip(None, s + 2))
    probe(f"clip/{f}/none-end", lambda: _clip(s + 2, None))
    probe(f"clip/{f}/none-none", lambda: _clip(None, None))
    probe(f"clip/{f}/wider", lambda: _clip(s - 5, s + 50))
    probe(f"clip/{f}/single", lambda: _clip(s + 4, s + 4))

probe("shift/empty", lambda: ir.shift(make_empty(2), -3))
probe("shift/invalid", lambda: ir.shift(make("Q", PATTERN_1), "nonsense"))


# ----------------------------------------------------------------------------
# 5. Overlay, underlay, hstack
# ----------------------------------------------------------------------------

for f in STARTS:
    s = STARTS[f]
    a = make(f, PATTERN_2)
    for label, b in (
        ("overlap", make(f, PATTERN_2[::-1], offset=3)),
        ("disjoint-after", make(f, PATTERN_2, offset=20)),
        ("disjoint-before", make(f, PATTERN_2, offset=-20)),
        ("inside", make(f, np.array([[NAN, 77.0], [88.0, NAN]]), offset=2)),
        ("one-variant", make(f, PATTERN_1, offset=-2)),
        ("empty", make_empty(2)),
    ):
        snap_a, snap_b = snapshot(a), snapshot(b)
        probe(f"overlay/{f}/{label}", lambda: ir.overlay(a, b))
        probe(f"underlay/{f}/{label}", lambda: ir.underlay(a, b))
        probe(f"overlay/{f}/{label}/isolation", lambda: (unchanged(a, snap_a), unchanged(b, snap_b)))

        def _method(name):
            x = a.copy()
            out = getattr(x, name)(b)
            ok = unchanged(b, snap_b)
            x.data[...] = -123.0
            return out, ok, unchanged(b, snap_b)
        probe(f"overlay/{f}/{label}/method", lambda: _method("overlay"))
        probe(f"underlay/{f}/{label}/method", lambda: _method("underlay"))
        probe(f"hstack/{f}/{label}", lambda: a.hstack(b))
        probe(f"hstack/{f}/{label}/and", lambda: b & a)
        probe(f"hstack/{f}/{label}/or", lambda: a | b)
        probe(f"hstack/{f}/{label}/isolation", lambda: (unchanged(a, snap_a), unchanged(b, snap_b)))
    probe(f"overlay/{f}/empty-self", lambda: ir.overlay(make_empty(2), a))
    probe(f"underlay/{f}/empty-self", lambda: ir.underlay(make_empty(2), a))
    probe(f"overlay/{f}/1var-self-broadcast", lambda: ir.overlay(make(f, PATTERN_1), a))
    probe(f"underlay/{f}/1var-self-broadcast", lambda: ir.underlay(make(f, PATTERN_1), a))
    probe(f"overlay/{f}/cannot-broadcast", lambda: ir.overlay(make(f, PATTERN_3), a))
    probe(f"hstack/{f}/none", lambda: a.hstack())
    probe(f"hstack/{f}/three", lambda: a.hstack(make(f, PATTERN_1, offset=-3), make(f, PATTERN_3, offset=8)))
    probe(f"hstack/{f}/number", lambda: a.hstack(5))

    def _hstack_copy_isolated():
        y = a.hstack()
        y[s] = -1.0
        return np.array_equal(a.data, PATTERN_2, equal_nan=True)
    probe(f"hstack/{f}/none-isolated", _hstack_copy_isolated)

probe("hstack/all-empty", lambda: make_empty(2).hstack(make_empty(1), make_empty(3)))
probe("overlay/both-empty", lambda: ir.overlay(make_empty(2), make_empty(2)))


# ----------------------------------------------------------------------------
# 6. Arithmetic and comparison operators
# ----------------------------------------------------------------------------

import operator as op

BINOPS = {
    "add": op.add, "sub": op.sub, "mul": op.mul, "truediv": op.truediv,
    "pow": op.pow, "floordiv": op.floordiv, "mod": op.mod,
    "gt": op.gt, "lt": op.lt, "ge": op.ge, "le": op.le, "eq": op.eq, "ne": op.ne,
}

for f in STARTS:
    s = STARTS[f]
    a = make(f, PATTERN_2)
    others = {
        "overlap": make(f, PATTERN_2[::-1] + 1.0, offset=3),
        "disjoint": make(f, PATTERN_2, offset=15),
        "before": make(f, PATTERN_1, offset=-12),
        "one-variant": make(f, PATTERN_1, offset=-2),
        "nan-complement": make(f, np.where(np.isnan(PATTERN_2), 1.0, NAN)),
        "empty": make_empty(2),
        "scalar": 2.0,
        "int": 3,
        "nan": NAN,
        "row": np.array([[1.0, 2.0]]),
    }
    for olabel, b in others.items():
        for name, func in BINOPS.items():
            snap_a = snapshot(a)
            snap_b = snapshot(b) if isinstance(b, Series) else None
            probe(f"binop/{f}/{olabel}/{name}", lambda: func(a, b))
            if not isinstance(b, (Series, np.ndarray)) and name in ("add", "sub", "mul", "truediv", "pow", "floordiv", "mod"):
                probe(f"binop/{f}/{olabel}/r{name}", lambda: func(b, a))
            ok = unchanged(a, snap_a) and (snap_b is None or unchanged(b, snap_b))
            if not ok:
                emit(f"binop/{f}/{olabel}/{name}/isolation", ok)
    probe(f"binop/{f}/empty-empty", lambda: make_empty(2) + make_empty(2))
    probe(f"binop/{f}/empty-plus-self", lambda: make_empty(2) - a)
    probe(f"binop/{f}/self-self", lambda: a - a)
    probe(f"unary/{f}/neg", lambda: -a)
    probe(f"unary/{f}/pos", lambda: +a)
    probe(f"unary/{f}/abs", lambda: abs(-a))
    probe(f"unary/{f}/round", lambda: round(a / 3, 2))

    def _unary_isolation():
        snap = snapshot(a)
        for y in (-a, +a, abs(a), round(a, 1), a.copy(), a + 0):
            y.data[...] = 1234.0
            y.start = s + 99
        return unchanged(a, snap)
    probe(f"unary/{f}/isolation", _unary_isolation)

    def _result_isolation():
        snap = snapshot(a)
        y = a + 1
        z = a * make(f, PATTERN_1, offset=1)
        y[s - 3] = 1.0
        z[s - 3] = 1.0
        return unchanged(a, snap)
    probe(f"binop/{f}/result-isolation", _result_isolation)

mixed = Series(start=qq(2020, 1), values=np.array([1.0, 2.0]))
probe("binop/mixed-frequency", lambda: mixed + Series(start=mm(2020, 1), values=np.array([1.0, 2.0])))
probe("apply/sum-axis-none", lambda: make("Q", PATTERN_2).apply(np.nansum))
probe("apply/sum-axis-0", lambda: make("Q", PATTERN_2).apply(np.nansum, axis=0))
probe("apply/sum-axis-1", lambda: make("Q", PATTERN_2).apply(np.nansum, axis=1))
probe("apply/bad-shape", lambda: make("Q", PATTERN_2).apply(lambda d: d[:2, :]))


# ----------------------------------------------------------------------------
# 7. Element-wise, statistical, moving-window functions
# ----------------------------------------------------------------------------

ELEMENTWISE = [
    "log", "log2", "log10", "log1p", "exp", "exp2", "expm1", "sqrt", "abs", "sign",
    "sin", "cos", "tan", "asin", "acos", "atan", "expit", "logistic", "erf", "erfinv",
    "erfc", "erfcinv", "normal_cdf", "normal_pdf",
]

for f in ("Q", "D", "Y"):
    a = make(f, PATTERN_2 / 60.0)
    for name in ELEMENTWISE:
        snap = snapshot(a)
        probe(f"elementwise/{f}/{name}", lambda: getattr(ir, name)(a))
        if not unchanged(a, snap):
            emit(f"elementwise/{f}/{name}/isolation", False)

        def _method():
            y = a.copy()
            out = getattr(y, name)()
            return y, out
        probe(f"elementwise/{f}/{name}/method", _method)
    probe(f"elementwise/{f}/round", lambda: ir.round(a, 2))
    probe(f"elementwise/{f}/maximum", lambda: ir.maximum(a, 0.05))
    probe(f"elementwise/{f}/minimum", lambda: ir.minimum(a, 0.05))
    probe(f"elementwise/{f}/log-of-number", lambda: ir.log(2.0))
    probe(f"elementwise/{f}/empty", lambda: ir.exp(make_empty(2)))
    probe(f"elementwise/{f}/logistic-method-main", lambda: (lambda y: (y.logistic(), y)[1])(a.copy()))

STATS = ["sum", "prod", "mean", "median", "std", "var", "max", "min"]
for f in ("Q", "M", "D"):
    for plabel, pattern in (("p2", PATTERN_2), ("p3", PATTERN_3), ("p1", PATTERN_1)):
        a = Series.from_start_and_array(STARTS[f], pattern.copy(), trim=False)
        for name in STATS + ["nan" + n for n in STATS]:
            snap = snapshot(a)
            probe(f"stats/{f}/{plabel}/{name}/axis1", lambda: getattr(ir, name)(a))
            probe(f"stats/{f}/{plabel}/{name}/axis0", lambda: getattr(ir, name)(a, axis=0))
            probe(f"stats/{f}/{plabel}/{name}/axis0-keep", lambda: getattr(ir, name)(a, axis=0, unpack_singleton=False))
            if not unchanged(a, snap):
                emit(f"stats/{f}/{plabel}/{name}/isolation", False)
        probe(f"stats/{f}/{plabel}/percentile", lambda: ir.percentile(a, 30))
        probe(f"stats/{f}/{plabel}/nanquantile", lambda: ir.nanquantile(a, 0.3))
        probe(f"stats/{f}/{plabel}/quantile-axis0", lambda: ir.nanquantile(a, 0.3, axis=0))
        probe(f"stats/{f}/{plabel}/bad-axis", lambda: ir.sum(a, axis=2))

        def _method():
            y = a.copy()
            out = y.nanmean()
            return y, out
        probe(f"stats/{f}/{plabel}/method", _method)

for f in STARTS:
    a = make(f, PATTERN_2)
    b = make(f, PATTERN_1)
    for name in ("mov_sum", "mov_avg", "mov_mean", "mov_prod"):
        for window in (None, -1, -2, -3):
            if window is None and f == "D":
                continue
            snap = snapshot(a)
            probe(f"moving/{f}/{name}/{window}/p2", lambda: getattr(ir, name)(a, window=window))
            probe(f"moving/{f}/{name}/{window}/p1", lambda: getattr(ir, name)(b, window=window))
            if not unchanged(a, snap):
                emit(f"moving/{f}/{name}/{window}/isolation", False)
    probe(f"moving/{f}/custom", lambda: ir.moving_window(b, np.nanmax, window=-3))

    def _method():
        y = b.copy()
        out = y.mov_sum(window=-2)
        return y, out
    probe(f"moving/{f}/method", _method)
probe("moving/D/default-window", lambda: (lambda y: (y.start, y.shape))(ir.mov_sum(Series(start=dd(2020, 1, 1), values=np.arange(400.0)))))
probe("moving/long-window", lambda: ir.mov_sum(make("Q", PATTERN_1), window=-20))


# ----------------------------------------------------------------------------
# 8. Temporal change and cumulation
# ----------------------------------------------------------------------------

for f in STARTS:
    a = make(f, PATTERN_2 + 1.0)
    b = make(f, PATTERN_1 + 1.0)
    for name in ("diff", "diff_log", "pct", "roc"):
        shifts = (-1, -2, -4) + (() if f == "I" else ("yoy", "soy", "eopy", "tty"))
        for sh in shifts:
            snap = snapshot(a)
            probe(f"change/{f}/{name}/{sh}/p2", lambda: getattr(ir, name)(a, sh))
            probe(f"change/{f}/{name}/{sh}/p1", lambda: getattr(ir, name)(b, sh))
            if not unchanged(a, snap):
                emit(f"change/{f}/{name}/{sh}/isolation", False)
        probe(f"change/{f}/{name}/default", lambda: getattr(ir, name)(a))
        probe(f"change/{f}/{name}/invalid-shift", lambda: getattr(ir, name)(a, 1))
    for name in ("adiff", "adiff_log", "apct", "aroc", "roc_from_pct", "pct_from_roc", "pct_from_apct", "roc_from_apct", "roc_from_aroc"):
        probe(f"change/{f}/{name}", lambda: getattr(ir, name)(a))

    def _method():
        y = a.copy()
        out = y.diff()
        return y, out
    probe(f"change/{f}/method", _method)
    probe(f"change/{f}/empty", lambda: ir.diff(make_empty(2)))

    c = Series(start=STARTS[f], values=np.array([[1.0, 2.0], [2.0, -1.0], [0.5, 3.0], [4.0, 1.0], [1.5, 1.5]]))
    s = STARTS[f]
    for name in ("cum_diff", "cum_diff_log", "cum_pct", "cum_roc"):
        snap = snapshot(c)
        probe(f"cum/{f}/{name}/default", lambda: getattr(ir, name)(c))
        probe(f"cum/{f}/{name}/shift2", lambda: getattr(ir, name)(c, -2))
        probe(f"cum/{f}/{name}/initial", lambda: getattr(ir, name)(c, -1, 10.0))
        probe(f"cum/{f}/{name}/span", lambda: getattr(ir, name)(c, -1, None, Span(s + 1, s + 3)))
        probe(f"cum/{f}/{name}/backward", lambda: getattr(ir, name)(c, -1, 10.0, Span(s + 3, s + 1, -1)))
        if f != "I":
            for sh in ("yoy", "soy", "eopy", "tty"):
                probe(f"cum/{f}/{name}/{sh}", lambda: getattr(ir, name)(c, sh))
                probe(f"cum/{f}/{name}/{sh}/initial-span", lambda: getattr(ir, name)(c, sh, 5.0, Span(s + 1, s + 4)))
        if not unchanged(c, snap):
            emit(f"cum/{f}/{name}/isolation", False)


# ----------------------------------------------------------------------------
# 9. Fill missing, extrapolate
# ----------------------------------------------------------------------------

for f in STARTS:
    s = STARTS[f]
    a = make(f, PATTERN_2)
    b = make(f, PATTERN_1)
    filler = make(f, np.arange(100.0, 130.0), offset=-10)
    for method, margs in (
        ("next", None), ("previous", None), ("nearest", None), ("linear", None),
        ("log_linear", None), ("constant", -1.0), ("from_series", filler), ("series", filler),
    ):
        snap = snapshot(a)
        snap_f = snapshot(filler)
        probe(f"fill/{f}/{method}/p2", lambda: ir.fill_missing(a, method, margs))
        probe(f"fill/{f}/{method}/p1", lambda: ir.fill_missing(b, method, margs))
        probe(f"fill/{f}/{method}/p1/span-wider", lambda: ir.fill_missing(b, method, margs, Span(s - 2, s + 12)))
        probe(f"fill/{f}/{method}/p1/span-inner", lambda: ir.fill_missing(b, method, margs, Span(s + 1, s + 5)))
        probe(f"fill/{f}/{method}/p1/span-outside", lambda: ir.fill_missing(b, method, margs, Span(s + 20, s + 22)))
        if not (unchanged(a, snap) and unchanged(filler, snap_f)):
            emit(f"fill/{f}/{method}/isolation", False)
    probe(f"fill/{f}/empty", lambda: ir.fill_missing(make_empty(1), "constant", 0.0))
    probe(f"fill/{f}/bad-method", lambda: ir.fill_missing(b, "nope"))

    def _method():
        y = b.copy()
        out = y.fill_missing("previous")
        return y, out
    probe(f"fill/{f}/method", _method)

    c = Series(start=s, values=np.array([[1.0, 2.0], [2.0, 3.0], [3.0, 5.0]]))
    snap = snapshot(c)
    probe(f"extrapolate/{f}/ar1", lambda: ir.extrapolate(c, 0.8, Span(s + 3, s + 6)))
    probe(f"extrapolate/{f}/ar2", lambda: ir.extrapolate(c, (0.5, 0.3), Span(s + 3, s + 6), intercept=1.0))
    probe(f"extrapolate/{f}/log", lambda: ir.extrapolate(c, (1.0, ), Span(s + 3, s + 5), intercept=0.1, log=True))
    probe(f"extrapolate/{f}/gap", lambda: ir.extrapolate(c, (0.9, ), Span(s + 5, s + 6)))
    probe(f"extrapolate/{f}/overwrite", lambda: ir.extrapolate(c, (0.9, ), Span(s + 1, s + 4)))
    probe(f"extrapolate/{f}/empty-span", lambda: ir.extrapolate(c, (0.9, ), ()))
    probe(f"extrapolate/{f}/empty-series", lambda: ir.extrapolate(make_empty(1), (0.9, ), Span(s, s + 1)))
    probe(f"extrapolate/{f}/isolation", lambda: unchanged(c, snap))


# ----------------------------------------------------------------------------
# 10. Copy, variants, misc mutators
# ----------------------------------------------------------------------------

for f in ("Q", "D"):
    s = STARTS[f]
    a = make(f, PATTERN_2)

    def _copy():
        snap = snapshot(a)
        y = a.copy()
        same_before = unchanged(y, snap)
        y[s - 2] = 1.0
        y.data[0, 0] = -1.0
        y.metadata["k"] = 1
        return same_before, unchanged(a, snap), y.data is a.data, a.metadata
    probe(f"copy/{f}", _copy)

    def _mut(name, *args, **kwargs):
        y = a.copy()
        out = getattr(y, name)(*args, **kwargs)
        return y, out if not isinstance(out, Series) else "self" if out is y else "other"
    probe(f"mut/{f}/alter-expand", lambda: _mut("alter_num_variants", 4))
    probe(f"mut/{f}/alter-shrink", lambda: _mut("alter_num_variants", 1))
    probe(f"mut/{f}/alter-same", lambda: _mut("alter_num_variants", 2))
    probe(f"mut/{f}/expand-bad", lambda: _mut("expand_num_variants", 1))
    probe(f"mut/{f}/shrink-bad", lambda: _mut("shrink_num_variants", 3))
    probe(f"mut/{f}/extract-int", lambda: _mut("extract_variants", 1))
    probe(f"mut/{f}/extract-tuple", lambda: _mut("extract_variants", (1, 1, 0)))
    probe(f"mut/{f}/extract-list", lambda: _mut("extract_variants", [0]))
    probe(f"mut/{f}/extract-generator", lambda: _mut("extract_variants", (i for i in (1, 0))))
    probe(f"mut/{f}/extract-range", lambda: _mut("extract_variants", range(1, -1, -1)))
    probe(f"mut/{f}/replace_where", lambda: _mut("replace_where", lambda d: d > 4, NAN))
    probe(f"mut/{f}/replace_where-all", lambda: _mut("replace_where", lambda d: d > 0, NAN))
    probe(f"mut/{f}/replace_where-nan", lambda: _mut("replace_where", np.isnan, 0.0))
    probe(f"mut/{f}/reset", lambda: _mut("reset"))
    probe(f"mut/{f}/empty", lambda: _mut("empty"))
    probe(f"mut/{f}/set_start", lambda: _mut("set_start", s + 5))
    probe(f"mut/{f}/overlay_by_span", lambda: _mut("overlay_by_span", make(f, PATTERN_2, offset=4)))
    probe(f"mut/{f}/underlay_by_span", lambda: _mut("underlay_by_span", make(f, PATTERN_2, offset=4)))
    probe(f"iter/{f}/dates_values", lambda: [(str(t), v) for t, v in a.iter_dates_values()])
    probe(f"iter/{f}/dates_values-1var", lambda: [(str(t), v) for t, v in make(f, PATTERN_1).iter_dates_values()])
    probe(f"iter/{f}/dates_values-1var-keep", lambda: [(str(t), v) for t, v in make(f, PATTERN_1).iter_dates_values(unpack_singleton=False)])
    probe(f"iter/{f}/variants", lambda: list(a.iter_variants()))
    probe(f"iter/{f}/own_data_variants", lambda: list(a.iter_own_data_variants_from_until((s - 1, s + 1))))
    probe(f"iter/{f}/own_data_variants-all", lambda: list(a.iter_own_data_variants_from_until(...)))

    def _exhaust():
        it = a.iter_data_variants_from_until((s, s + 1))
        return [next(it) for _ in range(4)]
    probe(f"iter/{f}/data_variants-exhaust", _exhaust)


# ----------------------------------------------------------------------------
# 11. A pseudo-random sequence of operations against a dict model
# ----------------------------------------------------------------------------

def _random_walk(freq, seed, num_variants):
    rng = np.random.default_rng(seed)
    base = STARTS[freq]
    x = make_empty(num_variants)
    model = {}
    log = []
    for step in range(60):
        kind = rng.integers(0, 5)
        offs = sorted(set(int(o) for o in rng.integers(-8, 9, size=int(rng.integers(1, 4)))))
        v = int(rng.integers(0, num_variants))
        if kind in (0, 1):
            vals = np.round(rng.normal(size=len(offs)), 3)
            vals[rng.random(len(offs)) < 0.3] = NAN
            x[[base + o for o in offs], v] = vals
            for o, val in zip(offs, vals):
                model[(o, v)] = val
        elif kind == 2:
            x[[base + o for o in offs]] = NAN
            for o in offs:
                for vv in range(num_variants):
                    model[(o, vv)] = NAN
        elif kind == 3:
            by = int(rng.integers(-3, 4))
            x = x[by]
            model = {(o - by, vv): val for (o, vv), val in model.items()}
        else:
            x = x + 1
            model = {k: val + 1 for k, val in model.items()}
        live = [o for (o, vv), val in model.items() if not np.isnan(val)]
        exp_span = (min(live), max(live)) if live else None
        got_span = ((x.start - base), (x.end - base)) if x.start is not None else None
        read = x[Span(base - 14, base + 14)]
        expected = np.array([
            [model.get((o, vv), NAN) for vv in range(num_variants)]
            for o in range(-14, 15)
        ])
        ok = np.allclose(read, expected, equal_nan=True) and exp_span == got_span
        log.append(int(ok))
    return sum(log), len(log), x


for f in STARTS:
    for seed, nv in ((1, 1), (2, 2), (3, 3)):
        probe(f"walk/{f}/{seed}", lambda: _random_walk(f, seed, nv))


digest = hashlib.sha256("\n".join(_LINES).encode("utf-8")).hexdigest()
print(f"LINES {len(_LINES)}")
print(f"DIGEST {digest}")

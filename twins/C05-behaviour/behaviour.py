"""
Behaviour digest for property C05 (solve_steady satisfies the steady-state equations).

Run with
    cd /tmp/wt/C05 && PYTHONPATH=/tmp/wt/C05/src /venv/bin/python /tmp/twin_out/C05/behaviour.py

Prints a deterministic digest: full-precision reprs of steady levels/changes,
solver info, solver iteration log (captured stdout), blocks, check_steady
results and rounded discrepancies, steady paths on several frequencies.
"""

import warnings
warnings.simplefilter("ignore")

import contextlib
import hashlib
import io
import math

import numpy as np
import irispie as ir


RBC_GROWTH = r"""
!transition-variables
    a, roc_a, y, c, i, k, h, w, r, c_to_y, i_to_y
!log-variables !all-but
    c_to_y, i_to_y
!transition-shocks
    shock_a, shock_c
!parameters
    alpha, beta, delta, gamma, rho
!transition-equations
    log(roc_a) = rho*log(roc_a[-1]) + (1-rho)*log(alpha) + shock_a !! roc_a = alpha;
    c[+1]/c = beta*r*exp(shock_c);
    w = c;
    k = (1 - delta)*k{-1} + i;
    y = (a*h)^(1-gamma) * k{-1}^gamma;
    gamma*y = k{-1} * (r - 1 + delta);
    (1-gamma)*y = w * h;
    y = i + c;
    c_to_y = c / y;
    i_to_y = i / y;
    roc_a = roc(a);
"""

RBC_FLAT = r"""
!transition-variables
    roc_a, yy, cc, ii, kk, h, ww, r, c_to_y, i_to_y
!log-variables !all-but
    c_to_y, i_to_y
!transition-shocks
    shock_a, shock_c
!parameters
    alpha, beta, delta, gamma, rho
!transition-equations
    log(roc_a) = rho*log(roc_a[-1]) + (1-rho)*log(alpha) + shock_a !! roc_a = alpha;
    cc[+1]*roc_a[+1]/cc = beta*r*exp(shock_c);
    ww = cc;
    kk = (1 - delta)*kk[-1]/roc_a + ii;
    yy = h^(1-gamma) * (kk[-1]/roc_a)^gamma;
    gamma*yy = kk[-1]/roc_a * (r - 1 + delta);
    (1-gamma)*yy = ww * h;
    yy = ii + cc;
    c_to_y = cc / yy;
    i_to_y = ii / yy;
"""

LINEAR = r"""
!transition-variables
    x, z, g, d
!measurement-variables
    obs_x, obs_z
!transition-shocks
    ex, ez
!measurement-shocks
    mx
!parameters
    rho, zbar, gbar, c0
!transition-equations
    x = x{-1} + g + ex;
    g = gbar;
    z = rho*z{-1} + (1-rho)*zbar + 0.2*(z{+1} - z) + ez;
    d = x - x{-2} + z;
!measurement-equations
    obs_x = c0 + x + z + mx;
    obs_z = 2*z;
"""

LINEAR_STATIONARY = r"""
!transition-variables
    p, q, s
!transition-shocks
    ep, eq
!parameters
    a1, a2, pbar, qbar
!transition-equations
    p = a1*p{-1} + (1-a1)*pbar + 0.1*q{+1} + ep;
    q = a2*q{-1} + (1-a2)*qbar - 0.3*(p - pbar) + eq;
    s = p{-1} + q{+2};
"""

NONLIN_DRIFT = r"""
!transition-variables
    lev, gr, ratio, idx
!log-variables
    idx
!transition-shocks
    e1
!parameters
    mu, pi_ss, theta
!transition-equations
    lev = lev{-1} + gr + e1;
    gr = mu;
    idx = idx{-1}*pi_ss !! idx = idx{-1}*pi_ss;
    ratio = theta*(lev - lev{-1}) + log(idx/idx{-1});
"""


RBC_PARAMS = dict(alpha=1.02**0.25, beta=0.95**0.25, gamma=0.40, delta=0.05, rho=0.8, )


def fmt(x, ):
    if x is None:
        return "None"
    if isinstance(x, (list, tuple, )):
        return "(" + ", ".join(fmt(i) for i in x) + ")"
    if isinstance(x, float) and math.isnan(x):
        return "nan"
    return repr(x)


def rnd(x, digits=8, ):
    a = np.round(np.asarray(x, dtype=float, ), digits, ) + 0.0
    return a.tolist()


class Digest:
    def __init__(self, ):
        self.lines = []
    def add(self, *args, ):
        self.lines.append(" ".join(str(a) for a in args))
    def dump(self, ):
        text = "\n".join(self.lines)
        print(text)
        print("SHA256", hashlib.sha256(text.encode("utf-8")).hexdigest())


D = Digest()


def run_steady(label, model, **kwargs, ):
    D.add("=" * 20, label, "kwargs=" + repr(sorted(k for k in kwargs.keys())))
    buf = io.StringIO()
    err = None
    info = None
    with contextlib.redirect_stdout(buf):
        try:
            info = model.steady(return_info=True, unpack_singleton=False, **kwargs, )
        except Exception as exc:
            err = exc
    log = buf.getvalue()
    D.add("solver-log-sha", hashlib.sha256(log.encode("utf-8")).hexdigest(), "lines", log.count("\n"))
    if err is not None:
        D.add("ERROR", type(err).__name__, str(err)[:400])
    for vid, info_v in enumerate(info or (), ):
        D.add("variant", vid, "info-keys", sorted(info_v.keys()))
        if "blocks" in info_v:
            D.add("  success", info_v["success"], "num_blocks", len(info_v["blocks"]))
            for bid, b in enumerate(info_v["blocks"], ):
                D.add("  block", bid, b["success"], str(b["exit_status"]), b["equations"], b["quantities"])
    names = model.get_names()
    levels = model.get_steady_levels(unpack_singleton=False, )
    changes = model.get_steady_changes(unpack_singleton=False, )
    for vid in range(model.num_variants):
        for n in names:
            if n not in levels.keys():
                continue
            lv = levels[n][vid]
            ch = changes[n][vid] if n in changes.keys() else None
            D.add(f"  [{vid}] {n}: level={fmt(lv)} change={fmt(ch)}")
            D.add(f"  [{vid}] {n}: rounded level={rnd(lv) if lv is not None else None} change={rnd(ch) if ch is not None else None}")
    for switch in ("steady", "dynamic", ):
        try:
            status, chk = model.check_steady(
                equation_switch=switch, when_fails="silent",
                return_info=True, unpack_singleton=False,
            )
        except Exception as exc:
            D.add("  check_steady", switch, "ERROR", type(exc).__name__, str(exc)[:200])
            continue
        D.add("  check_steady", switch, status)
        for vid, c in enumerate(chk, ):
            D.add(f"    [{vid}] max|discrepancy| < 1e-8:", bool(np.nanmax(np.abs(c["discrepancies"])) < 1e-8))
            D.add(f"    [{vid}] discrepancies rounded:", rnd(c["discrepancies"], 7))
            D.add(f"    [{vid}] failed:", c["failed_equations"])


def show_blocks(label, model, plan, **kwargs, ):
    blocks = model.split_into_blocks(plan, **kwargs, )
    D.add("-" * 10, "blocks", label, len(blocks))
    for b in blocks:
        D.add("  ", b.equations, b.quantities)


def show_paths(label, model, span, **kwargs, ):
    db = model.build_steady_paths(span, **kwargs, )
    D.add("-" * 10, "paths", label)
    for n in sorted(db.keys()):
        s = db[n]
        if isinstance(s, ir.Series, ):
            D.add("  ", n, str(s.start), str(s.end), s.get_data().shape, rnd(s.get_data(), 9))
        else:
            D.add("  ", n, type(s).__name__, fmt(s))


#-------------------------------------------------------------------------------
# 1. Balanced-growth RBC, nonlinear nonflat, plan fixing level of `a`
#-------------------------------------------------------------------------------

def make_rbc_growth(num_variants=1, ):
    m = ir.Simultaneous.from_string(RBC_GROWTH, )
    if num_variants > 1:
        m.alter_num_variants(num_variants, )
    m.assign(**RBC_PARAMS, )
    m.assign(a=1, k=20, )
    return m

m = make_rbc_growth()
p = ir.SteadyPlan(m, )
p.fix_level(["a"], )
show_blocks("rbc growth, fix_level a", m, p, )
run_steady("rbc growth, fix_level a, default split", m, plan=p, )
show_paths("rbc growth quarterly", m, ir.qq(2020, 1) >> ir.qq(2021, 2), )
show_paths("rbc growth daily", m, ir.dd(2020, 2, 27) >> ir.dd(2020, 3, 2), )
show_paths("rbc growth yearly deviation", m, ir.yy(2020) >> ir.yy(2022), deviation=True, )
show_paths("rbc growth integer no presample", m, ir.ii(-2) >> ir.ii(2), prepend_initial=False, append_terminal=False, )

m = make_rbc_growth()
run_steady("rbc growth, fix_level a, split_into_blocks=True", m, plan=p, split_into_blocks=True, )

m = make_rbc_growth()
run_steady("rbc growth, fix_level a, split_into_blocks=False, scipy_root", m, plan=p, split_into_blocks=False, solver="scipy_root", )

# Multiple variants with different parameters and starting guesses
m = make_rbc_growth(3, )
m.assign(alpha=[1.02**0.25, 1.00, 1.05**0.25], gamma=[0.4, 0.35, 0.45], a=[1, 2, 0.5], )
p3 = ir.SteadyPlan(m, )
p3.fix_level(["a"], )
run_steady("rbc growth, 3 variants", m, plan=p3, )
show_paths("rbc growth 3 variants monthly", m, ir.mm(2020, 11) >> ir.mm(2021, 1), )

# Fix level and change
m = make_rbc_growth()
m.assign(a=(1.5, 1.01), )
p = ir.SteadyPlan(m, )
p.fix_level(["a"], )
p.fix_change(["a"], )
run_steady("rbc growth, fix level+change a (inconsistent with alpha, overdetermined)", m, plan=p, )

# Exogenize/endogenize in growth model
m = make_rbc_growth()
m.assign(a=1, roc_a=(1.004, 1), )
p = ir.SteadyPlan(m, )
p.fix_level(["a"], )
p.exogenize(["roc_a"], )
p.endogenize(["alpha"], )
show_blocks("rbc growth, exogenize roc_a endogenize alpha", m, p, )
run_steady("rbc growth, exogenize roc_a endogenize alpha", m, plan=p, )
D.add("  alpha =", fmt(m.get_parameters(unpack_singleton=False)["alpha"][0]))

# No plan at all in growth model (level of a undetermined) - whatever happens, record
m = make_rbc_growth()
run_steady("rbc growth, no plan", m, )

# The same model evaluated with flat=True flag at steady time
m = make_rbc_growth()
m.assign(alpha=1, )
run_steady("rbc growth model with flat=True and alpha=1", m, flat=True, )


#-------------------------------------------------------------------------------
# 2. Stationarized RBC, nonlinear flat
#-------------------------------------------------------------------------------

def make_rbc_flat(num_variants=1, **kwargs, ):
    m = ir.Simultaneous.from_string(RBC_FLAT, flat=True, **kwargs, )
    if num_variants > 1:
        m.alter_num_variants(num_variants, )
    m.assign(**RBC_PARAMS, )
    return m

m = make_rbc_flat()
m.assign(kk=20, )
show_blocks("rbc flat, no plan", m, None, )
run_steady("rbc flat, default", m, )
show_paths("rbc flat quarterly", m, ir.qq(2020, 1) >> ir.qq(2020, 3), )

m = make_rbc_flat()
m.assign(kk=20, )
run_steady("rbc flat, split_into_blocks=False", m, split_into_blocks=False, )

m = make_rbc_flat()
run_steady("rbc flat, all starting values missing", m, )

m = make_rbc_flat(2, )
m.assign(kk=[20, 5], delta=[0.05, 0.10], h=[float("nan"), 0.5], )
run_steady("rbc flat, 2 variants, partly missing starts", m, )

m = make_rbc_flat()
m.assign(kk=20, c_to_y=0.70, )
p = ir.SteadyPlan(m, )
p.exogenize(["c_to_y"], )
p.endogenize(["delta"], )
show_blocks("rbc flat, exogenize c_to_y endogenize delta", m, p, )
run_steady("rbc flat, exogenize c_to_y endogenize delta", m, plan=p, )
D.add("  delta =", fmt(m.get_parameters(unpack_singleton=False)["delta"][0]))
run_steady("rbc flat, exogenize c_to_y endogenize delta, no blocks, repeated from solution", m, plan=p, split_into_blocks=False, )
D.add("  delta =", fmt(m.get_parameters(unpack_singleton=False)["delta"][0]))

m = make_rbc_flat()
m.assign(kk=20, h=0.9, )
p = ir.SteadyPlan(m, )
p.fix_level(["h"], )
run_steady("rbc flat, fix_level h (overdetermined -> least squares or failure)", m, plan=p, )

m = make_rbc_flat()
m.assign(kk=20, )
p = ir.SteadyPlan(m, )
run_steady("rbc flat, empty plan", m, plan=p, )

# Nonflat evaluation of the stationarized model
m = make_rbc_flat()
m.assign(kk=20, )
run_steady("rbc flat model solved with flat=False", m, flat=False, )


#-------------------------------------------------------------------------------
# 3. Linear models
#-------------------------------------------------------------------------------

m = ir.Simultaneous.from_string(LINEAR, linear=True, )
m.assign(rho=0.8, zbar=2, gbar=0.5, c0=-1, )
run_steady("linear unit root with drift, nonflat", m, )
show_paths("linear drift quarterly", m, ir.qq(2020, 1) >> ir.qq(2020, 4), )
show_paths("linear drift daily", m, ir.dd(2020, 12, 30) >> ir.dd(2021, 1, 2), )

m = ir.Simultaneous.from_string(LINEAR, linear=True, )
m.alter_num_variants(3, )
m.assign(rho=[0.8, 0.5, 0], zbar=[2, -1, 0], gbar=[0.5, -0.25, 0], c0=[-1, 0, 3], )
run_steady("linear unit root with drift, 3 variants (negative and zero drift)", m, )
show_paths("linear drift 3 variants", m, ir.yy(2000) >> ir.yy(2002), )

m = ir.Simultaneous.from_string(LINEAR_STATIONARY, linear=True, flat=True, )
m.alter_num_variants(2, )
m.assign(a1=[0.7, 0.2], a2=[0.5, 0.9], pbar=[1, -2], qbar=[3, 0.5], )
run_steady("linear stationary flat, 2 variants", m, )

m = ir.Simultaneous.from_string(LINEAR_STATIONARY, linear=True, )
m.assign(a1=0.7, a2=0.5, pbar=1, qbar=3, )
run_steady("linear stationary nonflat", m, )

# Linear equations solved by nonlinear steady solver
m = ir.Simultaneous.from_string(LINEAR_STATIONARY, )
m.assign(a1=0.7, a2=0.5, pbar=1, qbar=3, )
run_steady("linear stationary equations, nonlinear solver, blocks", m, )
m = ir.Simultaneous.from_string(LINEAR, )
m.assign(rho=0.8, zbar=2, gbar=-0.5, c0=-1, x=10, )
p = ir.SteadyPlan(m, )
p.fix_level(["x"], )
run_steady("linear drift equations (negative step), nonlinear solver, fix_level x", m, plan=p, )
show_paths("linear drift negative step weekly-ish daily", m, ir.dd(2021, 1, 1) >> ir.dd(2021, 1, 3), )


#-------------------------------------------------------------------------------
# 4. Nonlinear with additive drift and a geometric log-variable
#-------------------------------------------------------------------------------

m = ir.Simultaneous.from_string(NONLIN_DRIFT, )
m.alter_num_variants(2, )
m.assign(mu=[0.3, -0.2], pi_ss=[1.01, 0.99], theta=[2, 3], lev=[5, -5], idx=[100, 2], )
p = ir.SteadyPlan(m, )
p.fix_level(["lev", "idx"], )
show_blocks("nonlin drift, fix_level lev idx", m, p, )
run_steady("nonlin drift, 2 variants, fix_level lev idx", m, plan=p, )
run_steady("nonlin drift, 2 variants, fix_level lev idx, split", m, plan=p, split_into_blocks=True, )
show_paths("nonlin drift half-yearly", m, ir.hh(2020, 1) >> ir.hh(2021, 1), )


D.dump()

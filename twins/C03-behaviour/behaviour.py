"""
Behaviour digest for property C03 (Kalman filter / smoother / likelihood).

Run with

    cd /tmp/wt/C03 && PYTHONPATH=/tmp/wt/C03/src /venv/bin/python /tmp/twin_out/C03/behaviour.py

Prints, for a range of models / options / missing-data patterns, the negative
log-likelihood, variance scale, per-period contributions and an exact (bitwise)
sha256 digest plus a rounded checksum of every array in the filter output.
The output must be identical before and after a behaviour-preserving change.
"""

import contextlib
import hashlib
import io
import warnings

warnings.simplefilter("ignore")

import numpy as np
import irispie as ir


# ---------------------------------------------------------------------------
# Models
# ---------------------------------------------------------------------------

_LINEAR_SOURCE = r"""
!transition_variables
    x, z
!transition_shocks
    ex, ez
!parameters
    rho, phi, c
!transition_equations
    x = c + rho*x[-1] + 0.3*z[-1] + ex;
    z = phi*z[-1] + 0.2*x[-2] + ez;
!measurement_variables
    ox, oz, os
!measurement_shocks
    wx, wz
!measurement_equations
    ox = x + wx;
    oz = z + wz;
    os = x + z + 1;
"""

_FORWARD_SOURCE = r"""
!transition_variables
    y, pi, r, g
!transition_shocks
    ey, epi, er
!parameters
    a1, a2, b1, b2, c1, c2, c3, rg
!transition_equations
    y = a1*y[-1] + (1-a1)*y[+1] - a2*(r - pi[+1]) + g + ey;
    pi = b1*pi[-1] + (1-b1)*pi[+1] + b2*y + epi;
    r = c1*r[-1] + (1-c1)*(c2*pi + c3*y) + er;
    g = rg*g[-1];
!measurement_variables
    oy, opi, or_
!measurement_shocks
    wy
!measurement_equations
    oy = y + wy;
    opi = pi;
    or_ = r;
"""

_LOG_SOURCE = r"""
!transition_variables
    a, k, g
!transition_shocks
    ea, eg
!parameters
    rho, ss_a, al, rg
!transition_equations
    log(a) = rho*log(a[-1]) + (1-rho)*log(ss_a) + ea;
    k = a * k[-1]^al !! k = a * k^al;
    g = rg*g[-1] + eg;
!measurement_variables
    oa, ok, og
!measurement_shocks
    wa
!measurement_equations
    oa = a * exp(wa);
    ok = k * exp(g);
    og = g + log(a);
!log-variables
    a, k, oa, ok
"""

_UNIT_ROOT_SOURCE = r"""
!transition_variables
    lev, gr, cyc
!transition_shocks
    elev, egr, ecyc
!parameters
    rgr, rcyc, ss_gr
!transition_equations
    lev = lev[-1] + gr + elev;
    gr = rgr*gr[-1] + (1-rgr)*ss_gr + egr;
    cyc = rcyc*cyc[-1] + ecyc;
!measurement_variables
    obs, ogr
!measurement_shocks
    wobs
!measurement_equations
    obs = lev + cyc + wobs;
    ogr = gr;
"""


def _linear_model():
    m = ir.Simultaneous.from_string(_LINEAR_SOURCE, linear=True, )
    m.assign(rho=0.8, phi=0.5, c=0.2, std_ex=1, std_ez=0.5, std_wx=0.1, std_wz=0.3, )
    m.steady()
    m.solve()
    return m


def _linear_model_variants():
    m = ir.Simultaneous.from_string(_LINEAR_SOURCE, linear=True, )
    m.alter_num_variants(3, )
    m.assign(
        rho=[0.8, 0.3, -0.4], phi=[0.5, 0.6, 0.1], c=[0.2, 0, -1],
        std_ex=[1, 2, 0.5], std_ez=0.5, std_wx=[0.1, 0.1, 0], std_wz=0.3,
    )
    m.steady()
    m.solve()
    return m


def _forward_model():
    m = ir.Simultaneous.from_string(_FORWARD_SOURCE, linear=True, )
    m.assign(
        a1=0.6, a2=0.2, b1=0.5, b2=0.1, c1=0.7, c2=1.8, c3=0.4, rg=0.5,
        std_ey=0.8, std_epi=0.4, std_er=0.2, std_wy=0.25,
    )
    m.steady()
    m.solve()
    return m


def _log_model():
    m = ir.Simultaneous.from_string(_LOG_SOURCE, )
    m.assign(rho=0.7, ss_a=1.5, al=0.4, rg=0.6, std_ea=0.1, std_eg=0.2, std_wa=0.05, )
    m.assign(a=1.5, k=1.5**(1/0.6), g=0, oa=1.5, ok=1.5**(1/0.6), og=np.log(1.5), )
    with contextlib.redirect_stdout(io.StringIO()):
        m.steady()
    m.solve()
    return m


def _unit_root_model():
    m = ir.Simultaneous.from_string(_UNIT_ROOT_SOURCE, linear=True, )
    m.assign(rgr=0.8, rcyc=0.6, ss_gr=0.5, std_elev=0.3, std_egr=0.1, std_ecyc=0.7, std_wobs=0.2, )
    m.assign(lev=0, gr=0.5, cyc=0, obs=0, ogr=0.5, )
    m.solve()
    return m


# ---------------------------------------------------------------------------
# Data
# ---------------------------------------------------------------------------

def _make_data(names, span, seed, *, missing=0.3, empty_periods=(), log_names=(), offset=0.0, ):
    rng = np.random.default_rng(seed, )
    span = tuple(span)
    n = len(span)
    db = ir.Databox()
    for name in names:
        values = offset + rng.standard_normal(n, ).cumsum() * 0.3 + rng.standard_normal(n, ) * 0.5
        if name in log_names:
            values = np.exp(0.2 * values)
        values[rng.random(n, ) < missing] = np.nan
        for p in empty_periods:
            values[p] = np.nan
        db[name] = ir.Series(periods=span, values=values, )
    return db


# ---------------------------------------------------------------------------
# Digest
# ---------------------------------------------------------------------------

def _canon(array):
    array = np.asarray(array, dtype=float, )
    array = np.where(np.isnan(array), np.nan, array, ) + 0.0  # canonical nans, no -0.0
    return np.ascontiguousarray(array, )


def _digest_array(hasher, label, array, ):
    array = _canon(array, )
    hasher.update(label.encode())
    hasher.update(repr(array.shape).encode())
    hasher.update(array.tobytes())
    finite = array[np.isfinite(array)]
    return float(np.round(finite.sum(), 8, )) + 0.0, int(np.isnan(array).sum())


def _digest_databox(hasher, label, db, ):
    total = 0.0
    nans = 0
    for name in sorted(db.keys()):
        value = db[name]
        if isinstance(value, ir.Series):
            periods = tuple(str(p) for p in value.periods)
            hasher.update(repr((name, periods[:1], periods[-1:], len(periods), )).encode())
            s, n = _digest_array(hasher, label + "." + name, value.get_data(), )
        else:
            s, n = _digest_array(hasher, label + "." + name, value, )
        total += s
        nans += n
    return round(total, 7, ) + 0.0, nans


def _digest_mse_obs(hasher, mse_obs, ):
    total = 0.0
    count = 0
    for v, per_variant in enumerate(mse_obs):
        for t, F in enumerate(per_variant):
            if F is None:
                hasher.update(f"F{v},{t}:None".encode())
                continue
            s, _ = _digest_array(hasher, f"F{v},{t}", F, )
            total += s
            count += F.size
    return round(total, 7, ) + 0.0, count


def _show_info(info, ):
    infos = info if isinstance(info, list) else [info, ]
    for i, x in enumerate(infos):
        line = f"    info[{i}] nll={x['neg_log_likelihood']!r} var_scale={x['var_scale']!r} std_scale={x['std_scale']!r}"
        print(line)
        log_det_F = x["log_det_F"].get_data().flatten()
        print("      log_det_F", [None if np.isnan(v) else round(float(v), 9) + 0.0 for v in log_det_F])
        if "neg_log_likelihood_contributions" in x:
            c = x["neg_log_likelihood_contributions"]
            values = c.get_data().flatten()
            print("      contributions", [round(float(v), 9) + 0.0 for v in values])
            print("      contributions span", str(c.periods[0]), str(c.periods[-1]), "sum", repr(round(float(np.nansum(values)), 9)))
            print("      contributions hex", hashlib.sha256(_canon(values).tobytes()).hexdigest()[:16])
        print("      log_det_F hex", hashlib.sha256(_canon(log_det_F).tobytes()).hexdigest()[:16])


def run_case(label, model, db, span, **kwargs, ):
    print(f"== {label}")
    try:
        out, info = model.kalman_filter(db, span, return_info=True, **kwargs, )
    except Exception as exc:
        print("    EXCEPTION", type(exc).__name__, str(exc)[:200].replace("\n", " | "))
        return
    _show_info(info, )
    if out is None:
        print("    out None")
    else:
        print("    out keys", list(out.keys()))
        for key in out.keys():
            hasher = hashlib.sha256()
            if key == "predict_mse_obs":
                total, count = _digest_mse_obs(hasher, out[key], )
                print(f"    {key}: sum={total!r} size={count} sha={hasher.hexdigest()[:16]}")
            else:
                names = list(out[key].keys())
                total, nans = _digest_databox(hasher, key, out[key], )
                print(f"    {key}: n={len(names)} sum={total!r} nans={nans} sha={hasher.hexdigest()[:16]}")
    try:
        nll_kwargs = {
            k: v for k, v in kwargs.items()
            if k not in ("return_", "likelihood_contributions", "return_predict", "return_update", "return_smooth", "return_predict_err", "return_predict_mse_obs", )
        }
        nll = model.neg_log_likelihood(db, span, **nll_kwargs, )
        print("    neg_log_likelihood()", repr(nll))
    except Exception as exc:
        print("    EXCEPTION in neg_log_likelihood", type(exc).__name__, str(exc)[:200].replace("\n", " | "))


def show_series(label, series, ):
    values = series.get_data()
    if not len(series.periods):
        print(f"    {label}", "empty", values.shape)
        return
    print(f"    {label}", str(series.periods[0]), str(series.periods[-1]), [
        None if np.isnan(v) else round(float(v), 9) + 0.0 for v in values.flatten()
    ])


def main():
    #
    # 1. Linear stationary model, quarterly
    #
    m = _linear_model()
    span = ir.qq(2020, 1) >> ir.qq(2023, 4)
    y_names = ("ox", "oz", "os", )
    db = _make_data(y_names, span, 1, missing=0.3, empty_periods=(0, 5, 6, 15), offset=2.0, )
    run_case("linear/default", m, db, span, )
    run_case("linear/deviation", m, db, span, deviation=True, )
    run_case("linear/rescale", m, db, span, rescale_variance=True, )
    run_case("linear/rescale+deviation", m, db, span, rescale_variance=True, deviation=True, )
    run_case("linear/no_contributions", m, db, span, likelihood_contributions=False, )
    run_case("linear/prepend+append", m, db, span, prepend_initial=True, append_terminal=True, )
    run_case("linear/return smooth only", m, db, span, return_=("smooth", ), )
    run_case("linear/return string predict", m, db, span, return_="predict", )
    run_case("linear/return update, no predict_err", m, db, span, return_=("update", "predict_err", ), return_predict_err=False, )
    run_case("linear/return predict w/o mse_obs", m, db, span, return_=("predict", "predict_err", ), return_predict_mse_obs=False, )
    run_case("linear/return nothing", m, db, span, return_=(), )
    run_case("linear/check_singularity", m, db, span, check_singularity=True, )
    run_case("linear/approx_diffuse", m, db, span, diffuse_method="approx_diffuse", )
    run_case("linear/fixed_zero", m, db, span, diffuse_method="fixed_zero", )
    run_case("linear/subspan", m, db, ir.qq(2021, 2) >> ir.qq(2022, 1), )
    run_case("linear/single period", m, db, ir.qq(2021, 1) >> ir.qq(2021, 1), )
    run_case("linear/reversed span", m, db, ir.qq(2022, 4) >> ir.qq(2021, 1), )
    run_case("linear/span list", m, db, tuple(ir.qq(2020, 3) >> ir.qq(2021, 4)), )
    #
    # no observations at all; fully observed
    #
    run_case("linear/empty databox", m, ir.Databox(), span, )
    run_case("linear/empty databox rescale", m, ir.Databox(), span, rescale_variance=True, )
    db_full = _make_data(y_names[:2], span, 2, missing=0.0, offset=2.0, )
    run_case("linear/full two obs", m, db_full, span, )
    run_case("linear/full two obs rescale", m, db_full, span, rescale_variance=True, )
    #
    # singular F: os = ox + oz + 1 holds only without measurement shocks
    #
    m0 = m.copy()
    m0.assign(std_wx=0, std_wz=0, )
    db_sing = _make_data(y_names, span, 3, missing=0.0, offset=2.0, )
    run_case("linear/singular silent", m0, db_sing, span, check_singularity=True, when_singularity="silent", )
    run_case("linear/singular error", m0, db_sing, span, check_singularity=True, when_singularity="error", )
    #
    # 2. Time-varying stds and shock means from data
    #
    db_std = db.copy()
    db_std["std_ex"] = ir.Series(periods=ir.qq(2020, 3) >> ir.qq(2021, 2), values=[2, 3, 0.5, 0], )
    db_std["std_wz"] = ir.Series(periods=ir.qq(2021, 1) >> ir.qq(2021, 3), values=[1, 0, 2], )
    db_std["std_ez"] = 0.9
    db_std["ex"] = ir.Series(periods=ir.qq(2020, 2) >> ir.qq(2020, 4), values=[0.5, -0.5, 1], )
    db_std["wx"] = ir.Series(periods=ir.qq(2021, 2) >> ir.qq(2021, 3), values=[0.2, -0.1], )
    db_std["ant_ez"] = ir.Series(periods=ir.qq(2021, 4) >> ir.qq(2022, 1), values=[1, -1], )
    run_case("linear/stds_from_data", m, db_std, span, stds_from_data=True, )
    run_case("linear/stds_from_data rescale", m, db_std, span, stds_from_data=True, rescale_variance=True, )
    run_case("linear/shocks_from_data", m, db_std, span, shocks_from_data=True, )
    run_case("linear/shocks+stds_from_data deviation", m, db_std, span, shocks_from_data=True, stds_from_data=True, deviation=True, )
    run_case("linear/stds ignored", m, db_std, span, )
    #
    # a few values printed in full
    #
    out, info = m.kalman_filter(db_std, span, return_info=True, stds_from_data=True, shocks_from_data=True, )
    print("== linear/selected series")
    for step in ("predict", "update", "smooth", ):
        for name in ("x", "z", "ox", "os", "ex", "wz", ):
            show_series(f"{step}_med.{name}", out[f"{step}_med"][name], )
            if name in out[f"{step}_std"].keys():
                show_series(f"{step}_std.{name}", out[f"{step}_std"][name], )
    for name in y_names:
        show_series(f"predict_err.{name}", out["predict_err"][name], )
    #
    # 3. Multiple variants
    #
    mv = _linear_model_variants()
    run_case("variants/default", mv, db, span, )
    run_case("variants/rescale+stds", mv, db_std, span, rescale_variance=True, stds_from_data=True, )
    run_case("variants/num_variants=2", mv, db, span, num_variants=2, )
    run_case("variants/smooth only no unpack", mv, db, span, return_=("smooth", ), unpack_singleton=False, )
    db_2v = db.copy()
    rng = np.random.default_rng(11, )
    db_2v["ox"] = ir.Series(periods=span, values=rng.standard_normal((len(span), 3, )), )
    run_case("variants/multivariant data", mv, db_2v, span, )
    run_case("singleton/multivariant data num_variants=3", m, db_2v, span, num_variants=3, )
    #
    # 4. Forward-looking model, daily / yearly / monthly / integer frequency
    #
    mf = _forward_model()
    f_names = ("oy", "opi", "or_", )
    for label, span_f in (
        ("daily", ir.dd(2020, 2, 25) >> ir.dd(2020, 3, 12), ),
        ("yearly", ir.yy(2001) >> ir.yy(2012), ),
        ("monthly", ir.mm(2019, 11) >> ir.mm(2020, 10), ),
        ("halfyearly", ir.hh(2019, 2) >> ir.hh(2024, 1), ),
        ("integer", ir.ii(-3) >> ir.ii(8), ),
    ):
        db_f = _make_data(f_names, span_f, 5, missing=0.35, empty_periods=(2, -1, ), )
        run_case(f"forward/{label}", mf, db_f, span_f, )
        run_case(f"forward/{label} rescale prepend", mf, db_f, span_f, rescale_variance=True, prepend_initial=True, )
    span_f = ir.dd(2020, 2, 25) >> ir.dd(2020, 3, 12)
    db_f = _make_data(f_names, span_f, 5, missing=0.35, empty_periods=(2, -1, ), )
    db_f["ant_ey"] = ir.Series(periods=ir.dd(2020, 3, 5) >> ir.dd(2020, 3, 6), values=[1, 0.5], )
    db_f["ey"] = ir.Series(periods=ir.dd(2020, 2, 27) >> ir.dd(2020, 2, 28), values=[-1, 0.5], )
    db_f["std_epi"] = ir.Series(periods=ir.dd(2020, 3, 1) >> ir.dd(2020, 3, 3), values=[0, 1, 2], )
    run_case("forward/daily anticipated shocks + stds", mf, db_f, span_f, shocks_from_data=True, stds_from_data=True, )
    #
    # 5. Log variables (nonlinear model, first-order solution)
    #
    ml = _log_model()
    l_names = ("oa", "ok", "og", )
    span_l = ir.qq(2010, 1) >> ir.qq(2012, 4)
    db_l = _make_data(l_names, span_l, 7, missing=0.25, empty_periods=(3, ), log_names=("oa", "ok", ), offset=0.5, )
    run_case("log/default", ml, db_l, span_l, )
    run_case("log/deviation", ml, db_l, span_l, deviation=True, )
    run_case("log/rescale prepend append", ml, db_l, span_l, rescale_variance=True, prepend_initial=True, append_terminal=True, )
    out = ml.kalman_filter(db_l, span_l, )
    print("== log/selected series")
    for step in ("predict", "update", "smooth", ):
        for name in ("a", "k", "oa", "ok", "og", ):
            show_series(f"{step}_med.{name}", out[f"{step}_med"][name], )
        for name in ("log(a)", "log(k)", "g", ):
            show_series(f"{step}_std.{name}", out[f"{step}_std"][name], )
    for name in l_names:
        show_series(f"predict_err.{name}", out["predict_err"][name], )
    #
    # 6. Unit-root model
    #
    mu = _unit_root_model()
    u_names = ("obs", "ogr", )
    span_u = ir.qq(2015, 1) >> ir.qq(2018, 4)
    db_u = _make_data(u_names, span_u, 9, missing=0.2, empty_periods=(0, 7, ), offset=3.0, )
    for method in ("fixed_unknown", "approx_diffuse", "fixed_zero", ):
        run_case(f"unit_root/{method}", mu, db_u, span_u, diffuse_method=method, )
        run_case(f"unit_root/{method} rescale", mu, db_u, span_u, diffuse_method=method, rescale_variance=True, )
    run_case("unit_root/approx_diffuse scale", mu, db_u, span_u, diffuse_method="approx_diffuse", diffuse_scale=1e4, )
    run_case("unit_root/fixed_unknown smooth only", mu, db_u, span_u, return_=("smooth", ), )
    run_case("unit_root/fixed_unknown predict only", mu, db_u, span_u, return_=("predict", ), )
    run_case("unit_root/fixed_unknown nothing", mu, db_u, span_u, return_=(), )
    run_case("unit_root/fixed_unknown empty", mu, ir.Databox(), span_u, )
    out = mu.kalman_filter(db_u, span_u, )
    print("== unit_root/selected series")
    for step in ("predict", "update", "smooth", ):
        for name in ("lev", "gr", "cyc", "obs", ):
            show_series(f"{step}_med.{name}", out[f"{step}_med"][name], )
            if name in out[f"{step}_std"].keys():
                show_series(f"{step}_std.{name}", out[f"{step}_std"][name], )


def _silent_main():
    # The library re-enables RuntimeWarnings internally; their text carries source
    # line numbers, so keep them out of the digest altogether.
    _original_showwarning = warnings.showwarning
    warnings.showwarning = lambda *args, **kwargs: None
    try:
        with np.errstate(all="ignore", ):
            main()
    finally:
        warnings.showwarning = _original_showwarning


if __name__ == "__main__":
    _silent_main()

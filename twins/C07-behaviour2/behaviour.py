"""
Behaviour digest for C07: simulation plans (exogenize/endogenize/swaps),
anticipated shock impact, plan transforms.

Run as
    cd /tmp/wt2/C07 && PYTHONPATH=/tmp/wt2/C07/src /venv/bin/python /tmp/twin2_out/C07/behaviour.py
Prints a deterministic digest.
"""

import warnings
warnings.filterwarnings("ignore")

import io
import contextlib
import hashlib
import numpy as np
import irispie as ir
from irispie.plans import transforms as tr
from irispie.plans import simulation_plans as sp
from irispie.fords import shock_simulators as ss

ND = 8
LINES = []
RAW = hashlib.sha256()


def out(*args):
    line = " ".join(str(a) for a in args)
    LINES.append(line)
    print(line)


def fmt(x):
    x = np.asarray(x, dtype=float)
    RAW.update(np.ascontiguousarray(x).tobytes())
    if x.ndim == 2:
        x = x.T
    x = np.round(x, ND) + 0.0
    return np.array2string(x, separator=",", max_line_width=100000, threshold=100000)


def ser(db, name, span):
    return fmt(db[name].get_data(span))


def guarded(label, func):
    try:
        result = func()
        out(label, "->", result)
    except BaseException as exc:
        msg = str(exc).strip().splitlines()
        out(label, "!!", type(exc).__name__, msg[:3])


SRC = r"""
!transition-variables
    y, pi, r, a
!log-variables
    a
!transition-shocks
    ey, epi, er, ea
!parameters
    alpha, beta, kappa, rho, phi, ss_a
!transition-equations
    y = alpha*y[-1] + (1-alpha)*y[+1] - 0.2*(r - pi[+1]) + ey + 0.1*log(a/ss_a);
    pi = beta*pi[+1] + (1-beta)*pi[-1] + kappa*y + epi;
    r = rho*r[-1] + (1-rho)*(phi*pi[+1]) + er;
    log(a) = 0.7*log(a[-1]) + (1-0.7)*log(ss_a) + ea;
!measurement-variables
    obs_y, obs_a
!log-variables
    obs_a
!measurement-shocks
    my
!measurement-equations
    obs_y = y + my;
    obs_a = a;
"""


def make_model(num_variants=1):
    m = ir.Simultaneous.from_string(SRC, linear=False, )
    if num_variants > 1:
        m.alter_num_variants(num_variants, )
    m.assign(alpha=0.6, beta=0.6, kappa=0.1, rho=0.7, phi=1.5, ss_a=2, y=0, pi=0, r=0, a=2, obs_y=0, obs_a=2)
    if num_variants > 1:
        m.assign(rho=[0.7, 0.5][:num_variants] + [0.4]*(num_variants-2), )
        m.assign(kappa=[0.1, 0.25][:num_variants] + [0.3]*(num_variants-2), )
    with contextlib.redirect_stdout(io.StringIO()):
        m.steady()
    m.solve()
    return m


ALL_NAMES = ("y", "pi", "r", "a", "obs_y", "obs_a", "ey", "epi", "er", "ea", "ant_ey", "ant_epi", "ant_er", "ant_ea", )


def digest_db(label, db, span, names=ALL_NAMES):
    for n in names:
        out(label, n, ser(db, n, span))


def plan_digest(label, p):
    out(label, "is_empty", p.is_empty)
    out(label, "any_unant_except_start", p.any_endogenized_unanticipated_except_start)
    out(label, "any_ant_except_start", p.any_endogenized_anticipated_except_start)
    for r in p._registers:
        getter = getattr(p, f"get_{r}", None)
        if getter is None:
            continue
        reg = getter()
        out(label, "register", r, sorted((k, tuple(str(t) for t in v)) for k, v in reg.items() if v))
    arrays = p.get_registers_as_bool_arrays()
    for k, v in arrays.items():
        names = getattr(p, f"can_be_{k}")
        rows = sorted(zip(names, v.astype(int).tolist()))
        out(label, "bool", k, v.shape, [(n, r) for n, r in rows if any(r)])
        w = p.get_register_as_bool_array(k, names=sorted(names)[:2], periods=(p.start - 1, p.start, p.end, p.end + 1), )
        out(label, "bool sel", k, w.shape, w.astype(int).tolist())
    out(label, "databox_names", sorted(p.get_databox_names()))
    out(label, "pretty", hashlib.md5(str(p).encode()).hexdigest())
    out(str(p))


# ---------------------------------------------------------------------------
# 1. Transforms
# ---------------------------------------------------------------------------

out("== transforms")
for key in (None, "level", "none", "log", "diff", "diff_log", "difflog", "roc", "pct", "flat"):
    for kwargs in ({}, {"when_data": True}, {"when_data": None}, {"shift": -2}, {"name_format": "zz_{}_zz"}, {"when_data": True, "shift": -4, "name_format": "{}__"}):
        t = tr.resolve_transform(key, **kwargs)
        after = np.array([0.3, 0.7])
        before = np.array([1.5, 2.5, 3.5, 4.5, 5.5])
        incl = np.array([9.0, 8.0])
        out(
            "transform", repr(key), sorted(kwargs.items()), type(t).__name__, str(t), repr(t), t.symbol,
            t.when_data, t._shift, t._name_format, t.resolve_databox_name("abc"),
            fmt(t.eval_exogenized(after, before, incl)),
        )
# Pass-through of ready-made transform objects (kwargs are ignored)
obj = tr.PlanTransformPct(when_data=True, shift=-3, )
out("passthrough", tr.resolve_transform(obj) is obj, tr.resolve_transform(obj, when_data=False, whatever=1) is obj)
class Custom:
    pass
cobj = Custom()
out("passthrough custom", tr.resolve_transform(cobj) is cobj, tr.resolve_transform(cobj, foo=1) is cobj)
out("passthrough falsy", tr.resolve_transform(0), tr.resolve_transform(False), tr.resolve_transform((), x=1))
guarded("bad key", lambda: tr.resolve_transform("nonsense"))
guarded("bad key empty", lambda: tr.resolve_transform(""))
guarded("bad kwarg", lambda: tr.resolve_transform("log", nonsense=1))
guarded("bad kwarg none", lambda: tr.resolve_transform(None, nonsense=1))
out("table", sorted((str(k), v.__name__) for k, v in tr.CHOOSE_TRANSFORM_CLASS.items()))
out("table same", sp.CHOOSE_TRANSFORM_CLASS is tr.CHOOSE_TRANSFORM_CLASS)


# ---------------------------------------------------------------------------
# 2. extract_shock_values
# ---------------------------------------------------------------------------

out("== extract_shock_values")
class Tok:
    def __init__(self, qid): self.qid = qid
wd = np.arange(40, dtype=float).reshape(8, 5)
for qids in ((), (3,), (5, 1, 1), (7, 0, 2, 4), (-1, -8)):
    vec = tuple(Tok(q) for q in qids)
    res = ss.extract_shock_values(wd, vec)
    out("extract", qids, res.shape, res.dtype, fmt(res), "copy" if not np.shares_memory(res, wd) else "view")
    res2 = ss.extract_shock_values(wd, list(vec))
    out("extract list", np.array_equal(res, res2))
    res3 = ss.extract_shock_values(wd, (t for t in vec))
    out("extract gen", np.array_equal(res, res3))
guarded("extract oob", lambda: ss.extract_shock_values(wd, (Tok(8),)))
wdi = np.arange(12).reshape(3, 4)
out("extract int", ss.extract_shock_values(wdi, (Tok(2), Tok(0))).dtype, ss.extract_shock_values(wdi, (Tok(2), Tok(0))).tolist())
wdn = wd.copy(); wdn[2, 1] = np.nan; wdn[4, 3] = np.inf
out("extract nan", fmt(ss.extract_shock_values(wdn, (Tok(2), Tok(4)))))


# ---------------------------------------------------------------------------
# 3. Plans on a mock plannable (sequential-style exogenize/endogenize)
# ---------------------------------------------------------------------------

out("== mock plan")
class MockPlannable:
    def __init__(self):
        self.can_be_exogenized = ("a", "b", "c")
        self.can_be_endogenized = ("res_a", "res_b", "res_c")
    def get_simulation_plannable(self):
        return self

for span in (
    ir.qq(2020,1) >> ir.qq(2021,4),
    ir.mm(2020,11) >> ir.mm(2021,3),
    ir.yy(2020) >> ir.yy(2023),
    ir.dd(2020,2,27) >> ir.dd(2020,3,3),
    ir.ii(-2) >> ir.ii(3),
    (ir.qq(2020,3), ),
):
    span = tuple(span)
    p = ir.PlanSimulate(MockPlannable(), span, )
    out("span", p.start, p.end, p.num_periods, p.frequency)
    plan_digest("empty", p)
    p.exogenize(span[0], "a", when_data=True, transform="log", )
    p.exogenize(span[-1:], ("b", "c"), transform="pct", shift=-2, )
    p.exogenize(..., "c", )
    p.exogenize(span[:2], ..., transform=tr.PlanTransformFlat(), )
    p.endogenize(span[0], "res_a", )
    p.endogenize(..., ("res_b", ), )
    p.endogenize(span[-1:], ..., )
    plan_digest("filled", p)
    for t in span:
        out("in_period", t, p.get_exogenized_in_period(t))
        for n in ("a", "b", "c"):
            out("point", n, t, p.get_exogenized_point(n, t))
    for col in range(len(span)):
        out("endopoint", col, [p.get_endogenized_point(n, col) for n in ("res_a", "res_b", "res_c")])
    q = p.copy()
    q.exogenize(span[0], "b", transform="diff_log", name_format="dl_{}", )
    out("copy independent", p.get_exogenized_point("b", span[0]), q.get_exogenized_point("b", span[0]))
    guarded("bad name", lambda: p.exogenize(span[0], "zzz"))
    guarded("bad name endo", lambda: p.endogenize(span[0], "a"))
    guarded("bad date", lambda: p.exogenize(span[-1] + 1, "a"))
    guarded("bad date endo", lambda: p.endogenize((span[0] - 1, span[0]), "res_a"))
    guarded("bad transform", lambda: p.exogenize(span[0], "a", transform="xyz"))
    guarded("bad kwarg", lambda: p.exogenize(span[0], "a", nonsense=3))
    guarded("no register", lambda: p.exogenize_anticipated(span[0], "a"))
    plan_digest("after errors", p)

# Reversed (negative step) span
rspan = tuple(ir.qq(2021,4) >> ir.qq(2020,1)) or tuple(reversed(tuple(ir.qq(2020,1) >> ir.qq(2021,4))))
out("reversed span", len(rspan))
try:
    rng = ir.Span(ir.qq(2021,4), ir.qq(2020,1), -1)
    rp = ir.PlanSimulate(MockPlannable(), rng, )
    out("neg step", rp.start, rp.end, rp.num_periods)
    guarded("neg step exogenize", lambda: (rp.exogenize(ir.qq(2021,4), "a"), rp.get_exogenized())[1])
    guarded("neg step exogenize 2", lambda: (rp.exogenize(ir.qq(2021,3), "b", transform="roc"), rp.get_exogenized())[1])
    guarded("neg step endogenize", lambda: (rp.endogenize(ir.qq(2021,2), "res_a"), rp.get_endogenized())[1])
    guarded("neg step endogenize all", lambda: (rp.endogenize(..., "res_c"), rp.get_endogenized())[1])
    guarded("neg step bools", lambda: {k: v.astype(int).tolist() for k, v in rp.get_registers_as_bool_arrays().items()})
except BaseException as exc:
    out("neg step unavailable", type(exc).__name__)


# ---------------------------------------------------------------------------
# 4. Sequential model with transforms in a plan
# ---------------------------------------------------------------------------

out("== sequential")
SEQ = r"""
!parameters
    c0, ss
!equations
    !for ? = <range(N)> !do
        pct(x?) = c0 * pct(x?[-1]) + (1 - c0) * ss;
        pct_x? = pct(x?);
        log(z?) = 0.5*log(z?[-1]) + 0.1*x?;
    !end
"""
N = 3
sm = ir.Sequential.from_string(SEQ, context={"N": N, }, )
sm.assign(c0=0.8, ss=0.5, )
sspan = ir.qq(2020,1) >> ir.qq(2022,4)
sd = ir.Databox()
for i in range(N):
    sd[f"x{i}"] = ir.Series(start=ir.qq(2020,1)-2, values=tuple(1 + 0.01*k*(i+1) for k in range(8)), )
    sd[f"z{i}"] = ir.Series(start=ir.qq(2020,1)-2, values=tuple(2 + 0.1*k for k in range(14)), )
sd["x0"].clip(None, ir.qq(2020,3), )
spn = ir.SimulationPlan(sm, sspan, )
spn.exogenize(..., "x0", when_data=True, )
spn.exogenize(ir.qq(2021,1) >> ir.qq(2021,4), "x1", transform="diff", )
spn.exogenize(ir.qq(2021,2) >> ir.qq(2021,3), "x2", transform="pct", )
spn.exogenize(ir.qq(2020,2) >> ir.qq(2020,3), "z0", transform="log", )
spn.exogenize(ir.qq(2020,2) >> ir.qq(2020,3), "z1", transform="diff_log", )
spn.exogenize(ir.qq(2020,2) >> ir.qq(2020,3), "z2", transform="roc", when_data=True, )
spn.exogenize(ir.qq(2022,1), "z2", transform="flat", )
sd["diff_x1"] = ir.Series(start=ir.qq(2021,1), values=(0.3, 0.2, -0.1, 0.05), )
sd["pct_x2"] = ir.Series(start=ir.qq(2021,2), values=(3, -2), )
sd["log_z0"] = ir.Series(start=ir.qq(2020,2), values=(0.4, 0.6), )
sd["diff_log_z1"] = ir.Series(start=ir.qq(2020,2), values=(0.04, -0.06), )
sd["roc_z2"] = ir.Series(start=ir.qq(2020,2), values=(1.04, ), )
plan_digest("seq", spn)
for kwargs in ({}, {"execution_order": "equations_dates"}):
    so = sm.simulate(sd, sspan, plan=spn, when_nonfinite="silent", **kwargs)
    for n in sorted(n for n in so.keys() if isinstance(so[n], ir.Series)):
        out("seq", sorted(kwargs.items()), n, str(so[n].start), ser(so, n, so[n].span))


# ---------------------------------------------------------------------------
# 5. Simultaneous model: ordinary simulations, anticipated shocks, swaps
# ---------------------------------------------------------------------------

out("== simultaneous")


def run_case(label, m, span, shocks, method="first_order", sim_kwargs=None, check_inverse=True, ):
    sim_kwargs = sim_kwargs or {}
    span = tuple(span)
    d = ir.Databox.steady(m, span[0] >> span[-1], )
    for (name, date), value in shocks.items():
        d[name][date] = value
    s = m.simulate(d, span, method=method, **sim_kwargs, )
    digest_db(label + " fwd", s, span, )
    if not check_inverse:
        return
    p = ir.PlanSimulate(m, span, )
    d2 = s.copy()
    pairs = {"ey": "y", "epi": "pi", "er": "r", "ea": "a"}
    for (name, date), value in shocks.items():
        is_ant = name.startswith("ant_")
        target = pairs[name.removeprefix("ant_")]
        if is_ant:
            p.swap_anticipated((date, ), (target, name), )
        else:
            p.swap_unanticipated((date, ), (target, name), )
        d2[name][date] = 0
    plan_digest(label + " plan", p)
    s2 = m.simulate(d2, span, method=method, plan=p, **sim_kwargs, )
    digest_db(label + " inv", s2, span, )
    # Exogenized points hit and whole path recovered
    worst = 0
    for n in ALL_NAMES:
        diff = np.nanmax(np.abs(np.asarray(s[n].get_data(span), dtype=float) - np.asarray(s2[n].get_data(span), dtype=float)))
        worst = max(worst, diff)
    out(label, "recovered", bool(worst < 1e-8))


q = ir.qq
m1 = make_model()
span = q(2020,1) >> q(2022,4)

run_case("none", m1, span, {}, check_inverse=False)
run_case("unant1", m1, span, {("ey", q(2020,1)): 0.5})
run_case("unant2", m1, span, {("ey", q(2020,2)): 0.5, ("er", q(2020,4)): -0.3})
run_case("ant1", m1, span, {("ant_er", q(2020,1)): 0.25})
run_case("ant2", m1, span, {("ant_er", q(2020,4)): -0.3, ("ant_ey", q(2021,2)): 0.4})
run_case("ant_last", m1, span, {("ant_epi", q(2022,4)): 0.2})
run_case("mixed", m1, span, {("ey", q(2020,2)): 0.5, ("ant_er", q(2020,4)): -0.3, ("ant_ea", q(2020,3)): 0.1, ("epi", q(2020,3)): -0.2})
run_case("log_a", m1, span, {("ea", q(2020,2)): 0.1, ("ant_ea", q(2021,1)): -0.2})
run_case("split_frames", m1, span, {("ey", q(2020,2)): 0.5, ("ant_er", q(2020,4)): -0.3}, sim_kwargs={"force_split_frames": True}, check_inverse=False)
run_case("deviation", m1, span, {("ant_ey", q(2020,3)): 0.5}, sim_kwargs={"deviation": True}, check_inverse=False)

# Monthly and short spans
run_case("monthly", m1, ir.mm(2020,11) >> ir.mm(2021,6), {("ey", ir.mm(2020,12)): 0.5, ("ant_er", ir.mm(2021,2)): -0.3})
run_case("yearly", m1, ir.yy(2020) >> ir.yy(2024), {("ant_epi", ir.yy(2022)): 0.3})
run_case("daily", m1, ir.dd(2020,2,27) >> ir.dd(2020,3,4), {("ant_ey", ir.dd(2020,3,1)): 0.3, ("er", ir.dd(2020,2,28)): 0.1})
run_case("integer", m1, ir.ii(1) >> ir.ii(6), {("ant_ey", ir.ii(4)): 0.3})
run_case("one period", m1, (q(2020,1), ), {("ant_ey", q(2020,1)): 0.3})

# Stacked time
def stacked_case(label, shocks):
    def func():
        # Silence the iteration printer of the nonlinear solver
        buffer = io.StringIO()
        with contextlib.redirect_stdout(buffer):
            run_case(label, m1, q(2020,1) >> q(2021,4), shocks, method="stacked_time", )
        return "done"
    n = len(LINES)
    guarded(label, func)
    for line in LINES[n:-1]:
        print(line)
stacked_case("stacked1", {("ey", q(2020,1)): 0.5})
stacked_case("stacked2", {("ant_er", q(2020,3)): -0.3})
stacked_case("stacked3", {("ey", q(2020,1)): 0.5, ("ant_er", q(2020,3)): -0.3, ("ant_ea", q(2020,2)): 0.1})
stacked_case("stacked4", {("ey", q(2020,2)): 0.5})

# Missing values in anticipated shocks / targets
def nan_case():
    d = ir.Databox.steady(m1, span, )
    d["ant_ey"][q(2020,3)] = np.nan
    s = m1.simulate(d, span, )
    digest_db("nan_ant", s, span, ("y", "pi", "r", "ant_ey"))
    return "done"
guarded("nan_ant", nan_case)

def nan_target_case():
    d = ir.Databox.steady(m1, span, )
    d["y"][q(2020,3)] = np.nan
    p = ir.PlanSimulate(m1, span, )
    p.swap_unanticipated((q(2020,3), ), ("y", "ey"), )
    s = m1.simulate(d, span, plan=p, )
    digest_db("nan_target", s, span, ("y", "pi", "r", "ey"))
    return "done"
guarded("nan_target", nan_target_case)

# Multiple pairs and dates, statuses, Ellipsis
def multi_case():
    d = ir.Databox.steady(m1, span, )
    d["ey"][q(2020,1) >> q(2020,3)] = (0.1, 0.2, -0.1)
    d["ant_epi"][q(2020,2) >> q(2020,3)] = (0.05, -0.05)
    s = m1.simulate(d, span, )
    p = ir.PlanSimulate(m1, span, )
    p.swap_unanticipated(q(2020,1) >> q(2020,3), [("y", "ey")], )
    p.swap_anticipated(q(2020,2) >> q(2020,3), (("pi", "ant_epi"), ), )
    p.swap_anticipated(q(2021,1), (), )
    p.exogenize_unanticipated(q(2022,1), "r", status=False, )
    p.endogenize_unanticipated(q(2022,1), "er", status=0, )
    plan_digest("multi plan", p)
    for t in span:
        out(
            "multi in_period", t,
            p.get_exogenized_unanticipated_in_period(t), p.get_exogenized_anticipated_in_period(t),
            p.get_endogenized_unanticipated_in_period(t), p.get_endogenized_anticipated_in_period(t),
        )
    d2 = s.copy()
    d2["ey"][q(2020,1) >> q(2020,3)] = 0
    d2["ant_epi"][q(2020,2) >> q(2020,3)] = 0
    s2 = m1.simulate(d2, span, plan=p, )
    digest_db("multi fwd", s, span, )
    digest_db("multi inv", s2, span, )
    return "done"
guarded("multi", multi_case)

def ellipsis_case():
    p = ir.PlanSimulate(m1, span, )
    p.exogenize_anticipated(..., "y", )
    p.endogenize_anticipated(..., "ant_ey", )
    p.exogenize_unanticipated(q(2020,2), ..., status=2, )
    p.endogenize_unanticipated(q(2020,2), ..., status=3, )
    plan_digest("ellipsis plan", p)
    d = ir.Databox.steady(m1, span, )
    d["y"][span] = tuple(0.1*np.sin(k) for k in range(len(tuple(span))))
    d["pi"][q(2020,2)] = 0.3
    d["r"][q(2020,2)] = 0.2
    d["a"][q(2020,2)] = 2.2
    s = m1.simulate(d, span, plan=p, )
    digest_db("ellipsis", s, span, )
    return "done"
guarded("ellipsis", ellipsis_case)

def swap_forms_case():
    forms = {
        "two pairs tuple": (("y", "ey"), ("pi", "epi")),
        "two pairs list": [["y", "ey"], ["pi", "epi"]],
        "single list": ["y", "ey"],
        "single tuple": ("y", "ey"),
        "generator": (pair for pair in (("y", "ey"), ("r", "er"), ("a", "ea"))),
        "long pair": (("y", "ey", "ignored"), ),
        "empty list": [],
        "empty generator": (pair for pair in ()),
        "three strings": ("y", "pi", "r"),
    }
    for label, pairs in forms.items():
        p = ir.PlanSimulate(m1, span, )
        guarded("swap form unant " + label, lambda: p.swap_unanticipated(q(2020,2) >> q(2020,3), pairs, status=2, ))
        out("swap form unant", label, sorted((k, tuple(map(str, v))) for k, v in p.get_exogenized_unanticipated().items() if v), sorted((k, tuple(map(str, v))) for k, v in p.get_endogenized_unanticipated().items() if v), p.is_empty)
    forms_ant = {
        "two pairs tuple": (("y", "ant_ey"), ("pi", "ant_epi")),
        "single list": ["y", "ant_ey"],
        "single tuple": ("y", "ant_ey"),
        "empty tuple": (),
        "one string": ("y", ),
        "bad kwarg": (("y", "ant_ey"), ),
    }
    for label, pairs in forms_ant.items():
        p = ir.PlanSimulate(m1, span, )
        kwargs = {"nonsense": 1} if label == "bad kwarg" else {}
        guarded("swap form ant " + label, lambda: p.swap_anticipated((q(2021,1), ), pairs, **kwargs, ))
        out("swap form ant", label, sorted((k, tuple(map(str, v))) for k, v in p.get_exogenized_anticipated().items() if v), sorted((k, tuple(map(str, v))) for k, v in p.get_endogenized_anticipated().items() if v), p.is_empty)
    # Dates given as a one-shot generator
    p = ir.PlanSimulate(m1, span, )
    guarded("generator dates", lambda: p.exogenize_unanticipated((t for t in (q(2020,1), q(2020,2))), ("y", "pi"), ))
    out("generator dates", sorted((k, tuple(map(str, v))) for k, v in p.get_exogenized_unanticipated().items() if v))
    return "done"
guarded("swap forms", swap_forms_case)

guarded("plan bad name", lambda: ir.PlanSimulate(m1, span).swap_unanticipated(q(2020,1), ("y", "ant_ey")))
guarded("plan bad date", lambda: ir.PlanSimulate(m1, span).swap_anticipated(q(2023,1), ("y", "ant_ey")))
guarded("plan wrong span", lambda: m1.simulate(ir.Databox.steady(m1, span), q(2020,1) >> q(2021,4), plan=(lambda p: (p.swap_unanticipated(q(2020,1), ("y", "ey")), p)[1])(ir.PlanSimulate(m1, span))))

# Kalman filter with anticipated shocks taken from data (triangular expansion)
def kalman_case():
    kspan = q(2020,1) >> q(2021,4)
    d = ir.Databox.steady(m1, kspan, )
    d["ant_er"][q(2020,3)] = -0.3
    d["ant_ey"][q(2021,1)] = 0.2
    d["ey"][q(2020,2)] = 0.1
    sim = m1.simulate(d, kspan, )
    for label, ant in (("with_ant", True), ("zero_ant", False)):
        fd = ir.Databox()
        fd["obs_y"] = sim["obs_y"]
        fd["obs_a"] = sim["obs_a"]
        if ant:
            fd["ant_er"] = d["ant_er"]
            fd["ant_ey"] = d["ant_ey"]
        f = m1.kalman_filter(fd, kspan, shocks_from_data=True, )
        for k in ("predict_med", "update_med", "smooth_med"):
            for n in ("y", "pi", "r", "a", "obs_y", "ey", "er"):
                out("kalman", label, k, n, ser(f[k], n, kspan))
    return "done"
guarded("kalman", kalman_case)

# Multiple variants
m2 = make_model(2)
run_case("variants", m2, span, {("ey", q(2020,2)): 0.5, ("ant_er", q(2020,4)): -0.3})

out("RAWDIGEST (full precision bytes)", RAW.hexdigest())
out("DIGEST", hashlib.sha256("\n".join(LINES).encode()).hexdigest())

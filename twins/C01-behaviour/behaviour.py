"""
Behaviour digest for property C01 (first-order solution + first-order simulation).

Run with
    cd /tmp/wt/C01 && PYTHONPATH=/tmp/wt/C01/src /venv/bin/python /tmp/twin_out/C01/behaviour.py

Prints a deterministic digest: one line per observed quantity, and a final
sha256 over all lines. Numbers are printed with repr() of float64 values
(full precision) so that any floating-point change is visible.
"""

import hashlib
import sys
import warnings

import numpy as np

import irispie as ir
from irispie.fords import solutions as sl
from irispie.fords import simulators as fs

warnings.filterwarnings("ignore")

LINES = []


def emit(tag, value):
    line = f"{tag} :: {value}"
    LINES.append(line)
    print(line)


def arr_digest(x):
    if x is None:
        return "None"
    x = np.asarray(x)
    if x.dtype == object:
        return repr(x.tolist())
    if np.iscomplexobj(x):
        x = np.stack((x.real, x.imag))
    x = np.asarray(x, dtype=float)
    h = hashlib.sha256(np.ascontiguousarray(x).tobytes()).hexdigest()[:16]
    flat = x.ravel()
    head = ",".join(repr(float(v)) for v in flat[:4])
    s = repr(float(np.nansum(flat))) if flat.size else "0"
    return f"shape={x.shape} sum={s} head=[{head}] sha={h}"


def solution_digest(tag, sol):
    for n in ("T", "P", "K", "Z", "H", "D", "Ta", "Pa", "Ka", "Za", "Ua", "J", "Ru", "X", "Xa"):
        emit(f"{tag}.{n}", arr_digest(getattr(sol, n)))
    emit(f"{tag}.eigenvalues", arr_digest(np.array(sol.eigenvalues, dtype=complex)))
    emit(f"{tag}.eigenvalues_stability", [str(i) for i in sol.eigenvalues_stability])
    emit(f"{tag}.system_stability", str(sol.system_stability))
    emit(f"{tag}.transition_vector_stability", [str(i) for i in sol.transition_vector_stability])
    emit(f"{tag}.measurement_vector_stability", [str(i) for i in sol.measurement_vector_stability])
    emit(f"{tag}.num_unit_roots", sol.num_unit_roots)
    emit(f"{tag}.num_unstable", sol.eigenvalues_stability.count(sl.UNSTABLE))
    emit(f"{tag}.num_stable", sol.num_stable)
    emit(f"{tag}.dims", (sol.num_xi, sol.num_alpha, sol.num_y, sol.num_u, sol.num_v, sol.num_w))
    emit(f"{tag}.boolex_xi", sol.boolex_stable_transition_vector.tolist())
    emit(f"{tag}.boolex_y", sol.boolex_stable_measurement_vector.tolist())
    for k in (0, 1, 3, 2):
        ex = sol.expand_square_solution(k)
        emit(f"{tag}.expand_square[{k}]", [arr_digest(i) for i in ex])
        ex = sol.expand_triangular_solution(k)
        emit(f"{tag}.expand_triangular[{k}]", [arr_digest(i) for i in ex])
    cp = sol.copy()
    emit(f"{tag}.copy", [arr_digest(i) for i in cp.unpack_square_solution()] + [len(cp.square_expansion), len(cp.triangular_expansion)])
    dev = sol.create_deviation_solution()
    emit(f"{tag}.dev.K", arr_digest(dev.K))
    emit(f"{tag}.dev.Ka", arr_digest(dev.Ka))
    emit(f"{tag}.dev.D", arr_digest(dev.D))
    emit(f"{tag}.dev.T_is_T", dev.T is sol.T)
    emit(f"{tag}.unpack_square", [arr_digest(i) for i in sol.unpack_square_solution()])
    emit(f"{tag}.unpack_triangular", [arr_digest(i) for i in sol.unpack_triangular_solution()])


def model_solutions(tag, m):
    sols = m.get_solution(unpack_singleton=False) if hasattr(m, "get_solution") else None
    if sols is None:
        sols = [v.solution for v in m._variants]
    for vid, sol in enumerate(sols):
        solution_digest(f"{tag}.v{vid}", sol)
    vec = m._get_dynamic_solution_vectors()
    qid_to_name = m.create_qid_to_name()
    for n in ("transition_variables", "transition_shocks", "anticipated_shock_values", "measurement_variables", "measurement_shocks"):
        emit(f"{tag}.vec.{n}", [(qid_to_name[t.qid], t.shift) for t in getattr(vec, n)])
    emit(f"{tag}.vec.true_initials", list(vec.true_initials))
    emit(f"{tag}.initials", repr(m.get_initials()))
    emit(f"{tag}.get_eigenvalues", [arr_digest(np.array(e, dtype=complex)) for e in m.get_eigenvalues(unpack_singleton=False)])
    emit(f"{tag}.get_eigenvalues.unstable", [arr_digest(np.array(e, dtype=complex)) for e in m.get_eigenvalues(kind=sl.UNSTABLE, unpack_singleton=False)])
    emit(f"{tag}.get_eigenvalues_stability", [[str(i) for i in e] for e in m.get_eigenvalues_stability(unpack_singleton=False)])
    emit(f"{tag}.get_variable_stability", repr(m.get_variable_stability(unpack_singleton=False)))
    desc = m._invariant.dynamic_descriptor
    emit(f"{tag}.num_forwards_backwards", (desc.get_num_forwards(), desc.get_num_backwards()))


def db_digest(tag, db, names=None):
    names = sorted(db.keys()) if names is None else names
    for n in names:
        x = db[n]
        if isinstance(x, ir.Series):
            emit(f"{tag}.{n}", f"start={x.start} " + arr_digest(x.get_data(x.span) if x.start is not None else np.zeros((0,))))
        elif isinstance(x, (int, float, np.floating)):
            emit(f"{tag}.{n}", repr(float(x)))
        elif isinstance(x, (list, tuple)):
            emit(f"{tag}.{n}", repr([repr(float(i)) if isinstance(i, (int, float, np.floating)) else repr(i) for i in x]))
        else:
            emit(f"{tag}.{n}", repr(x))


def run_sim(tag, m, db, span, **kwargs):
    try:
        out = m.simulate(db, span, **kwargs)
        if isinstance(out, tuple):
            out_db, info = out
            infos = info if isinstance(info, list) else [info]
            for i, inf in enumerate(infos):
                emit(f"{tag}.info{i}.method", inf["method"])
                emit(f"{tag}.info{i}.num_frames", len(inf["frames"]))
                emit(f"{tag}.info{i}.frames", [(str(f.start), str(f.end), str(f.simulation_end)) for f in inf["frames"]])
                emit(f"{tag}.info{i}.exit_status", [str(s) for s in inf["exit_status"]])
        else:
            out_db = out
        db_digest(tag, out_db)
        return out_db
    except Exception as e:
        emit(tag, f"EXC {type(e).__name__}: {str(e)[:200]}")
        return None


# ---------------------------------------------------------------------------
# Model 1: linear forward-looking model with constants, measurement block,
# lags and leads; determinate
# ---------------------------------------------------------------------------

SRC_NK = r"""
!transition_variables
    y, pi, r, rr, a
!transition_shocks
    shk_y, shk_pi, shk_r, shk_a
!measurement_variables
    obs_y, obs_pi, obs_r
!measurement_shocks
    me_y, me_pi
!parameters
    alpha, beta, sigma, kappa, rho, phi_pi, phi_y, rho_a, ss_pi, ss_rr, ss_a
!transition_equations
    y = alpha*y[-1] + (1-alpha)*y[+1] - sigma*(rr - ss_rr) + a + shk_y;
    pi = beta*pi[+1] + (1-beta)*pi[-1] + kappa*y + (1 - beta - (1-beta))*ss_pi + shk_pi;
    r = rho*r[-1] + (1-rho)*(ss_rr + ss_pi + phi_pi*(pi[+1] - ss_pi) + phi_y*y) + shk_r;
    rr = r - pi[+1];
    a = rho_a*a[-1] + (1-rho_a)*ss_a + shk_a;
!measurement_equations
    obs_y = y + me_y;
    obs_pi = 4*pi + me_pi;
    obs_r = 4*r + 0.5;
"""


def make_nk(**overrides):
    m = ir.Simultaneous.from_string(SRC_NK, linear=True, flat=True, )
    params = dict(
        alpha=0.5, beta=0.6, sigma=0.2, kappa=0.1, rho=0.7,
        phi_pi=2.5, phi_y=0.3, rho_a=0.8, ss_pi=0.5, ss_rr=0.25, ss_a=0,
    )
    params.update(overrides)
    m.assign(**params)
    m.steady()
    m.solve()
    return m


def shocks_db(m, span, specs, start_from="steady", deviation=False, ):
    """specs: {name: {offset: value}}"""
    span = tuple(span)
    if start_from == "steady":
        db = ir.Databox.steady(m, span, deviation=deviation, )
    elif start_from == "zero":
        db = ir.Databox.zero(m, span, )
    else:
        db = start_from
    for name, points in specs.items():
        for offset, value in points.items():
            if name not in db.keys():
                db[name] = ir.Series()
            db[name][span[0] + offset] = value
    return db


def case_nk():
    m = make_nk()
    emit("nk.steady", repr(m.get_steady_levels(round=12)))
    model_solutions("nk", m)

    span = ir.qq(2020, 1) >> ir.qq(2022, 4)
    specs = {
        "shk_y": {0: 1.0, 3: -0.5},
        "shk_pi": {1: 0.25},
        "ant_shk_r": {2: 0.5, 6: -0.25},
        "ant_shk_a": {4: 1.0},
        "me_y": {0: 0.1, 5: -0.2},
    }
    for deviation in (False, True):
        db = shocks_db(m, span, specs, deviation=deviation)
        run_sim(f"nk.sim.dev={deviation}", m, db, span, deviation=deviation, return_info=True)

    # Non-steady initial conditions, levels
    db = shocks_db(m, span, specs, deviation=False)
    for n, v in (("y", 1.0), ("pi", -0.3), ("r", 2.0), ("a", 0.4)):
        db[n][span.start - 1] = v
    run_sim("nk.sim.init", m, db, span, deviation=False)
    run_sim("nk.sim.init.noprepend", m, db, span, deviation=False, prepend_input=False)
    run_sim("nk.sim.init.keepterm", m, db, span, deviation=False, remove_initial=False, remove_terminal=False)

    # Missing initial condition -> NaN propagates
    db = shocks_db(m, span, specs, deviation=False)
    db["y"][span.start - 1] = np.nan
    run_sim("nk.sim.nan_init", m, db, span, deviation=False)

    # No shocks at all
    db = ir.Databox.steady(m, span, )
    run_sim("nk.sim.noshocks", m, db, span, )

    # Only anticipated at last period and first period
    db = shocks_db(m, span, {"ant_shk_y": {0: 1.0, 11: 2.0}}, deviation=True)
    run_sim("nk.sim.ant_edges", m, db, span, deviation=True)

    # One-period span
    one = ir.qq(2020, 1) >> ir.qq(2020, 1)
    db = shocks_db(m, one, {"shk_y": {0: 1.0}, "ant_shk_pi": {0: 1.0}}, deviation=True)
    run_sim("nk.sim.one_period", m, db, one, deviation=True)

    # Other frequencies
    for label, sp in (
        ("yy", ir.yy(2020) >> ir.yy(2027)),
        ("mm", ir.mm(2020, 11) >> ir.mm(2021, 6)),
        ("dd", ir.dd(2020, 2, 25) >> ir.dd(2020, 3, 5)),
        ("ii", ir.ii(1) >> ir.ii(8)),
    ):
        try:
            db = shocks_db(m, sp, {"shk_y": {0: 1.0}, "ant_shk_r": {3: 0.5}, "shk_a": {7: 0.3}}, deviation=False)
            run_sim(f"nk.sim.freq.{label}", m, db, sp, deviation=False)
        except Exception as e:
            emit(f"nk.sim.freq.{label}", f"EXC {type(e).__name__}: {str(e)[:200]}")

    # Reversed span (negative step) and span given as a tuple of periods
    db = shocks_db(m, span, specs, deviation=False)
    run_sim("nk.sim.reversed", m, db, ir.qq(2022, 4) >> ir.qq(2020, 1), deviation=False)
    try:
        rev = ir.Span(ir.qq(2022, 4), ir.qq(2020, 1), -1)
        run_sim("nk.sim.negstep", m, db, rev, deviation=False)
    except Exception as e:
        emit("nk.sim.negstep", f"EXC {type(e).__name__}: {str(e)[:200]}")
    run_sim("nk.sim.tuple_span", m, db, tuple(span), deviation=False)

    # Force split frames
    db = shocks_db(m, span, specs, deviation=False)
    run_sim("nk.sim.force_split", m, db, span, deviation=False, force_split_frames=True, return_info=True)

    # shocks_from_data=False
    run_sim("nk.sim.noshockdata", m, db, span, deviation=False, shocks_from_data=False)

    # Plans
    p = ir.PlanSimulate(m, span, )
    p.swap_unanticipated(span.start >> span.start + 2, ("y", "shk_y"), )
    p.swap_unanticipated(span.start + 4, ("pi", "shk_pi"), )
    db = shocks_db(m, span, {"ant_shk_a": {5: 0.5}}, deviation=False)
    for k, v in enumerate((0.5, 0.25, -0.1)):
        db["y"][span.start + k] = v
    db["pi"][span.start + 4] = 1.0
    run_sim("nk.plan.unant", m, db, span, plan=p, deviation=False, return_info=True)

    p = ir.PlanSimulate(m, span, )
    p.swap_anticipated(span.start + 3, ("y", "ant_shk_y"), )
    p.swap_anticipated(span.start + 5, ("r", "ant_shk_r"), )
    db = shocks_db(m, span, {"shk_a": {1: 0.5}}, deviation=False)
    db["y"][span.start + 3] = 0.7
    db["r"][span.start + 5] = 3.0
    run_sim("nk.plan.ant", m, db, span, plan=p, deviation=False, return_info=True)
    run_sim("nk.plan.ant.check_sing", m, db, span, plan=p, deviation=False, check_singularity=True)

    p = ir.PlanSimulate(m, span, )
    p.swap_anticipated(span.start + 2, ("y", "ant_shk_y"), )
    p.swap_unanticipated(span.start + 1, ("pi", "shk_pi"), )
    db = shocks_db(m, span, {"shk_a": {0: 0.5}}, deviation=True)
    db["y"][span.start + 2] = 0.7
    db["pi"][span.start + 1] = -0.2
    run_sim("nk.plan.mixed.dev", m, db, span, plan=p, deviation=True, return_info=True)

    # Exogenize only / endogenize only start period anticipated (no split)
    p = ir.PlanSimulate(m, span, )
    p.swap_anticipated(span.start, ("y", "ant_shk_y"), )
    db = shocks_db(m, span, {}, deviation=False)
    db["y"][span.start] = 0.3
    run_sim("nk.plan.ant_start", m, db, span, plan=p, deviation=False, return_info=True)

    # Parameter variation inside determinacy region
    for k, over in enumerate((
        dict(phi_pi=1.5, rho=0.0),
        dict(alpha=0.9, beta=0.95, kappa=0.3, phi_pi=4.0),
        dict(alpha=0.1, sigma=1.0, rho=0.95, phi_pi=3.0, ss_pi=2.0, ss_a=1.0),
    )):
        mk = make_nk(**over)
        solution_digest(f"nk.par{k}", mk._variants[0].solution)
        db = shocks_db(mk, span, specs, deviation=False)
        run_sim(f"nk.par{k}.sim", mk, db, span, deviation=False)

    # Indeterminate / no-stable parameterizations: classification only
    for k, over in enumerate((dict(phi_pi=0.2, phi_y=0.0), dict(alpha=1.0, beta=1.0, phi_pi=0.0, phi_y=0.0, rho=0.0, sigma=0.0), dict(rho_a=1.5), dict(rho_a=1.0))):
        try:
            mk = make_nk(**over)
            sol = mk._variants[0].solution
            emit(f"nk.indet{k}.system_stability", str(sol.system_stability))
            emit(f"nk.indet{k}.eigenvalues_stability", [str(i) for i in sol.eigenvalues_stability])
            emit(f"nk.indet{k}.eigenvalues", arr_digest(np.array(sol.eigenvalues, dtype=complex)))
        except Exception as e:
            emit(f"nk.indet{k}", f"EXC {type(e).__name__}: {str(e)[:200]}")

    # clip_small and custom tolerance
    m2 = make_nk()
    m2.solve(clip_small=True, )
    solution_digest("nk.clip", m2._variants[0].solution)
    m2.solve(tolerance=1e-6, )
    solution_digest("nk.tol", m2._variants[0].solution)
    info = m2.solve(return_info=True, )
    emit("nk.solve.info", repr(info))

    # Multiple variants
    mv = ir.Simultaneous.from_string(SRC_NK, linear=True, flat=True, )
    mv.assign(
        alpha=0.5, beta=0.6, sigma=0.2, kappa=0.1, rho=0.7,
        phi_pi=2.5, phi_y=0.3, rho_a=0.8, ss_pi=0.5, ss_rr=0.25, ss_a=0,
    )
    mv.alter_num_variants(3)
    mv.assign(phi_pi=[2.5, 1.5, 4.0], rho=[0.7, 0.0, 0.9], ss_pi=[0.5, 1.0, 0.0])
    mv.steady()
    mv.solve()
    model_solutions("nkv", mv)
    db = shocks_db(mv, span, specs, deviation=False)
    run_sim("nkv.sim", mv, db, span, deviation=False, return_info=True)
    db = shocks_db(mv, span, specs, deviation=True)
    run_sim("nkv.sim.dev", mv, db, span, deviation=True)
    p = ir.PlanSimulate(mv, span, )
    p.swap_anticipated(span.start + 3, ("y", "ant_shk_y"), )
    p.swap_unanticipated(span.start + 1, ("pi", "shk_pi"), )
    db = shocks_db(mv, span, {"shk_a": {1: 0.5}}, deviation=False)
    db["y"][span.start + 3] = 0.7
    db["pi"][span.start + 1] = 0.9
    run_sim("nkv.plan", mv, db, span, plan=p, deviation=False)
    # One variant of model, several variants of data
    m1 = make_nk()
    db = shocks_db(m1, span, specs, deviation=False)
    db["shk_y"] = ir.Series(periods=span, values=np.array([[1.0, 0, 0, 0, 0, 0, 0, 0, 0, 0, 0, 0], [0, 2.0, 0, 0, 0, 0, 0, 0, 0, 0, 0, 0]]).T)
    run_sim("nk.sim.datavariants", m1, db, span, deviation=False, num_variants=2)


# ---------------------------------------------------------------------------
# Model 2: nonlinear model with log variables, linearised around the steady
# state; lag 2, lead 2; measurement with log variable
# ---------------------------------------------------------------------------

SRC_NL = r"""
!transition_variables
    c, k, z, q, g
!log_variables
    c, k, z, q
!transition_shocks
    shk_z, shk_q, shk_g
!measurement_variables
    obs_c, obs_k, obs_g
!log_variables
    obs_c
!measurement_shocks
    me_c
!parameters
    alpha, beta, delta, rho, rho_q, rho_g, ss_g
!transition_equations
    1/c = beta*(1/c[+1])*(alpha*z[+1]*k^(alpha-1) + 1 - delta);
    k = z*k[-1]^alpha + (1-delta)*k[-1] - c;
    log(z) = rho*log(z[-1]) + shk_z;
    log(q) = rho_q*log(q[-1]) + 0.1*log(q[-2]) + 0.2*(log(c[+2]) - log(c[+1])) + shk_q;
    g = rho_g*g[-1] + (1-rho_g)*ss_g + shk_g;
!measurement_equations
    obs_c = c*exp(me_c);
    obs_k = 100*log(k);
    obs_g = g + 1;
"""


def make_nl(num_variants=1, **over):
    m = ir.Simultaneous.from_string(SRC_NL, flat=True, )
    params = dict(alpha=0.36, beta=0.98, delta=0.05, rho=0.9, rho_q=0.5, rho_g=0.6, ss_g=2.0)
    params.update(over)
    if num_variants > 1:
        m.alter_num_variants(num_variants)
    m.assign(**params)
    m.assign(c=1, k=10, z=1, q=1, g=2, obs_c=1, obs_k=1, obs_g=1)
    m.steady()
    m.solve()
    return m


def case_nl():
    m = make_nl()
    emit("nl.steady", repr(m.get_steady_levels(round=10)))
    model_solutions("nl", m)
    span = ir.qq(2021, 1) >> ir.qq(2023, 2)
    specs = {
        "shk_z": {0: 0.01, 2: -0.02},
        "ant_shk_q": {3: 0.05},
        "ant_shk_z": {6: 0.01},
        "shk_g": {1: 0.5},
        "me_c": {0: 0.01},
    }
    for deviation in (False, True):
        db = shocks_db(m, span, specs, deviation=deviation)
        run_sim(f"nl.sim.dev={deviation}", m, db, span, deviation=deviation, return_info=True)
    # Non-steady initial conditions (lag 2 needed for q)
    db = shocks_db(m, span, specs, deviation=False)
    db["k"][span.start - 1] = db["k"][span.start - 1] * 1.1
    db["q"][span.start - 1] = 1.05
    db["q"][span.start - 2] = 0.9
    db["g"][span.start - 1] = -1.0
    run_sim("nl.sim.init", m, db, span, deviation=False)
    # Plan with log variables
    p = ir.PlanSimulate(m, span, )
    p.swap_unanticipated(span.start >> span.start + 1, ("c", "shk_z"), )
    p.swap_anticipated(span.start + 4, ("q", "ant_shk_q"), )
    p.swap_anticipated(span.start + 2, ("g", "ant_shk_g"), )
    db = shocks_db(m, span, {"shk_g": {0: 0.1}}, deviation=False)
    c_ss = db["c"][span.start - 1]
    db["c"][span.start] = c_ss * 1.01
    db["c"][span.start + 1] = c_ss * 1.02
    db["q"][span.start + 4] = 1.03
    db["g"][span.start + 2] = 2.5
    run_sim("nl.plan", m, db, span, plan=p, deviation=False, return_info=True)
    # Same in deviations
    db = shocks_db(m, span, {"shk_g": {0: 0.1}}, deviation=True)
    db["c"][span.start] = 1.01
    db["c"][span.start + 1] = 1.02
    db["q"][span.start + 4] = 1.03
    db["g"][span.start + 2] = 0.5
    run_sim("nl.plan.dev", m, db, span, plan=p, deviation=True)
    # Variants
    mv = make_nl(num_variants=2, rho=[0.9, 0.5], delta=[0.05, 0.1], ss_g=[2.0, -1.0])
    model_solutions("nlv", mv)
    db = shocks_db(mv, span, specs, deviation=False)
    run_sim("nlv.sim", mv, db, span, deviation=False)
    db = shocks_db(mv, span, specs, deviation=True)
    run_sim("nlv.sim.dev", mv, db, span, deviation=True)
    # Daily
    sp = ir.dd(2021, 12, 28) >> ir.dd(2022, 1, 6)
    db = shocks_db(m, sp, {"shk_z": {0: 0.01}, "ant_shk_q": {4: 0.02}}, deviation=False)
    run_sim("nl.sim.daily", m, db, sp, deviation=False)


# ---------------------------------------------------------------------------
# Model 3: unit root, purely backward-looking, and purely forward-looking
# ---------------------------------------------------------------------------

SRC_UR = r"""
!transition_variables
    x, dx, w, f
!transition_shocks
    shk_dx, shk_w, shk_f
!measurement_variables
    obs_x, obs_w
!parameters
    rho, g, lam
!transition_equations
    x = x[-1] + dx;
    dx = rho*dx[-1] + (1-rho)*g + shk_dx;
    w = 0.5*w[-1] + 0.2*w[-2] + 0.1*(x - x[-1]) + shk_w;
    f = lam*f[+1] + w + shk_f;
!measurement_equations
    obs_x = x;
    obs_w = w + f;
"""

SRC_BACK = r"""
!transition_variables
    a, b
!transition_shocks
    shk_a, shk_b
!parameters
    ra, rb
!transition_equations
    a = ra*a[-1] + shk_a;
    b = rb*b[-1] + 0.5*a + 1 + shk_b;
"""

SRC_FWD = r"""
!transition_variables
    a, b
!transition_shocks
    shk_a, shk_b
!transition_equations
    a = 0.5*a[+1] + 0.1*b + shk_a;
    b = 0.3*b[+1] + 0.2*b[+2] + 1 + shk_b;
"""


def case_misc():
    m = ir.Simultaneous.from_string(SRC_UR, linear=True, flat=False, )
    m.assign(rho=0.5, g=0.25, lam=0.6)
    try:
        m.steady()
    except Exception as e:
        emit("ur.steady", f"EXC {type(e).__name__}")
    m.solve()
    model_solutions("ur", m)
    span = ir.qq(2020, 1) >> ir.qq(2021, 4)
    db = ir.Databox.steady(m, span, )
    db["shk_dx"] = ir.Series()
    db["shk_dx"][span.start] = 1.0
    db["ant_shk_f"] = ir.Series()
    db["ant_shk_f"][span.start + 3] = 1.0
    run_sim("ur.sim", m, db, span, )
    db = ir.Databox.steady(m, span, deviation=True, )
    db["shk_dx"] = ir.Series()
    db["shk_dx"][span.start] = 1.0
    db["ant_shk_f"] = ir.Series()
    db["ant_shk_f"][span.start + 3] = 1.0
    run_sim("ur.sim.dev", m, db, span, deviation=True)

    m = ir.Simultaneous.from_string(SRC_BACK, linear=True, flat=True, )
    m.assign(ra=0.8, rb=0.5)
    m.steady()
    m.solve()
    model_solutions("back", m)
    db = shocks_db(m, span, {"shk_a": {0: 1.0}, "ant_shk_b": {3: 1.0}}, deviation=False)
    run_sim("back.sim", m, db, span, )
    p = ir.PlanSimulate(m, span, )
    p.swap_anticipated(span.start + 2, ("b", "ant_shk_a"), )
    db["b"][span.start + 2] = 5.0
    run_sim("back.plan", m, db, span, plan=p)

    m = ir.Simultaneous.from_string(SRC_FWD, linear=True, flat=True, )
    m.steady()
    m.solve()
    model_solutions("fwd", m)
    db = shocks_db(m, span, {"shk_a": {0: 1.0}, "ant_shk_b": {3: 1.0, 7: -1.0}}, deviation=False)
    run_sim("fwd.sim", m, db, span, )
    db = shocks_db(m, span, {"shk_a": {0: 1.0}, "ant_shk_b": {3: 1.0, 7: -1.0}}, deviation=True)
    run_sim("fwd.sim.dev", m, db, span, deviation=True)


# ---------------------------------------------------------------------------
# Low-level functions
# ---------------------------------------------------------------------------

def case_lowlevel():
    rng = np.random.default_rng(12345)
    A = rng.standard_normal((4, 4))
    B = rng.standard_normal((4, 3))
    emit("ll.left_div", arr_digest(sl.left_div(A, B)))
    emit("ll.right_div", arr_digest(sl.right_div(B.T, A)))
    Arank = A.copy()
    Arank[3, :] = Arank[0, :]
    emit("ll.left_div.rankdef", arr_digest(sl.left_div(Arank, B)))
    emit("ll.left_div.empty", arr_digest(sl.left_div(np.zeros((0, 0)), np.zeros((0, 3)))))
    # Blank solution object: expansions are not available
    blank = sl.Solution()
    emit("ll.blank.expand_square", repr(blank.expand_square_solution(3)))
    emit("ll.blank.expand_triangular", repr(blank.expand_triangular_solution(0)))
    emit("ll.blank.slots", [n for n in blank.__slots__ if getattr(blank, n) is not None])
    dev = blank.create_deviation_solution()
    emit("ll.blank.dev", [n for n in dev.__slots__ if getattr(dev, n) is not None])
    emit("ll.kinds", [str(sl.STABLE), str(sl.UNIT_ROOT), str(sl.UNSTABLE), str(sl.UNIT), sl.UNIT is sl.UNIT_ROOT])
    x = np.array([1.0, 2.0, 3.0])
    fs.zero_false_init_xi(x, (True, False, True))
    emit("ll.zero_false_init", x.tolist())
    x = np.array([[1.0, 2.0], [np.nan, 4.0]])
    fs.zero_false_init_xi(x, (True, False))
    emit("ll.zero_false_init2", x.tolist())


def main():
    case_lowlevel()
    case_nk()
    case_nl()
    case_misc()
    digest = hashlib.sha256("\n".join(LINES).encode()).hexdigest()
    print(f"NUM_LINES {len(LINES)}")
    print(f"DIGEST {digest}")


if __name__ == "__main__":
    main()

"""
Behaviour digest for property C11 (period conversions round-trip; SDMX
strings; frequency detection; frequency conversion containment).

Run as
    cd /tmp/wt2/C11 && PYTHONPATH=/tmp/wt2/C11/src /venv/bin/python /tmp/twin2_out/C11/behaviour.py
Prints deterministic lines followed by a sha256 digest of all of them.
"""

import hashlib
import datetime as dt
import itertools

import irispie as ir
from irispie import dates as D
from irispie.dates import (
    Frequency, Period,
    YearlyPeriod, HalfyearlyPeriod, QuarterlyPeriod, MonthlyPeriod,
    DailyPeriod, IntegerPeriod,
)

LINES = []


def out(*args):
    line = " | ".join(str(a) for a in args)
    LINES.append(line)


def attempt(func, *args, **kwargs):
    """Return repr of result, or exception type + message."""
    try:
        result = func(*args, **kwargs)
        return f"OK {type(result).__name__} {result!r}"
    except BaseException as exc:
        context = type(exc.__context__).__name__ if exc.__context__ is not None else None
        return f"EXC {type(exc).__name__}: {exc} [context={context}]"


CALENDAR_CLASSES = (YearlyPeriod, HalfyearlyPeriod, QuarterlyPeriod, MonthlyPeriod, DailyPeriod, )
ALL_CLASSES = CALENDAR_CLASSES + (IntegerPeriod, )
POSITIONS = ("start", "middle", "end", )
EVAL_NAMESPACE = {"yy": ir.yy, "hh": ir.hh, "qq": ir.qq, "mm": ir.mm, "dd": ir.dd, "ii": ir.ii, }


def sample_periods():
    periods = []
    for year in (1, 999, 1000, 1899, 1900, 1970, 1999, 2000, 2019, 2020, 2021, 2024, 2100, 9999, ):
        periods.append(YearlyPeriod.from_year_segment(year, 1))
        for h in (1, 2, ):
            periods.append(HalfyearlyPeriod.from_year_segment(year, h))
        for q in (1, 2, 3, 4, ):
            periods.append(QuarterlyPeriod.from_year_segment(year, q))
        for m in range(1, 13):
            periods.append(MonthlyPeriod.from_year_segment(year, m))
        for (m, d) in ((1, 1), (1, 31), (2, 28), (3, 1), (6, 30), (7, 1), (9, 15), (12, 31), ):
            periods.append(DailyPeriod.from_ymd(year, m, d))
        if year % 4 == 0 and (year % 100 != 0 or year % 400 == 0):
            periods.append(DailyPeriod.from_ymd(year, 2, 29))
    # Every day of a leap year and a non-leap year
    for year in (2023, 2024, ):
        start = DailyPeriod.from_ymd(year, 1, 1)
        for k in range(0, 366):
            periods.append(start + k)
    for serial in (-1000000, -12, -1, 0, 1, 7, 10, 2020, 123456789, ):
        periods.append(IntegerPeriod(serial))
    return periods


def section_round_trips():
    out("== round trips ==")
    for p in sample_periods():
        klass = type(p)
        freq = p.frequency
        s = p.to_sdmx_string()
        detected = Frequency.from_sdmx_string(s)
        q1 = klass.from_sdmx_string(s)
        q2 = Period.from_sdmx_string(s)
        q3 = Period.from_sdmx_string(s, frequency=freq)
        q4 = Period.from_sdmx_string("  " + s + " \t")
        q5 = D.Dater.from_sdmx_string(freq, s)
        same = all(type(q) is klass and q.serial == p.serial and q == p for q in (q1, q2, q3, q4, q5, ))
        r = repr(p)
        back_repr = eval(r, dict(EVAL_NAMESPACE))
        rec = [
            freq.name, p.serial, s, str(p), f"{p:>12}", r, detected.name, same,
            type(back_repr).__name__, back_repr.serial, p.to_compact_string(),
            hash(p) == hash(q2),
        ]
        if klass is not IntegerPeriod:
            ys = p.to_year_segment()
            rec.append(ys)
            rec.append(klass.from_year_segment(*ys).serial)
            for pos in POSITIONS:
                ymd = p.to_ymd(position=pos)
                iso = p.to_iso_string(position=pos)
                pyd = p.to_python_date(position=pos)
                rec.extend([
                    pos, ymd, iso, pyd.isoformat(),
                    klass.from_ymd(*ymd).serial,
                    Period.from_ymd(freq, *ymd).serial,
                    Period.from_iso_string(iso, frequency=freq).serial,
                    klass.from_iso_string(iso).serial,
                    Period.from_python_date(pyd, frequency=freq).serial,
                    Period.from_python_date(dt.datetime(pyd.year, pyd.month, pyd.day, 13, 5), frequency=freq).serial,
                ])
        else:
            rec.append(klass.from_year_segment(None, p.serial).serial)
        out(*rec)


def section_frequency_detection():
    out("== frequency detection ==")
    strings = [
        "2020", " 2020 ", "0001", "9999", "20201", "202", "20a0", "-200", "+200", "",
        "2020-H1", "2020-H2", "2020-H0", "2020-H3", "2020-H12", "2020-h1", "2020H1",
        "2020-Q1", "2020-Q4", "2020-Q5", "2020-Q0", "2020-q1", "2020-Q", "2020Q1", "2020-Q10",
        "2020-01", "2020-12", "2020-13", "2020-00", "2020-1", "2020-001", "2020/01",
        "2020-W01", "2020-W53", "2020-W1", "2020-W001",
        "2020-01-01", "2020-02-29", "2021-02-29", "2020-12-31", "2020-1-1", "2020-01-1", "2020-01-01T00:00:00",
        "2020-01-01 ", "\n2020-01-01\n", "2020-13-45",
        "(0)", "(5)", "(-5)", "(+5)", "( 5)", "(5", "5)", "5", "()", "(--5)", "(5.0)", "(123456789012)", " (10) ",
        "2020-M01", "2020-A", "abcd", "٢٠٢٠", "２０２０", "2020-Q١", "(٥)",
        "2020\n", "2020-Q1\n", "(1)\n",
    ]
    for s in strings:
        out(repr(s), "freq", attempt(Frequency.from_sdmx_string, s))
        out(repr(s), "period", attempt(Period.from_sdmx_string, s))
    for bad in (None, 2020, 20.5, b"2020", ("2020", ), ):
        out(repr(bad), "freq", attempt(Frequency.from_sdmx_string, bad))
        out(repr(bad), "period", attempt(Period.from_sdmx_string, bad))
    # table
    out("table keys", [f.name for f in D.SDMX_REXP_FORMATS.keys()])
    for freq, value in D.SDMX_REXP_FORMATS.items():
        length, pattern = value
        out(freq.name, type(value).__name__, len(value), repr(length), type(pattern).__name__, pattern.pattern, pattern.flags)


def section_class_parsers():
    out("== per-class parsers ==")
    strings = [
        "2020", " 2020 ", "-5", "+7", "20_20", "2020.0", "", "abc",
        "2020-H1", " 2020-H2 ", "2020-H3", "2020-H0", "2020-H-1", "2020-H1-H2", "2020-H", "-H1", "2020-H 2",
        "2020-Q1", " 2020-Q4\n", "2020-Q5", "2020-Q0", "2020-Q-3", "2020-Q1-Q2", "2020-Q", "-Q1", " 2020 -Q 3 ",
        "2020-01", " 2020-12 ", "2020-13", "2020-0", "2020-1", "2020--1", "2020-01-01", "2020-", "-01", "2020- 7",
        "2020-02-29", "2021-02-29", " 2020-03-01 ", "2020-03-01-extra", "2020-3-1", "2020-03", "2020-13-01", "2020-00-10",
        "2020- 03 - 01 ", "2020-03-01T10:00",
        "(5)", " (5) ", "(-5)", "(+5)", "((5))", "5", "( 5 )", "(5", "5)", "()", "(5.5)", "(1_0)",
    ]
    for klass in ALL_CLASSES:
        for s in strings:
            out(klass.__name__, repr(s), attempt(klass.from_sdmx_string, s))
    for klass in ALL_CLASSES:
        for bad in (None, 2020, b"2020-Q1", ):
            out(klass.__name__, repr(bad), attempt(klass.from_sdmx_string, bad))
    out("Unknown", attempt(D.UnknownPeriod.from_sdmx_string, "2020"))
    out("Unknown via Period", attempt(Period.from_sdmx_string, "2020", frequency=Frequency.UNKNOWN))
    out("Weekly via Period", attempt(Period.from_sdmx_string, "2020-W01"))


def section_writers():
    out("== writers, unusual serials ==")
    for klass in ALL_CLASSES:
        serials = [-25, -1, 0, 1, 11, 999, 4000, 123456, 1000000, 12345678, ]
        if klass is DailyPeriod:
            serials = [1, 2, 365, 366, 693596, 737425, 738000, 3652059, ]
        for serial in serials:
            p = klass(serial)
            out(klass.__name__, serial, attempt(p.to_sdmx_string), attempt(str, p), attempt(p.to_compact_string), attempt(repr, p))
    out("daily kwargs", DailyPeriod.from_ymd(2024, 2, 29).to_sdmx_string(position="end"))
    out("yearly kwargs", attempt(YearlyPeriod(2020).to_sdmx_string, position="end"))
    out("integer compact is sdmx", IntegerPeriod.to_compact_string is IntegerPeriod.to_sdmx_string)
    # numpy integer serials
    import numpy as np
    for klass in ALL_CLASSES:
        p = klass(np.int64(8085))
        out(klass.__name__, "np.int64", attempt(p.to_sdmx_string))
    # Spans and plural functions
    span = ir.qq(2019, 3) >> ir.qq(2021, 2)
    out("span sdmx", span.to_sdmx_strings())
    out("span str", str(span), repr(span))
    span = ir.dd(2024, 2, 27) >> ir.dd(2024, 3, 2)
    out("span sdmx", span.to_sdmx_strings())
    rev = ir.mm(2021, 2) >> ir.mm(2020, 11)
    out("rev span", attempt(lambda: tuple(rev.to_sdmx_strings())))
    neg = D.Span(ir.mm(2021, 2), ir.mm(2020, 11), -1)
    out("neg span", attempt(lambda: tuple(neg.to_sdmx_strings())))
    out("ii span", (ir.ii(-2) >> ir.ii(2)).to_sdmx_strings())


def section_plural():
    out("== plural readers ==")
    cases = [
        ["2020", "2021", "1999"],
        ["2020-H1", "2019-H2"],
        ["2020-Q1", "2020-Q4", " 2021-Q2 "],
        ["2020-01", "2020-12"],
        ["2020-01-31", "2024-02-29"],
        ["(1)", "(-3)", " (10)"],
        [],
        ["2020-Q1", "2020-01"],
        ["2020-01", "2020-Q1"],
        ["junk"],
        ["2020-W01"],
    ]
    for case in cases:
        out(case, attempt(D.periods_from_sdmx_strings, case))
        out(case, "iter", attempt(D.periods_from_sdmx_strings, iter(case)))
    for freq in (Frequency.YEARLY, Frequency.HALFYEARLY, Frequency.QUARTERLY, Frequency.MONTHLY, Frequency.DAILY, Frequency.INTEGER, ):
        for case in cases[:6]:
            out(freq.name, case, attempt(D.periods_from_sdmx_strings, case, frequency=freq))
            out(freq.name, case, "daters", attempt(D.daters_from_sdmx_strings, freq, case))


def section_conversion():
    out("== frequency conversion ==")
    freqs = (Frequency.YEARLY, Frequency.HALFYEARLY, Frequency.QUARTERLY, Frequency.MONTHLY, Frequency.DAILY, )
    periods = [p for p in sample_periods() if type(p) is not IntegerPeriod]
    periods = periods[::3]
    for p in periods:
        rec = [p.to_sdmx_string()]
        for new_freq in freqs:
            for pos in POSITIONS:
                q = p.convert(new_freq, position=pos)
                back = q.convert(p.frequency, position=pos)
                rec.append(f"{new_freq.letter}{pos[0]}:{q.to_sdmx_string()}>{back.to_sdmx_string()}")
        rec.append(p.to_daily(position="end").to_sdmx_string())
        out(*rec)
    # monotonicity check over a contiguous range
    for (src, dst) in itertools.permutations(freqs, 2):
        klass = D.PERIOD_CLASS_FROM_FREQUENCY_RESOLUTION[src]
        start = klass.from_ymd(2023, 11, 20)
        seq = [start + k for k in range(0, 120 if src is Frequency.DAILY else 30)]
        for pos in POSITIONS:
            converted = [x.convert(dst, position=pos) for x in seq]
            monotone = all(a.serial <= b.serial for a, b in zip(converted, converted[1:]))
            out(src.name, dst.name, pos, monotone, converted[0].to_sdmx_string(), converted[-1].to_sdmx_string())


def section_consumers():
    out("== other consumers of SDMX strings ==")
    import numpy as np
    x = ir.Series(start=ir.qq(2020, 1), values=np.array([1.0, 2.0, 3.0, 4.0, 5.0]))
    out(str(x.start), str(x.end), [str(t) for t in x.span])
    db = ir.Databox()
    db["x"] = x
    db["y"] = ir.Series(start=ir.mm(2020, 11), values=np.array([1.0, 2.0, 3.0]))
    db["z"] = ir.Series(start=ir.dd(2024, 2, 28), values=np.array([1.0, 2.0, 3.0]))
    db["w"] = ir.Series(start=ir.ii(-1), values=np.array([1.0, 2.0, 3.0]))
    db["v"] = ir.Series(start=ir.yy(1999), values=np.array([1.0, 2.0]))
    db["u"] = ir.Series(start=ir.hh(1999, 2), values=np.array([1.0, 2.0]))
    for name in ("x", "y", "z", "w", "v", "u", ):
        out(name, attempt(lambda: repr(db[name]).split()))
    import tempfile, os
    with tempfile.TemporaryDirectory() as folder:
        for name, freq in (("x", Frequency.QUARTERLY), ("y", Frequency.MONTHLY), ("z", Frequency.DAILY), ("w", Frequency.INTEGER), ("v", Frequency.YEARLY), ("u", Frequency.HALFYEARLY), ):
            path = os.path.join(folder, f"{name}.csv")
            small = ir.Databox()
            small[name] = db[name]
            try:
                small.to_csv_file(path, frequency=freq, )
                with open(path, "rt") as fid:
                    text = fid.read()
                out(name, "csv", repr(text))
                back = ir.Databox.from_csv_file(path, )
                out(name, "back", sorted(back.keys()), str(back[name].start), str(back[name].end), back[name].get_data().round(6).tolist())
            except BaseException as exc:
                out(name, "csv EXC", type(exc).__name__, str(exc)[:200])


def main():
    section_round_trips()
    section_frequency_detection()
    section_class_parsers()
    section_writers()
    section_plural()
    section_conversion()
    section_consumers()
    text = "\n".join(LINES) + "\n"
    print(text, end="")
    print("LINES", len(LINES))
    print("SHA256", hashlib.sha256(text.encode("utf-8")).hexdigest())


if __name__ == "__main__":
    main()

"""
Behaviour digest for property C17: Sequential-model simulation makes every
equation hold, also when exogenized.

Prints a deterministic digest of public results; the output must be identical
on the untouched worktree and with each twin change applied.
"""

import os
import sys

# The library orders some name tuples through sets of strings; pin the string
# hash seed so that the digest is reproducible from run to run
if os.environ.get("PYTHONHASHSEED") != "0":
    os.environ["PYTHONHASHSEED"] = "0"
    os.execv(sys.executable, [sys.executable] + sys.argv)

import hashlib
import warnings

import numpy as np
import irispie as ir
from irispie.plans import transforms as plan_transforms


warnings.simplefilter("ignore")

_LINES = []


def out(*args):
    line = " ".join(str(a) for a in args)
    _LINES.append(line)
    print(line)


def fmt_value(x):
    x = float(x)
    if np.isnan(x):
        return "nan"
    if np.isinf(x):
        return "inf" if x > 0 else "-inf"
    return f"{x:.10g}"


def fmt_series(series, span):
    data = np.asarray(series.get_data(span, ), dtype=float, )
    data = data.reshape(data.shape[0], -1, )
    return "|".join(
        ",".join(fmt_value(v) for v in data[:, j])
        for j in range(data.shape[1])
    )


def digest_databox(label, db, span, names=None, ):
    names = sorted(db.keys()) if names is None else names
    for n in names:
        value = db[n]
        if isinstance(value, ir.Series):
            out(label, n, str(value.start), str(value.end), fmt_series(value, span))
        else:
            out(label, n, repr(value))


def attempt(label, func, ):
    try:
        return func()
    except Exception as exc:
        text = str(exc).replace("\n", " // ")
        out(label, "RAISED", type(exc).__name__, text)
        return None


#-------------------------------------------------------------------------------
# Plan transforms on their own
#-------------------------------------------------------------------------------


def section_transforms():
    out("== transforms")
    after = np.array([0.25, 7.0, np.nan])
    before = np.array([1.5, 2.5, 4.0])
    inclusive = np.array([9.0, 8.0])
    for key in (None, "level", "none", "log", "diff", "diff_log", "difflog", "roc", "pct", "flat", ):
        for kwargs in ({}, {"when_data": True}, {"when_data": None}, {"shift": -2}, {"name_format": "zz_{}_yy"}, {"when_data": True, "shift": -3, "name_format": "{}__"}, ):
            t = plan_transforms.resolve_transform(key, **kwargs, )
            value = t.eval_exogenized(after, before, inclusive, )
            nan_value = t.eval_exogenized(after[2:], before, inclusive, )
            out(
                repr(key), sorted(kwargs.items()), type(t).__name__,
                str(t), repr(t), t.symbol, repr(t.when_data),
                repr(t.resolve_databox_name("abc")),
                fmt_value(value), fmt_value(nan_value),
            )
    t = plan_transforms.PlanTransformRoc(when_data=True, )
    out("passthrough", plan_transforms.resolve_transform(t) is t)
    out("passthrough_kwargs", plan_transforms.resolve_transform(t, shift=-4, ) is t, t._shift)
    attempt("bad_transform_name", lambda: plan_transforms.resolve_transform("nonsense"))
    attempt("bad_transform_kwarg", lambda: plan_transforms.resolve_transform("log", foo=1))
    out("table", sorted((repr(k), v.__name__) for k, v in plan_transforms.CHOOSE_TRANSFORM_CLASS.items()))
    out("flat_name", repr(plan_transforms.PlanTransformFlat().resolve_databox_name("abc")))


#-------------------------------------------------------------------------------
# Model with every LHS transform, lags, parameters, identities
#-------------------------------------------------------------------------------


_SOURCE = r"""
!parameters
    rho, ss, k

!equations
    a = rho*a[-1] + (1-rho)*ss + 0.1*z;
    log(b) = rho*log(b[-1]) + 0.02*a;
    diff(c) = 0.5*diff(c[-1]) + 0.1*a[-1] - 0.05;
    diff_log(d) = 0.01 + 0.3*diff_log(d[-1]) + 0.001*z[-2];
    roc(e) = 1.01 + 0.001*a;
    pct(f) = rho*pct(f[-1]) + (1-rho)*k;
    g === a + b + c[-1];
    h = g + f[-2] + k;
"""


def create_model(num_variants=1, ):
    m = ir.Sequential.from_string(_SOURCE, )
    if num_variants > 1:
        m.assign(rho=0.8, ss=1.0, k=2.0, )
        m.alter_num_variants(num_variants, )
        for i, mv in enumerate(m.iter_own_variants()):
            mv.assign(rho=0.8 - 0.1*i, ss=1.0 + i, k=2.0 - 0.5*i, )
    else:
        m.assign(rho=0.8, ss=1.0, k=2.0, )
    return m


def create_databox(start, num_periods, num_presample=4, seed=0, ):
    rng = np.random.default_rng(seed, )
    db = ir.Databox()
    total = num_periods + num_presample + 2
    first = start - num_presample
    def series(values):
        return ir.Series(start_date=first, values=tuple(float(v) for v in values), )
    db["z"] = series(rng.standard_normal(total))
    db["a"] = series(1 + 0.1*rng.standard_normal(total))
    db["b"] = series(np.exp(0.1*rng.standard_normal(total)))
    db["c"] = series(np.cumsum(0.2*rng.standard_normal(total)))
    db["d"] = series(np.exp(np.cumsum(0.01 + 0.01*rng.standard_normal(total))))
    db["e"] = series(np.cumprod(1.01 + 0.005*rng.standard_normal(total)))
    db["f"] = series(100*np.cumprod(1 + (2 + rng.standard_normal(total))/100))
    db["h"] = series(rng.standard_normal(total))
    # Residuals
    db["res_a"] = series(0.05*rng.standard_normal(total))
    db["res_d"] = series(0.002*rng.standard_normal(total))
    # Exogenized transforms
    db["log_b"] = series(0.1*rng.standard_normal(total))
    db["diff_c"] = series(0.2*rng.standard_normal(total))
    db["diff_log_d"] = series(0.01 + 0.01*rng.standard_normal(total))
    db["roc_e"] = series(1.02 + 0.01*rng.standard_normal(total))
    db["pct_f"] = series(3 + rng.standard_normal(total))
    db["my_a_tune"] = series(1 + rng.standard_normal(total))
    return db


def check_equations(label, m, s, span, ):
    """
    Evaluate the max discrepancy in transform(lhs) = rhs + residual
    """
    span = tuple(span)
    def get(name, shift=0, v=0, ):
        x = s[name]
        if not isinstance(x, ir.Series):
            x = x[v] if isinstance(x, (list, tuple)) else x
            return np.full((len(span), ), float(x), )
        data = np.asarray(x.get_data(tuple(t + shift for t in span), ), dtype=float, )
        data = data.reshape(len(span), -1, )
        return data[:, min(v, data.shape[1]-1)]
    num_variants = m.num_variants
    for v in range(num_variants):
        params = m.get_parameters(unpack_singleton=False, )
        rho, ss, k = (params[n][v] for n in ("rho", "ss", "k"))
        g = lambda n, sh=0: get(n, sh, v, )
        pct = lambda n, sh=0: 100*g(n, sh)/g(n, sh-1) - 100
        dlog = lambda n, sh=0: np.log(g(n, sh)) - np.log(g(n, sh-1))
        diff = lambda n, sh=0: g(n, sh) - g(n, sh-1)
        discrepancies = {
            "a": g("a") - (rho*g("a", -1) + (1-rho)*ss + 0.1*g("z") + g("res_a")),
            "b": np.log(g("b")) - (rho*np.log(g("b", -1)) + 0.02*g("a") + g("res_b")),
            "c": diff("c") - (0.5*diff("c", -1) + 0.1*g("a", -1) - 0.05 + g("res_c")),
            "d": dlog("d") - (0.01 + 0.3*dlog("d", -1) + 0.001*g("z", -2) + g("res_d")),
            "e": g("e")/g("e", -1) - (1.01 + 0.001*g("a") + g("res_e")),
            "f": pct("f") - (rho*pct("f", -1) + (1-rho)*k + g("res_f")),
            "g": g("g") - (g("a") + g("b") + g("c", -1)),
            "h": g("h") - (g("g") + g("f", -2) + k + g("res_h")),
        }
        for n, x in discrepancies.items():
            finite = x[np.isfinite(x)]
            max_abs = float(np.max(np.abs(finite))) if finite.size else 0.0
            out(label, f"v{v}", "discrepancy", n, "ok" if max_abs < 1e-9 else f"{max_abs:.3g}", "num_nan", int(np.sum(~np.isfinite(x))))


def create_plan(m, span, kind, ):
    span = tuple(span)
    p = ir.SimulationPlan(m, span, )
    if kind == "empty":
        pass
    elif kind == "direct":
        p.exogenize(span[1:4], "a", )
        p.exogenize(span[2], ("b", "h", ), )
    elif kind == "transforms":
        p.exogenize(span[0:3], "b", transform="log", )
        p.exogenize(span[1:5], "c", transform="diff", )
        p.exogenize(span[2:6], "d", transform="diff_log", )
        p.exogenize(span[0:2], "e", transform="roc", )
        p.exogenize(span[3:], "f", transform="pct", )
        p.exogenize(span[4:6], "a", transform="flat", )
        p.exogenize(span[6:7], "a", name_format="my_{}_tune", )
        p.exogenize(span[-1:], "h", transform="level", )
    elif kind == "when_data":
        p.exogenize(..., "a", when_data=True, )
        p.exogenize(..., ("c", "f"), transform="diff", when_data=True, )
        p.exogenize(span[2:], "f", transform="pct", when_data=True, )
        p.exogenize(span[0:5], "d", transform="difflog", when_data=None, )
    elif kind == "all":
        p.exogenize(..., ..., )
    elif kind == "overwrite":
        p.exogenize(..., "b", transform="log", )
        p.exogenize(span[2:4], "b", transform="roc", shift=-2, )
        p.exogenize(span[3:5], "b", transform=plan_transforms.PlanTransformPct(when_data=True, ), )
    return p


def describe_plan(label, p, span, ):
    span = tuple(span)
    out(label, "pretty")
    for line in str(p).splitlines():
        out(label, "  ", line.rstrip())
    out(label, "databox_names", sorted(p.get_databox_names()))
    out(label, "is_empty", p.is_empty)
    out(label, "start_end", str(p.start), str(p.end), p.num_periods, str(p.frequency))
    out(label, "can_be_exogenized", p.can_be_exogenized)
    exogenized = p.get_exogenized()
    out(label, "get_exogenized", {k: tuple(str(t) for t in v) for k, v in exogenized.items()})
    for n in p.can_be_exogenized:
        out(label, "points", n, [repr(p.get_exogenized_point(n, t, )) for t in span])
    out(label, "bool_array", p.get_register_as_bool_array("exogenized", ).astype(int).tolist())
    out(label, "in_period", [p.get_exogenized_in_period(t) if hasattr(p, "get_exogenized_in_period") else None for t in span[:3]])


def section_simulate(label, start, num_periods, num_variants=1, ):
    out("== simulate", label)
    span = tuple(start + i for i in range(num_periods))
    ext_span = tuple(start - 4 + i for i in range(num_periods + 6))
    m = create_model(num_variants, )
    db = create_databox(start, num_periods, )
    # Missing values in the inputs for when_data
    db_missing = db.copy()
    a_missing = db_missing["a"].copy()
    a_missing[span[3]] = np.nan
    a_missing.clip(None, span[6], )
    db_missing["a"] = a_missing
    diff_c_missing = db_missing["diff_c"].copy()
    diff_c_missing[span[1]] = np.nan
    db_missing["diff_c"] = diff_c_missing
    del db_missing["pct_f"]
    #
    for kind in ("empty", "direct", "transforms", "when_data", "all", "overwrite", ):
        p = attempt(f"{label} plan {kind}", lambda: create_plan(m, span, kind, ))
        if p is None:
            continue
        attempt(f"{label} describe {kind}", lambda: describe_plan(f"{label} plan {kind}", p, span, ))
        for order in ("dates_equations", "equations_dates", ):
            for sfd in (True, False, ):
                for input_db, input_label in ((db, "full"), (db_missing, "missing"), ):
                    if kind not in ("when_data", "direct", ) and input_label == "missing" and sfd:
                        continue
                    run_label = f"{label} {kind} {order} sfd={int(sfd)} {input_label}"
                    def run():
                        return m.simulate(
                            input_db, span,
                            plan=p,
                            execution_order=order,
                            shocks_from_data=sfd,
                            when_simulates_nan="silent",
                            return_info=True,
                        )
                    result = attempt(run_label, run, )
                    if result is None:
                        continue
                    s, info = result
                    out(run_label, "info", info)
                    digest_databox(run_label, s, ext_span, )
                    check_equations(run_label, m, s, span, )


def section_options():
    out("== options")
    start = ir.qq(2021, 3)
    span = tuple(start + i for i in range(6))
    ext_span = tuple(start - 4 + i for i in range(12))
    m = create_model()
    db = create_databox(start, 6, seed=5, )
    p = create_plan(m, span, "transforms", )
    # No plan at all
    s = m.simulate(db, span, )
    digest_databox("noplan", s, ext_span, )
    # Parameters from data
    db2 = db.copy()
    db2["rho"] = 0.5
    db2["ss"] = ir.Series(start_date=start-4, values=tuple(1 + 0.1*i for i in range(12)), )
    s = attempt("params_from_data", lambda: m.simulate(db2, span, plan=p, parameters_from_data=True, ))
    if s is not None:
        digest_databox("params_from_data", s, ext_span, )
    s = m.simulate(db2, span, plan=p, parameters_from_data=False, )
    digest_databox("params_not_from_data", s, ext_span, )
    # prepend, remove_initial, remove_terminal, target_db
    for prepend_input in (True, False):
        for remove_initial in (True, False):
            s = m.simulate(
                db, span, plan=p,
                prepend_input=prepend_input,
                remove_initial=remove_initial,
                remove_terminal=not remove_initial,
            )
            digest_databox(f"prepend={int(prepend_input)} remove_initial={int(remove_initial)}", s, ext_span, )
    target = ir.Databox()
    target["extra"] = 1
    target["a"] = "to be overwritten"
    s = m.simulate(db, span, plan=p, target_db=target, )
    digest_databox("target_db", s, ext_span, )
    # Slatable
    for pfd in (True, False):
        for sfd in (True, False):
            sl = m.slatable_for_simulate(parameters_from_data=pfd, shocks_from_data=sfd, )
            out(
                "slatable", int(pfd), int(sfd),
                sl.max_lag, sl.max_lead,
                tuple(sl.databox_names), sl.descriptions, sl.databox_validators,
                list(sl.fallbacks.items()), list(sl.overwrites.items()),
                sl.qid_to_logly, tuple(sl.output_names),
            )
    # Errors
    attempt("wrong_span", lambda: m.simulate(db, span[1:], plan=p, ))
    attempt("exogenize_bad_date", lambda: p.exogenize(span[-1] + 1, "a", ))
    attempt("exogenize_bad_name", lambda: p.exogenize(span[0], "g", ))
    attempt("exogenize_bad_name2", lambda: p.exogenize(span[0], ("a", "nonexistent"), ))
    attempt("exogenize_bad_transform", lambda: p.exogenize(span[0], "a", transform="xyz", ))
    attempt("bad_order", lambda: m.simulate(db, span, execution_order="neither", ))
    db3 = db.copy()
    del db3["log_b"]
    attempt("missing_transform_series_error", lambda: digest_databox("missing_log_b", m.simulate(db3, span, plan=p, when_simulates_nan="silent", ), ext_span, ))
    db4 = db.copy()
    db4["z"] = ir.Series(start_date=start-4, values=(np.nan, )*12, )
    attempt("nan_error", lambda: m.simulate(db4, span, plan=p, when_simulates_nan="error", ))
    with warnings.catch_warnings(record=True) as caught:
        warnings.simplefilter("always")
        attempt("nan_warning", lambda: m.simulate(db4, span, when_simulates_nan="warning", ))
        out("nan_warning_messages", sorted(str(w.message).replace("\n", " // ") for w in caught if "irispie" in str(w.category).lower() or "nan or inf" in str(w.message)))
    # Legacy option
    attempt("legacy_when_nonfinite", lambda: m.simulate(db4, span, when_nonfinite="error", ))
    # Plan on a model with exogenized data through ellipsis dates
    p2 = ir.SimulationPlan(m, span, )
    p2.exogenize(..., ("a", "b"), transform="roc", when_data=True, )
    p2.exogenize((span[4], span[1], ), "e", transform="pct", )
    describe_plan("ellipsis_plan", p2, span, )
    dbx = db.copy()
    dbx["pct_e"] = ir.Series(start_date=span[0], values=(1.0, 2.0, 3.0, 4.0, 5.0, 6.0), )
    dbx["roc_a"] = ir.Series(start_date=span[1], values=(1.1, np.nan, 0.9), )
    for order in ("dates_equations", "equations_dates", ):
        s = m.simulate(dbx, span, plan=p2, execution_order=order, )
        digest_databox(f"ellipsis_plan {order}", s, ext_span, )
        check_equations(f"ellipsis_plan {order}", m, s, span, )
    # Various ways of specifying periods and names
    p4 = ir.SimulationPlan(m, span, )
    attempt("contextual_span", lambda: p4.exogenize(ir.start+1 >> ir.end-2, "a", transform="log", ))
    attempt("contextual_period", lambda: p4.exogenize(ir.end, ("b", "c", ), transform="diff", ))
    attempt("contextual_out_of_span", lambda: p4.exogenize(ir.end+1, "b", ))
    attempt("single_period", lambda: p4.exogenize(span[2], "d", ))
    attempt("span_object", lambda: p4.exogenize(span[1] >> span[3], "f", transform="roc", when_data=True, ))
    attempt("reversed_span_object", lambda: p4.exogenize(ir.Span(span[4], span[2], -1), "h", transform="flat", ))
    attempt("generator_periods", lambda: p4.exogenize((t for t in span[:2]), "e", ))
    attempt("empty_periods", lambda: p4.exogenize((), "f", transform="log", ))
    attempt("empty_names", lambda: p4.exogenize(..., (), ))
    attempt("duplicates", lambda: p4.exogenize((span[0], span[0], ), ("h", "h", ), transform="pct", ))
    attempt("bad_name_and_bad_date", lambda: p4.exogenize(span[-1] + 3, "nonexistent", ))
    attempt("bad_transform_and_bad_name", lambda: p4.exogenize(span[0], "nonexistent", transform="xyz", ))
    attempt("describe contextual_plan", lambda: describe_plan("contextual_plan", p4, span, ))
    s = attempt("contextual_plan simulate", lambda: m.simulate(dbx, span, plan=p4, when_simulates_nan="silent", ))
    if s is not None:
        digest_databox("contextual_plan", s, ext_span, )
        check_equations("contextual_plan", m, s, span, )
    # Plan with an empty span
    p5 = attempt("empty_span_plan", lambda: ir.SimulationPlan(m, (), ))
    if p5 is not None:
        attempt("empty_span_plan empty periods", lambda: p5.exogenize((), "a", ))
        attempt("empty_span_plan ellipsis", lambda: p5.exogenize(..., ..., transform="log", ))
        attempt("empty_span_plan period", lambda: p5.exogenize(span[0], "a", ))
        attempt("empty_span_plan get_exogenized", lambda: out("empty_span_plan", p5.get_exogenized(), p5.get_databox_names(), p5.num_periods))
    # Copy of plan is independent
    p3 = p2.copy()
    p3.exogenize(span[0], "h", )
    out("copy_independent", p2.get_exogenized()["h"], tuple(str(t) for t in p3.get_exogenized()["h"]))


def section_order_matters():
    """
    Model in which the first equation reads the lag of a variable determined
    by a later equation so that the two execution orders differ
    """
    out("== order matters")
    source = r"""
    !equations
        x = 0.5*y[-1] + 1;
        log(y) = 0.3*x + 0.1*log(y[-1]);
        diff(w) = 0.2*y - 0.1*w[-1];
        v === x + y + w;
    """
    m = ir.Sequential.from_string(source, )
    for start in (ir.qq(2020, 1), ir.dd(2019, 12, 29), ir.hh(2020, 1), ):
        span = tuple(start + i for i in range(7))
        ext_span = tuple(start - 2 + i for i in range(10))
        db = ir.Databox()
        db["x"] = ir.Series(start_date=start-1, values=(1.0, ), )
        db["y"] = ir.Series(start_date=start-1, values=(1.5, 1.2, 1.3, np.nan, 1.1, ), )
        db["w"] = ir.Series(start_date=start-1, values=(0.2, ), )
        db["res_x"] = ir.Series(start_date=start, values=(0.1, -0.1, 0.0, 0.2, ), )
        db["diff_w"] = ir.Series(start_date=start+2, values=(0.05, np.nan, -0.05, ), )
        p = ir.SimulationPlan(m, span, )
        p.exogenize(span[1:5], "y", when_data=True, )
        p.exogenize(span[2:5], "w", transform="diff", when_data=True, )
        p.exogenize(span[5], "x", transform="flat", )
        describe_plan(f"order {start}", p, span, )
        for order in ("dates_equations", "equations_dates", ):
            for plan in (None, p, ):
                label = f"order {start} {order} plan={int(plan is not None)}"
                s, info = m.simulate(
                    db, span, plan=plan, execution_order=order,
                    when_simulates_nan="silent", return_info=True,
                )
                out(label, "info", info)
                digest_databox(label, s, ext_span, )


def main():
    section_order_matters()
    section_transforms()
    section_simulate("quarterly", ir.qq(2020, 1), 8, )
    section_simulate("daily", ir.dd(2020, 2, 26), 8, )
    section_simulate("yearly", ir.yy(2020), 8, )
    section_simulate("variants", ir.mm(2020, 11), 8, num_variants=3, )
    section_options()
    text = "\n".join(_LINES)
    print("DIGEST", hashlib.sha256(text.encode("utf-8")).hexdigest())


if __name__ == "__main__":
    main()

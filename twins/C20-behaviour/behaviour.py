"""
Behaviour digest for property C20: copies, pickles, portables and parameter
variants are independent, equivalent models.

Run as

    cd /tmp/wt/C20 && PYTHONPATH=/tmp/wt/C20/src /venv/bin/python /tmp/twin_out/C20/behaviour.py

and compare the printed output (or the final sha256 line) across source trees.
"""

import sys
import os
import io
import tempfile
import json
import pickle
import hashlib
import warnings
import contextlib

import numpy as np
import dill

warnings.filterwarnings("ignore")

import irispie as ir


_LINES = []


def out(*args):
    line = " ".join(str(a) for a in args)
    _LINES.append(line)
    print(line)


def fmt(x, nd=6):
    """Deterministic textual representation of (nested) numeric results"""
    if x is None:
        return "None"
    if isinstance(x, (bool, np.bool_)):
        return str(bool(x))
    if isinstance(x, str):
        return repr(x)
    if isinstance(x, (complex, np.complexfloating)):
        return f"({fmt(x.real, nd)}{fmt(x.imag, nd)}j)"
    if isinstance(x, (int, np.integer)):
        return str(int(x))
    if isinstance(x, (float, np.floating)):
        x = float(x)
        if x != x:
            return "nan"
        if x in (float("inf"), float("-inf")):
            return str(x)
        r = round(x, nd)
        if r == 0:
            r = 0.0
        return f"{r:+.{nd}f}"
    if isinstance(x, np.ndarray):
        return f"array{x.shape}[" + ",".join(fmt(i, nd) for i in x.flatten().tolist()) + "]"
    if isinstance(x, dict):
        return "{" + ", ".join(f"{k}: {fmt(v, nd)}" for k, v in x.items()) + "}"
    if isinstance(x, (list, tuple)):
        brackets = "[]" if isinstance(x, list) else "()"
        return brackets[0] + ", ".join(fmt(i, nd) for i in x) + brackets[1]
    if isinstance(x, (set, frozenset)):
        return "set(" + ", ".join(sorted(fmt(i, nd) for i in x)) + ")"
    return repr(x)


def quiet(func, *args, **kwargs):
    with contextlib.redirect_stdout(io.StringIO()), contextlib.redirect_stderr(io.StringIO()):
        return func(*args, **kwargs)


def attempt(label, func, *args, **kwargs):
    try:
        return quiet(func, *args, **kwargs)
    except Exception as exc:
        out(label, "raised", type(exc).__name__, str(exc)[:200].replace("\n", " | "))
        return None


# ----------------------------------------------------------------------------
# Models
# ----------------------------------------------------------------------------


SOURCE_NONLINEAR = r"""
!transition-variables
    "Productivity" a, "Output" y, z, r
!log-variables
    a, y
!transition-shocks
    "Productivity shock" shk_a, shk_z
!parameters
    alpha, rho, ss_roc_a, ss_r
!transition-equations
    "Prod" log(a) = log(a[-1]) + rho*(log(a[-1]) - log(a[-2])) + (1-rho)*log(ss_roc_a) + shk_a
        !! a = a[-1]*ss_roc_a;
    "Output" y = a^alpha * exp(z);
    z = rho*z[-1] + 0.1*(r[+1] - ss_r) + shk_z;
    r = 0.5*r[-1] + (1-0.5)*(ss_r + 2*(log(y)-log(y[-1]) - alpha*log(ss_roc_a)));
!measurement-variables
    obs_y, obs_r
!log-variables
    obs_y
!measurement-shocks
    shk_obs_y
!measurement-equations
    obs_y = y * exp(shk_obs_y);
    obs_r = r;
"""


SOURCE_LINEAR = r"""
!transition-variables
    x, y, z
!transition-shocks
    shk_x, shk_y, shk_z
!parameters
    rho_x, rho_y, ss_x, gamma
!transition-equations
    x = rho_x*x[-1] + (1-rho_x)*ss_x + shk_x;
    y = rho_y*y[-1] + gamma*x[+1] + shk_y;
    z = z[-1] + 0.5*x + shk_z;
!measurement-variables
    obs_x, obs_y, obs_z
!measurement-shocks
    shk_obs_x
!measurement-equations
    obs_x = x + shk_obs_x;
    obs_y = y;
    obs_z = z;
"""


SOURCE_FLAT_LOG = r"""
!variables
    x, y, z
!log-variables
    z
!shocks
    shk_x, shk_y, shk_z
!parameters
    rho, ss_x, ss_z
!equations
    x = rho*x[-1] + (1-rho)*ss_x + shk_x;
    y = x + shk_y;
    log(z) = rho*log(z[-1]) + (1-rho)*log(ss_z) + shk_z;
"""


SOURCE_SEQUENTIAL = r"""
!parameters
    c0, c1, ss_x
!equations
    x = c0*x[-1] + (1-c0)*ss_x + res_x;
    diff_log(y) = c1*diff_log(y[-1]) + (1-c1)*0.01 + res_y;
    z = x + y;
"""


SOURCE_CONTEXT = r"""
!variables
    x, y
!shocks
    shk_x
!parameters
    rho
!equations
    x = rho*x[-1] + (1-rho)*level() + shk_x;
    y = double(x);
"""


def level():
    return 1.5


def double(x):
    return 2*x


def make_linear(**kwargs):
    m = ir.Simultaneous.from_string(SOURCE_LINEAR, linear=True, **kwargs)
    m.assign(rho_x=0.8, rho_y=0.5, ss_x=1.5, gamma=0.3, )
    if not m.is_deterministic:
        m.assign(std_shk_x=0.1, std_shk_y=0.2, std_shk_z=0.05, std_shk_obs_x=0.3, )
    return m


def make_flat_log(**kwargs):
    m = ir.Simultaneous.from_string(SOURCE_FLAT_LOG, flat=True, **kwargs)
    m.assign(rho=0.8, ss_x=1.5, ss_z=3, x=1, y=1, z=2, )
    return m


def make_nonlinear(**kwargs):
    m = ir.Simultaneous.from_string(SOURCE_NONLINEAR, **kwargs)
    m.assign(alpha=0.35, rho=0.5, ss_roc_a=1.01, ss_r=2.0, )
    m.assign(a=(1, 1.01), y=(1, 1.0), z=0, r=1, obs_y=1, obs_r=1, )
    return m


# ----------------------------------------------------------------------------
# Digests
# ----------------------------------------------------------------------------


def digest_steady(label, m):
    out(label, "num_variants", m.num_variants, "is_singleton", m.is_singleton)
    out(label, "levels", fmt(m.get_steady_levels(output_type=dict, )))
    out(label, "changes", fmt(m.get_steady_changes(output_type=dict, )))
    out(label, "parameters", fmt(m.get_parameters(output_type=dict, )))
    if not m.is_deterministic:
        out(label, "stds", fmt(m.get_stds(output_type=dict, )))


def digest_solution(label, m):
    solutions = m.get_solution(unpack_singleton=False, )
    for vid, s in enumerate(solutions):
        if s is None:
            out(label, vid, "solution None")
            continue
        for n in ("T", "P", "K", "Z", "H", "D", ):
            out(label, vid, n, fmt(getattr(s, n), 5))
        out(label, vid, "eig_stab", [str(i) for i in s.eigenvalues_stability])
        out(label, vid, "abs_eig", fmt(sorted(round(abs(complex(i)), 5) for i in s.eigenvalues), 5))


def digest_databox(label, db, names, span, nd=5):
    for n in names:
        if n not in db:
            out(label, n, "missing")
            continue
        x = db[n]
        if hasattr(x, "get_data"):
            out(label, n, fmt(x.get_data(span, ), nd))
        else:
            out(label, n, fmt(x, nd))


def digest_simulation(label, m, span, shock_name, names, **kwargs):
    db = ir.Databox.steady(m, span, **{k: v for k, v in kwargs.items() if k in ("deviation", )})
    db[shock_name][span[0]] = 0.1
    sim = attempt(label + " simulate", m.simulate, db, span, **kwargs)
    if sim is None:
        return
    if isinstance(sim, tuple):
        sim = sim[0]
    digest_databox(label + " sim", sim, names, span)


def digest_invariant(label, m):
    out(label, "names", m.get_names())
    out(label, "kinds", [(q.human, q.kind.name, q.logly, q.description) for q in m.quantities])
    out(label, "log_status", fmt(dict(m.get_log_status())))
    out(label, "flags", (m.is_linear, m.is_flat, m.is_deterministic))
    out(label, "dynamic", m.get_dynamic_equations())
    out(label, "steady", m.get_steady_equations())
    out(label, "shifts", (m.max_lag, m.max_lead))
    out(label, "descript", repr(m.get_description()))


def digest_portable(label, p):
    out(label, "format", p["portable_format"])
    out(label, "source.description", repr(p["source"]["description"]))
    out(label, "source.flags", p["source"]["flags"])
    for q in p["source"]["quantities"]:
        out(label, "q", tuple(q))
    for e in p["source"]["equations"]:
        out(label, "e", tuple(e))
    out(label, "context", p["source"]["context"])
    for i, v in enumerate(p["variants"]):
        out(label, "v", i, fmt({k: tuple(x) for k, x in v.items()}))


# ----------------------------------------------------------------------------
# Scenarios
# ----------------------------------------------------------------------------


def roundtrips(m):
    """Yield (label, twin) for each duplicate mechanism"""
    yield "copy", m.copy()
    yield "pickle", pickle.loads(m.to_pickle_bytes())
    yield "dill", dill.loads(m.to_dill_bytes())
    yield "portable", type(m).from_portable(m.to_portable())
    yield "json", type(m).from_portable(json.loads(json.dumps(m.to_portable())))
    with tempfile.TemporaryDirectory() as folder:
        file_name = os.path.join(folder, "model.json")
        m.to_portable_file(file_name, )
        yield "jsonfile", type(m).from_portable_file(file_name, )
        file_name = os.path.join(folder, "model.pkl")
        m.to_pickle_file(file_name, )
        yield "pklfile", type(m).from_pickle_file(file_name, )


_NEEDS_SOLVE = ("portable", "json", "jsonfile", )


def scenario_linear(tag, **kwargs):
    span = ir.qq(2020, 1) >> ir.qq(2021, 4)
    names = ("x", "y", "z", "obs_x", "obs_y", "obs_z", )
    m = make_linear(**kwargs)
    digest_invariant(tag, m)
    quiet(m.steady)
    quiet(m.solve)
    digest_steady(tag + " orig", m)
    digest_solution(tag + " orig", m)
    digest_simulation(tag + " orig", m, span, "shk_x", names)
    digest_portable(tag + " orig.portable", m.to_portable())
    #
    for how, twin in roundtrips(m):
        label = f"{tag} {how}"
        digest_invariant(label, twin)
        if how in _NEEDS_SOLVE:
            # Portable does not carry the solution
            out(label, "solution before solve", twin.get_solution(unpack_singleton=False, )[0] is None)
            quiet(twin.solve)
        digest_steady(label, twin)
        digest_solution(label, twin)
        digest_simulation(label, twin, span, "shk_x", names)
        digest_portable(label + " twin.portable", twin.to_portable())
        #
        # Mutate the twin, check the original; mutate the original, check the twin
        twin.assign(rho_x=0.1, ss_x=-2, )
        quiet(twin.steady)
        quiet(twin.solve)
        twin.alter_num_variants(3, )
        out(label, "after twin mutation: orig rho_x", fmt(m["rho_x"]), "twin rho_x", fmt(twin["rho_x"]))
        out(label, "after twin mutation: orig nv", m.num_variants, "twin nv", twin.num_variants)
        out(label, "after twin mutation: orig T", fmt(m.get_solution().T, 5))
        out(label, "after twin mutation: twin T0", fmt(twin.get_solution()[0].T, 5))
        out(label, "identity", twin._invariant is m._invariant, any(a is b for a in twin._variants for b in m._variants))
    #
    twin = m.copy()
    m.assign(gamma=0.9, )
    quiet(m.solve)
    out(tag, "after orig mutation: orig gamma", fmt(m["gamma"]), "twin gamma", fmt(twin["gamma"]))
    out(tag, "after orig mutation: twin T", fmt(twin.get_solution().T, 5))
    out(tag, "after orig mutation: orig T", fmt(m.get_solution().T, 5))


def scenario_variants(tag, maker, param_draws, span, shock_name, names, steady_kwargs=None, sim_kwargs=None):
    steady_kwargs = steady_kwargs or (lambda model: {})
    sim_kwargs = sim_kwargs or {}
    num_variants = len(next(iter(param_draws.values())))
    multi = maker()
    multi.alter_num_variants(num_variants, )
    multi.assign(**param_draws, )
    attempt(tag + " multi steady", multi.steady, **steady_kwargs(multi))
    attempt(tag + " multi solve", multi.solve)
    digest_steady(tag + " multi", multi)
    digest_solution(tag + " multi", multi)
    digest_simulation(tag + " multi", multi, span, shock_name, names, **sim_kwargs)
    digest_portable(tag + " multi.portable", multi.to_portable())
    for vid in range(num_variants):
        single = maker()
        single.assign(**{k: v[vid] for k, v in param_draws.items()})
        attempt(tag + f" single{vid} steady", single.steady, **steady_kwargs(single))
        attempt(tag + f" single{vid} solve", single.solve)
        digest_steady(tag + f" single{vid}", single)
        digest_solution(tag + f" single{vid}", single)
        digest_simulation(tag + f" single{vid}", single, span, shock_name, names, **sim_kwargs)
        extracted = multi[vid]
        digest_steady(tag + f" multi[{vid}]", extracted)
        digest_solution(tag + f" multi[{vid}]", extracted)
        digest_simulation(tag + f" multi[{vid}]", extracted, span, shock_name, names, **sim_kwargs)
    #
    # get_variant with different selectors
    for vids in (0, -1, ..., slice(1, None), slice(None, None, -1), [num_variants-1, 0], ):
        sub = multi.get_variant(vids, )
        out(tag, "get_variant", repr(vids), sub.num_variants, fmt(sub.get_parameters(output_type=dict, unpack_singleton=False, )))
    #
    # Variants shared by reference with get_variant but not with copy
    sub = multi.get_variant(0, )
    out(tag, "get_variant shares", sub._variants[0] is multi._variants[0], sub._invariant is multi._invariant)
    #
    # Iteration over variants
    out(tag, "iter", [v.num_variants for v in multi], len(list(multi.iter_own_variants())))
    #
    # Shrink and expand
    twin = multi.copy()
    twin.alter_num_variants(1, )
    digest_steady(tag + " shrunk", twin)
    twin.alter_num_variants(num_variants + 2, )
    digest_steady(tag + " expanded", twin)
    digest_solution(tag + " expanded", twin)
    first_param = next(iter(param_draws.keys()))
    twin.assign(**{first_param: list(range(1, num_variants + 3))})
    out(tag, "expanded independent", fmt(twin.get_parameters(output_type=dict, )[first_param]), fmt(multi.get_parameters(output_type=dict, )[first_param]))
    out(tag, "expanded variants distinct", len({id(v) for v in twin._variants}), len({id(v.levels) for v in twin._variants}))
    twin.alter_num_variants(num_variants + 2, )
    out(tag, "same-size alter", twin.num_variants)
    for bad in (0, -1, ):
        try:
            twin.alter_num_variants(bad, )
            out(tag, "alter", bad, "ok", twin.num_variants)
        except Exception as exc:
            out(tag, "alter", bad, "raised", type(exc).__name__, str(exc))
    #
    # Round trips of the multivariant model
    for how, dup in roundtrips(multi):
        label = f"{tag} multi-{how}"
        if how in _NEEDS_SOLVE:
            attempt(label + " solve", dup.solve)
        digest_steady(label, dup)
        digest_solution(label, dup)
        digest_simulation(label, dup, span, shock_name, names, **sim_kwargs)


def scenario_context(tag):
    """Model with user functions in the context"""
    span = ir.qq(2020, 1) >> ir.qq(2020, 4)
    m = ir.Simultaneous.from_string(
        SOURCE_CONTEXT, linear=True,
        context={"level": level, "double": double, },
        description="Context model",
    )
    m.alter_num_variants(2, )
    m.assign(rho=[0.5, 0.9], )
    quiet(m.steady)
    quiet(m.solve)
    digest_invariant(tag + " orig", m)
    out(tag, "orig context keys", sorted(m.get_context().keys()))
    digest_steady(tag + " orig", m)
    digest_solution(tag + " orig", m)
    digest_simulation(tag + " orig", m, span, "shk_x", ("x", "y", ))
    digest_portable(tag + " orig.portable", m.to_portable())
    for how, twin in roundtrips(m):
        label = f"{tag} {how}"
        digest_invariant(label, twin)
        out(label, "context keys", sorted(twin.get_context().keys()))
        out(label, "context shared", twin.get_context() is m.get_context())
        digest_portable(label + " twin.portable", twin.to_portable())
        if how in _NEEDS_SOLVE:
            # Portable context does not carry the functions themselves
            out(label, "context values", [twin.get_context()[k] for k in sorted(twin.get_context().keys())])
            digest_steady(label, twin)
            continue
        twin.assign(rho=[0.2, 0.3], )
        quiet(twin.steady)
        quiet(twin.solve)
        digest_steady(label, twin)
        digest_solution(label, twin)
        digest_simulation(label, twin, span, "shk_x", ("x", "y", ))
    digest_steady(tag + " orig after", m)
    digest_solution(tag + " orig after", m)


def scenario_interleavings(tag):
    """Interleave assign/solve/steady/alter_num_variants on an original and copies"""
    a = make_linear()
    b = a.copy()
    a.alter_num_variants(2, )
    c = a.copy()
    a.assign(rho_x=[0.2, 0.4], )
    b.assign(rho_x=0.6, )
    quiet(b.steady)
    c.assign(rho_x=[0.7, 0.9], ss_x=[1, (2, 0)], )
    quiet(a.steady)
    quiet(a.solve)
    d = pickle.loads(pickle.dumps(a))
    e = a.copy()
    quiet(c.steady)
    quiet(c.solve)
    quiet(b.solve)
    c.alter_num_variants(1, )
    d.assign(gamma=[0.1, 0.2], )
    quiet(d.solve)
    e.alter_num_variants(4, )
    e.assign(rho_y=[0.1, 0.2, 0.3, 0.4], )
    quiet(e.solve)
    for name, m in (("a", a), ("b", b), ("c", c), ("d", d), ("e", e), ):
        digest_steady(f"{tag} {name}", m)
        digest_solution(f"{tag} {name}", m)
    f = e.copy()
    g = dill.loads(dill.dumps(e))
    for name, m in (("f", f), ("g", g), ):
        digest_steady(f"{tag} {name}", m)
        digest_solution(f"{tag} {name}", m)


def scenario_kalman(tag):
    m = make_linear()
    m.alter_num_variants(2, )
    m.assign(rho_x=[0.8, 0.5], std_shk_x=[0.1, 0.4], )
    quiet(m.steady)
    quiet(m.solve)
    start = ir.qq(2020, 1)
    span = start >> start + 11
    rng = np.random.default_rng(12345)
    db = ir.Databox()
    obs_x = 1.5 + rng.standard_normal(12) * 0.3
    obs_y = rng.standard_normal(12) * 0.2
    obs_x[3] = np.nan
    obs_y[7] = np.nan
    db["obs_x"] = ir.Series(start=start, values=obs_x, )
    db["obs_y"] = ir.Series(start=start, values=obs_y, )
    # obs_z is left out completely
    names = ("x", "y", "obs_x", "obs_y", "shk_x", )

    def run(label, model):
        res = attempt(label + " kalman", model.kalman_filter, db, span, diffuse_scale=1e8, return_info=True, )
        if res is None:
            return
        out_data, info = res if isinstance(res, tuple) else (res, None)
        for part in ("smooth_med", "predict_med", "update_med", "smooth_std", ):
            try:
                sub = getattr(out_data, part)
            except Exception:
                try:
                    sub = out_data[part]
                except Exception:
                    out(label, part, "unavailable")
                    continue
            digest_databox(f"{label} {part}", sub, names, span, nd=4)
        for vid, info_v in enumerate(_aslist(info)):
            for k in ("neg_log_likelihood", "var_scale", ):
                out(label, vid, k, fmt(info_v[k], 4))

    run(tag + " orig", m)
    for how, twin in roundtrips(m):
        if how in _NEEDS_SOLVE:
            quiet(twin.solve)
        run(f"{tag} {how}", twin)
    for vid in range(2):
        run(f"{tag} multi[{vid}]", m[vid])
        single = make_linear()
        single.assign(rho_x=[0.8, 0.5][vid], std_shk_x=[0.1, 0.4][vid], )
        quiet(single.steady)
        quiet(single.solve)
        run(f"{tag} single{vid}", single)


def scenario_sequential(tag):
    m = ir.Sequential.from_string(SOURCE_SEQUENTIAL, description="Sequential test", )
    m.assign(c0=0.8, c1=0.5, ss_x=2, )
    start = ir.qq(2020, 1)
    span = start >> start + 7
    db = ir.Databox()
    db["x"] = ir.Series(start=start-1, values=(1.0, ), )
    db["y"] = ir.Series(start=start-2, values=(10.0, 10.2, ), )
    db["res_x"] = ir.Series(start=start, values=(0.1, 0, 0, -0.2, ), )
    names = ("x", "y", "z", )

    def run(label, model):
        out(label, "nv", model.num_variants, "params", fmt(model.get_parameters(output_type=dict, ) if _accepts_output_type(model) else dict(model.get_parameters())))
        out(label, "eqs", model.get_equations() if hasattr(model, "get_equations") else None)
        sim = attempt(label + " simulate", model.simulate, db, span, when_nonfinite="silent", )
        if sim is None:
            return
        if isinstance(sim, tuple):
            sim = sim[0]
        digest_databox(label + " sim", sim, names, span)

    run(tag + " orig", m)
    twins = {
        "copy": m.copy(),
        "pickle": pickle.loads(pickle.dumps(m)),
        "dill": dill.loads(dill.dumps(m)),
    }
    for how, twin in twins.items():
        run(f"{tag} {how}", twin)
        twin.assign(c0=0.1, )
        out(f"{tag} {how}", "independent", fmt(dict(m.get_parameters())["c0"]), fmt(dict(twin.get_parameters())["c0"]))
        out(f"{tag} {how}", "identity", twin._invariant is m._invariant, twin._variants[0] is m._variants[0])
    #
    multi = m.copy()
    multi.alter_num_variants(3, )
    for vid, multi_v in enumerate(multi.iter_own_variants()):
        # Sequential.assign broadcasts the same value to all variants;
        # iter_own_variants shares the variants by reference
        multi_v.assign(c0=[0.2, 0.5, 0.9][vid], ss_x=[1, 2, 3][vid], )
    run(tag + " multi", multi)
    for vid in range(3):
        single = m.copy()
        single.assign(c0=[0.2, 0.5, 0.9][vid], ss_x=[1, 2, 3][vid], )
        run(f"{tag} single{vid}", single)
        run(f"{tag} multi[{vid}]", multi.get_variant(vid, ))
    dup = pickle.loads(pickle.dumps(multi))
    run(tag + " multi-pickle", dup)
    dup = multi.copy()
    dup.alter_num_variants(2, )
    dup.assign(c1=0.25, )
    run(tag + " multi-copy-shrunk", dup)
    run(tag + " multi-after", multi)


def _accepts_output_type(model):
    try:
        model.get_parameters(output_type=dict, )
        return True
    except TypeError:
        return False


def scenario_redvar(tag):
    rng = np.random.default_rng(2024)
    num = 80
    start = ir.qq(2000, 1)
    span = start >> start + num - 1
    e = rng.standard_normal((num, 2))
    a = np.zeros(num)
    b = np.zeros(num)
    for t in range(1, num):
        a[t] = 0.5 + 0.6*a[t-1] + 0.1*b[t-1] + e[t, 0]
        b[t] = -0.2 + 0.2*a[t-1] + 0.3*b[t-1] + 0.5*e[t, 1]
    db = ir.Databox()
    db["a"] = ir.Series(start=start, values=a, )
    db["b"] = ir.Series(start=start, values=b, )
    v = ir.RedVAR(["a", "b"], order=2, )
    empty_copy = v.copy()
    out(tag, "empty copy", empty_copy.num_variants, empty_copy._variants[0].system.A is None)
    est = quiet(v.estimate, db, span, omit_missing=True, )
    sim_span = span[-1] + 1 >> span[-1] + 6

    def run(label, model):
        out(label, "nv", model.num_variants)
        systems = model.get_system_matrices(unpack_singleton=False, )
        for vid, s in enumerate(systems):
            out(label, vid, "A", fmt(s.A, 5))
            out(label, vid, "c", fmt(s.c, 5))
            out(label, vid, "cov", fmt(s.cov_residuals, 5))
        out(label, "mean", fmt(model.get_mean(), 5))
        out(label, "acov", fmt(model.get_acov(up_to_order=1, ), 5))
        out(label, "eig", fmt([sorted(round(abs(complex(i)), 5) for i in x) for x in _aslist(model.get_eigenvalues(unpack_singleton=False, ))], 5) if hasattr(model, "get_eigenvalues") else None)
        sim = attempt(label + " simulate", model.simulate, db, sim_span, prepend_input=False, )
        if sim is None:
            return
        if isinstance(sim, tuple):
            sim = sim[0]
        digest_databox(label + " sim", sim, ("a", "b", ), sim_span)

    run(tag + " orig", v)
    twins = {
        "copy": v.copy(),
        "pickle": pickle.loads(pickle.dumps(v)),
        "dill": dill.loads(dill.dumps(v)),
    }
    for how, twin in twins.items():
        run(f"{tag} {how}", twin)
        out(f"{tag} {how}", "identity", twin._invariant is v._invariant, twin._variants[0] is v._variants[0], twin._variants[0].system.A is v._variants[0].system.A)
        twin._variants[0].system.A[0, 0] = 99
        out(f"{tag} {how}", "independent", fmt(v._variants[0].system.A[0, 0], 5), fmt(twin._variants[0].system.A[0, 0], 5))
    w = v.copy()
    w.alter_num_variants(3, )
    run(tag + " expanded", w)
    out(tag, "expanded distinct", len({id(x) for x in w._variants}), len({id(x.system.A) for x in w._variants}))
    w.alter_num_variants(2, )
    out(tag, "shrunk", w.num_variants, v.num_variants)


def _nonlinear_steady_kwargs(model):
    plan = ir.SteadyPlan(model, )
    plan.fix_level("a", )
    return {"plan": plan, }


def _aslist(x):
    return x if isinstance(x, list) else [x]


def main():
    span_q = ir.qq(2020, 1) >> ir.qq(2021, 4)
    #
    scenario_linear("LIN")
    scenario_linear("LIN-DET", deterministic=True, )
    scenario_linear("LIN-FLAT", flat=True, )
    #
    scenario_variants(
        "LINV", make_linear,
        {"rho_x": [0.8, 0.3, 0.95], "ss_x": [1.5, -1.0, 0.0], "gamma": [0.3, 0.0, -0.2], },
        span_q, "shk_x", ("x", "y", "z", "obs_x", ),
    )
    scenario_variants(
        "LINV-DEV", make_linear,
        {"rho_x": [0.8, 0.3], "rho_y": [0.1, 0.7], },
        span_q, "shk_y", ("x", "y", "z", ),
        sim_kwargs={"deviation": True, },
    )
    scenario_variants(
        "FLATLOG", make_flat_log,
        {"rho": [0.8, 0.5], "ss_x": [1.5, 2.5], "ss_z": [3.0, 0.5], },
        ir.mm(2021, 1) >> ir.mm(2021, 8), "shk_z", ("x", "y", "z", ),
        steady_kwargs=lambda model: {"optim_settings": {"factor": 0.1}, },
    )
    scenario_variants(
        "FLATLOG-STACKED", make_flat_log,
        {"rho": [0.8, 0.5], "ss_z": [3.0, 0.5], },
        ir.dd(2021, 1, 30) >> ir.dd(2021, 2, 5), "shk_x", ("x", "y", "z", ),
        steady_kwargs=lambda model: {"optim_settings": {"factor": 0.1}, },
        sim_kwargs={"method": "stacked_time", "when_fails": "silent", },
    )
    scenario_variants(
        "NONLIN", make_nonlinear,
        {"alpha": [0.35, 0.30], "ss_roc_a": [1.01, 1.0], "rho": [0.5, 0.0], },
        ir.yy(2020) >> ir.yy(2027), "shk_a", ("a", "y", "z", "r", "obs_y", "obs_r", ),
        steady_kwargs=_nonlinear_steady_kwargs,
    )
    scenario_variants(
        "NONLIN-PERIOD", make_nonlinear,
        {"alpha": [0.35, 0.30], "ss_r": [2.0, 0.5], },
        ir.hh(2020, 1) >> ir.hh(2022, 2), "shk_z", ("a", "y", "z", "r", ),
        steady_kwargs=_nonlinear_steady_kwargs,
        sim_kwargs={"method": "period", "when_fails": "silent", },
    )
    #
    scenario_context("CTX")
    scenario_interleavings("MIX")
    scenario_kalman("KF")
    scenario_sequential("SEQ")
    scenario_redvar("VAR")
    #
    digest = hashlib.sha256("\n".join(_LINES).encode("utf-8")).hexdigest()
    print("SHA256", digest, "LINES", len(_LINES))


if __name__ == "__main__":
    main()

"""
Deterministic behavioural digest for property C04 (model source text -> equations).

Run with

    cd /tmp/wt2/C04 && PYTHONPATH=/tmp/wt2/C04/src /venv/bin/python /tmp/twin2_out/C04/behaviour.py

The output must be byte-identical on the untouched worktree and with each
of the twin diffs applied.
"""

import os
import sys

# Some orderings inside the library are set-based (rhs-only names of Sequential,
# !list expansion); pin the string hash seed so that the digest is deterministic
if os.environ.get("PYTHONHASHSEED") != "0":
    os.environ["PYTHONHASHSEED"] = "0"
    os.execv(sys.executable, [sys.executable] + sys.argv)

import warnings
warnings.simplefilter("ignore")

import hashlib
import random
import re

import numpy as np

import irispie as ir
from irispie import equations as eq_mod
from irispie import quantities as qty_mod
from irispie.parsers import preparser as pre_mod
from irispie.parsers import _shifts as shifts_mod
from irispie.parsers import _pseudofunctions as pseudo_mod


_ALL_LINES = []


def out(*args):
    line = " ".join(str(a) for a in args)
    _ALL_LINES.append(line)
    print(line)


def attempt(func, *args, **kwargs):
    """Return repr of result, or a tag describing the exception type."""
    try:
        return func(*args, **kwargs)
    except BaseException as exc:
        return f"<<{type(exc).__name__}>>"


# ---------------------------------------------------------------------------
# A. Low-level public entry points of the translation chain
# ---------------------------------------------------------------------------

out("=== A1 standardize_time_shifts")
for s in [
    "x{-1}", "x{+1}", "x{ - 1 }", "x{1}", "x{}", "x {-1}", "x{-1}{+2}", "?{-1}", "?(a){-1}",
    "x{a}", "x{-1} + y{+10} - z{ 0 }", "{-1}", "x_1{-1}", "x{\n-1\n}", "x{-1", "x[-1]{-1}",
    "x{--1}", "x{+-1}", "x{1 2}", "9{-1}", "_{-1}", "x{-1}}", "x{{-1}}", "", "é{-1}",
]:
    out(repr(s), "->", repr(attempt(shifts_mod.standardize_time_shifts, s)))

out("=== A2 resolve_pseudofunctions")
_PSEUDO_INPUTS = [
    "diff(x)", "diff(x,-1)", "diff(x, -4)", "diff(x,+1)", "diff(x, 2)", "diff(x,0)", "diff(x, )",
    "diff(x[-1])", "diff(x[+2], -3)", "diff(x[ - 1 ], - 2)", "diff(x[-1],+1)", "diff(x[1],-1)",
    "difflog(x)", "diff_log(x*y[-1], -4)", "pct(x)", "pct(x+y, -4)", "roc(x)", "roc(x[+1],-2)",
    "shift(x)", "shift(x, 3)", "shift(x[-3], 3)", "shift(x,0)", "shift(x[0], 0)", "shift(x[+0])",
    "mov_sum(x)", "movsum(x, -2)", "mov_sum(x, 3)", "mov_sum(x, 0)", "mov_sum(x, 1)", "mov_sum(x,-1)",
    "mov_avg(x)", "movavg(x, -3)", "mov_avg(x[+1]*a, 2)", "mov_avg(x, 0)", "mov_avg(x,-1)",
    "mov_prod(x)", "movprod(x,-2)", "mov_prod(x[-1], 3)", "mov_prod(x, 0)", "mov_prod(x, 1)",
    "diff(log(x))", "diff(log(x)+exp(y[-1]))", "diff(log(x), -2)", "diff(a*(x+y[-1]), -2)",
    "diff(log(exp(x)))", "diff(x) + diff(y, -2) * pct(z[+1])", "mydiff(x)", "diff (x)", "diff(x,y)",
    "diff(x, -1, -2)", "diff()", "diff(x,)", "diff(x2_y[-1]+3*x1)", "diff(1 + 2*x)", "diff(x1e5)",
    "diff(x[-1]+f(y))", "diff(f(y)+g[-1])", "diff(x, --1)", "diff(x, 1.5)", "diff(x, - 1)",
    "diff(x[+-1])", "diff(x[--1])", "diff(x[1 2])", "diff(x[ ])", "diff(x[-1][+1])", "diff(x,\n-2)",
    "pct(x[\n-1\n], -1)", "diff(diff(x))", "diff(_x)", "diff(X_1[-10], +10)", "diff(x[-10], 10)",
    "diff(x[10], -10)", "x + shift(y, -2) - shift(z[+2], -2)", "roc(x, -0)", "pct(x, 00)",
    "pct(x, 007)", "diff(x[007])", "diff(x[00])",
]
for s in _PSEUDO_INPUTS:
    out(repr(s), "->", repr(attempt(pseudo_mod.resolve_pseudofunctions, s)))

out("=== A3 QUANTITY_OCCURRENCE_PATTERN / generate_names_from_human")
_HUMANS = [
    "x = a*x[-1] + (1-a)*x[+1] + eps_x",
    "log(x) - log(x[-1]) = b*exp(y[+12]) ^ 2",
    "x:=y", "x=y!!x=1", "x1e5 + 1e5 + 2.5e-3*y", "f(x)+g (y)+h[-1](z)", "x[-1][+1]", "x[--1]",
    "x[+-1] + y", "x[] + y[ -1]", "_x + x_ + __", "X+x", "x[1]+x[+1]+x[01]", "x[-0]+x[+0]+x[0]",
    "", "   ", "1+2", "a.b + c", "a&b | c", "é + x", "x[-1]y[+1]", "x [-1]", "max(x, y[-1])",
    "x[1-2]", "x[+]", "x[-]",
]
for s in _HUMANS:
    out(repr(s))
    out("   findall :", qty_mod.QUANTITY_OCCURRENCE_PATTERN.findall(s))
    out("   names   :", attempt(lambda: list(eq_mod.generate_names_from_human(s))))
out("names(None):", attempt(eq_mod.generate_names_from_human, None))
out("pattern groups:", qty_mod.QUANTITY_OCCURRENCE_PATTERN.groups)


class _Eq:
    def __init__(self, human):
        self.human = human


out("all names:", list(eq_mod.generate_all_names_from_equations([_Eq(h) for h in _HUMANS[:6]])))
out("name_to_qid:", eq_mod.create_name_to_qid_from_equations([_Eq(h) for h in _HUMANS[:6]]))

out("=== A4 xtring_from_human")
for s in _HUMANS:
    names = sorted(set(f[0] for f in qty_mod.QUANTITY_OCCURRENCE_PATTERN.findall(s)))
    name_to_id = {n: 3 * i + 1 for i, n in enumerate(names)}

    def _run():
        xtring, incidence, tokens = eq_mod.xtring_from_human(s, name_to_id)
        return xtring, sorted(incidence), list(tokens), type(incidence).__name__, type(tokens).__name__
    out(repr(s), "->", attempt(_run))
out("undeclared:", attempt(eq_mod.xtring_from_human, "x + y[-1]", {"x": 0}))
out("undeclared+bad shift:", attempt(eq_mod.xtring_from_human, "y[+-1] + x", {"x": 0}))
out("bad shift then undeclared:", attempt(eq_mod.xtring_from_human, "x[+-1] + y", {"x": 0}))
out("None:", attempt(eq_mod.xtring_from_human, None, {"x": 0}))
e = eq_mod.Equation(id=0, human="x[-1] := x[+2] ^ a - f(x) === 3", kind=eq_mod.EquationKind.TRANSITION_EQUATION)
e.finalize({"x": 5, "a": 2})
out("finalized:", e.xtring, sorted(e.incidence))


# ---------------------------------------------------------------------------
# B. Preparser on whole source strings
# ---------------------------------------------------------------------------

out("=== B preparser.from_string")
_PREPARSER_CASES = [
    # line comments of every kind, kept #! and %! comments, quoted strings
    ('''
!transition-variables
    "Output % gap # one" x, y   % comment one "quoted in comment"
    z # comment two
!transition-equations
    x = y ... continuation comment
      + z; \\ backslash comment
    #! kept hash-bang comment
    %! kept percent-bang comment
    "A ... B \\ C" y = x{-1}; % "x"
    z = 1; # done
''', None),
    # block comments
    ('''
%{ block
comment with x{-1} %}
!variables x #{ inline block #} y
%{ mismatched #} still inside %}
!equations
    x = %{ a %} 1 #{ b
    c #} + y{+1};
    %{ first %} y = 2; %{ second %}
    #{ never closed
''', None),
    ('x %{ a #} b %} c #{ d %} e #} f', None),
    ('"un%closed\n% comment\n"" # x\n"a" "b%" % c', None),
    ('x = "..." + ...\n y; \\\\ z\n%!keep\n#!keep\n% !drop\n#', None),
    # for loops, if blocks, contextual expressions
    ('''
!transition-variables
    !for ?c = us, ea, <extra> !do
        "GDP in ?c" gdp_?c, "CPI in ?c" cpi_?c
    !end
!parameters
    !for a, b !do rho_? !end
!transition-equations
    !for ?c = us, ea, <extra> !do
        !for ?v = gdp, cpi !do
            ?v_?c = rho_a * ?v_?c{-1} + rho_b * diff(?v_?c{+1}, <<K>>) ...
                !if flag !then + 1 !else - 1 !end
            ;
        !end
    !end
    !if K < 0 !then
        "neg" gdp_us = mov_avg(cpi_us, <K-1>);
    !else
        "pos" gdp_us = mov_sum(cpi_us, <K+1>);
    !end
    !if not flag !then
        gdp_ea = 0;
    !else
        gdp_ea = <[1, 2, 3]> + <"text"> + < 2.5 >;
    !end
''', {"extra": ["jp", "uk"], "K": -2, "flag": True}),
    ('''
!equations
    !for ?(a) = x, Yy !do
        ?(a)_?{a}_?[a]_?(a)|upper_?(a)|lower = 1;
    !end
''', None),
    ('!for ?i = 1, 2 !do !for ?j = <range(3)> !do x?i?j{-?j}; !end !end', None),
    ('!if 1/0 !then x !end', None),
    ('x <undefined_name> y', None),
    ('!end', None),
    ('!else', None),
    # lists (single member only: list expansion order is set-based)
    ('''
!transition-variables
    x`main, y
!transition-equations
    x = !list(`main) + !list(`none) + y`other{-1};
''', None),
    # jinja
    ('''
!variables
{% for n in names %}    {{ n }}
{% endfor %}
!equations
{% for n in names %}    {{ n }} = {{ loop.index }} * {{ n }}{ {{ lag }} };  # c
{% endfor %}
''', {"names": ["aa", "bb"], "lag": -3}),
    ('', None),
    ('x{-1} + pct(y{+2}, -4) ; % nothing else', None),
]
for i, (src, ctx) in enumerate(_PREPARSER_CASES):
    def _run():
        preparsed, info = pre_mod.from_string(src, context=ctx)
        return preparsed, info["preparser_needed"], info["preparsed_source"] == preparsed, sorted(info["preparser_context"].keys())
    out(f"[B{i}]", repr(attempt(_run)))
out("[B-nojinja]", repr(attempt(lambda: pre_mod.from_string("x{-1} {{ y }} % c\n#{ b #}", jinja=False)[0])))


# ---------------------------------------------------------------------------
# C. Whole models: names, kinds, descriptions, log status, equations, evaluation
# ---------------------------------------------------------------------------

_FUNCS = {
    "log": np.log, "exp": np.exp, "sqrt": np.sqrt, "abs": np.abs,
    "maximum": np.maximum, "minimum": np.minimum, "__builtins__": {},
}
_T = 20
_NUM_COLUMNS = 41


def _evaluate_xtrings(xtrings, num_quantities, seed):
    rng = np.random.default_rng(seed)
    x = rng.uniform(0.5, 2.0, size=(num_quantities, _NUM_COLUMNS))
    func = eval(eq_mod.create_equator_func_string(list(xtrings)), dict(_FUNCS))
    values = func(x, _T)
    return [float(np.round(v, 10)) for v in values]


def describe_simultaneous(label, source, context=None, seed=0, **kwargs):
    out(f"--- {label}")
    try:
        m = ir.Simultaneous.from_string(source, context=context, **kwargs)
    except BaseException as exc:
        out("   FAILED:", type(exc).__name__)
        return
    for q in m.get_quantities():
        out("   Q", q.id, q.human, q.kind.name, q.logly, repr(q.description), q.entry, sorted(q.attributes or ()))
    out("   log_status", sorted(dict(m.get_log_status()).items()))
    out("   equations", m.get_equations())
    out("   eq descriptions", m.get_equation_descriptions())
    num_quantities = len(m.get_quantities())
    for tag, eqs in (("D", m.get_dynamic_equation_objects()), ("S", m.get_steady_equation_objects())):
        for e in eqs:
            out("   ", tag, e.id, e.kind.name, repr(e.description), repr(e.human))
            out("        ", e.xtring, sorted(e.incidence), e.entry, sorted(e.attributes or ()))
        out("   ", tag, "values", _evaluate_xtrings([e.xtring for e in eqs], num_quantities, seed))
    out("   max_lag/lead", m.max_lag, m.max_lead)


out("=== C Simultaneous models")

_MODEL_1A = r'''
%{ Header block comment
   spanning lines %}
!transition-variables
    "Output gap" x, "Inflation, % pa" pi   % trailing comment
    y
!log-variables
    y
!transition-shocks
    "Shock to x" eps_x
    eps_y
!parameters
    a, b
    "Param c" c
!exogenous-variables
    z
!transition-equations
    "Eq one" x = a*x{-1} + (1-a)*x{+1} ...
        + eps_x;  # comment
    pi = b*pi{-1} + diff(x) + z !! pi = 0;
    "Eq three" diff_log(y, -2) = c*mov_avg(x, -3) + eps_y ^ 2 !! y = 1;
!measurement-variables
    obs_x
!measurement-shocks
    omega
!measurement-equations
    obs_x := x + pct(y) + omega;
'''

# Same model, alternative spellings that must not change meaning
_MODEL_1B = r'''
!transition_variables
    "Output gap" x;
    "Inflation, % pa" pi
    y;
!log_variables
    y
!transition_shocks
    "Shock to x" eps_x, eps_y
!parameters
    a b
    "Param c" c
!exogenous_variables
    z
!transition_equations
    "Eq one"
    x = a*x[-1] + (1-a)*x[+1] + eps_x;
    pi = b*pi[-1] + diff(x, -1) + z
        !! pi = 0; \ comment
    #{ block #}
    "Eq three" difflog(y, -2) = c*movavg(x, -3) + eps_y ^ 2 !! y = 1;
!measurement_variables
    obs_x
!measurement_shocks
    omega
!measurement_equations
    obs_x := x + pct(y, -1) + omega;
'''

describe_simultaneous("model 1A", _MODEL_1A, seed=1)
describe_simultaneous("model 1B", _MODEL_1B, seed=1)

_MODEL_2 = r'''
!variables
    !for ?c = <countries> !do
        "Consumption ?c" c_?c, "Capital ?c" k_?c
    !end
    w
!log-variables !all-but
    w
!shocks
    !for ?c = <countries> !do e_?c !end
!parameters
    alpha, delta, <"beta">
!substitutions
    mpk_aa := alpha*k_aa{-1}^(alpha-1);
    mpk_bb = alpha*k_bb{-1}^(alpha-1);
!equations
    !for ?c = <countries> !do
        "Euler ?c" 1/c_?c = beta*(1/c_?c{+1})*($mpk_?c$ + 1 - delta) !! 1 = beta*($mpk_?c$ + 1 - delta);
        "Resources ?c" k_?c + c_?c = k_?c{-1}^alpha + (1-delta)*k_?c{-1} + e_?c ...
            !if use_w !then + w[-<lag>] - w[ - <lag> ] !end
            ;
    !end
    w = roc(c_aa, -4) - mov_prod(k_bb{+1}, 2) + mov_sum(w{-1}, <nsum>) + shift(c_bb{-2}, +3);
'''
for use_w, lag, nsum in [(True, 2, -3), (False, 5, 2), (True, 0, 0)]:
    describe_simultaneous(
        f"model 2 use_w={use_w} lag={lag} nsum={nsum}", _MODEL_2,
        context={"countries": ["aa", "bb"], "use_w": use_w, "lag": lag, "nsum": nsum},
        seed=2,
    )

_MODEL_3 = r'''
!transition-variables x y
!transition-equations
    x = x{-12} + y{+7} - y{ - 3 } + x{ +2 };
    y = shift(x, -2) * shift(x{-1}, 2) + diff(x{+7}, +1) + mov_avg(y, 3);
!steady-autovalues
    x = 1;
'''
describe_simultaneous("model 3 long shifts", _MODEL_3, seed=3)
describe_simultaneous("model 3 undeclared", _MODEL_3.replace("!transition-variables x y", "!transition-variables x"), seed=3)
describe_simultaneous("model 4 bad shift", "!transition-variables x\n!transition-equations\n x = x{+-1};", seed=4)
describe_simultaneous("model 5 function names", "!transition-variables x, log\n!transition-equations\n x = log(x{-1}) + log;\n log = exp (x);", seed=5)


# ---------------------------------------------------------------------------
# D. Sequential models (explanatory equations use the same translation)
# ---------------------------------------------------------------------------

out("=== D Sequential models")


def describe_sequential(label, source, context=None, seed=0):
    out(f"--- {label}")
    try:
        s = ir.Sequential.from_string(source, context=context)
    except BaseException as exc:
        out("   FAILED:", type(exc).__name__)
        return
    out("   all_names", s.all_names)
    out("   lhs", s.lhs_names, "res", s.residual_names, "rhs_only", s.rhs_only_names, "par", s.parameter_names)
    out("   descriptions", s.descriptions)
    out("   equation_strings", s.equation_strings)
    out("   max_lag/lead", s.max_lag, s.max_lead)
    out("   incidence", s.incidence_matrix.astype(int).tolist())
    num_quantities = len(s.all_names)
    for x in s.iter_equations():
        e = x.equation
        out("   E", repr(e.human), e.xtring, sorted(e.incidence), x.lhs_name, x.residual_name, x.is_identity)
        out("     ", x._eval_level_str, "|", x._eval_residual_str)
    out("   values", _evaluate_xtrings([e.xtring for e in s.equations], num_quantities, seed))


describe_sequential("sequential 1", r'''
!equations
    "First" x = a*x{-1} + diff(y) + 1;  % c
    "Second" y = b*pct(z{-1}, -4) ... cont
        + mov_sum(x, -2);
    z === x{-1} + y[-2];
    !for ?n = 1, 2 !do
        w?n = roc(x, -?n);
    !end
''', seed=6)
describe_sequential("sequential 2 context", r'''
!equations
    !for ?v = <names> !do
        log(?v) = rho_?v*log(?v{-1}) + (1-rho_?v)*log(ss_?v) !if k > 1 !then + diff(aux[-<k>], -<k>) !end;
    !end
''', context={"names": ["p", "q"], "k": 3}, seed=7)


# ---------------------------------------------------------------------------
# E. Randomised structured models rendered with random syntactic alternatives
# ---------------------------------------------------------------------------

out("=== E Random models")

_PSEUDO = ["diff", "diff_log", "difflog", "pct", "roc", "mov_sum", "movsum", "mov_avg", "movavg", "mov_prod", "movprod", "shift"]


def _render_shift(rnd, shift):
    if shift == 0 and rnd.random() < 0.7:
        return ""
    opening, closing = rnd.choice(["{}", "[]"])
    sign = "-" if shift < 0 else rnd.choice(["+", "+", ""])
    pad = rnd.choice(["", "", " "])
    return opening + pad + sign + pad + str(abs(shift)) + pad + closing


def _render_name(rnd, names):
    return rnd.choice(names) + _render_shift(rnd, rnd.choice([0, 0, -1, 1, -2, 3, -10]))


def _render_expr(rnd, names, params, depth):
    if depth <= 0 or rnd.random() < 0.25:
        kind = rnd.random()
        if kind < 0.6:
            return _render_name(rnd, names)
        if kind < 0.8:
            return rnd.choice(params)
        return rnd.choice(["1", "2.5", "0.1", "1e-1", "3"])
    kind = rnd.random()
    if kind < 0.5:
        op = rnd.choice(["+", "-", "*", "/", " + ", " * "])
        return "(" + _render_expr(rnd, names, params, depth - 1) + op + _render_expr(rnd, names, params, depth - 1) + ")"
    if kind < 0.6:
        return "(" + _render_expr(rnd, names, params, depth - 1) + ")^" + rnd.choice(["2", "0.5", "(1/3)"])
    if kind < 0.75:
        return rnd.choice(["log", "exp", "sqrt"]) + "(" + _render_expr(rnd, names, params, depth - 1) + ")"
    # Pseudofunction over a flat expression (at most one level of parentheses)
    inner = _render_name(rnd, names) + rnd.choice(["", "*" + rnd.choice(params), "+log(" + _render_name(rnd, names) + ")"])
    func = rnd.choice(_PSEUDO)
    arg = rnd.choice(["", "", ",-1", ", -4", ", 2", ",+3", ", 0", ", -2 ", ",1"])
    return func + "(" + inner + arg + ")"


def _random_model(rnd):
    num_vars = rnd.randint(1, 4)
    names = [rnd.choice(["x", "y", "Zz", "k_1", "c2c"]) + str(i) for i in range(num_vars)]
    params = ["alpha", "b_" + str(rnd.randint(0, 9))]
    sep = lambda: rnd.choice([", ", "\n    ", " ", "; "])
    kw = lambda w: "!" + (w if rnd.random() < 0.5 else w.replace("-", "_"))
    lines = []
    lines.append(rnd.choice([kw("transition-variables"), "!variables"]))
    lines.append("    " + "".join((f'"Desc of {n}" ' if rnd.random() < 0.5 else "") + n + sep() for n in names))
    logly = [n for n in names if rnd.random() < 0.3]
    if logly:
        lines.append(kw("log-variables"))
        lines.append("    " + ", ".join(logly))
    lines.append("!parameters " + rnd.choice(["%{ inline %}", "", "#{x#}"]))
    lines.append("    " + ", ".join(params) + rnd.choice(["", " % comment", " # comment", " \\ comment"]))
    lines.append(rnd.choice([kw("transition-equations"), "!equations"]))
    for n in names:
        lhs = n + _render_shift(rnd, 0)
        rhs = _render_expr(rnd, names, params, 3)
        equal = rnd.choice(["=", ":=", " = "])
        text = lhs + equal + rhs
        if rnd.random() < 0.4:
            text += rnd.choice([" ...\n        ", " ... cont. comment\n    "]) + "+ " + _render_expr(rnd, names, params, 1)
        if rnd.random() < 0.3:
            text += " !! " + n + " = " + _render_expr(rnd, names, params, 1)
        desc = f'"Eq for {n}" ' if rnd.random() < 0.5 else ""
        lines.append("    " + desc + text + ";" + rnd.choice(["", " % c", " #c", "  %{ b %}"]))
    return "\n".join(lines) + "\n"


for k in range(25):
    rnd = random.Random(1000 + k)
    source = _random_model(rnd)
    out("source sha1", hashlib.sha1(source.encode()).hexdigest()[:12])
    describe_simultaneous(f"random model {k}", source, seed=100 + k)


out("=== DIGEST", hashlib.sha256("\n".join(_ALL_LINES).encode()).hexdigest())

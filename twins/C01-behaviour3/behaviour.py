"""
Behaviour digest for property C01 (first-order solution, simulation,
covariances, terminal condition, companion VAR solution, steady evaluator).

Run with
    cd /tmp/wt2/C01 && PYTHONPATH=/tmp/wt2/C01/src /venv/bin/python /tmp/twin3_out/C01/behaviour.py

Prints a deterministic digest; the output must be identical before and after
a behaviour-preserving refactoring.
"""

import hashlib
import io
import contextlib
import random
import warnings

import numpy as np

warnings.filterwarnings("ignore")

import irispie as ir
from irispie.fords import covariances as _cov
from irispie.fords import descriptors as _desc
from irispie.fords import simulators as _fsim
from irispie.fords.solutions import Solution
from irispie.incidences import main as _inc
from irispie.incidences.main import Token


_LINES = []


def emit(*args):
    line = " ".join(str(a) for a in args)
    _LINES.append(line)
    print(line)


def rnd(x, digits=9):
    r"""Round for display"""
    if x is None:
        return None
    a = np.asarray(x, dtype=float) if not np.iscomplexobj(x) else np.asarray(x)
    a = np.round(a, digits) + 0.0
    return a.tolist()


def h(x):
    r"""Exact hash of array content, shape, dtype"""
    if x is None:
        return "None"
    a = np.ascontiguousarray(np.asarray(x))
    m = hashlib.sha256()
    m.update(str(a.dtype).encode())
    m.update(str(a.shape).encode())
    m.update(a.tobytes())
    return m.hexdigest()[:16]


def digest_array(label, x, digits=9):
    if x is None:
        emit(label, "None")
        return
    a = np.asarray(x)
    emit(label, "shape", a.shape, "dtype", a.dtype, "hash", h(a), )
    with np.printoptions(precision=digits, suppress=True, linewidth=200, threshold=100000):
        flat = np.round(a.astype(complex).real if np.iscomplexobj(a) else a.astype(float), digits) + 0.0
        emit(label, "values", flat.tolist())


def digest_databox(label, db, names, span, digits=9):
    for n in names:
        x = db[n]
        try:
            data = x.get_data(span)
        except Exception as e:
            emit(label, n, "ERR", type(e).__name__)
            continue
        digest_array(f"{label}.{n}", data, digits)


def quiet(func, *args, **kwargs):
    with contextlib.redirect_stdout(io.StringIO()):
        return func(*args, **kwargs)


# ----------------------------------------------------------------------------
# Models
# ----------------------------------------------------------------------------

_LINEAR_SOURCE = r"""
!transition-variables
    x, pi, r, z, g
!transition-shocks
    eps_x, eps_pi, eps_r, eps_z
!parameters
    a1, a2, a3, b1, b2, c1, c2, c3, rho_z, ss_pi, ss_rr, ss_g
!transition-equations
    x = a1*x[-1] + a2*x[+1] - a3*(r - pi[+1] - ss_rr - z) + eps_x;
    pi = b1*pi[-1] + (1-b1)*pi[+1] + b2*x + eps_pi;
    r = c1*r[-1] + (1-c1)*(ss_rr + ss_pi + c2*(pi[+2] - ss_pi) + c3*x) + eps_r;
    z = rho_z*z[-1] + 0.1*z[-2] + eps_z;
    g = g[-1] + ss_g + 0.5*(x - x[-1]);
!measurement-variables
    obs_x, obs_pi, obs_r
!measurement-shocks
    me_x, me_pi
!measurement-equations
    obs_x = x + me_x + 1;
    obs_pi = 4*pi + me_pi;
    obs_r = r + z[-1];
"""


def make_linear(num_variants=1):
    m = ir.Simultaneous.from_string(_LINEAR_SOURCE, linear=True, flat=False, )
    if num_variants > 1:
        m.alter_num_variants(num_variants, )
    base = dict(
        a1=0.4, a2=0.5, a3=0.2, b1=0.3, b2=0.1,
        c1=0.7, c2=1.8, c3=0.3, rho_z=0.6, ss_pi=2, ss_rr=1, ss_g=0.25,
        std_eps_x=0.5, std_eps_pi=0.3, std_eps_r=0.2, std_eps_z=0.1,
        std_me_x=0.05, std_me_pi=0.07,
    )
    if num_variants > 1:
        base["a1"] = [0.4, 0.2, 0.55][:num_variants]
        base["c2"] = [1.8, 2.5, 1.4][:num_variants]
        base["rho_z"] = [0.6, 0.1, 0.8][:num_variants]
        base["ss_pi"] = [2, 0, 3.5][:num_variants]
        base["ss_g"] = [0.25, -0.5, 0][:num_variants]
    m.assign(**base, )
    quiet(m.steady, )
    return m


_NONLINEAR_SOURCE = r"""
!transition-variables
    "Productivity" a
    "Productivity, Rate of change" roc_a
    y, c, i, k, h, w, r, c_to_y, i_to_y
!log-variables !all-but
    c_to_y, i_to_y
!transition-shocks
    shock_a, shock_c
!parameters
    alpha, beta, gamma, delta, rho
!transition-equations
    log(roc_a) = rho*log(roc_a[-1]) + (1-rho)*log(alpha) + shock_a !! roc_a = alpha;
    c[+1]/c = beta*r*exp(shock_c);
    w = c;
    k = (1 - delta)*k[-1] + i;
    y = (a*h)^(1-gamma) * k[-1]^gamma;
    gamma*y = k[-1] * (r - 1 + delta);
    (1-gamma)*y = w * h;
    y = i + c;
    c_to_y = c / y;
    i_to_y = i / y;
    roc_a = a/a[-1];
!measurement-variables
    obs_y, obs_ratio
!log-variables !all-but
    obs_ratio
!measurement-shocks
    me_y
!measurement-equations
    obs_y = y*exp(me_y);
    obs_ratio = 100*c_to_y;
"""


_STATIONARY_SOURCE = r"""
!transition-variables
    roc_a, yy, cc, ii, kk, h, ww, r, c_to_y
!log-variables !all-but
    c_to_y
!transition-shocks
    shock_a, shock_c
!parameters
    alpha, beta, gamma, delta, rho
!transition-equations
    log(roc_a) = rho*log(roc_a[-1]) + (1-rho)*log(alpha) + shock_a !! roc_a = alpha;
    cc[+1]*roc_a[+1]/cc = beta*r*exp(shock_c);
    ww = cc;
    kk = (1 - delta)*kk[-1]/roc_a + ii;
    yy = h^(1-gamma) * (kk[-1]/roc_a)^gamma;
    gamma*yy = kk[-1]/roc_a * (r - 1 + delta);
    (1-gamma)*yy = ww * h;
    yy = ii + cc;
    c_to_y = cc / yy;
!measurement-variables
    obs_c
!log-variables !all-but
    obs_c
!measurement-equations
    obs_c = 100*c_to_y;
"""


_RBC_PARAMETERS = dict(
    alpha=1.02**(1/4),
    beta=0.95**(1/4),
    gamma=0.40,
    delta=0.05,
    rho=0.8,
    std_shock_a=0.9,
    std_shock_c=0.9,
)


def make_nonlinear():
    m = ir.Simultaneous.from_string(_NONLINEAR_SOURCE, )
    m.assign(**_RBC_PARAMETERS, )
    m.assign(a=1, k=20, std_me_y=0.01, )
    quiet(m.steady, fix_level=("a", ), flat=False, )
    return m


def make_stationary():
    m = ir.Simultaneous.from_string(_STATIONARY_SOURCE, flat=True, )
    m.assign(**_RBC_PARAMETERS, )
    m.assign(kk=20, )
    quiet(m.steady, )
    return m


# ----------------------------------------------------------------------------
# Sections
# ----------------------------------------------------------------------------

def section_solution(label, m):
    emit("=" * 10, "solution", label)
    quiet(m.solve, )
    dvec = m._get_dynamic_solution_vectors()
    qid_to_name = m.create_qid_to_name()
    emit(label, "transition_variables", [t.print(qid_to_name) for t in dvec.transition_variables])
    emit(label, "transition_shocks", [t.print(qid_to_name) for t in dvec.transition_shocks])
    emit(label, "anticipated_shock_values", [t.print(qid_to_name) for t in dvec.anticipated_shock_values])
    emit(label, "measurement_variables", [t.print(qid_to_name) for t in dvec.measurement_variables])
    emit(label, "measurement_shocks", [t.print(qid_to_name) for t in dvec.measurement_shocks])
    emit(label, "tokens", [tuple(t) for t in dvec.transition_variables])
    emit(label, "true_initials", list(dvec.true_initials))
    descriptor = m._invariant.dynamic_descriptor
    emit(label, "num_forwards", descriptor.get_num_forwards(), type(descriptor.get_num_forwards()).__name__)
    emit(label, "num_backwards", descriptor.get_num_backwards())
    emit(label, "system_vector", [tuple(t) for t in descriptor.system_vectors.transition_variables])
    emit(label, "max_lag", m.max_lag, "max_lead", m.max_lead)
    for vid, s in enumerate(m.iter_solution()):
        lab = f"{label}[{vid}]"
        emit(lab, "dims", s.num_xi, s.num_alpha, s.num_y, s.num_u, s.num_v, s.num_w, s.num_unit_roots, s.num_stable)
        emit(lab, "dim types", *(type(i).__name__ for i in (s.num_alpha, s.num_y, s.num_u, s.num_v)))
        emit(lab, "system_stability", s.system_stability)
        num_unstable = sum(1 for e in s.eigenvalues_stability if e == ir.UNSTABLE)
        emit(lab, "num_unstable", num_unstable, "equals num_forwards", num_unstable == descriptor.get_num_forwards())
        emit(lab, "abs eigenvalues", sorted(rnd(np.abs(np.array(s.eigenvalues)), 8)))
        emit(lab, "transition_vector_stability", [str(i) for i in s.transition_vector_stability])
        emit(lab, "measurement_vector_stability", [str(i) for i in s.measurement_vector_stability])
        for n in ("T", "P", "K", "Z", "H", "D", "Ta", "Pa", "Ka", "Za", "Ua", "Xa", "X", "J", "Ru", ):
            digest_array(f"{lab}.{n}", getattr(s, n), )
        for n in ("Ta_stable", "Pa_stable", "Ka_stable", "Za_stable", ):
            x = getattr(s, n)
            digest_array(f"{lab}.{n}", x, )
            emit(lab, n, "is view of parent", x.base is not None, )
        sq = s.unpack_square_solution()
        tr = s.unpack_triangular_solution()
        emit(lab, "unpack_square", type(sq).__name__, len(sq), [h(i) for i in sq])
        emit(lab, "unpack_triangular", type(tr).__name__, len(tr), [h(i) for i in tr])
        emit(lab, "unpack identity",
            all(i is j for i, j in zip(sq, (s.T, s.P, s.K, s.Z, s.H, s.D, None))),
            all(i is j for i, j in zip(tr, (s.Ta, s.Pa, s.Ka, s.Za, s.H, s.D, s.Ua))),
        )
        dev = s.create_deviation_solution()
        emit(lab, "deviation unpack", [h(i) for i in dev.unpack_square_solution()], [h(i) for i in dev.unpack_triangular_solution()])
        digest_array(f"{lab}.dev.Ka_stable", dev.Ka_stable)
        for forward in (0, 1, 3):
            emit(lab, "expand_square", forward, [h(i) for i in s.expand_square_solution(forward)])
            emit(lab, "expand_triangular", forward, [h(i) for i in s.expand_triangular_solution(forward)])
        # Re-run the measurement classification with different tolerances
        keep = s.measurement_vector_stability
        for tol in (1e-12, 1e-3, 10.0):
            s._classify_measurement_vector_stability(tolerance=tol, )
            emit(lab, "measurement stability tol", tol, [str(i) for i in s.measurement_vector_stability], type(s.measurement_vector_stability).__name__)
        s._classify_measurement_vector_stability(tolerance=m.get_tolerance("eigenvalue"), )
        emit(lab, "measurement stability restored", s.measurement_vector_stability == keep)
    # clip_small
    quiet(m.solve, clip_small=True, )
    for vid, s in enumerate(m.iter_solution()):
        emit(f"{label}[{vid}]", "clip_small", h(s.Ua), h(s.Z), h(s.Za), h(s.Za_stable), [str(i) for i in s.measurement_vector_stability])
    quiet(m.solve, )


def section_covariances(label, m):
    emit("=" * 10, "covariances", label)
    for order in (0, 1, 3):
        acov = m.get_acov(up_to_order=order, unpack_singleton=False, )
        for vid, acov_v in enumerate(acov):
            emit(label, "acov order", order, "variant", vid, type(acov_v).__name__, len(acov_v))
            for k, c in enumerate(acov_v):
                digest_array(f"{label}[{vid}].acov{order}[{k}]", c, 8)
    acorr = m.get_acorr(up_to_order=1, unpack_singleton=False, )
    for vid, acorr_v in enumerate(acorr):
        for k, c in enumerate(acorr_v):
            digest_array(f"{label}[{vid}].acorr[{k}]", c, 8)
    # Low-level
    for vid, (s, model_v) in enumerate(zip(m.iter_solution(), m.iter_variants())):
        cov_u = model_v._gets_cov_transition_shocks()
        std_w = np.array([0.05, 0.07, 0.01][:s.num_w])
        cov_w = np.diag(std_w**2)
        c_alpha = _cov.get_cov_alpha_00(s, cov_u, )
        c_tri = _cov.get_cov_triangular_00(s, cov_u, cov_w, )
        digest_array(f"{label}[{vid}].cov_alpha_00", c_alpha, 8)
        digest_array(f"{label}[{vid}].cov_triangular_00", c_tri, 8)
        for order in (0, 2):
            ac = _cov.get_autocov_triangular_00(s, cov_u, cov_w, order, )
            emit(label, vid, "autocov_triangular_00", order, type(ac).__name__, len(ac), [h(i) for i in ac])
            sq = _cov.get_autocov_square(s, cov_u, cov_w, order, )
            emit(label, vid, "autocov_square", order, [h(i) for i in sq])
        try:
            _cov.get_autocov_triangular_00(s, cov_u, cov_w, -1, )
            emit(label, vid, "autocov order -1", "no error")
        except Exception as e:
            emit(label, vid, "autocov order -1", type(e).__name__, str(e))
        # Ta must not be modified in place
        emit(label, vid, "Ta hash after", h(s.Ta))


def section_simulate_linear(label, m):
    emit("=" * 10, "simulate", label)
    names = ("x", "pi", "r", "z", "g", "obs_x", "obs_pi", "obs_r", )
    for start, num in ((ir.qq(2020, 1), 12), (ir.mm(2021, 11), 7), (ir.dd(2022, 12, 28), 9), (ir.yy(2000), 5), (ir.ii(5), 6)):
        span = start >> start + (num - 1)
        lab = f"{label}:{start}"
        for deviation in (True, False):
            db = ir.Databox.steady(m, span, deviation=deviation, )
            # initial conditions
            db["x"][start - 1] = db["x"](start - 1) + 0.5
            db["z"][start - 2] = db["z"](start - 2) - 0.3
            db["g"][start - 1] = db["g"](start - 1) + 1.0
            # shocks
            db["eps_x"][start] = 1.0
            db["eps_r"][start + 2] = -0.5
            db["eps_z"][start + 1] = [0.2, 0.1, -0.1][:m.num_variants] if m.num_variants > 1 else 0.2
            db["ant_eps_pi"][start + 3] = 0.7
            db["ant_eps_x"][start + 4] = -0.4
            db["me_x"][start + 1] = 0.25
            sim = quiet(m.simulate, db, span, deviation=deviation, )
            digest_databox(f"{lab}.dev={deviation}", sim, names, span, )
        # Level equals steady + deviation
        dbd = ir.Databox.steady(m, span, deviation=True, )
        dbl = ir.Databox.steady(m, span, deviation=False, )
        for d in (dbd, dbl):
            d["eps_pi"][start + 1] = 0.3
            d["ant_eps_r"][start + 2] = 0.6
        simd = quiet(m.simulate, dbd, span, deviation=True, )
        siml = quiet(m.simulate, dbl, span, deviation=False, )
        ssl = ir.Databox.steady(m, span, deviation=False, )
        for n in names:
            diff = siml[n].get_data(span) - ssl[n].get_data(span) - simd[n].get_data(span)
            emit(lab, "level-steady-deviation", n, bool(np.max(np.abs(diff)) < 1e-9))


def section_plans(label, m):
    emit("=" * 10, "plans", label)
    names = ("x", "pi", "r", "z", "g", "obs_x", "obs_pi", "obs_r", "eps_x", "eps_pi", "eps_r", "ant_eps_x", "ant_eps_pi", "ant_eps_r")
    start = ir.qq(2021, 3)
    span = start >> start + 9
    for deviation in (True, False):
        base = ir.Databox.steady(m, span, deviation=deviation, )
        base["eps_z"][start] = 0.3
        base["ant_eps_x"][start + 5] = 0.2
        #
        # 1. Unanticipated exogenize/endogenize
        db = base.copy()
        p = ir.PlanSimulate(m, span, )
        p.exogenize_unanticipated(start >> start + 1, "pi", )
        p.endogenize_unanticipated(start >> start + 1, "eps_pi", )
        pi0 = db["pi"](start)[0][0]
        db["pi"][start] = pi0 + 0.5
        db["pi"][start + 1] = pi0 + 0.25
        sim = quiet(m.simulate, db, span, plan=p, deviation=deviation, )
        digest_databox(f"{label}.unant.dev={deviation}", sim, names, span, )
        #
        # 2. Anticipated exogenize/endogenize (several periods, incl. beyond start)
        db = base.copy()
        p = ir.PlanSimulate(m, span, )
        p.exogenize_anticipated((start + 1, start + 3), "x", )
        p.endogenize_anticipated((start + 1, start + 3), "ant_eps_x", )
        v0 = db["x"](start)[0][0]
        db["x"][start + 1] = v0 + 0.4
        db["x"][start + 3] = v0 - 0.2
        sim = quiet(m.simulate, db, span, plan=p, deviation=deviation, )
        digest_databox(f"{label}.ant.dev={deviation}", sim, names, span, )
        #
        # 3. Mixed
        db = base.copy()
        p = ir.PlanSimulate(m, span, )
        p.exogenize_anticipated(start + 2, "r", )
        p.endogenize_anticipated(start + 2, "ant_eps_r", )
        p.exogenize_unanticipated(start, "x", )
        p.endogenize_unanticipated(start, "eps_x", )
        db["r"][start + 2] = db["r"](start)[0][0] + 1
        db["x"][start] = db["x"](start)[0][0] - 1
        sim = quiet(m.simulate, db, span, plan=p, deviation=deviation, )
        digest_databox(f"{label}.mixed.dev={deviation}", sim, names, span, )
        #
        # 4. Anticipated exogenize at start only + force_split_frames
        db = base.copy()
        p = ir.PlanSimulate(m, span, )
        p.exogenize_anticipated(start, "pi", )
        p.endogenize_anticipated(start, "ant_eps_pi", )
        db["pi"][start] = db["pi"](start)[0][0] + 0.1
        sim = quiet(m.simulate, db, span, plan=p, deviation=deviation, force_split_frames=True, )
        digest_databox(f"{label}.split.dev={deviation}", sim, names, span, )


def section_period_system(label, m):
    r"""Direct calls of the period system generator"""
    emit("=" * 10, "period system", label)
    model_v = next(iter(m.iter_variants()))
    s = model_v._gets_solution(deviation=False, )
    squid = _desc.Squid.from_squidable(model_v, )
    Z_xi = _fsim._create_Z_xi(squid, )
    num_periods = 4
    rng = np.random.default_rng(12345)
    curr_xi_exogenized = np.full((squid.num_curr_xi, num_periods), np.nan)
    curr_xi_exogenized[0, 1] = 1.5
    curr_xi_exogenized[2, 1] = -0.5
    curr_xi_exogenized[1, 3] = 0.25
    std_u = np.abs(rng.standard_normal((squid.num_u, num_periods)))
    std_w = np.abs(rng.standard_normal((squid.num_w, num_periods)))
    v_impact_full = [None, rng.standard_normal(squid.num_xi), None, rng.standard_normal(squid.num_xi)]
    incidences = {
        "none": None,
        "allfalse": np.zeros((squid.num_v, num_periods), dtype=bool),
        "some": np.array([[(i + 2*j) % 3 == 0 for j in range(num_periods)] for i in range(squid.num_v)], dtype=bool),
    }
    for key, incidence_v in incidences.items():
        Rx = None
        std_v_endogenized = None
        if incidence_v is not None and incidence_v.any():
            forward = incidence_v.any(axis=0).nonzero()[0].max()
            Rx = s.expand_square_solution(forward, )
            std_v_endogenized = np.ones(int(incidence_v.sum()))
        for t in range(num_periods):
            out = _fsim._generate_period_system(
                t,
                solution=s,
                Z_xi=Z_xi,
                curr_xi_exogenized=curr_xi_exogenized,
                std_u_endogenized=std_u,
                std_w_endogenized=std_w,
                std_v_endogenized=std_v_endogenized,
                all_v_impact=v_impact_full,
                incidence_v=incidence_v,
                Rx=Rx,
            )
            emit(label, key, t, type(out).__name__, len(out), [h(i) for i in out], [None if i is None else np.asarray(i).shape for i in out])
            emit(label, key, t, "T is solution.T", out[0] is s.T, "P is solution.P", out[1] is s.P, "K is solution.K", out[2] is s.K)


def section_nonlinear(label, m):
    emit("=" * 10, "nonlinear", label)
    steady = m.get_steady()
    for n in sorted(steady.keys()):
        emit(label, "steady", n, rnd(steady[n], 8))
    chk = quiet(m.check_steady, when_fails="silent", )
    emit(label, "check_steady", chk)
    names = tuple(n for n in m.get_names(kind=ir.TRANSITION_VARIABLE | ir.MEASUREMENT_VARIABLE))
    start = ir.qq(2020, 1)
    span = start >> start + 11
    for deviation in (True, False):
        db = ir.Databox.steady(m, span, deviation=deviation, )
        db["shock_a"][start] = 0.01
        db["ant_shock_c"][start + 3] = -0.02
        sim = quiet(m.simulate, db, span, deviation=deviation, )
        digest_databox(f"{label}.ford.dev={deviation}", sim, names, span, 8)
    # Stacked-time simulation uses the first-order terminator
    db = ir.Databox.steady(m, span, )
    db["shock_a"][start] = 0.01
    db["shock_c"][start + 2] = -0.02
    try:
        sim = quiet(m.simulate, db, span, method="stacked_time", )
        digest_databox(f"{label}.stacked", sim, names, span, 7)
    except Exception as e:
        emit(label, "stacked ERR", type(e).__name__, str(e)[:200])
    short_span = start >> start + 2
    db = ir.Databox.steady(m, short_span, )
    db["shock_c"][start] = 0.05
    try:
        sim = quiet(m.simulate, db, short_span, method="stacked_time", )
        digest_databox(f"{label}.stacked_short", sim, names, short_span, 7)
    except Exception as e:
        emit(label, "stacked_short ERR", type(e).__name__, str(e)[:200])


def section_terminator(label, m):
    r"""Direct construction of the first-order terminator"""
    emit("=" * 10, "terminator", label)
    from irispie.fords.terminators import Terminator
    model_v = next(iter(m.iter_variants()))
    eqs = m.get_dynamic_equation_objects(kind=ir.TRANSITION_EQUATION)
    for columns in ((3, 4, 5), (2, ), list(range(4, 12))):
        for wrt in (eqs, eqs[1:4], ):
            try:
                t = Terminator(model_v, columns, wrt, )
            except Exception as e:
                emit(label, columns, len(wrt), "ERR", type(e).__name__, str(e))
                continue
            emit(label, columns, len(wrt), "terminal_wrt_spots", type(t.terminal_wrt_spots).__name__, [tuple(i) for i in t.terminal_wrt_spots])
            emit(label, "transition_vector", [tuple(i) for i in t._transition_vector])
            emit(label, "logly_rows", type(t._logly_rows).__name__, t._logly_rows)
            emit(label, "first_terminal", t._first_terminal, "max_lead", t._max_lead, "curr_xi_qids", t._curr_xi_qids)
            emit(label, "terminal_columns", t._terminal_columns, "index", type(t._terminal_column_index).__name__, t._terminal_column_index)
            emit(label, "terminit_spots", type(t._terminit_spots).__name__, [tuple(i) for i in t._terminit_spots])
            emit(label, "num", t._num_terminal_wrt_spots, t.terminal_jacobian_map, t._terminal_jacobian_map_completed)
            digest_array(f"{label}.curr_TT", t._curr_TT, 8)
            digest_array(f"{label}.curr_KK", t._curr_KK, 8)
            emit(label, "attrs", sorted(vars(t).keys()))
            # Terminate a simulation on a steady array
            num_columns = max(columns) + 1 + t._max_lead
            data = model_v.create_steady_array(num_columns=num_columns, )
            data = np.array(data, dtype=float)
            data[:, max(columns)] *= 1.01
            t.terminate_simulation(data, )
            digest_array(f"{label}.terminated", data[:, max(columns):], 8)


def section_tokens(label):
    emit("=" * 10, "tokens", label)
    rng = random.Random(2024)
    tokens = [Token(rng.randrange(0, 6), rng.randrange(-3, 4)) for _ in range(40)]
    out = _inc.sort_tokens(tokens)
    emit(label, "sort list", type(out).__name__, [tuple(i) for i in out])
    out = _inc.sort_tokens(t for t in tokens)
    emit(label, "sort generator", type(out).__name__, [tuple(i) for i in out])
    out = _inc.sort_tokens(set(tokens))
    emit(label, "sort set", type(out).__name__, [tuple(i) for i in out])
    out = _inc.sort_tokens(())
    emit(label, "sort empty", type(out).__name__, out)
    emit(label, "input untouched", [tuple(i) for i in tokens[:5]])
    # Stability with equal keys: distinguish objects by identity
    class Tok:
        def __init__(self, qid, shift, tag):
            self.qid, self.shift, self.tag = qid, shift, tag
    toks = [Tok(1, 0, "a"), Tok(0, 1, "b"), Tok(1, 0, "c"), Tok(0, 1, "d"), Tok(0, -1, "e"), Tok(1, 0, "f")]
    emit(label, "stable", [i.tag for i in _inc.sort_tokens(toks)])
    toks = [Tok(1, 0.5, "a"), Tok(0, True, "b"), Tok(1.0, 0.5, "c"), Tok(-1, 2, "d")]
    emit(label, "mixed numeric", [i.tag for i in _inc.sort_tokens(toks)])
    for vec in (tokens, tuple(tokens), [], tokens[:1], [Token(0, 1)] * 3):
        nf = _desc._get_num_forwards(vec)
        emit(label, "num_forwards", nf, type(nf).__name__, "num_backwards", _desc._get_num_backwards(vec))
    nf = _desc._get_num_forwards(t for t in tokens)
    emit(label, "num_forwards generator", nf, type(nf).__name__)
    nf = _desc._get_num_forwards([Token(0, np.int64(1)), Token(1, np.int64(0)), Token(2, 0.5)])
    emit(label, "num_forwards numpy", nf, type(nf).__name__)


def section_kalman(label, m):
    emit("=" * 10, "kalman", label)
    start = ir.qq(2020, 1)
    span = start >> start + 15
    rng = np.random.default_rng(777)
    db = ir.Databox.steady(m, span, )
    for n in ("eps_x", "eps_pi", "eps_r", "eps_z"):
        db[n] = ir.Series(periods=span, values=0.3*rng.standard_normal(len(span)), )
    sim = quiet(m.simulate, db, span, )
    obs = ir.Databox()
    for n in ("obs_x", "obs_pi", "obs_r"):
        obs[n] = sim[n].copy()
    obs["obs_pi"][start + 3] = np.nan
    obs["obs_x"][start + 7 >> start + 8] = np.nan
    for diffuse_method in ("fixed_unknown", "approx_diffuse", ):
        try:
            out, info = quiet(m.kalman_filter, obs, span, diffuse_method=diffuse_method, return_info=True, )
        except Exception as e:
            emit(label, diffuse_method, "ERR", type(e).__name__, str(e)[:200])
            continue
        emit(label, diffuse_method, "neg_log_likelihood", rnd(info["neg_log_likelihood"], 6), sorted(out.keys()))
        emit(label, diffuse_method, "var_scale", rnd(info["var_scale"], 8))
        digest_databox(f"{label}.{diffuse_method}.smooth_med", out["smooth_med"], ("x", "pi", "r", "z", "g"), span, 6)
        digest_databox(f"{label}.{diffuse_method}.predict_std", out["predict_std"], ("x", "pi", "r", "z", "g"), span, 6)


def section_bare_solution(label):
    r"""Solution objects with missing pieces: error behaviour of the accessors"""
    emit("=" * 10, "bare solution", label)
    props = ("num_xi", "num_alpha", "num_y", "num_u", "num_v", "num_w", "num_unit_roots", "num_stable", "Ta_stable", "Pa_stable", "Ka_stable", "Za_stable", )
    cases = {}
    cases["empty"] = Solution()
    s = Solution()
    s.eigenvalues_stability = (ir.UNIT_ROOT, ir.STABLE, ir.UNSTABLE, )
    cases["stability_only"] = s
    s = Solution()
    s.eigenvalues_stability = (ir.UNIT_ROOT, ir.STABLE, ir.STABLE, ir.UNSTABLE, ir.UNIT_ROOT, )
    s.Ta = np.arange(16.0).reshape(4, 4)
    s.Pa = np.arange(8.0).reshape(4, 2)
    s.Ka = np.arange(4.0)
    s.Za = np.arange(12.0).reshape(3, 4)
    s.P = np.arange(10.0).reshape(5, 2)
    s.Z = np.arange(15.0).reshape(3, 5)
    cases["partial"] = s
    s = Solution()
    s.eigenvalues_stability = ()
    s.Ta = np.zeros((0, 0))
    s.Pa = np.zeros((0, 3))
    s.Ka = np.zeros((0, ))
    s.Za = np.zeros((2, 0))
    s.P = np.zeros((0, 3))
    s.Z = np.zeros((2, 0))
    cases["zero_size"] = s
    for key, s in cases.items():
        for prop in props:
            try:
                x = getattr(s, prop)
                emit(label, key, prop, type(x).__name__, np.asarray(x).shape, np.asarray(x).tolist())
            except Exception as e:
                emit(label, key, prop, type(e).__name__, str(e))
        for method in ("unpack_square_solution", "unpack_triangular_solution", ):
            out = getattr(s, method)()
            emit(label, key, method, type(out).__name__, len(out), [h(i) for i in out])
        for tol in (1e-10, 5.0):
            try:
                out = s._classify_measurement_vector_stability(tolerance=tol, )
                emit(label, key, "classify measurement", tol, out, [str(i) for i in s.measurement_vector_stability])
            except Exception as e:
                emit(label, key, "classify measurement", tol, type(e).__name__, str(e))
        try:
            s._classify_measurement_vector_stability(1e-10, )
            emit(label, key, "classify positional", [str(i) for i in s.measurement_vector_stability])
        except Exception as e:
            emit(label, key, "classify positional", type(e).__name__, str(e))


def section_var(label):
    emit("=" * 10, "var", label)
    rng = np.random.default_rng(31415)
    start = ir.qq(2000, 1)
    num = 120
    span = start >> start + (num - 1)
    A1 = np.array([[0.5, 0.1, 0.0], [0.0, 0.4, 0.2], [0.1, 0.0, 0.3]])
    A2 = np.array([[0.2, 0.0, 0.0], [0.0, -0.1, 0.0], [0.0, 0.1, 0.1]])
    c = np.array([0.5, -0.2, 1.0])
    y = np.zeros((3, num))
    for t in range(2, num):
        y[:, t] = c + A1 @ y[:, t-1] + A2 @ y[:, t-2] + 0.3*rng.standard_normal(3)
    db = ir.Databox()
    names = ["aa", "bb", "cc"]
    for i, n in enumerate(names):
        db[n] = ir.Series(periods=span, values=y[i, :].copy(), )
    estim_span = start + 2 >> start + (num - 1)
    sim_span = start + num >> start + (num + 7)
    for order, intercept in ((1, True), (2, True), (2, False)):
        lab = f"{label}.p{order}.c{intercept}"
        try:
            v = ir.RedVAR(names, order=order, intercept=intercept, )
        except TypeError:
            v = ir.RedVAR(names, order=order, )
        est_db = quiet(v.estimate, db, estim_span, omit_missing=True, )
        variant = v._variants[0]
        for deviation in (False, True):
            s = variant._get_companion_solution(deviation=deviation, )
            emit(lab, "companion", deviation, type(s).__name__, h(s.T), h(s.P), h(s.K), s.Z, s.Ta, s.eigenvalues)
            digest_array(f"{lab}.T.{deviation}", s.T, 8)
            digest_array(f"{lab}.K.{deviation}", s.K, 8)
            emit(lab, "num_xi", s.num_xi, "num_u", s.num_u, "num_v", s.num_v)
            emit(lab, "unpack_square", [h(i) for i in s.unpack_square_solution()])
            emit(lab, "unpack_triangular", [h(i) for i in s.unpack_triangular_solution()])
            for prop in ("num_alpha", "num_y", "Ta_stable", "Pa_stable", "Ka_stable", "Za_stable"):
                try:
                    getattr(s, prop)
                    emit(lab, prop, "no error")
                except Exception as e:
                    emit(lab, prop, type(e).__name__, str(e))
        s0 = variant._get_companion_solution()
        emit(lab, "default deviation K nonzero", bool(np.any(s0.K != 0)))
        emit(lab, "T is companion_T", s0.T is variant.companion_T)
        emit(lab, "max_abs_eigenvalue", rnd(variant.max_abs_eigenvalue, 8), v.is_stable if hasattr(v, "is_stable") else None)
        digest_array(f"{lab}.mean", v.get_mean(), 8)
        acov = v.get_acov(up_to_order=1, )
        for k, cv in enumerate(acov):
            digest_array(f"{lab}.acov[{k}]", cv, 8)
        for kwargs in ({}, {"deviation": True}):
            try:
                sim_db = quiet(v.simulate, db, sim_span, prepend_input=False, **kwargs, )
                if isinstance(sim_db, tuple):
                    sim_db = sim_db[0]
                digest_databox(f"{lab}.sim{kwargs}", sim_db, names, sim_span, 8)
            except Exception as e:
                emit(lab, "simulate", kwargs, "ERR", type(e).__name__, str(e)[:200])


def section_steady_evaluator(label):
    emit("=" * 10, "steady evaluator", label)
    from irispie.steadiers import evaluators as _ev
    for flat in (True, False):
        if flat:
            m = ir.Simultaneous.from_string(_STATIONARY_SOURCE, flat=True, )
            m.assign(**_RBC_PARAMETERS, )
            m.assign(kk=20, )
            klass = _ev.FlatSteadyEvaluator
        else:
            m = ir.Simultaneous.from_string(_NONLINEAR_SOURCE, )
            m.assign(**_RBC_PARAMETERS, )
            m.assign(a=1, k=20, std_me_y=0.01, )
            klass = _ev.NonflatSteadyEvaluator
        variant = m._variants[0]
        quantities = m._invariant.quantities
        name_to_qid = m.create_name_to_qid()
        eqs = m.get_steady_equation_objects(kind=ir.TRANSITION_EQUATION)
        tnames = m.get_names(kind=ir.TRANSITION_VARIABLE)
        wrt_levels = sorted(name_to_qid[n] for n in tnames if n not in ("a", ))
        wrt_changes = sorted(name_to_qid[n] for n in tnames) if not flat else []
        for settings in (None, {"every": 3}, ):
            v = variant.copy()
            with contextlib.redirect_stdout(io.StringIO()):
                e = klass(
                    wrt_levels, wrt_changes, (i for i in eqs), quantities, v,
                    context=m.get_context(),
                    iter_printer_settings=settings,
                )
            lab = f"{label}.flat={flat}.{settings}"
            emit(lab, "wrt_qids", e.wrt_qids)
            emit(lab, "bool levels", e._bool_index_wrt_levels, "bool changes", e._bool_index_wrt_changes)
            emit(lab, "num", e._num_levels, e._num_changes, e._num_columns, e._min_shift, e._column_offset)
            emit(lab, "where_logly", type(e._where_logly).__name__, e._where_logly)
            digest_array(f"{lab}.shift_vec", e._shift_vec)
            digest_array(f"{lab}.init_levels", e._maybelog_init_levels, 8)
            digest_array(f"{lab}.init_changes", e._maybelog_init_changes, 8)
            digest_array(f"{lab}.init_guess", e.get_init_guess(), 8)
            digest_array(f"{lab}.steady_array", e._steady_array, 8)
            emit(lab, "final_guess", e.final_guess)
            emit(lab, "attrs", sorted(vars(e).keys()))
            with contextlib.redirect_stdout(io.StringIO()) as buffer:
                f, j = e.eval(e.get_init_guess() * 1.01, )
            digest_array(f"{lab}.eval", f, 8)
            digest_array(f"{lab}.jacobian", j.toarray() if hasattr(j, "toarray") else j, 8)
            emit(lab, "printed", hashlib.sha256(buffer.getvalue().encode()).hexdigest()[:16])
            emit(lab, "variant.levels", [(k, rnd(x, 8)) for k, x in sorted(v.levels.items())])
            emit(lab, "variant.changes", [(k, rnd(x, 8)) for k, x in sorted(v.changes.items())])
    # Full steady-state solutions through the public interface
    for flat in (True, False):
        m = make_stationary() if flat else make_nonlinear()
        steady = m.get_steady()
        for n in sorted(steady.keys()):
            emit(label, "public steady", flat, n, rnd(steady[n], 8))


def main():
    m1 = make_linear()
    section_solution("lin1", m1)
    section_covariances("lin1", m1)
    section_simulate_linear("lin1", m1)
    section_plans("lin1", m1)
    section_period_system("lin1", m1)
    section_kalman("lin1", m1)
    section_terminator("lin1", m1)
    #
    m3 = make_linear(3)
    section_solution("lin3", m3)
    section_covariances("lin3", m3)
    section_simulate_linear("lin3", m3)
    #
    mn = make_nonlinear()
    section_solution("rbc", mn)
    section_covariances("rbc", mn)
    section_nonlinear("rbc", mn)
    section_terminator("rbc", mn)
    #
    ms = make_stationary()
    section_solution("rbcs", ms)
    section_covariances("rbcs", ms)
    section_nonlinear("rbcs", ms)
    section_terminator("rbcs", ms)
    #
    section_tokens("tok")
    section_bare_solution("bare")
    section_var("var")
    section_steady_evaluator("ste")
    #
    total = hashlib.sha256("\n".join(_LINES).encode()).hexdigest()
    print("TOTAL DIGEST", total, "lines", len(_LINES))


if __name__ == "__main__":
    main()

r"""
Behaviour digest for property C08 (smoothed estimates reproduce the data and
are a simulation of the model) and for the code paths around it.

Run with

    cd /tmp/wt2/C08 && PYTHONPATH=/tmp/wt2/C08/src /venv/bin/python /tmp/twin3_out/C08/behaviour.py

The output is deterministic; it must be identical before and after a
behaviour-preserving refactoring.
"""

import contextlib
import hashlib
import io
import warnings

# The digest is what is printed on stdout; warnings (whose text includes
# source line numbers) are not part of the behaviour and are silenced, even
# if the library resets the warning filters
warnings.showwarning = lambda *args, **kwargs: None

import numpy as np
import irispie as ir
from irispie.fords import covariances as _cv
from irispie.fords import initializers as _ini

warnings.filterwarnings("ignore")
np.set_printoptions(precision=9, suppress=False, linewidth=200, )


#
# Digest helpers
#


def _arr(x, ):
    return np.asarray(x, dtype=float, )


def digest_array(x, ) -> str:
    x = _arr(x, )
    x = np.where(x == 0, 0.0, x, )  # -0.0 -> 0.0
    h = hashlib.sha256(np.ascontiguousarray(x, ).tobytes(), ).hexdigest()[:16]
    finite = x[np.isfinite(x)]
    s = float(np.sum(finite, )) if finite.size else 0.0
    a = float(np.sum(np.abs(finite), )) if finite.size else 0.0
    n_nan = int(np.sum(np.isnan(x), ))
    return f"shape={x.shape} nan={n_nan} sum={s:.10e} abs={a:.10e} sha={h}"


def digest_series(s, ) -> str:
    per = s.periods if hasattr(s, "periods") else ()
    first = str(per[0]) if len(per) else "-"
    last = str(per[-1]) if len(per) else "-"
    return f"[{first}..{last}] " + digest_array(s.get_data(), )


def digest_databox(db, title, ) -> None:
    print(f"  <{title}> {len(db)} items")
    for name in sorted(db.keys(), ):
        value = db[name]
        if hasattr(value, "get_data"):
            print(f"    {name}: {digest_series(value, )}")
        elif isinstance(value, (int, float, )):
            print(f"    {name}: {float(value):.12e}")
        else:
            print(f"    {name}: {type(value).__name__}")


def digest_info(info, title, ) -> None:
    infos = info if isinstance(info, list) else [info, ]
    for i, inf in enumerate(infos, ):
        print(f"  <{title}> info[{i}]")
        for k in sorted(inf.keys(), ):
            v = inf[k]
            if hasattr(v, "get_data"):
                print(f"    {k}: {digest_series(v, )}")
            else:
                print(f"    {k}: {float(v):.12e}")


def digest_kalman_output(out, title, ) -> None:
    print(f" [{title}]")
    if out is None:
        print("  output is None")
        return
    for k in sorted(out.keys(), ):
        v = out[k]
        if isinstance(v, list):
            for vid, by_period in enumerate(v, ):
                parts = [
                    "None" if F is None else digest_array(F, )
                    for F in by_period
                ]
                h = hashlib.sha256("|".join(parts).encode(), ).hexdigest()[:16]
                print(f"  <{k}> variant {vid}: {len(by_period)} periods sha={h}")
                print(f"    first: {parts[0]}")
                print(f"    last : {parts[-1]}")
        else:
            digest_databox(v, k, )


def quiet(func, *args, **kwargs, ):
    with contextlib.redirect_stdout(io.StringIO(), ):
        return func(*args, **kwargs, )


#
# Models
#


SOURCE_A = r"""
!transition-variables
    x, z, g, p
!log-variables
    p
!transition-shocks
    eps_x, eps_z, eps_g, eps_p
!parameters
    rho, phi, ss_x, ss_p, kap
!transition-equations
    x = rho*x{-1} + (1-rho)*ss_x + kap*z{-1} + eps_x;
    z = phi*z{-1} + 0.1*(x{+1} - ss_x) + eps_z;
    g = g{-1} + eps_g;
    log(p) = 0.7*log(p{-1}) + 0.3*log(ss_p) + 0.05*z + eps_p;
!measurement-variables
    obs_x, obs_z, obs_p, obs_g
!log-variables
    obs_p
!measurement-shocks
    me_x, me_p
!measurement-equations
    obs_x = x + g + me_x;
    obs_z = z;
    obs_p = p*exp(me_p);
    obs_g = g + 0.5*z;
"""


SOURCE_B = r"""
!transition-variables
    a, b, c
!transition-shocks
    shk_a, shk_b, shk_c
!parameters
    ra, rb, ca
!transition-equations
    a = ra*a{-1} + ca + 0.2*b{-2} + shk_a;
    b = rb*b{-1} + 0.3*a{+1} + shk_b;
    c = 0.5*c{-1} + 0.25*a + 0.1*b{+2} + shk_c;
!measurement-variables
    oa, ob, oc
!measurement-shocks
    ma, mc
!measurement-equations
    oa = a + ma;
    ob = b + 0.5*c;
    oc = c - a{-1} + 1 + mc;
"""


def create_model_a(num_variants=1, ):
    m = ir.Simultaneous.from_string(SOURCE_A, linear=False, flat=True, )
    if num_variants > 1:
        m.alter_num_variants(num_variants, )
    def spread(v, step, ):
        return v if num_variants == 1 else [v + step*i for i in range(num_variants)]
    m.assign(
        rho=spread(0.8, -0.1), phi=spread(0.5, 0.1), ss_x=spread(2, 0.5), ss_p=3, kap=0.2,
        x=2, z=0, g=1, p=3,
    )
    m.assign(
        std_eps_x=0.5, std_eps_z=0.3, std_eps_g=spread(0.2, 0.1), std_eps_p=0.1,
        std_me_x=0.4, std_me_p=0.05,
    )
    quiet(m.steady, )
    m.check_steady()
    m.solve()
    return m


def create_model_b():
    m = ir.Simultaneous.from_string(SOURCE_B, linear=True, flat=True, )
    m.assign(ra=0.6, rb=0.4, ca=0.8, )
    m.assign(std_shk_a=1.0, std_shk_b=0.5, std_shk_c=0.7, std_ma=0.3, std_mc=0.2, )
    quiet(m.steady, )
    m.solve()
    return m


#
# Data
#


def create_data(m, span, seed, shock_names, obs_names, mask_fraction, log_names=(), ):
    rng = np.random.default_rng(seed, )
    span = tuple(span, )
    start = span[0]
    db = ir.Databox.steady(m, start-8 >> span[-1]+8, )
    stds = m.get_stds(unpack_singleton=False, )
    for n in shock_names:
        std = stds["std_" + n]
        std = std[0] if isinstance(std, list) else std
        db[n] = ir.Series(periods=span, values=tuple((rng.standard_normal(len(span), )*std).tolist(), ), )
    sim = m.simulate(db, span, num_variants=1, )
    obs = ir.Databox()
    for n in obs_names:
        values = np.array(sim[n].get_data(span, ), dtype=float, ).reshape(len(span), -1, )[:, 0]
        mask = rng.uniform(size=len(span), ) < mask_fraction
        values[mask] = np.nan
        obs[n] = ir.Series(periods=span, values=tuple(values.tolist(), ), )
    return obs, sim


def subtract_steady(m, obs, span, log_names, ):
    span = tuple(span, )
    ss = ir.Databox.steady(m, span, )
    dev = ir.Databox()
    for n in obs.keys():
        o = np.array(obs[n].get_data(span, ), dtype=float, ).reshape(len(span), -1, )[:, 0]
        s = np.array(ss[n].get_data(span, ), dtype=float, ).reshape(len(span), -1, )[:, 0]
        d = (o / s) if n in log_names else (o - s)
        dev[n] = ir.Series(periods=span, values=tuple(d.tolist(), ), )
    return dev


#
# Property checks (printed as rounded maxima, so that they are part of the digest)
#


def check_reproduces_data(m, out, obs, span, title, ):
    span = tuple(span, )
    worst = 0.0
    count = 0
    measurement_names = tuple(m.get_names(kind=ir.MEASUREMENT_VARIABLE, ), )
    for n in sorted(obs.keys(), ):
        if n not in measurement_names:
            continue
        o = np.array(obs[n].get_data(span, ), dtype=float, ).reshape(len(span), -1, )[:, 0]
        s = np.array(out["smooth_med"][n].get_data(span, ), dtype=float, ).reshape(len(span), -1, )
        for v in range(s.shape[1]):
            d = np.abs(s[:, v] - o)
            d = d[~np.isnan(o)]
            d = np.where(np.isnan(d), np.inf, d, )
            count += d.size
            if d.size:
                worst = max(worst, float(np.max(d)))
    print(f"  {title}: {count} data points, max |smooth - data| < 1e-8: {worst < 1e-8}")


def check_resimulation(m, obs, span, names, title, deviation=False, **kwargs, ):
    span = tuple(span, )
    out = m.kalman_filter(obs, span, deviation=deviation, prepend_initial=True, return_=("smooth", ), **kwargs, )
    smooth = out["smooth_med"]
    sim = m.simulate(smooth, span, deviation=deviation, prepend_input=False, )
    worst = 0.0
    count = 0
    for n in names:
        a = np.array(sim[n].get_data(span, ), dtype=float, )
        b = np.array(smooth[n].get_data(span, ), dtype=float, )
        where = ~np.isnan(b)
        d = np.abs(a[where] - b[where])
        d = np.where(np.isnan(d), np.inf, d, )
        count += d.size
        if d.size:
            worst = max(worst, float(np.max(d)))
    print(f"  {title}: {count} points, max |resimulated - smoothed| < 1e-7: {worst < 1e-7}")
    digest_databox(sim, title + " resimulated", )


#
# Sections
#


def section_solution(m, title, ):
    print(f"== solution {title}")
    for vid, mv in zip(range(m.num_variants), m.iter_variants(), ):
        for deviation in (False, True, ):
            sol = mv._gets_solution(deviation=deviation, )
            print(f" variant {vid} deviation={deviation}")
            print("  nums:", sol.num_xi, sol.num_alpha, sol.num_y, sol.num_u, sol.num_v, sol.num_w, sol.num_unit_roots, sol.num_stable, )
            for n in ("Ta_stable", "Pa_stable", "Ka_stable", "Za_stable", ):
                print(f"  {n}: {digest_array(getattr(sol, n), )}")
            for n, x in zip("T P K Z H D".split(), sol.unpack_square_solution(), ):
                print(f"  square {n}: {digest_array(x, )}")
            print("  square last:", sol.unpack_square_solution()[-1], len(sol.unpack_square_solution()), )
            for n, x in zip("Ta Pa Ka Za H D Ua".split(), sol.unpack_triangular_solution(), ):
                print(f"  triangular {n}: {digest_array(x, )}")
            print("  identity:", [
                a is b for a, b in zip(
                    sol.unpack_triangular_solution(),
                    (sol.Ta, sol.Pa, sol.Ka, sol.Za, sol.H, sol.D, sol.Ua, ),
                )
            ], [
                a is b for a, b in zip(
                    sol.unpack_square_solution(),
                    (sol.T, sol.P, sol.K, sol.Z, sol.H, sol.D, None, ),
                )
            ])
            print("  transition stability:", [str(i) for i in sol.transition_vector_stability])
            print("  measurement stability:", [str(i) for i in sol.measurement_vector_stability])
            print("  stable views share memory:", [
                np.shares_memory(sol.Ta_stable, sol.Ta),
                np.shares_memory(sol.Pa_stable, sol.Pa),
                np.shares_memory(sol.Ka_stable, sol.Ka),
                np.shares_memory(sol.Za_stable, sol.Za),
            ])
            cov_u = mv._gets_cov_transition_shocks()
            cov_w = mv._gets_cov_measurement_shocks() if hasattr(mv, "_gets_cov_measurement_shocks") else np.eye(sol.num_w)
            print(f"  cov_alpha_00: {digest_array(_cv.get_cov_alpha_00(sol, cov_u, ), )}")
            print(f"  cov_triangular_00: {digest_array(_cv.get_cov_triangular_00(sol, cov_u, cov_w, ), )}")
            for order in (0, 1, 3, ):
                ac = _cv.get_autocov_triangular_00(sol, cov_u, cov_w, order, )
                print(f"  autocov_triangular_00 order={order}: {type(ac).__name__} {len(ac)}")
                for i, c in enumerate(ac, ):
                    print(f"    [{i}] {digest_array(c, )}")
                sq = _cv.get_autocov_square(sol, cov_u, cov_w, order, )
                for i, c in enumerate(sq, ):
                    print(f"    square [{i}] {digest_array(c, )}")
            for method in ("approx_diffuse", "fixed_unknown", "fixed_zero", ):
                init = _ini.initialize(sol, cov_u, diffuse_method=method, )
                print(f"  initialize {method}:", [("None" if i is None else digest_array(i, )) for i in init])


def section_acov(m, title, ):
    print(f"== acov {title}")
    for order in (0, 2, ):
        acov = m.get_acov(up_to_order=order, unpack_singleton=False, )
        acorr = m.get_acorr(acov=acov, unpack_singleton=False, )
        for vid, (cv, cr) in enumerate(zip(acov, acorr, ), ):
            for i, (c, r) in enumerate(zip(cv, cr, ), ):
                print(f"  order={order} variant={vid} [{i}] cov {digest_array(c, )}")
                print(f"  order={order} variant={vid} [{i}] corr {digest_array(r, )}")


def section_kalman(m, obs, span, title, resim_names=None, log_names=(), **kwargs, ):
    print(f"== kalman {title}")
    span = tuple(span, )
    out, info = m.kalman_filter(obs, span, return_info=True, **kwargs, )
    digest_kalman_output(out, title, )
    digest_info(info, title, )
    if out is not None and "smooth_med" in out.keys():
        check_reproduces_data(m, out, obs, span, title, )
    return out, info


def main():

    #
    # Model A: log-variables, unit root, forward-looking, measurement shocks
    #
    ma = create_model_a()
    section_solution(ma, "A", )
    section_acov(ma, "A", )

    shocks_a = ("eps_x", "eps_z", "eps_g", "eps_p", "me_x", "me_p", )
    obs_a = ("obs_x", "obs_z", "obs_p", "obs_g", )
    log_a = ("obs_p", )
    trans_a = ("x", "z", "g", "p", )

    for freq_name, start in (
        ("quarterly", ir.qq(2020, 1)),
        ("monthly", ir.mm(2021, 11)),
        ("daily", ir.dd(2020, 2, 25)),
        ("yearly", ir.yy(1999)),
    ):
        span = start >> start + 19
        for mask_fraction in (0.0, 0.35, ):
            obs, sim = create_data(ma, span, 12345, shocks_a, obs_a, mask_fraction, )
            title = f"A {freq_name} mask={mask_fraction}"
            out, info = section_kalman(ma, obs, span, title + " level", )
            check_resimulation(ma, obs, span, trans_a + obs_a, title + " level", )
            if freq_name != "quarterly":
                continue
            dev = subtract_steady(ma, obs, span, log_a, )
            out_d, info_d = section_kalman(ma, dev, span, title + " deviation", deviation=True, )
            check_resimulation(ma, dev, span, trans_a + obs_a, title + " deviation", deviation=True, )
            ss = ir.Databox.steady(ma, span, )
            worst = 0.0
            for n in trans_a + obs_a:
                lev = np.array(out["smooth_med"][n].get_data(span, ), dtype=float, )
                de = np.array(out_d["smooth_med"][n].get_data(span, ), dtype=float, )
                s = np.array(ss[n].get_data(span, ), dtype=float, )
                if not np.array_equal(np.isnan(lev), np.isnan(de), ):
                    worst = np.inf
                d = np.abs((lev / s - de) if n in ("p", "obs_p", ) else (lev - s - de))
                d = d[~np.isnan(d)]
                worst = max(worst, float(np.max(d)))
            print(f"  {title}: level minus steady equals deviation (1e-7): {worst < 1e-7}")
            for method in ("approx_diffuse", "fixed_zero", ):
                section_kalman(ma, obs, span, title + f" {method}", diffuse_method=method, )
            section_kalman(ma, obs, span, title + " rescale", rescale_variance=True, )
            section_kalman(ma, obs, span, title + " prepend/append", prepend_initial=True, append_terminal=True, )
            section_kalman(ma, obs, span, title + " smooth only", return_=("smooth", ), )
            section_kalman(ma, obs, span, title + " update only", return_=("update", "predict_err", ), )
            section_kalman(ma, obs, span, title + " predict only", return_=("predict", "predict_mse_obs", ), )
            section_kalman(ma, obs, span, title + " nothing", return_=(), )
            print("  nll:", f"{ma.neg_log_likelihood(obs, span, ):.12e}")
            #
            # Shocks and stds from data
            obs2 = obs.copy()
            obs2["eps_x"] = ir.Series(periods=span, values=tuple(0.1*((i % 3) - 1) for i in range(len(span))), )
            obs2["me_x"] = ir.Series(periods=span, values=tuple(0.05*((i % 2)) for i in range(len(span))), )
            obs2["std_eps_z"] = ir.Series(periods=span, values=tuple(0.3 + 0.05*(i % 4) for i in range(len(span))), )
            obs2["std_me_p"] = ir.Series(periods=span, values=tuple(0.05 + 0.01*(i % 3) for i in range(len(span))), )
            section_kalman(ma, obs2, span, title + " shocks/stds from data", shocks_from_data=True, stds_from_data=True, )
            #
            # All data missing in the first and last periods, and no data at all
            obs3 = obs.copy()
            for n in obs_a:
                obs3[n][span[0] >> span[2]] = np.nan
                obs3[n][span[-3] >> span[-1]] = np.nan
            section_kalman(ma, obs3, span, title + " empty edges", )
            obs4 = ir.Databox()
            section_kalman(ma, obs4, span, title + " no data", )
            obs5 = ir.Databox()
            obs5["obs_p"] = obs["obs_p"].copy()
            section_kalman(ma, obs5, span, title + " only log obs", )

    #
    # Model A with two variants
    #
    ma2 = create_model_a(num_variants=2, )
    section_solution(ma2, "A2", )
    section_acov(ma2, "A2", )
    span = ir.qq(2020, 1) >> ir.qq(2023, 4)
    obs, sim = create_data(ma2, span, 777, shocks_a, obs_a, 0.25, )
    out, info = section_kalman(ma2, obs, span, "A2 level", )
    section_kalman(ma2, obs, span, "A2 deviation", deviation=True, )
    section_kalman(ma2, obs, span, "A2 approx_diffuse rescale", diffuse_method="approx_diffuse", rescale_variance=True, )

    #
    # Model B: linear, stationary, lags and leads > 1
    #
    mb = create_model_b()
    section_solution(mb, "B", )
    section_acov(mb, "B", )
    shocks_b = ("shk_a", "shk_b", "shk_c", "ma", "mc", )
    obs_b = ("oa", "ob", "oc", )
    trans_b = ("a", "b", "c", )
    for mask_fraction in (0.0, 0.4, ):
        span = ir.mm(2019, 10) >> ir.mm(2021, 3)
        obs, sim = create_data(mb, span, 2024, shocks_b, obs_b, mask_fraction, )
        title = f"B mask={mask_fraction}"
        out, info = section_kalman(mb, obs, span, title + " level", )
        check_resimulation(mb, obs, span, trans_b + obs_b, title + " level", )
        dev = subtract_steady(mb, obs, span, (), )
        out_d, info_d = section_kalman(mb, dev, span, title + " deviation", deviation=True, )
        check_resimulation(mb, dev, span, trans_b + obs_b, title + " deviation", deviation=True, )
        section_kalman(mb, obs, span, title + " check_singularity", check_singularity=True, when_singularity="silent", )

    #
    # Conditional simulations with plans (first-order simulator goes through the Kalman smoother)
    #
    print("== plans")
    for model, name, exg, endg, shocks in (
        (ma, "A", ("x", "p", ), ("eps_x", "eps_p", ), shocks_a, ),
        (mb, "B", ("a", "c", ), ("shk_a", "shk_c", ), shocks_b, ),
    ):
        span = ir.qq(2021, 1) >> ir.qq(2022, 4)
        span_t = tuple(span, )
        db = ir.Databox.steady(model, span_t[0]-8 >> span_t[-1]+8, )
        for n in exg:
            steady_values = np.array(db[n].get_data(span_t[0] >> span_t[2], ), dtype=float, ).reshape(-1, )
            db[n][span_t[0] >> span_t[2]] = tuple((steady_values*np.array((1.05, 1.02, 0.97, ))).tolist(), )
        for anticipated in (False, True, ):
            plan = ir.PlanSimulate(model, span, )
            if anticipated:
                plan.exogenize_anticipated(span_t[0] >> span_t[2], exg, )
                plan.endogenize_anticipated(span_t[0] >> span_t[2], tuple("ant_" + n for n in endg), )
            else:
                plan.exogenize_unanticipated(span_t[0] >> span_t[2], exg, )
                plan.endogenize_unanticipated(span_t[0] >> span_t[2], endg, )
            sim = model.simulate(db, span, plan=plan, prepend_input=False, )
            digest_databox(sim, f"plan {name} anticipated={anticipated}", )
        #
        # Mixed: exogenize unanticipated, endogenize anticipated shocks in several periods
        plan = ir.PlanSimulate(model, span, )
        plan.exogenize_unanticipated(span_t[1], exg[:1], )
        plan.endogenize_anticipated(span_t[1] >> span_t[3], ("ant_" + endg[0], ), )
        try:
            sim = model.simulate(db, span, plan=plan, prepend_input=False, )
            digest_databox(sim, f"plan {name} mixed", )
        except Exception as exc:
            print(f"  plan {name} mixed: {type(exc).__name__}")

    #
    # Stacked-time simulation with first-order terminal condition
    #
    print("== stacked time")
    for model, name, shock, in ((ma, "A", "eps_x", ), (mb, "B", "shk_b", ), ):
        span = ir.qq(2021, 1) >> ir.qq(2022, 2)
        span_t = tuple(span, )
        db = ir.Databox.steady(model, span_t[0]-8 >> span_t[-1]+8, )
        db[shock][span_t[0]] = 0.5
        db[shock][span_t[3]] = -0.25
        for terminal in ("first_order", "data", ):
            try:
                sim = quiet(model.simulate, db, span, method="stacked_time", terminal=terminal, prepend_input=False, when_fails="silent", )
                digest_databox(sim, f"stacked {name} terminal={terminal}", )
            except Exception as exc:
                print(f"  stacked {name} terminal={terminal}: {type(exc).__name__}")
        sim = model.simulate(db, span, method="first_order", prepend_input=False, )
        digest_databox(sim, f"first order {name}", )

    #
    # Reduced-form VAR: companion solution
    #
    print("== red var")
    rng = np.random.default_rng(99, )
    span = ir.qq(2000, 1) >> ir.qq(2019, 4)
    span_t = tuple(span, )
    num = len(span_t)
    e = rng.standard_normal((num, 2, ), )
    y = np.zeros((num, 2, ), )
    for t in range(2, num, ):
        y[t, 0] = 0.5 + 0.6*y[t-1, 0] - 0.1*y[t-2, 1] + e[t, 0]
        y[t, 1] = -0.2 + 0.3*y[t-1, 1] + 0.2*y[t-2, 0] + 0.5*e[t, 1]
    vdb = ir.Databox()
    vdb["u"] = ir.Series(periods=span_t, values=tuple(y[:, 0].tolist(), ), )
    vdb["w"] = ir.Series(periods=span_t, values=tuple(y[:, 1].tolist(), ), )
    for kwargs in ({"order": 2, }, {"order": 1, "intercept": False, }, ):
        try:
            v = ir.RedVAR(["u", "w", ], **kwargs, )
        except TypeError:
            print("  RedVAR constructor does not accept", sorted(kwargs.keys()))
            continue
        est = v.estimate(vdb, span_t[4] >> span_t[-1], omit_missing=True, )
        for deviation in (False, True, ):
            sol = v._gets_solution(deviation=deviation, )
            print(f"  {kwargs} deviation={deviation}")
            for n in ("T", "P", "K", ):
                print(f"    {n}: {digest_array(getattr(sol, n), )}")
            for n in ("Z", "H", "D", "Ta", "Ua", ):
                print(f"    {n} is None: {getattr(sol, n) is None}")
        cm = v.get_companion_matrices()
        print("    companion:", type(cm).__name__, digest_array(cm.T, ), )
        print("    mean:", digest_array(v.get_mean(), ))
        for i, c in enumerate(v.get_acov(up_to_order=2, ), ):
            print(f"    acov[{i}]: {digest_array(c, )}")
        sim = v.simulate(vdb, span_t[-1]+1 >> span_t[-1]+8, prepend_input=False, )
        digest_databox(sim, f"red var simulate {kwargs}", )


if __name__ == "__main__":
    main()

"""
Deterministic digest of the public Series / Span behaviour behind property C10
(period-indexed map: reads, writes, alignment, trim, isolation).

Run with
    cd /tmp/wt2/C10 && PYTHONPATH=/tmp/wt2/C10/src /venv/bin/python /tmp/twin2_out/C10/behaviour.py
"""

import warnings
warnings.simplefilter("ignore")

import hashlib
import itertools
import random
import re

import numpy as np

import irispie as ir
from irispie import dates as D

nan = np.nan
LINES = []


def emit(label, value):
    LINES.append(f"{label}: {value}")


def fmt_num(x):
    if x is None:
        return "None"
    try:
        x = float(x)
    except Exception:
        return repr(x)
    if np.isnan(x):
        return "nan"
    if np.isinf(x):
        return "inf" if x > 0 else "-inf"
    return f"{x:.10g}"


def fmt_array(a):
    a = np.asarray(a)
    return f"{a.shape}" + "[" + ";".join(
        ",".join(fmt_num(v) for v in np.atleast_1d(row)) for row in np.atleast_1d(a)
    ) + "]"


def fmt_series(x):
    if not isinstance(x, ir.Series):
        if isinstance(x, np.ndarray):
            return "ndarray" + fmt_array(x)
        return repr(x)
    return (
        f"Series<{x.frequency!s}|{x.start!s}|{x.end!s}|{x.shape}|"
        f"{x.data.dtype}|{fmt_array(x.data)}|span={tuple(str(t) for t in x.span)}>"
    )


def attempt(label, func):
    try:
        out = func()
    except Exception as exc:
        message = re.sub(r"0x[0-9a-fA-F]+", "0x", str(exc))[:100].replace("\n", " ")
        emit(label, f"EXC {type(exc).__name__} {message}")
        return None
    if isinstance(out, ir.Series):
        emit(label, fmt_series(out))
    elif isinstance(out, np.ndarray):
        emit(label, "ndarray" + fmt_array(out))
    elif isinstance(out, tuple) and out and all(isinstance(i, ir.Series) for i in out):
        emit(label, " & ".join(fmt_series(i) for i in out))
    else:
        emit(label, repr(out))
    return out


def snapshot(x):
    return (str(x.start), x.data.copy(), x.data.shape, )


def same_snapshot(a, b):
    return a[0] == b[0] and a[2] == b[2] and np.array_equal(a[1], b[1], equal_nan=True)


#
# Period factories for every frequency
#

BASES = {
    "yy": ir.yy(2020),
    "hh": ir.hh(2020, 2),
    "qq": ir.qq(2020, 3),
    "mm": ir.mm(2020, 11),
    "dd": ir.dd(2020, 2, 27),
    "ii": ir.ii(-2),
}

PATTERNS = {
    "full": (1.0, 2.5, -3.0, 4.0, 5.5, 6.0, ),
    "lead_nan": (nan, nan, 3.0, 4.0, 5.0, ),
    "trail_nan": (1.0, 2.0, nan, nan, ),
    "inner_nan": (1.0, nan, nan, 4.0, 0.5, nan, 7.0, ),
    "all_nan": (nan, nan, nan, ),
    "single": (2.0, ),
    "empty": (),
}


def make(base, values):
    if len(values) == 0:
        return ir.Series()
    return ir.Series(start=base, values=tuple(values))


def make_mv(base, columns):
    # Multiple variants
    array = np.array(columns, dtype=float).T
    return ir.Series(num_variants=array.shape[1], start=base, values=array)


#
# 1. Constructors, span, trimming
#

for (fname, base), (pname, pattern) in itertools.product(BASES.items(), PATTERNS.items()):
    attempt(f"construct/{fname}/{pname}", lambda: make(base, pattern))

for fname, base in BASES.items():
    attempt(f"construct_mv/{fname}", lambda: make_mv(base, [(1, nan, 3, nan), (nan, nan, 30, 40), (nan, 200, nan, nan)]))
    attempt(f"construct_periods/{fname}", lambda: ir.Series(periods=(base+3, base, base+1), values=(3.0, 0.0, 1.0)))
    attempt(f"construct_span/{fname}", lambda: ir.Series(periods=base >> base+3, values=(0.0, 1.0, nan, 3.0)))
    attempt(f"from_start_and_array/{fname}", lambda: ir.Series.from_start_and_array(base, np.array([[nan, nan], [1, nan], [nan, nan], [nan, 4], [nan, nan]])))
    attempt(f"from_start_and_array_notrim/{fname}", lambda: ir.Series.from_start_and_array(base, np.array([[nan], [1.0], [nan]]), trim=False))


#
# 2. Reads: get_data, __getitem__, __call__, contextual periods, reversed spans
#

for fname, base in BASES.items():
    x = make(base, PATTERNS["inner_nan"])
    mv = make_mv(base, [(1, nan, 3, nan, 5), (nan, nan, 30, 40, 50), (nan, 200, nan, nan, nan)])
    before = snapshot(x), snapshot(mv)
    requests = {
        "inside": base+1 >> base+4,
        "before": base-4 >> base-2,
        "after": base+9 >> base+11,
        "straddle_left": base-3 >> base+2,
        "straddle_right": base+5 >> base+9,
        "all_around": base-2 >> base+8,
        "single": base+3,
        "single_out": base-5,
        "tuple": (base+6, base, base+20, base-1, base),
        "list": [base+3, base+3, base+4],
        "reversed": base-1 << base+5,
        "backward_empty": base+5 << base-1,
        "step2": D.Span(base-1, base+6, 2),
        "step_neg2": D.Span(base+6, base-2, -2),
        "ellipsis": ...,
        "none": None,
        "full_slice": slice(None),
        "ctx_full": D.Span(None, None),
        "ctx_offsets": ir.start+1 >> ir.end-2,
        "ctx_beyond": ir.start-2 >> ir.end+2,
        "ctx_start_only": ir.start >> base+1,
        "ctx_end_only": base+2 >> ir.end,
        "ctx_reversed": D.Span(None, None, -1),
        "ctx_single_start": ir.start,
        "ctx_single_end": ir.end+1,
        "ctx_tuple": (ir.end, ir.start, base+2, ir.start-1),
        "empty_tuple": (),
        "empty_span": ir.EmptySpan(),
    }
    for rname, req in requests.items():
        attempt(f"get_data/{fname}/{rname}", lambda: x.get_data(req))
        attempt(f"getitem/{fname}/{rname}", lambda: x[req])
        attempt(f"call/{fname}/{rname}", lambda: x(req))
        attempt(f"get_data_and_periods/{fname}/{rname}", lambda: tuple(str(t) for t in x.get_data_and_periods(req)[1]))
        attempt(f"mv_get_data/{fname}/{rname}", lambda: mv.get_data(req))
        attempt(f"mv_getitem_v/{fname}/{rname}", lambda: mv[req, 1])
        attempt(f"mv_call_v/{fname}/{rname}", lambda: mv(req, (2, 0)))
        attempt(f"mv_call_slice/{fname}/{rname}", lambda: mv(req, slice(1, None)))
        attempt(f"mv_call_all/{fname}/{rname}", lambda: mv(req))
    attempt(f"get_data_from_until/{fname}", lambda: x.get_data_from_until((base-2, base+3)))
    attempt(f"get_values/{fname}", lambda: x.get_values(base-1 >> base+2))
    attempt(f"mv_get_values/{fname}", lambda: mv.get_values(base-1 >> base+2))
    attempt(f"get_data_variant/{fname}", lambda: mv.get_data_variant(base >> base+2, 2))
    after = snapshot(x), snapshot(mv)
    emit(f"reads_do_not_modify/{fname}", same_snapshot(before[0], after[0]) and same_snapshot(before[1], after[1]))
    # Recreated series never alias the receiver
    y = x(base >> base+3)
    y[base] = 999.0
    emit(f"call_no_alias/{fname}", same_snapshot(before[0], snapshot(x)))
    # Reads on an empty series
    e = ir.Series()
    for rname in ("inside", "single", "tuple", "ellipsis", "none", "ctx_full", "empty_tuple", "reversed", ):
        req = requests[rname]
        attempt(f"empty_get_data/{fname}/{rname}", lambda: e.get_data(req))
        attempt(f"empty_call/{fname}/{rname}", lambda: e(req))
    e2 = ir.Series(num_variants=3)
    attempt(f"empty_mv_get_data/{fname}", lambda: e2.get_data(base >> base+1))
    attempt(f"empty_mv_call/{fname}", lambda: e2(base >> base+1, 1))
    attempt(f"empty_mv_call_ellipsis/{fname}", lambda: e2(...))


#
# 3. Writes: set_data / __setitem__
#

for fname, base in BASES.items():
    def writes():
        out = []
        x = ir.Series()
        x[base+2] = 1.0
        out.append(fmt_series(x))
        x[base-3] = 2.0
        out.append(fmt_series(x))
        x[base+5 >> base+6] = (5.0, 6.0)
        out.append(fmt_series(x))
        x[base+6] = nan
        out.append(fmt_series(x))
        x[base-3] = nan
        out.append(fmt_series(x))
        x[[base+9, base+1, base-1]] = (9.0, 1.0, -1.0)
        out.append(fmt_series(x))
        x[base+7 << base+9] = (90.0, 80.0, 70.0)
        out.append(fmt_series(x))
        x[ir.start >> ir.start+1] = 0.5
        out.append(fmt_series(x))
        x[ir.end+1] = 11.0
        out.append(fmt_series(x))
        x[ir.start-2 >> ir.start-1] = (-20.0, -10.0)
        out.append(fmt_series(x))
        x[...] = nan
        out.append(fmt_series(x))
        x[base+1] = 4.0
        out.append(fmt_series(x))
        x[base-8 >> base-7] = nan
        out.append(fmt_series(x))
        x[base+12 >> base+14] = nan
        out.append(fmt_series(x))
        x[base+1] = nan
        out.append(fmt_series(x))
        return " || ".join(out)
    attempt(f"writes/{fname}", writes)

    def writes_mv():
        out = []
        x = ir.Series(num_variants=3)
        x[base >> base+2] = [(1.0, 2.0, 3.0), (10.0, 20.0, 30.0), (100.0, nan, 300.0)]
        out.append(fmt_series(x))
        x[base-2, 1] = 7.0
        out.append(fmt_series(x))
        x[base+4 >> base+5, (0, 2)] = [(4.0, 5.0), (40.0, 50.0)]
        out.append(fmt_series(x))
        x[base+5, 0] = nan
        out.append(fmt_series(x))
        x[base+5, 2] = nan
        out.append(fmt_series(x))
        x[base-2 >> base-1] = np.array([[nan, nan, nan], [1.5, nan, nan]])
        out.append(fmt_series(x))
        x[base+3, slice(0, 2)] = 33.0
        out.append(fmt_series(x))
        x[ir.end+2] = [1.0, 2.0, 3.0]
        out.append(fmt_series(x))
        y = make(base-1, (7.0, nan, 9.0, 10.0))
        x[base-1 >> base+1, 0] = y
        out.append(fmt_series(x))
        out.append(fmt_series(y))
        return " || ".join(out)
    attempt(f"writes_mv/{fname}", writes_mv)

    def write_series_into_series():
        x = make(base, (1.0, 2.0, 3.0))
        y = make(base+2, (30.0, nan, 50.0))
        x[base+1 >> base+5] = y
        return fmt_series(x) + " || " + fmt_series(y)
    attempt(f"write_series/{fname}", write_series_into_series)

    def write_empty():
        x = make(base, (1.0, 2.0))
        x[()] = None
        x[()] = np.empty((0, 1))
        e = ir.Series()
        e[()] = None
        return fmt_series(x) + " || " + fmt_series(e)
    attempt(f"write_empty/{fname}", write_empty)


#
# 4. Random map-model walk: writes and reads vs dictionary reference
#

def random_walk(fname, base, seed):
    rnd = random.Random(seed)
    num_variants = rnd.choice((1, 2, 3))
    x = ir.Series(num_variants=num_variants)
    model = {}
    log = []
    for step in range(40):
        op = rnd.choice(("set", "set", "set_nan", "get", "span", "call", "shift", "clip"))
        offset = rnd.randint(-8, 8)
        length = rnd.randint(1, 4)
        periods = tuple(base + offset + i for i in range(length))
        variant = rnd.randrange(num_variants)
        if op == "set":
            values = tuple(float(rnd.randint(-9, 9)) for _ in periods)
            x[periods, variant] = values
            for t, v in zip(periods, values):
                model[(t.serial, variant)] = v
        elif op == "set_nan":
            x[periods, variant] = nan
            for t in periods:
                model.pop((t.serial, variant), None)
        elif op == "get":
            data = x.get_data(periods, variant)
            expected = [model.get((t.serial, variant), nan) for t in periods]
            ok = np.array_equal(data.flatten(), np.array(expected), equal_nan=True)
            log.append(f"get[{fmt_array(data)}|{ok}]")
        elif op == "call":
            y = x(periods, variant)
            log.append(f"call[{fmt_series(y)}]")
        elif op == "shift":
            by = rnd.randint(-3, 3)
            x.shift(by)
            model = {(s - by, v): val for (s, v), val in model.items()}
            log.append(f"shift{by}")
        elif op == "clip":
            if x.start is not None:
                new_start = x.start + rnd.randint(-1, 2)
                new_end = x.end - rnd.randint(-1, 2)
                if new_start <= new_end:
                    x.clip(new_start, new_end)
                    model = {
                        (s, v): val for (s, v), val in model.items()
                        if new_start.serial <= s <= new_end.serial
                    }
                    log.append(f"clip[{new_start!s},{new_end!s}]")
        # Invariant checks
        serials = [s for (s, _), val in model.items() if not np.isnan(val)]
        if serials:
            covers = x.start is not None and x.start.serial <= min(serials) and x.end.serial >= max(serials)
        else:
            covers = True
        log.append(f"{step}:{x.start!s}..{x.end!s}:{x.shape}:{covers}")
    log.append(fmt_series(x))
    return " ".join(log)


for fname, base in BASES.items():
    for seed in range(4):
        attempt(f"random_walk/{fname}/{seed}", lambda: random_walk(fname, base, seed))


#
# 5. Shifts, clip, redate, overlay, underlay, hstack
#

for fname, base in BASES.items():
    x = make(base, PATTERNS["inner_nan"])
    mv = make_mv(base, [(1, nan, 3, nan, 5), (nan, nan, 30, 40, 50), (nan, 200, nan, nan, nan)])
    e = ir.Series()
    for by in (-5, -1, 0, 1, 3):
        attempt(f"shift_func/{fname}/{by}", lambda: ir.shift(x, by))
        def shift_method():
            y = x.copy()
            y.shift(by)
            return y
        attempt(f"shift_method/{fname}/{by}", shift_method)
        attempt(f"shift_mv/{fname}/{by}", lambda: ir.shift(mv, by))
        attempt(f"shift_empty/{fname}/{by}", lambda: ir.shift(e, by))
    for by in ("yoy", "soy", "eopy", "tty"):
        long = make(base-3, tuple(float(i) for i in range(1, 15)))
        attempt(f"shift_str/{fname}/{by}", lambda: ir.shift(long, by))
    clips = {
        "inner": (base+1, base+4),
        "outer": (base-3, base+12),
        "left_only": (base+3, None),
        "right_only": (None, base+2),
        "none": (None, None),
        "to_nan_edges": (base+1, base+2),
        "single": (base+3, base+3),
        "left_outer": (base-3, base+3),
    }
    for cname, (s, t) in clips.items():
        def clip():
            y = x.copy()
            y.clip(s, t)
            return y
        attempt(f"clip/{fname}/{cname}", clip)
        def clip_mv():
            y = mv.copy()
            y.clip(s, t)
            return y
        attempt(f"clip_mv/{fname}/{cname}", clip_mv)
    attempt(f"redate/{fname}", lambda: ir.redate(x, base, base+10))
    partners = {
        "overlap": make(base+4, (40.0, nan, 60.0, 70.0, 80.0)),
        "disjoint_after": make(base+12, (1.0, 2.0)),
        "disjoint_before": make(base-12, (1.0, nan, 2.0)),
        "inside": make(base+1, (11.0, 12.0)),
        "covering": make(base-2, tuple(float(i) for i in range(12))),
        "empty": ir.Series(),
        "mv": make_mv(base-1, [(1, 2, nan), (nan, 20, 30)]),
    }
    for pname, other in partners.items():
        before = snapshot(x), snapshot(other)
        attempt(f"overlay_func/{fname}/{pname}", lambda: ir.overlay(x, other))
        attempt(f"underlay_func/{fname}/{pname}", lambda: ir.underlay(x, other))
        def overlay_method():
            y = x.copy()
            y.overlay(other)
            return y
        attempt(f"overlay_method/{fname}/{pname}", overlay_method)
        def underlay_method():
            y = x.copy()
            y.underlay(other)
            return y
        attempt(f"underlay_method/{fname}/{pname}", underlay_method)
        attempt(f"overlay_empty_recv/{fname}/{pname}", lambda: ir.overlay(ir.Series(), other))
        attempt(f"hstack/{fname}/{pname}", lambda: x.hstack(other))
        attempt(f"hstack3/{fname}/{pname}", lambda: x.hstack(other, x))
        attempt(f"hstack_num/{fname}/{pname}", lambda: other.hstack(3.0, x))
        attempt(f"or/{fname}/{pname}", lambda: x | other)
        attempt(f"add/{fname}/{pname}", lambda: x + other)
        attempt(f"sub/{fname}/{pname}", lambda: x - other)
        attempt(f"rsub/{fname}/{pname}", lambda: other - x)
        attempt(f"mul/{fname}/{pname}", lambda: x * other)
        attempt(f"div/{fname}/{pname}", lambda: x / other)
        attempt(f"pow/{fname}/{pname}", lambda: x ** other)
        attempt(f"maximum/{fname}/{pname}", lambda: ir.maximum(x, other))
        attempt(f"minimum/{fname}/{pname}", lambda: ir.minimum(x, other))
        attempt(f"gt/{fname}/{pname}", lambda: x > other)
        after = snapshot(x), snapshot(other)
        emit(f"binary_isolation/{fname}/{pname}", same_snapshot(before[0], after[0]) and same_snapshot(before[1], after[1]))
    attempt(f"hstack_none/{fname}", lambda: x.hstack())
    attempt(f"hstack_empties/{fname}", lambda: ir.Series().hstack(ir.Series(num_variants=2)))
    attempt(f"scalar_ops/{fname}", lambda: (2 + x * 3 - 1) / 2)
    attempt(f"scalar_rops/{fname}", lambda: 1 / (2 - x))
    attempt(f"neg/{fname}", lambda: -x)
    attempt(f"nan_result/{fname}", lambda: x * nan)
    attempt(f"mixed_freq_add/{fname}", lambda: x + make(ir.qq(1999, 1) if fname != "qq" else ir.mm(1999, 1), (1.0, 2.0)))


def _iadd(x, other):
    y = x.copy()
    y += other
    return y


for fname, base in BASES.items():
    x = make(base, PATTERNS["inner_nan"])
    attempt(f"inplace_add/{fname}", lambda: _iadd(x, make(base+4, (40.0, nan, 60.0, 70.0, 80.0))))


#
# 6. Element-wise, statistical, moving, temporal, fill, extrapolate functions
#

ELEMENTWISE = ("log", "exp", "sqrt", "abs", "sign", "sin", "logistic", "round", )
STATS = ("sum", "mean", "nansum", "nanmean", "max", "nanmin", "std", "nanvar", "median", "prod", )
TEMPORAL = ("diff", "diff_log", "pct", "roc", "adiff", "apct", "aroc", "cum_diff", "cum_pct", "cum_roc", "cum_diff_log", )
MOVING = ("mov_sum", "mov_avg", "mov_prod", )

for fname, base in BASES.items():
    inputs = {
        "full": make(base, PATTERNS["full"]),
        "positive_gaps": make(base, (1.0, nan, 3.0, 4.0, nan, nan, 7.0, 8.0)),
        "mv": make_mv(base, [(1, 2, 3, nan, 5, 6), (nan, 20, 30, 40, 50, nan)]),
        "empty": ir.Series(),
        "single": make(base, (2.0, )),
    }
    for iname, x in inputs.items():
        before = snapshot(x)
        for func_name in ELEMENTWISE:
            attempt(f"elementwise/{fname}/{iname}/{func_name}", lambda: getattr(ir, func_name)(x))
        for func_name in STATS:
            attempt(f"stats_axis1/{fname}/{iname}/{func_name}", lambda: getattr(ir, func_name)(x))
            attempt(f"stats_axis0/{fname}/{iname}/{func_name}", lambda: getattr(ir, func_name)(x, axis=0))
        for func_name in TEMPORAL:
            attempt(f"temporal/{fname}/{iname}/{func_name}", lambda: getattr(ir, func_name)(x))
        attempt(f"temporal/{fname}/{iname}/diff-2", lambda: ir.diff(x, -2))
        attempt(f"temporal/{fname}/{iname}/diff+1", lambda: ir.diff(x, 1))
        attempt(f"temporal/{fname}/{iname}/pct_yoy", lambda: ir.pct(x, "yoy"))
        attempt(f"temporal/{fname}/{iname}/cum_diff_span", lambda: ir.cum_diff(x, span=base+2 >> base+9))
        attempt(f"temporal/{fname}/{iname}/cum_roc_initial", lambda: ir.cum_roc(x, initial=100.0, span=base+1 >> base+4))
        for func_name in MOVING:
            attempt(f"moving/{fname}/{iname}/{func_name}", lambda: getattr(ir, func_name)(x))
            attempt(f"moving/{fname}/{iname}/{func_name}-3", lambda: getattr(ir, func_name)(x, -3))
            attempt(f"moving/{fname}/{iname}/{func_name}+2", lambda: getattr(ir, func_name)(x, 2))
        for method in ("next", "previous", "nearest", "linear", "log_linear", ):
            attempt(f"fill/{fname}/{iname}/{method}", lambda: ir.fill_missing(x, method))
            attempt(f"fill_span/{fname}/{iname}/{method}", lambda: ir.fill_missing(x, method, span=base-2 >> base+10))
        attempt(f"fill/{fname}/{iname}/constant", lambda: ir.fill_missing(x, "constant", 0.25))
        attempt(f"fill_span/{fname}/{iname}/constant", lambda: ir.fill_missing(x, "constant", 0.25, span=base-2 >> base+10))
        attempt(f"fill/{fname}/{iname}/from_series", lambda: ir.fill_missing(x, "from_series", make(base-1, tuple(float(100+i) for i in range(12)))))
        attempt(f"extrapolate/{fname}/{iname}", lambda: ir.extrapolate(x, (0.5, 0.25), base+8 >> base+11, intercept=1.0))
        attempt(f"extrapolate_log/{fname}/{iname}", lambda: ir.extrapolate(x, (0.9, ), base+8 >> base+10, log=True))
        attempt(f"extrapolate_inside/{fname}/{iname}", lambda: ir.extrapolate(x, (1.0, ), base+4 >> base+5))
        attempt(f"hpf/{fname}/{iname}", lambda: ir.round(ir.hpf_trend(x), 6))
        attempt(f"copy/{fname}/{iname}", lambda: x.copy())
        after = snapshot(x)
        emit(f"functional_isolation/{fname}/{iname}", same_snapshot(before, after))
        # Copy does not alias
        y = x.copy()
        y[base+1] = -77.0
        emit(f"copy_no_alias/{fname}/{iname}", same_snapshot(before, snapshot(x)))
        # Method forms modify only the receiver
        def method_forms():
            out = []
            for func_name in ("log", "diff", "mov_sum", "cum_diff", ):
                y = x.copy()
                result = getattr(y, func_name)()
                out.append(f"{func_name}->{result!r}:{fmt_series(y)}")
            return " || ".join(out)
        attempt(f"method_forms/{fname}/{iname}", method_forms)


#
# 7. Spans and helper functions in irispie.dates
#

class Ctx:
    def __init__(self, s, e):
        self.start_date = s
        self.end_date = e


def fmt_span(span):
    if span is None:
        return "None"
    try:
        members = tuple(str(t) for t in span)
    except Exception as exc:
        members = f"EXC {type(exc).__name__}"
    return f"{span!r}|{span.needs_resolve}|{span.step}|{members}"


def fmt_periods(periods):
    return "(" + ",".join(str(t) for t in periods) + ")"


for fname, base in BASES.items():
    ctx = Ctx(base+1, base+6)
    x = make(base+1, (1.0, 2.0, 3.0, 4.0, 5.0, 6.0))
    spans = {
        "ctx_both": D.Span(None, None),
        "ctx_both_back": D.Span(None, None, -1),
        "ctx_step2": D.Span(None, None, 2),
        "ctx_step_neg3": D.Span(None, None, -3),
        "ctx_start": ir.start >> base+3,
        "ctx_end": base+3 >> ir.end,
        "ctx_offsets": ir.start-1 >> ir.end+2,
        "ctx_swapped": ir.end >> ir.start,
        "ctx_end_back": ir.start+1 << ir.end,
        "ctx_back_empty": ir.end << ir.start+1,
        "concrete": base >> base+2,
        "concrete_back": base << base+2,
        "concrete_step": D.Span(base, base+7, 3),
    }
    for sname, span in spans.items():
        attempt(f"span_resolve/{fname}/{sname}", lambda: fmt_span(span.resolve(ctx)))
        attempt(f"span_resolve_series/{fname}/{sname}", lambda: fmt_span(span.resolve(x)))
        attempt(f"span_resolve_type/{fname}/{sname}", lambda: type(span.resolve(ctx)).__name__)
        attempt(f"span_unresolved/{fname}/{sname}", lambda: fmt_span(span))
    attempt(f"ranger_resolve/{fname}", lambda: (type(ir.Ranger(None, None).resolve(ctx)).__name__, fmt_span(ir.Ranger(None, None).resolve(ctx))))
    attempt(f"span_resolve_identity/{fname}", lambda: spans["concrete"].resolve(ctx) is spans["concrete"])
    attempt(f"span_resolve_eq/{fname}", lambda: spans["concrete"].resolve(ctx) == spans["concrete"])
    attempt(f"span_resolve_none_ctx/{fname}", lambda: fmt_span(D.Span(None, None).resolve(Ctx(None, None))))
    attempt(f"span_resolve_empty_series/{fname}", lambda: fmt_span(D.Span(None, None).resolve(ir.Series())))

    y = make(base+4, (1.0, nan, 3.0))
    z = make(base-6, (1.0, 2.0))
    e = ir.Series()
    enc_cases = {
        "two_series": (x, y),
        "three_series": (x, y, z),
        "with_none": (x, None, z),
        "with_empty": (x, e),
        "only_empty": (e, ),
        "only_none": (None, ),
        "no_args": (),
        "span_and_series": (base-2 >> base+1, x),
        "reversed_span": (base-1 << base+9, ),
        "backward_empty_span": (base+9 << base-1, ),
        "tuple_of_periods": ((base+3, base-4, base+1), x),
        "tuple_with_none": ((base+3, None, base-4), ),
        "list_of_periods": ([base+3, base+30], y),
        "empty_tuple": ((), x),
        "only_empty_tuple": ((), ),
        "ctx_objects": (Ctx(base-1, base+1), Ctx(base, base+12)),
        "ctx_none_start": (Ctx(None, base+1), x),
        "ctx_none_both": (Ctx(None, None), ),
        "empty_span": (ir.EmptySpan(), x),
        "generator": ((t for t in (base+2, base-9)), x),
        "integer": (5, x),
    }
    for cname, args in enc_cases.items():
        def enc():
            span, s, t = D.get_encompassing_span(*args)
            return f"{fmt_span(span)}|{s!s}|{t!s}|{type(span).__name__}"
        attempt(f"encompassing/{fname}/{cname}", enc)
    for cname in ("two_series", "three_series", "with_none", "span_and_series", "tuple_of_periods", "only_empty"):
        attempt(f"Span.encompassing/{fname}/{cname}", lambda: fmt_span(D.Span.encompassing(*enc_cases[cname])))

    for lag, lead in ((0, 0), (-2, 0), (0, 3), (-2, 1), (-1, -1), (2, -2), ):
        for sname, sp in (
            ("span", base >> base+4),
            ("tuple", (base, base+1, base+4)),
            ("unordered", (base+1, base+9, base+4)),
            ("single", (base+2, )),
            ("reversed", base << base+4),
            ("backward_empty", base+4 << base),
            ("generator", None),
        ):
            def short():
                arg = sp if sp is not None else (t for t in (base, base+3))
                a, b = D.spans_from_short_span(arg, lag, lead)
                return f"{type(a).__name__}{fmt_periods(a)}|{type(b).__name__}{fmt_periods(b)}"
            def long():
                arg = sp if sp is not None else (t for t in (base, base+3))
                a, b = D.spans_from_long_span(arg, lag, lead)
                return f"{type(a).__name__}{fmt_periods(a)}|{type(b).__name__}{fmt_periods(b)}"
            attempt(f"spans_from_short/{fname}/{sname}/{lag},{lead}", short)
            attempt(f"spans_from_long/{fname}/{sname}/{lag},{lead}", long)
    attempt(f"spans_from_short_defaults/{fname}", lambda: D.spans_from_short_span(base >> base+1)[1] == D.spans_from_short_span(base >> base+1)[0])
    attempt(f"spans_from_short_empty/{fname}", lambda: D.spans_from_short_span(()))
    attempt(f"spans_from_long_empty/{fname}", lambda: D.spans_from_long_span(()))

    for min_shift, max_shift, pre, app in itertools.product((-3, 0), (0, 2), (True, False), (True, False)):
        for sname, sp in (
            ("span", base >> base+4),
            ("tuple", (base+2, base, base+1)),
            ("single", (base, )),
            ("reversed", base << base+4),
            ("backward_empty", base+4 << base),
        ):
            def ext():
                s, t = D.extend_span(sp, min_shift, max_shift, pre, app)
                return f"{s!s}|{t!s}|{type(s).__name__}"
            attempt(f"extend_span/{fname}/{sname}/{min_shift},{max_shift},{pre},{app}", ext)
    attempt(f"extend_span_empty/{fname}", lambda: D.extend_span((), -1, 1, True, True))
    def ext_no_alias():
        first = base + 0
        s, t = D.extend_span((first, base+1), -2, 2, True, True)
        return f"{first!s}|{s!s}|{t!s}"
    attempt(f"extend_span_no_alias/{fname}", ext_no_alias)
    attempt(f"period_indexes/{fname}", lambda: tuple(D.period_indexes((base+2, None, base-3), base)))


#
# 8. Error paths stay the same
#

x = make(ir.qq(2020, 1), (1.0, 2.0))
attempt("error/getitem_wrong_freq", lambda: x[ir.mm(2020, 1)])
attempt("error/setitem_wrong_freq", lambda: x.__setitem__(ir.mm(2020, 1), 1.0))
attempt("error/mixed_freq_tuple", lambda: x[(ir.qq(2020, 1), ir.mm(2020, 1))])
attempt("error/call_wrong_freq", lambda: x(ir.yy(2020)))
attempt("error/wrong_size", lambda: x.__setitem__(ir.qq(2020, 1) >> ir.qq(2020, 3), (1.0, 2.0)))
attempt("error/variant_out_of_range", lambda: x[ir.qq(2020, 1), 3])
attempt("error/span_mixed", lambda: D.Span(ir.qq(2020, 1), ir.mm(2020, 1)))
attempt("error/encompassing_mixed", lambda: D.get_encompassing_span(x, make(ir.mm(2020, 1), (1.0, ))))
attempt("error/short_span_mixed", lambda: D.spans_from_short_span((ir.qq(2020, 1), ir.mm(2020, 1))))


#
# Output
#

text = "\n".join(LINES)
print(text)
print("LINES", len(LINES))
print("EXC_LINES", sum(1 for line in LINES if ": EXC " in line))
print("DIGEST", hashlib.sha256(text.encode("utf-8")).hexdigest())

"""
Behaviour digest for property C17 (Sequential-model simulation makes every
equation hold, also when exogenized).

Run as
    cd /tmp/wt/C17 && PYTHONPATH=/tmp/wt/C17/src /venv/bin/python /tmp/twin_out/C17/behaviour.py

Prints a deterministic digest (rounded numbers / reprs) of the public results
of Sequential.simulate on a range of models, databoxes, plans and execution
orders; also checks transform(lhs) == rhs + residual in every simulated period.
"""

import os
import sys

# Names that appear only on the RHS get their row numbers from a set; pin the
# hash seed so that the run is reproducible (the digest does not print raw row
# numbers anyway)
if os.environ.get("PYTHONHASHSEED") != "0":
    os.environ["PYTHONHASHSEED"] = "0"
    os.execv(sys.executable, [sys.executable] + sys.argv)

import io
import re
import math
import pickle
import hashlib
import warnings
import contextlib
import random as rn

import numpy as np
import irispie as ir


warnings.simplefilter("ignore")

_LINES = []


def emit(*args):
    line = " ".join(str(a) for a in args)
    _LINES.append(line)
    print(line)


def fmt_value(v):
    if isinstance(v, (tuple, list, np.ndarray)):
        return "(" + ",".join(fmt_value(i) for i in v) + ")"
    v = float(v)
    if math.isnan(v):
        return "nan"
    if math.isinf(v):
        return "inf" if v > 0 else "-inf"
    return repr(round(v, 9) + 0.0)


def fmt_series(s):
    data = np.asarray(s.get_data(), dtype=float)
    if data.ndim == 1:
        data = data.reshape(-1, 1)
    rows = [fmt_value(tuple(row)) for row in data]
    return f"start={s.start} end={s.end} nv={data.shape[1]} data=" + ";".join(rows)


def dump_db(tag, db):
    for name in sorted(db.keys()):
        value = db[name]
        if isinstance(value, ir.Series):
            emit(tag, name, fmt_series(value))
        else:
            emit(tag, name, "value=" + fmt_value(value) if not isinstance(value, str) else value)


def run(tag, model, db, span, **kwargs):
    """Simulate, capture anything logged, dump the output databox and info"""
    buffer_out, buffer_err = io.StringIO(), io.StringIO()
    try:
        with contextlib.redirect_stdout(buffer_out), contextlib.redirect_stderr(buffer_err):
            with warnings.catch_warnings(record=True) as caught:
                warnings.simplefilter("always")
                out = model.simulate(db, span, **kwargs)
    except Exception as exc:
        emit(tag, "EXCEPTION", type(exc).__name__, str(exc).replace("\n", " | "))
        cause = exc.__cause__
        if cause is not None:
            emit(tag, "CAUSE", type(cause).__name__, str(cause).replace("\n", " | "))
        return None
    info = None
    if isinstance(out, tuple):
        out, info = out
    dump_db(tag, out)
    if info is not None:
        emit(tag, "info", repr(info))
    for w in caught:
        emit(tag, "warning", w.category.__name__, str(w.message).replace("\n", " | "))
    for label, text in (("stdout", buffer_out.getvalue()), ("stderr", buffer_err.getvalue())):
        if text.strip():
            emit(tag, label, text.strip().replace("\n", " | "))
    return out


def mk(periods, values, nv=1):
    """Create a Series with len(periods) rows and nv variants from nested values"""
    periods = tuple(periods)
    arr = np.array(values, dtype=float).reshape(len(periods), nv)
    return ir.Series(periods=periods, num_variants=nv, values=arr)


def put(series, periods, values):
    """Copy of series with new observations written at periods"""
    periods = tuple(periods)
    out = series.copy()
    arr = np.array(values, dtype=float).reshape(len(periods), out.num_variants)
    out.set_data(periods, arr)
    return out


def lag(series_values, k=1):
    out = np.full_like(series_values, np.nan)
    out[k:] = series_values[:-k]
    return out


# ----------------------------------------------------------------------------
# Case A: all LHS transforms plus identity, with lags, parameters, residuals
# ----------------------------------------------------------------------------

_SOURCE_A = r"""
!parameters
    a, b, c

!equations
    x = a*x[-1] + b*z + c;
    log(y) = a*log(y[-1]) + 0.1*x;
    diff(u) = b*diff(u[-1]) + 0.2*z;
    diff_log(v) = a*diff_log(v[-1]) + 0.01*x;
    roc(w) = 1 + 0.01*z + 0.001*x[-2];
    pct(q) = a*pct(q[-1]) + (1-a)*c;
    s === x + y + u[-1];
"""


def check_equations_A(tag, out, span, params, variant=None):
    a, b, c = params
    first, last = span[0], span[-1]
    ext = (first - 3) >> last
    def g(name):
        data = np.asarray(out[name].get_data(ext), dtype=float)
        if data.ndim == 2:
            data = data[:, min(variant or 0, data.shape[1]-1)]
        return data
    x, y, u, v, w, q, s, z = (g(n) for n in ("x", "y", "u", "v", "w", "q", "s", "z"))
    r = {n: np.nan_to_num(g("res_" + n)) for n in ("x", "y", "u", "v", "w", "q")}
    L = lag
    with np.errstate(all="ignore"):
        disc = {
            "x": x - (a*L(x) + b*z + c + r["x"]),
            "y": np.log(y) - (a*np.log(L(y)) + 0.1*x + r["y"]),
            "u": (u - L(u)) - (b*(L(u) - L(u, 2)) + 0.2*z + r["u"]),
            "v": (np.log(v) - np.log(L(v))) - (a*(np.log(L(v)) - np.log(L(v, 2))) + 0.01*x + r["v"]),
            "w": w/L(w) - (1 + 0.01*z + 0.001*L(x, 2) + r["w"]),
            "q": (100*q/L(q) - 100) - (a*(100*L(q)/L(q, 2) - 100) + (1-a)*c + r["q"]),
            "s": s - (x + y + L(u)),
        }
    for name in sorted(disc):
        d = disc[name][3:]
        emit(tag, "holds", name, bool(np.all(np.abs(d) < 1e-8)), "maxabs<1e-8")


def make_db_A(start, num_pre=3, num_periods=8, seed=1, num_variants=1):
    rn.seed(seed)
    db = ir.Databox()
    all_periods = (start - num_pre) >> (start + num_periods - 1)
    pre_periods = (start - num_pre) >> (start - 1)
    sim_periods = start >> (start + num_periods - 1)
    def values(n, lo, hi):
        if num_variants == 1:
            return [round(rn.uniform(lo, hi), 6) for _ in range(n)]
        return [[round(rn.uniform(lo, hi), 6) for _ in range(num_variants)] for _ in range(n)]
    db["z"] = mk(all_periods, values(len(all_periods), -1, 1), num_variants)
    for name in ("x", "y", "u", "v", "w", "q", ):
        db[name] = mk(pre_periods, values(len(pre_periods), 1, 2), num_variants)
    for name in ("x", "y", "u", "v", "w", "q", ):
        db["res_" + name] = mk(sim_periods, values(len(sim_periods), -0.05, 0.05), num_variants)
    return db, sim_periods


def case_A():
    m = ir.Sequential.from_string(_SOURCE_A)
    params = (0.7, 0.4, 1.5)
    m.assign(a=params[0], b=params[1], c=params[2])
    emit("A", "lhs_names", m.lhs_names)
    emit("A", "residual_names", m.residual_names)
    emit("A", "equations", m.equation_strings)
    qid_to_name = {qid: name for name, qid in m.create_name_to_qid().items()}
    def by_name(func_str):
        if func_str is None:
            return None
        return re.sub(r"x\[\((\d+),", lambda k: "x[(" + qid_to_name[int(k.group(1))] + ",", func_str)
    for eq in m.iter_equations():
        emit("A", "eq", eq.lhs_name, eq.residual_name, eq.is_identity, type(eq._lhs_transform).__name__, by_name(eq._eval_level_str), by_name(eq._eval_residual_str))

    start = ir.qq(2020, 1)
    db, span = make_db_A(start)

    for order in ("dates_equations", "equations_dates"):
        # A1: plain simulation with residuals from data
        tag = f"A1[{order}]"
        out = run(tag, m, db, span, execution_order=order, return_info=True)
        check_equations_A(tag, out, span, params)

        # A2: no shocks from data
        tag = f"A2[{order}]"
        out = run(tag, m, db, span, execution_order=order, shocks_from_data=False)
        check_equations_A(tag, out, span, params)

        # A3: exogenized directly, through transforms and when_data
        tag = f"A3[{order}]"
        db3 = db.copy()
        p = ir.SimulationPlan(m, span)
        # direct, level
        db3["x"] = put(db3["x"], span[1:4], (1.1, 1.2, 1.3))
        p.exogenize(span[1:4], "x")
        # via log
        db3["log_y"] = mk(span[0:3], (0.1, 0.2, 0.3))
        p.exogenize(span[0:3], "y", transform="log")
        # via diff
        db3["diff_u"] = mk(span[2:6], (0.3, -0.2, 0.1, 0.0))
        p.exogenize(span[2:6], "u", transform="diff")
        # via diff_log
        db3["diff_log_v"] = mk(span[4:], (0.01, )*len(span[4:]))
        p.exogenize(span[4:], "v", transform="diff_log")
        # via roc, only when data available (gaps in data)
        db3["roc_w"] = mk(span, (1.01, np.nan, 1.02, np.nan, np.nan, 0.99, 1.0, np.nan))
        p.exogenize(..., "w", transform="roc", when_data=True)
        # via pct
        db3["pct_q"] = mk(span[-2:], (2.5, -1.5))
        p.exogenize(span[-2:], "q", transform="pct")
        emit(tag, "plan_names", sorted(p.get_databox_names()))
        out = run(tag, m, db3, span, plan=p, execution_order=order, return_info=True)
        check_equations_A(tag, out, span, params)

        # A4: when_data on levels with a clipped series; flat transform; custom name format
        tag = f"A4[{order}]"
        db4 = db.copy()
        p = ir.SimulationPlan(m, span)
        db4["x"] = put(db4["x"], span[0:3], (0.9, 0.8, 0.7))
        p.exogenize(..., "x", when_data=True)
        p.exogenize(span[3:5], "u", transform="flat")
        db4["my_pct_q"] = mk(span[1:3], (1.0, 2.0))
        p.exogenize(span[1:3], "q", transform="pct", name_format="my_pct_{}")
        db4["dl_v"] = mk(span, (0.02, np.nan, 0.03, np.nan, np.nan, np.nan, -0.01, 0.0))
        p.exogenize(..., "v", transform="diff_log", when_data=True, name_format="dl_{}")
        out = run(tag, m, db4, span, plan=p, execution_order=order, prepend_input=False)
        tag_b = f"A4b[{order}]"
        out_b = run(tag_b, m, db4, span, plan=p, execution_order=order, remove_initial=False, remove_terminal=False, target_db=ir.Databox(extra=1.0))
        check_equations_A(tag_b, out_b, span, params)

        # A5: exogenized with missing data (not when_data): residual becomes nan
        tag = f"A5[{order}]"
        db5 = db.copy()
        p = ir.SimulationPlan(m, span)
        db5["log_y"] = mk(span[0:2], (0.1, np.nan))
        p.exogenize(span[0:2], "y", transform="log")
        for when in ("warning", "silent", "error"):
            run(f"{tag}[{when}]", m, db5, span, plan=p, execution_order=order, when_simulates_nan=when)
        run(f"{tag}[legacy]", m, db5, span, plan=p, execution_order=order, when_nonfinite="silent")

        # A6: missing transform series altogether
        tag = f"A6[{order}]"
        p = ir.SimulationPlan(m, span)
        p.exogenize(span[0:2], "w", transform="roc")
        run(tag, m, db, span, plan=p, execution_order=order)

    # A7: other frequencies (daily, monthly, yearly, integer)
    for label, start in (
        ("dd", ir.dd(2021, 12, 29)),
        ("mm", ir.mm(2019, 11)),
        ("yy", ir.yy(1999)),
        ("ii", ir.ii(-2)),
    ):
        dbf, spanf = make_db_A(start, num_periods=6, seed=7)
        p = ir.SimulationPlan(m, spanf)
        dbf["diff_u"] = mk(spanf[1:3], (0.5, -0.5))
        p.exogenize(spanf[1:3], "u", transform="diff")
        dbf["x"] = put(dbf["x"], spanf[4:5], (2.0, ))
        p.exogenize(..., "x", when_data=True)
        for order in ("dates_equations", "equations_dates"):
            tag = f"A7[{label}][{order}]"
            out = run(tag, m, dbf, spanf, plan=p, execution_order=order)
            check_equations_A(tag, out, spanf, params)

    # A8: pickled model roundtrip simulates the same
    m2 = pickle.loads(pickle.dumps(m))
    run("A8[pickle]", m2, db, span)

    # A9: plan inconsistent with simulation span
    p = ir.SimulationPlan(m, span[:-1])
    run("A9[badplan]", m, db, span, plan=p)

    # A10: empty plan equals no plan
    p = ir.SimulationPlan(m, span)
    run("A10[emptyplan]", m, db, span, plan=p)

    # A11: single-period span
    p = ir.SimulationPlan(m, span[0:1])
    db11 = db.copy()
    db11["pct_q"] = mk(span[0:1], (3.0, ))
    p.exogenize(..., "q", transform="pct")
    for order in ("dates_equations", "equations_dates"):
        run(f"A11[single][{order}]", m, db11, span[0:1], plan=p, execution_order=order)


# ----------------------------------------------------------------------------
# Case B: multiple parameter variants and multi-variant data
# ----------------------------------------------------------------------------

def case_B():
    m = ir.Sequential.from_string(_SOURCE_A)
    m.alter_num_variants(3)
    all_params = ((0.7, 0.4, 1.5), (0.5, 0.1, 1.0), (0.9, -0.2, 0.5))
    for model_v, (a_, b_, c_) in zip(m, all_params):
        model_v.assign(a=a_, b=b_, c=c_)
    emit("B0", "parameters", sorted(m.get_parameters().items()))
    start = ir.qq(2022, 3)
    db, span = make_db_A(start, num_periods=5, seed=3, num_variants=3)
    p = ir.SimulationPlan(m, span)
    db["diff_log_v"] = mk(span[1:3], [[0.01, 0.02, np.nan], [0.0, np.nan, 0.03]], 3)
    p.exogenize(span[1:3], "v", transform="diff_log", when_data=True)
    db["x"] = put(db["x"], span[0:2], [[1.0, 1.1, 1.2], [1.3, 1.4, 1.5]])
    p.exogenize(span[0:2], "x")
    for order in ("dates_equations", "equations_dates"):
        tag = f"B1[{order}]"
        out = run(tag, m, db, span, plan=p, execution_order=order, return_info=True)
        for vid, params in enumerate(all_params):
            check_equations_A(f"{tag}[v{vid}]", out, span, params, variant=vid)
        run(f"B2[{order}]", m, db, span, plan=p, execution_order=order, return_info=True, unpack_singleton=False, num_variants=2)
    # parameters from data
    m1 = ir.Sequential.from_string(_SOURCE_A)
    m1.assign(a=0.7, b=0.4, c=1.5)
    db1, span1 = make_db_A(start, num_periods=4, seed=5)
    db1["a"] = 0.2
    db1["b"] = -0.3
    db1["c"] = 0.1
    run("B3[params_from_data]", m1, db1, span1, parameters_from_data=True)
    run("B3[params_from_model]", m1, db1, span1, parameters_from_data=False)


# ----------------------------------------------------------------------------
# Case C: order matters (equations_dates with contemporaneous dependencies),
# leads, nonfinite values, errors raised in equations
# ----------------------------------------------------------------------------

_SOURCE_C = r"""
!parameters
    rho

!equations
    a = rho*a[-1] + b[-1];
    b = 0.5*a + 0.1*b[-1];
    c = (a + a[+1]) / 2;
    log(d) = log(b - 10);
    e === a/z0;
"""


def case_C():
    m = ir.Sequential.from_string(_SOURCE_C)
    m.assign(rho=0.9)
    start = ir.mm(2020, 11)
    span = start >> (start + 5)
    db = ir.Databox()
    db["a"] = mk((start-1, ), (1.0, ))
    db["b"] = mk((start-1, ), (2.0, ))
    db["d"] = mk((start-1, ), (1.0, ))
    db["z0"] = mk(span, (1, 0, 2, 0, -1, 4))
    db["res_a"] = mk(span[2:4], (0.5, -0.5))
    p = ir.SimulationPlan(m, span)
    db["b"] = put(db["b"], span[1:2], (3.0, ))
    p.exogenize(span[1:2], "b")
    p.exogenize(span[3:4], "a", transform="flat")
    for order in ("dates_equations", "equations_dates"):
        for when in ("silent", "warning"):
            run(f"C1[{order}][{when}]", m, db, span, plan=p, execution_order=order, when_simulates_nan=when, return_info=True)
        run(f"C2[{order}][catch]", m, db, span, plan=p, execution_order=order, when_simulates_nan="silent", catch_warnings=True)
    warnings.simplefilter("ignore")
    # Identity cannot be exogenized
    try:
        p.exogenize(span[0:1], "e")
        emit("C3", "exogenize identity accepted")
    except Exception as exc:
        emit("C3", "EXCEPTION", type(exc).__name__, str(exc).replace("\n", " | "))
    # Invalid execution order / method
    run("C4[badorder]", m, db, span, execution_order="nonsense")
    run("C5[badmethod]", m, db, span, method="nonsense")


# ----------------------------------------------------------------------------
# Case D: generated model with !for loop and custom residual name; reordering
# ----------------------------------------------------------------------------

_SOURCE_D = r"""
!parameters
    c0_pct_x, ss_pct_x

!equations
    !for ? = <range(N)> !do
        pct(x?) = c0_pct_x * pct(x?[-1]) + (1 - c0_pct_x) * ss_pct_x;
        pct_x? = pct(x?);
        x?_eop = (x? + x?[+1]) / 2;
    !end
"""


def case_D():
    N = 2
    m = ir.Sequential.from_string(_SOURCE_D, context={"N": N})
    d = ir.Databox()
    for i in range(N):
        d[f"x{i}"] = ir.Series(start_date=ir.qq(2020, 1)-2, values=(1, )*10)
        d[f"pct_x{i}"] = ir.Series(start_date=ir.qq(2020, 1)-2, values=(1, )*10)
    m.assign(c0_pct_x=0.8, ss_pct_x=0.5)
    span = ir.qq(2020, 1, ..., 2022, 4)
    d["x0"].clip(None, ir.qq(2021, 2))
    p = ir.SimulationPlan(m, span)
    p.exogenize(..., "x0", when_data=True)
    p.exogenize(ir.qq(2021, 1, ..., 2021, 4), "x1", transform="diff")
    d["diff_x1"] = ir.Series(start_date=ir.qq(2021, 1), values=(0.3, )*4)
    run("D1[de]", m, d, span, plan=p, when_nonfinite="silent")
    run("D1[ed]", m, d, span, plan=p, when_nonfinite="silent", execution_order="equations_dates", shocks_from_data=False)
    #
    # Out-of-order equations, then reordered
    source = r"""
    !equations
        k = 2*j + 1;
        j = 0.5*j[-1] + h;
        diff(h) = 0.1;
    """
    m2 = ir.Sequential.from_string(source)
    st = ir.yy(2001)
    sp = st >> (st + 3)
    db = ir.Databox()
    db["j"] = mk((st-1, ), (1.0, ))
    db["h"] = mk((st-1, ), (0.0, ))
    for order in ("dates_equations", "equations_dates"):
        run(f"D2[unordered][{order}]", m2, db, sp, execution_order=order, when_simulates_nan="silent")
    m3 = m2.copy()
    m3.sequentialize()
    emit("D3", "reordered", m3.lhs_names)
    for order in ("dates_equations", "equations_dates"):
        run(f"D3[ordered][{order}]", m3, db, sp, execution_order=order)
    #
    # Custom residual name via from_string option, if accepted
    try:
        m4 = ir.Sequential.from_string("!equations\n roc(g) = 1.02;\n", residual_name_format="shk_{lhs_name}")
        emit("D4", "residual_names", m4.residual_names)
        db = ir.Databox()
        db["g"] = mk((st-1, ), (10.0, ))
        db["roc_g"] = mk(sp[1:3], (1.5, 0.5))
        p = ir.SimulationPlan(m4, sp)
        p.exogenize(sp[1:3], "g", transform="roc")
        run("D4", m4, db, sp, plan=p)
    except Exception as exc:
        emit("D4", "EXCEPTION", type(exc).__name__, str(exc).replace("\n", " | "))


# ----------------------------------------------------------------------------
# Case E: unit-level calls of Explanatory.simulate/exogenize and PlanTransform
# ----------------------------------------------------------------------------

def case_E():
    from irispie.plans import transforms as tr
    before = np.array([1.0, 2.0, 4.0])
    after_incl = np.array([np.nan, np.nan])
    for name in (None, "level", "none", "log", "diff", "diff_log", "difflog", "roc", "pct", "flat"):
        for exog in (np.array([0.5, 9.0]), np.array([np.nan, 1.0]), np.array([-2.0])):
            for kwargs in ({}, {"when_data": True}, {"shift": -2}):
                t = tr.resolve_transform(name, **kwargs)
                with np.errstate(all="ignore"):
                    value = t.eval_exogenized(exog, before, after_incl)
                emit("E1", name, kwargs, fmt_value(exog), str(t), repr(t), t.resolve_databox_name("abc"), t.when_data, fmt_value(value))
    t = tr.PlanTransformPct()
    emit("E2", tr.resolve_transform(t) is t)
    #
    m = ir.Sequential.from_string(_SOURCE_A)
    m.assign(a=0.7, b=0.4, c=1.5)
    name_to_qid = m.create_name_to_qid()
    names = sorted(name_to_qid)
    emit("E3", names)
    rn.seed(11)
    num_rows = max(name_to_qid.values()) + 1
    fixed = {"a": 0.7, "b": 0.4, "c": 1.5}

    def by_name(data, cols):
        return [(n, fmt_value(data[name_to_qid[n], cols])) for n in names]

    def fmt_info(info):
        return sorted((k, fmt_value(v) if v is not None and not isinstance(v, str) else v) for k, v in info.items())

    for eq in m.iter_equations():
        data = np.full((num_rows, 6), np.nan)
        for n in names:
            data[name_to_qid[n], :] = fixed[n] if n in fixed else [round(rn.uniform(1, 2), 6) for _ in range(6)]
        data_sim = data.copy()
        info = eq.simulate(data_sim, 3, None)
        emit("E4", eq.lhs_name, "simulate", fmt_info(info), by_name(data_sim, 3))
        cols = np.array([3, 4])
        data_sim = data.copy()
        info = eq.simulate(data_sim, cols, None)
        emit("E4", eq.lhs_name, "simulate_vec", fmt_info(info), by_name(data_sim, cols))
        if not eq.is_identity:
            data_exg = data.copy()
            info = eq.exogenize(data_exg, 3, 1.2345)
            emit("E4", eq.lhs_name, "exogenize", fmt_info(info), by_name(data_exg, 3))
            data_vec = data.copy()
            info = eq.exogenize(data_vec, cols, np.array([1.5, 1.6]))
            emit("E4", eq.lhs_name, "exogenize_vec", fmt_info(info), by_name(data_vec, cols))
            data_nan = data.copy()
            info = eq.exogenize(data_nan, 3, np.nan)
            emit("E4", eq.lhs_name, "exogenize_nan", fmt_info(info), by_name(data_nan, 3))


if __name__ == "__main__":
    for case in (case_A, case_B, case_C, case_D, case_E):
        try:
            case()
        except Exception as exc:
            emit(case.__name__, "UNCAUGHT", type(exc).__name__, str(exc).replace("\n", " | "))
    digest = hashlib.sha256("\n".join(_LINES).encode()).hexdigest()
    print("DIGEST", digest)

"""
Behaviour digest for property C06: nonlinear (stacked-time, period-by-period)
simulations satisfy the dynamic equations; on a linear model they coincide
with the first-order simulation.

Run as

    cd /tmp/wt2/C06 && PYTHONPATH=/tmp/wt2/C06/src /venv/bin/python behaviour.py

Prints a deterministic digest (rounded numbers, reprs, flags) followed by a
sha256 of all digest lines; the output must be identical before and after a
behaviour-preserving refactoring.
"""

import io
import contextlib
import hashlib
import warnings

import numpy as np
import scipy as sp

warnings.filterwarnings("ignore")
import irispie as ir
from irispie.fords.terminators import Terminator
from irispie.incidences.main import Token
from irispie import equations as _equations

ROUND = 9
LINES = []

# The damped Newton solver requires BOTH the function norm and the step norm
# to be below tolerance; relax the step tolerance so that converged runs are
# reported as successful
RELAXED = {"step_tolerance": 100, }


def out(*args):
    line = " ".join(str(a) for a in args)
    LINES.append(line)
    print(line)


def fmt(values):
    res = []
    for v in np.asarray(values, dtype=float).reshape(-1):
        v = float(v)
        if np.isnan(v):
            res.append("nan")
            continue
        r = round(v, ROUND)
        if r == 0:
            r = 0.0
        res.append(f"{r:.{ROUND}f}")
    return "[" + ", ".join(res) + "]"


def get_array(db, name, span):
    vals = np.asarray(db[name].get_data(span), dtype=float)
    if vals.ndim == 1:
        vals = vals.reshape(-1, 1)
    return vals


def digest_db(label, db, names, span):
    for n in names:
        vals = get_array(db, n, span)
        for v in range(vals.shape[1]):
            out(label, n, f"v{v}", fmt(vals[:, v]))


def quiet(func, *args, **kwargs):
    buf = io.StringIO()
    with contextlib.redirect_stdout(buf):
        res = func(*args, **kwargs)
    return res


def run(label, func, *args, **kwargs):
    try:
        return quiet(func, *args, **kwargs)
    except Exception as e:
        msg = [i for i in str(e).strip().splitlines() if i.strip()]
        out(label, "EXCEPTION", type(e).__name__, " / ".join(i.strip() for i in msg)[:400])
        return None


def info_digest(label, info):
    infos = info if isinstance(info, (list, tuple)) else [info]
    for v, i in enumerate(infos):
        out(
            label, f"info v{v}", "method", i["method"],
            "frames", [repr(f) for f in i["frames"]],
            "columns", [(f.first, f.last, f.simulation_last, f.num_simulation_columns, f.slice, f.simulation_slice) for f in i["frames"]],
            "status", [str(s) for s in i["exit_status"]],
            "success", [bool(s.is_success) for s in i["exit_status"]],
        )


def max_abs_diff(a, b, names, span):
    return max(
        float(np.max(np.abs(get_array(a, n, span) - get_array(b, n, span))))
        for n in names
    )


# ---------------------------------------------------------------------------
# Models
# ---------------------------------------------------------------------------

NONLINEAR_FWD = r"""
!transition_variables
    "Consumption" c, "Capital" k, a, r, z
!log_variables
    !all_but z
!transition_shocks
    "Productivity shock" shk_a, shk_c, shk_z
!parameters
    alpha, beta, delta, rho, rhoz
!transition_equations
    1/c = beta * (1/c[+1]) * (r[+1] + 1 - delta) * exp(shk_c);
    r = alpha * a * k[-1]^(alpha-1);
    k = a * k[-1]^alpha + (1-delta)*k[-1] - c;
    log(a) = rho*log(a[-1]) + shk_a;
    z = rhoz*z[-1] + 0.1*(log(c[+2]) - log(c)) + shk_z;
!measurement_variables
    obs_c, obs_z
!log_variables
    !all_but obs_z
!measurement_shocks
    shk_obs_c
!measurement_equations
    obs_c = c * exp(shk_obs_c);
    obs_z = z + 1;
"""

LINEAR_FWD = r"""
!transition_variables
    y, pi, i, g
!transition_shocks
    shk_y, shk_pi, shk_i, shk_g
!parameters
    sigma, kappa, beta, phi_pi, phi_y, rho_i, rho_g
!transition_equations
    y = 0.4*y[-1] + 0.6*y[+1] - sigma*(i - pi[+1]) + g + shk_y;
    pi = 0.3*pi[-1] + 0.7*beta*pi[+1] + kappa*y + shk_pi;
    i = rho_i*i[-1] + (1-rho_i)*(phi_pi*pi[+2] + phi_y*y) + shk_i;
    g = rho_g*g[-1] + shk_g;
!measurement_variables
    obs_y
!measurement_equations
    obs_y = y + 2;
"""

BACKWARD = r"""
!transition_variables
    x, y, z
!log_variables
    z
!transition_shocks
    shk_x, shk_y, shk_z
!parameters
    rho_x, ss_x
!transition_equations
    x = rho_x*x[-1] + (1-rho_x)*ss_x + shk_x;
    y = x^2 + 0.5*y[-2] + shk_y;
    log(z) = 0.8*log(z[-1]) + (1-0.8)*log(3) + 0.1*(x - ss_x) + shk_z;
!measurement_variables
    obs_y
!measurement_equations
    obs_y = y - 1;
"""

BACKWARD_LINEAR = r"""
!transition_variables
    x, y
!transition_shocks
    shk_x, shk_y
!parameters
    rho_x
!transition_equations
    x = rho_x*x[-1] + 1 + shk_x;
    y = 0.5*x + 0.3*y[-1] + 0.1*y[-2] + shk_y;
"""

NL_PARAMS = dict(alpha=0.33, beta=0.97, delta=0.1, rho=0.8, rhoz=0.5, )


def make_nonlinear_fwd(num_variants=1):
    m = ir.Simultaneous.from_string(NONLINEAR_FWD, )
    if num_variants > 1:
        m.alter_num_variants(num_variants, )
    m.assign(**NL_PARAMS, )
    if num_variants > 1:
        m.assign(rho=[0.8, 0.5, 0.9][:num_variants], )
    m.assign(c=1, k=3, a=1, r=0.15, z=0, obs_c=1, obs_z=1, )
    quiet(m.steady, )
    quiet(m.solve, )
    return m


def make_linear_fwd():
    m = ir.Simultaneous.from_string(LINEAR_FWD, linear=True, )
    m.assign(sigma=0.5, kappa=0.2, beta=0.99, phi_pi=1.8, phi_y=0.3, rho_i=0.7, rho_g=0.6, )
    quiet(m.steady, )
    quiet(m.solve, )
    return m


def make_backward():
    m = ir.Simultaneous.from_string(BACKWARD, )
    m.assign(rho_x=0.8, ss_x=1.5, x=1.5, y=4, z=3, obs_y=3, )
    quiet(m.steady, )
    quiet(m.solve, )
    return m


def make_backward_linear():
    m = ir.Simultaneous.from_string(BACKWARD_LINEAR, linear=True, )
    m.assign(rho_x=0.5, )
    quiet(m.steady, )
    quiet(m.solve, )
    return m


# ---------------------------------------------------------------------------
# Equation residuals
# ---------------------------------------------------------------------------

def residuals_nonlinear_fwd(db, span, p, variant=0):
    """Max abs residual of the NONLINEAR_FWD dynamic equations over span"""
    def g(name, t):
        return float(np.asarray(db[name].get_data(t), dtype=float).reshape(-1)[variant])
    def shk(name, t):
        return g(name, t) + g("ant_" + name, t)
    worst = 0.0
    for t in span:
        e1 = 1/g("c", t) - p["beta"]*(1/g("c", t+1))*(g("r", t+1)+1-p["delta"])*np.exp(shk("shk_c", t))
        e2 = g("r", t) - p["alpha"]*g("a", t)*g("k", t-1)**(p["alpha"]-1)
        e3 = g("k", t) - (g("a", t)*g("k", t-1)**p["alpha"] + (1-p["delta"])*g("k", t-1) - g("c", t))
        e4 = np.log(g("a", t)) - (p["rho"]*np.log(g("a", t-1)) + shk("shk_a", t))
        e5 = g("z", t) - (p["rhoz"]*g("z", t-1) + 0.1*(np.log(g("c", t+2)) - np.log(g("c", t))) + shk("shk_z", t))
        worst = max(worst, abs(e1), abs(e2), abs(e3), abs(e4), abs(e5))
    return worst


def residuals_backward(db, span):
    def g(n, t):
        return float(np.asarray(db[n].get_data(t), dtype=float).reshape(-1)[0])
    def shk(name, t):
        return g(name, t) + g("ant_" + name, t)
    worst = 0.0
    for t in span:
        e1 = g("x", t) - (0.8*g("x", t-1) + 0.2*1.5 + shk("shk_x", t))
        e2 = g("y", t) - (g("x", t)**2 + 0.5*g("y", t-2) + shk("shk_y", t))
        e3 = np.log(g("z", t)) - (0.8*np.log(g("z", t-1)) + 0.2*np.log(3) + 0.1*(g("x", t) - 1.5) + shk("shk_z", t))
        worst = max(worst, abs(e1), abs(e2), abs(e3))
    return worst


# ---------------------------------------------------------------------------
# Scenarios
# ---------------------------------------------------------------------------

NL_NAMES = ["c", "k", "a", "r", "z", "obs_c", "obs_z", "shk_a", "shk_c", "shk_z", "ant_shk_a", "ant_shk_c", "ant_shk_z"]


def scenario_slatable():
    m = make_nonlinear_fwd(num_variants=2)
    for kwargs in (
        dict(shocks_from_data=True, stds_from_data=True, parameters_from_data=False, ),
        dict(shocks_from_data=False, stds_from_data=False, parameters_from_data=True, ),
        dict(shocks_from_data=True, stds_from_data=False, parameters_from_data=True, output_parameters=True, ),
        dict(shocks_from_data=False, stds_from_data=True, parameters_from_data=False, output_parameters=False, some_extra_option=1, ),
    ):
        sl = m.slatable_for_simulate(**kwargs, )
        label = f"SLAT simulate {sorted(kwargs.items())}"
        out(label, "max_lag/lead", sl.max_lag, sl.max_lead)
        out(label, "databox_names", sl.databox_names)
        out(label, "descriptions", sl.descriptions)
        out(label, "output_names", sl.output_names)
        out(label, "validators", list(sl.databox_validators.keys()),
            [bool(v[0](ir.Series())) for v in sl.databox_validators.values()],
            [bool(v[0](1.0)) for v in sl.databox_validators.values()],
            sorted(set(v[1] for v in sl.databox_validators.values())),
            "shared", len(set(id(v) for v in sl.databox_validators.values())))
        out(label, "fallbacks", [(k, repr(v)) for k, v in sl.fallbacks.items()])
        out(label, "overwrites", [(k, repr(v)) for k, v in sl.overwrites.items()])
        out(label, "qid_to_logly", sorted(sl.qid_to_logly.items()))
        out(label, "types", type(sl.databox_names).__name__, type(sl.descriptions).__name__,
            type(sl.databox_validators).__name__, type(sl.fallbacks).__name__, type(sl.overwrites).__name__,
            type(sl.output_names).__name__)
    for kwargs in (
        dict(shocks_from_data=True, stds_from_data=True, ),
        dict(shocks_from_data=False, stds_from_data=False, output_parameters=True, ),
    ):
        sl = m.slatable_for_kalman_filter(**kwargs, )
        label = f"SLAT kalman {sorted(kwargs.items())}"
        out(label, "databox_names", sl.databox_names)
        out(label, "output_names", sl.output_names)
        out(label, "fallbacks", [(k, repr(v)) for k, v in sl.fallbacks.items()])
        out(label, "overwrites", [(k, repr(v)) for k, v in sl.overwrites.items()])
        out(label, "qid_to_logly", sorted(sl.qid_to_logly.items()))
    # Missing required flags must raise
    for kwargs in (dict(shocks_from_data=True, ), dict(), ):
        run(f"SLAT missing flags {sorted(kwargs)}", m.slatable_for_simulate, **kwargs, )
    # Default shock lists are distinct objects of the right length
    sl = m.slatable_for_simulate(shocks_from_data=True, stds_from_data=True, parameters_from_data=False, )
    shock_values = [v for k, v in sl.fallbacks.items() if "shk_" in k and not k.startswith("std_")]
    out("SLAT shock default lists distinct", len(set(id(v) for v in shock_values)) == len(shock_values),
        [len(v) for v in shock_values])


def scenario_terminator():
    """Direct exercise of the first-order terminator (terminal condition)"""
    m = make_nonlinear_fwd()
    wrt_equations = m.get_dynamic_equation_objects(kind=_equations.TRANSITION_EQUATION, )
    qids = tuple(i.id for i in m.get_quantities(kind=ir.TRANSITION_VARIABLE, ))
    for columns in ((1, ), (1, 2, 3), (2, 3, 4, 5, 6, ), ):
        t = Terminator(m, columns, wrt_equations, )
        label = f"TERM columns={columns}"
        out(label, "terminal_wrt_spots", tuple(tuple(i) for i in t.terminal_wrt_spots))
        wrt_spots = tuple(Token(q, c, ) for c in columns for q in qids)
        # Drop one spot to mimic an exogenized data point
        if len(columns) > 1:
            wrt_spots = wrt_spots[:-2] + wrt_spots[-1:]
        t.create_terminal_jacobian_map(wrt_spots, )
        out(label, "map lhs/rhs", t.terminal_jacobian_map.lhs, t.terminal_jacobian_map.rhs)
        num_rows = len(wrt_spots)
        num_terminal = len(t.terminal_wrt_spots)
        rng = np.random.default_rng(12345)
        for rep in range(3):
            dense = rng.standard_normal((num_rows, num_rows + num_terminal))
            mask = rng.uniform(size=dense.shape) < 0.3
            dense = dense * mask
            if rep == 1:
                # A different sparsity pattern in the terminal block on a later call
                dense[:, -num_terminal:] = 0
                dense[0, -1] = 1.5
            jac = sp.sparse.csc_matrix(dense)
            jac_before = jac.toarray().copy()
            res = t.terminate_jacobian(jac, )
            out(label, f"rep{rep}", "type", type(res).__name__, res.shape, "nnz", res.nnz,
                "input_unchanged", bool(np.array_equal(jac.toarray(), jac_before)),
                "sha", hashlib.sha256(np.round(res.toarray(), 10).tobytes()).hexdigest()[:16])
            out(label, f"rep{rep}", "row0", fmt(res.toarray()[0, :]))
            out(label, f"rep{rep}", "completed", t._terminal_jacobian_map_completed,
                "grid", [np.asarray(i).reshape(-1).tolist() for i in t.terminal_jacobian_map.lhs],
                [np.asarray(i).reshape(-1).tolist() for i in t.terminal_jacobian_map.rhs])
        # Terminal simulation
        num_columns = columns[-1] + 1 + m.max_lead
        data = quiet(m.create_steady_array, num_columns=num_columns, )
        data = np.array(data, dtype=float)
        data[qids[0], columns[-1]] *= 1.05
        data[qids[1], columns[-1]] *= 0.97
        t.terminate_simulation(data, )
        out(label, "terminate_simulation", hashlib.sha256(np.round(data, 10).tobytes()).hexdigest()[:16])
        for q in qids:
            out(label, "terminal row", q, fmt(data[q, columns[-1]:]))
    out("TERM warning filters", [
        (f[0], f[2].__name__) for f in warnings.filters
        if f[2] is sp.sparse.SparseEfficiencyWarning
    ])


def scenario_nonlinear_forward():
    m = make_nonlinear_fwd()
    steady = m.get_steady()
    out("NLF steady", [(n, repr(steady[n])) for n in ["c", "k", "a", "r", "z", "obs_c", "obs_z"]])
    starts = (
        ("qq", ir.qq(2020, 1)), ("yy", ir.yy(2020)), ("dd", ir.dd(2020, 2, 27)),
        ("ii", ir.ii(-2)), ("mm", ir.mm(2021, 11)), ("hh", ir.hh(1999, 2)),
    )
    for freq_label, start in starts:
        for length in (1, 3, 12):
            span = start >> (start + length - 1)
            ext = (start - 1) >> (start + length - 1)
            db = ir.Databox.steady(m, span, )
            # Anticipated shocks only -> one frame
            db["ant_shk_a"] = ir.Series(periods=span, values=0, )
            db["ant_shk_c"] = ir.Series(periods=span, values=0, )
            db["ant_shk_z"] = ir.Series(periods=span, values=0, )
            db["shk_a"][start] = 0.05
            if length >= 3:
                db["ant_shk_c"][start+2] = -0.02
                db["ant_shk_z"][start+1] = 0.3
            for terminal in ("first_order", "data"):
                for initial_guess in ("first_order", "data"):
                    for solver_label, solver_settings in (("relaxed", RELAXED), ("default", None)):
                        if solver_label == "default" and freq_label not in ("qq", "dd"):
                            continue
                        label = f"NLF {freq_label} len={length} term={terminal} init={initial_guess} solver={solver_label}"
                        res = run(
                            label, m.simulate, db, span, method="stacked_time",
                            terminal=terminal, initial_guess=initial_guess, return_info=True,
                            when_fails="silent", solver_settings=solver_settings, remove_terminal=False,
                        )
                        if res is None:
                            continue
                        s, info = res
                        info_digest(label, info)
                        digest_db(label, s, NL_NAMES, ext)
                        digest_db(label + " terminal", s, ["c", "r", "k", "z"], (start + length) >> (start + length + 1))
                        # With the first-order terminal condition, the terminal
                        # values beyond the span are internal to the solver, so
                        # check only the periods whose leads lie within the span
                        check_span = tuple(span) if terminal == "data" else tuple(span)[:-m.max_lead]
                        resid = residuals_nonlinear_fwd(s, check_span, NL_PARAMS)
                        out(label, "equations_hold", len(check_span), bool(resid < 1e-7))
                    # Default when_fails
                    label = f"NLF {freq_label} len={length} term={terminal} init={initial_guess} default when_fails"
                    s = run(label, m.simulate, db, span, method="stacked", terminal=terminal, initial_guess=initial_guess, )
                    if s is not None:
                        digest_db(label, s, ["c", "z"], ext)


def scenario_nonlinear_plans():
    m = make_nonlinear_fwd()
    names = NL_NAMES
    start = ir.qq(2021, 3)
    span = start >> start + 7
    ext = start - 1 >> start + 7

    # Unanticipated shocks in several periods -> split frames
    db = ir.Databox.steady(m, span, )
    db["shk_a"][start] = 0.03
    db["shk_a"][start+3] = -0.04
    db["shk_z"][start+5] = 0.2
    db["ant_shk_c"] = ir.Series(periods=start+6, values=0.01, )
    for terminal in ("first_order", "data"):
        label = f"NLP multi-frame term={terminal}"
        res = run(label, m.simulate, db, span, method="stacked_time", terminal=terminal, return_info=True,
                  solver_settings=RELAXED, when_fails="silent", )
        if res is not None:
            s, info = res
            info_digest(label, info)
            digest_db(label, s, names, ext)
            for fi, fdb in enumerate(info["frame_databoxes"]):
                digest_db(label + f" frame{fi}", fdb, ["c", "z", "shk_a", "shk_z"], span)

    # force_split_frames is accepted by the stacked-time simulator
    label = "NLP force_split_frames"
    res = run(label, m.simulate, db, span, method="stacked_time", force_split_frames=True, return_info=True,
              solver_settings=RELAXED, when_fails="silent", )
    if res is not None:
        s, info = res
        info_digest(label, info)
        digest_db(label, s, ["c", "z"], ext)

    # Anticipated exogenize/endogenize
    plan = ir.SimulationPlan(m, span, )
    plan.exogenize_anticipated(start+2, "c", )
    plan.endogenize_anticipated(start+2, "ant_shk_c", )
    plan.exogenize_anticipated(start >> start+1, "z", )
    plan.endogenize_anticipated(start >> start+1, "ant_shk_z", )
    db = ir.Databox.steady(m, span, )
    db["c"][start+2] = db["c"][start+2] * 1.02
    db["z"][start] = 0.1
    db["z"][start+1] = 0.2
    for terminal in ("first_order", "data"):
        label = f"NLP exog-anticipated term={terminal}"
        res = run(label, m.simulate, db, span, method="stacked_time", plan=plan, terminal=terminal, return_info=True,
                  solver_settings=RELAXED, when_fails="silent", remove_terminal=False, )
        if res is not None:
            s, info = res
            info_digest(label, info)
            digest_db(label, s, names, ext)
            check_span = tuple(span) if terminal == "data" else tuple(span)[:-m.max_lead]
            out(label, "equations_hold", len(check_span), bool(residuals_nonlinear_fwd(s, check_span, NL_PARAMS) < 1e-7))

    # Exogenize in the last period (touches the terminal jacobian map)
    plan = ir.SimulationPlan(m, span, )
    plan.exogenize_anticipated(start+7, ("c", "k"), )
    plan.endogenize_anticipated(start+7, ("ant_shk_c", "ant_shk_a"), )
    db = ir.Databox.steady(m, span, )
    db["c"][start+7] = db["c"][start+7] * 1.01
    db["k"][start+7] = db["k"][start+7] * 0.99
    label = "NLP exog-last-period"
    res = run(label, m.simulate, db, span, method="stacked_time", plan=plan, return_info=True,
              solver_settings=RELAXED, when_fails="silent", remove_terminal=False, )
    if res is not None:
        s, info = res
        info_digest(label, info)
        digest_db(label, s, names, ext)
        check_span = tuple(span)[:-m.max_lead]
        out(label, "equations_hold", len(check_span), bool(residuals_nonlinear_fwd(s, check_span, NL_PARAMS) < 1e-7))

    # Unanticipated exogenize/endogenize
    plan = ir.SimulationPlan(m, span, )
    plan.exogenize_unanticipated(start+1, "a", )
    plan.endogenize_unanticipated(start+1, "shk_a", )
    plan.exogenize_unanticipated(start+4, "a", )
    plan.endogenize_unanticipated(start+4, "shk_a", )
    db = ir.Databox.steady(m, span, )
    db["a"][start+1] = 1.05
    db["a"][start+4] = 0.97
    db["shk_c"][start+6] = 0.01
    label = "NLP exog-unanticipated"
    res = run(label, m.simulate, db, span, method="stacked_time", plan=plan, return_info=True,
              solver_settings=RELAXED, when_fails="silent", )
    if res is not None:
        s, info = res
        info_digest(label, info)
        digest_db(label, s, names, ext)

    # Missing values in input data
    db = ir.Databox.steady(m, span, )
    db["c"][start+3] = np.nan
    db["k"][start+1] = np.nan
    db["ant_shk_a"] = ir.Series(periods=start, values=0.02, )
    for when_missing in ("silent", "warning", "error"):
        for initial_guess in ("data", "first_order"):
            label = f"NLP missing when_missing={when_missing} init={initial_guess}"
            s = run(label, m.simulate, db, span, method="stacked_time",
                    initial_guess=initial_guess, when_missing=when_missing,
                    solver_settings=RELAXED, when_fails="silent", )
            if s is not None:
                digest_db(label, s, ["c", "k", "z", "obs_c"], ext)
    label = "NLP missing fallback_value=1"
    s = run(label, m.simulate, db, span, method="stacked_time", initial_guess="data", when_missing="silent",
            fallback_value=1, solver_settings=RELAXED, when_fails="silent", )
    if s is not None:
        digest_db(label, s, ["c", "k", "z", "obs_c"], ext)

    # Missing initial condition
    db = ir.Databox.steady(m, span, )
    db["k"][start-1] = np.nan
    for when_missing in ("error", "silent"):
        label = f"NLP missing-initial when_missing={when_missing}"
        s = run(label, m.simulate, db, span, method="stacked_time", when_fails="silent", when_missing=when_missing, )
        if s is not None:
            digest_db(label, s, ["c", "k"], ext)

    # Options routed through the slatable
    db = ir.Databox.steady(m, span, )
    db["shk_a"][start] = 0.05
    db["rho"] = 0.3
    db["std_shk_a"] = 7
    for opts in (
        dict(shocks_from_data=False, ),
        dict(parameters_from_data=True, ),
        dict(parameters_from_data=True, output_parameters=True, ),
        dict(output_parameters=True, ),
        dict(stds_from_data=False, ),
        dict(prepend_input=False, ),
        dict(remove_initial=False, remove_terminal=False, prepend_input=False, ),
    ):
        label = f"NLP opts={sorted(opts.items())}"
        s = run(label, m.simulate, db, span, method="stacked_time", solver_settings=RELAXED, when_fails="silent", **opts, )
        if s is not None:
            out(label, "names", sorted(s.keys()))
            digest_db(label, s, ["c", "a", "z", "obs_z", "shk_a"], ext)
            if "rho" in s.keys():
                x = s["rho"]
                out(label, "rho", fmt(x.get_data(ext)) if hasattr(x, "get_data") else repr(x))
            out(label, "span c", str(s["c"].start), str(s["c"].end))

    # Invalid input: variable is not a time series
    db = ir.Databox.steady(m, span, )
    db["c"] = 1.0
    run("NLP non-series input", m.simulate, db, span, method="stacked_time", )
    # Invalid option values
    db = ir.Databox.steady(m, span, )
    run("NLP invalid initial_guess", m.simulate, db, span, method="stacked_time", initial_guess="nonsense", )


def scenario_multivariant():
    m = make_nonlinear_fwd(num_variants=3)
    names = ["c", "k", "a", "r", "z", "obs_c", "obs_z"]
    start = ir.mm(2020, 11)
    span = start >> start + 5
    ext = start - 1 >> start + 5
    db = ir.Databox.steady(m, span, )
    shk = np.zeros((6, 3))
    shk[0, :] = [0.05, 0.02, -0.03]
    shk[2, :] = [0.0, 0.01, 0.0]
    db["shk_a"] = ir.Series(periods=span, values=shk, )
    for terminal in ("first_order", "data"):
        label = f"MV term={terminal}"
        res = run(label, m.simulate, db, span, method="stacked_time", terminal=terminal, return_info=True,
                  solver_settings=RELAXED, when_fails="silent", )
        if res is not None:
            s, info = res
            info_digest(label, info)
            digest_db(label, s, names, ext)
    label = "MV num_variants=2"
    s = run(label, m.simulate, db, span, method="stacked_time", num_variants=2, solver_settings=RELAXED, when_fails="silent", )
    if s is not None:
        digest_db(label, s, names, ext)
    label = "MV first_order"
    s = run(label, m.simulate, db, span, method="first_order", )
    if s is not None:
        digest_db(label, s, names, ext)


def scenario_linear_vs_first_order():
    m = make_linear_fwd()
    names = ["y", "pi", "i", "g", "obs_y"]
    # Nonlinear simulators leave measurement variables as they are in the input
    transition_names = ["y", "pi", "i", "g"]
    for start in (ir.qq(2022, 4), ir.dd(2023, 12, 30), ir.hh(2020, 1)):
        for length in (1, 2, 9):
            span = start >> start + length - 1
            ext = start - 1 >> start + length - 1
            for anticipate in (True, False):
                prefix = "ant_" if anticipate else ""
                db = ir.Databox.steady(m, span, )
                for n in ("shk_y", "shk_pi", "shk_i", "shk_g"):
                    db["ant_" + n] = ir.Series(periods=span, values=0, )
                db["y"][start-1] = 0.5
                db["pi"][start-1] = -0.2
                db[prefix + "shk_y"][start] = 1.0
                if length >= 2:
                    db[prefix + "shk_pi"][start+1] = 0.5
                if length >= 9:
                    db[prefix + "shk_i"][start+4] = -0.3
                    db[prefix + "shk_g"][start+7] = 0.7
                label = f"LIN {start} len={length} anticipate={anticipate}"
                f = run(label + " FO", m.simulate, db, span, method="first_order", )
                if f is not None:
                    digest_db(label + " FO", f, names, ext)
                for terminal in ("first_order", "data"):
                    for initial_guess in ("first_order", "data"):
                        lab = f"{label} term={terminal} init={initial_guess}"
                        res = run(lab, m.simulate, db, span, method="stacked_time",
                                  terminal=terminal, initial_guess=initial_guess, return_info=True,
                                  solver_settings=RELAXED, when_fails="silent", )
                        if res is None:
                            continue
                        s, info = res
                        info_digest(lab, info)
                        digest_db(lab, s, names, ext)
                        if f is not None and terminal == "first_order":
                            out(lab, "matches_first_order", bool(max_abs_diff(s, f, transition_names, ext) < 1e-8))

    # Anticipated exogenized data points in linear model: both methods
    start = ir.qq(2030, 1)
    span = start >> start + 7
    ext = start - 1 >> start + 7
    plan = ir.SimulationPlan(m, span, )
    plan.exogenize_anticipated(start+2 >> start+3, "pi", )
    plan.endogenize_anticipated(start+2 >> start+3, "ant_shk_pi", )
    db = ir.Databox.steady(m, span, )
    db["pi"][start+2] = 1.0
    db["pi"][start+3] = 0.5
    f = run("LIN plan FO", m.simulate, db, span, method="first_order", plan=plan, )
    s = run("LIN plan ST", m.simulate, db, span, method="stacked_time", plan=plan, solver_settings=RELAXED, when_fails="silent", )
    if f is not None:
        digest_db("LIN plan FO", f, names + ["ant_shk_pi"], ext)
    if s is not None:
        digest_db("LIN plan ST", s, names + ["ant_shk_pi"], ext)
    if f is not None and s is not None:
        out("LIN plan", "matches_first_order", bool(max_abs_diff(s, f, transition_names + ["ant_shk_pi"], ext) < 1e-8))


def scenario_backward():
    names = ["x", "y", "z", "obs_y"]
    m = make_backward()
    for start in (ir.qq(2020, 1), ir.dd(2024, 2, 28), ir.ii(-3)):
        span = start >> start + 5
        ext = start - 2 >> start + 5
        db = ir.Databox.steady(m, span, )
        for n in ("shk_x", "shk_y", "shk_z"):
            db["ant_" + n] = ir.Series(periods=span, values=0, )
        db["shk_x"][start] = 0.5
        db["shk_y"][start+2] = -0.3
        db["ant_shk_z"][start+4] = 0.1
        db["x"][start-1] = 1.0
        for method in ("period_by_period", "period", "stacked_time", "stacked", "first_order"):
            for initial_guess in ("first_order", "data"):
                if method == "first_order" and initial_guess == "data":
                    continue
                label = f"BWD {start} method={method} init={initial_guess}"
                kwargs = {} if method == "first_order" else {"initial_guess": initial_guess, "solver_settings": RELAXED, "when_fails": "silent", }
                res = run(label, m.simulate, db, span, method=method, return_info=True, **kwargs, )
                if res is None:
                    continue
                s, info = res
                info_digest(label, info)
                digest_db(label, s, names, ext)
                if method != "first_order":
                    out(label, "equations_hold", bool(residuals_backward(s, span) < 1e-7))

    # Exogenized data points
    start = ir.yy(2001)
    span = start >> start + 4
    ext = start - 2 >> start + 4
    db = ir.Databox.steady(m, span, )
    db["y"][start+1] = 5
    for method in ("period_by_period", "stacked_time"):
        label = f"BWD plan method={method}"
        plan = ir.SimulationPlan(m, span, )
        if method == "stacked_time":
            plan.exogenize_anticipated(start+1, "y", )
            plan.endogenize_anticipated(start+1, "ant_shk_y", )
        else:
            plan.exogenize_unanticipated(start+1, "y", )
            plan.endogenize_unanticipated(start+1, "shk_y", )
        s = run(label, m.simulate, db, span, method=method, plan=plan, solver_settings=RELAXED, when_fails="silent", )
        if s is not None:
            digest_db(label, s, names + ["shk_y", "ant_shk_y"], ext)
            out(label, "equations_hold", bool(residuals_backward(s, span) < 1e-7))

    # Backward linear: coincide with first order
    m = make_backward_linear()
    names = ["x", "y"]
    start = ir.mm(2019, 12)
    span = start >> start + 6
    ext = start - 2 >> start + 6
    db = ir.Databox.steady(m, span, )
    db["shk_x"][start+1] = 1
    db["shk_y"][start+3] = -1
    db["ant_shk_y"] = ir.Series(periods=start+5, values=0.5, )
    db["y"][start-2] = 0
    f = run("BWDLIN FO", m.simulate, db, span, method="first_order", )
    if f is not None:
        digest_db("BWDLIN FO", f, names, ext)
    for method in ("period_by_period", "stacked_time"):
        label = f"BWDLIN {method}"
        s = run(label, m.simulate, db, span, method=method, solver_settings=RELAXED, when_fails="silent", )
        if s is None:
            continue
        digest_db(label, s, names, ext)
        if f is not None:
            out(label, "matches_first_order", bool(max_abs_diff(s, f, names, ext) < 1e-8))


def main():
    scenario_slatable()
    scenario_terminator()
    scenario_nonlinear_forward()
    scenario_nonlinear_plans()
    scenario_multivariant()
    scenario_linear_vs_first_order()
    scenario_backward()
    h = hashlib.sha256("\n".join(LINES).encode()).hexdigest()
    print("DIGEST", h, "lines", len(LINES))


if __name__ == "__main__":
    main()

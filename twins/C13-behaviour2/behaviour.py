"""
Behaviour digest for property C13 (temporal change and cumulation transforms).

Run with

    cd /tmp/wt2/C13 && PYTHONPATH=/tmp/wt2/C13/src /venv/bin/python /tmp/twin2_out/C13/behaviour.py

Prints a deterministic, line-by-line digest followed by a sha256 of all lines.
"""

import warnings
warnings.simplefilter("ignore")

import hashlib
import numpy as np
import irispie as ir
from irispie.series import main as _main


LINES = []


def out(*args):
    line = " ".join(str(a) for a in args)
    LINES.append(line)
    print(line)


def fmt_data(data):
    data = np.asarray(data, dtype=float)
    return np.array2string(
        np.round(data.T, 9) + 0.0,
        separator=",",
        max_line_width=10**9,
        threshold=10**9,
    ).replace("\n", "")


def fmt_series(x):
    if isinstance(x, Exception):
        return f"EXC {type(x).__name__}: {x}"
    return f"start={x.start!r} end={x.end!r} shape={x.data.shape} dtype={x.data.dtype} data={fmt_data(x.data)}"


def safe_repr(obj):
    try:
        return repr(obj)
    except Exception as exc:
        return f"<{type(obj).__name__} serial={getattr(obj, 'serial', None)} repr-EXC {type(exc).__name__}: {exc}>"


def attempt(func, *args, **kwargs):
    try:
        return func(*args, **kwargs)
    except Exception as exc:
        return exc


def make_values(num_periods, num_variants, seed, missing=(), positive=True):
    rng = np.random.default_rng(seed)
    values = rng.uniform(0.5, 3.0, size=(num_periods, num_variants))
    if not positive:
        values = values - 1.5
    for (row, col) in missing:
        if row < num_periods and col < num_variants:
            values[row, col] = np.nan
    return values


def make_series(start, num_periods, num_variants, seed, missing=(), positive=True):
    values = make_values(num_periods, num_variants, seed, missing, positive)
    return ir.Series(start=start, num_variants=num_variants, values=values)


# ----------------------------------------------------------------------------
# 1. Period-level helpers: create_soy / eoy / eopy / tty and Period.shift
# ----------------------------------------------------------------------------

out("# periods")
PERIOD_SAMPLES = {
    "yy": [ir.yy(y) for y in (1, 2, 1999, 2000, 2020, 2021)],
    "hh": [ir.hh(y, s) for y in (1, 2, 2020, 2021) for s in (1, 2)],
    "qq": [ir.qq(y, s) for y in (1, 2, 2019, 2020) for s in (1, 2, 3, 4)],
    "mm": [ir.mm(y, s) for y in (1, 2, 2020, 2021) for s in (1, 2, 6, 11, 12)],
    "dd": (
        [ir.dd(y, m, d) for y in (1, 2, 1900, 2000, 2019, 2020, 2021) for (m, d) in ((1, 1), (1, 2), (2, 28), (3, 1), (12, 30), (12, 31))]
        + [ir.dd(2020, 2, 29), ir.dd(2000, 2, 29)]
    ),
    "ii": [ir.ii(-2), ir.ii(0), ir.ii(1), ir.ii(7)],
}
for name, periods in PERIOD_SAMPLES.items():
    for t in periods:
        row = [name, safe_repr(t)]
        for method in ("create_soy", "create_eoy", "create_eopy", "create_tty", "create_boy", "create_som", "create_eopm", ):
            res = attempt(lambda: getattr(t, method)())
            if isinstance(res, Exception):
                row.append(f"{method}=EXC:{type(res).__name__}:{res}")
            else:
                row.append(f"{method}={safe_repr(res)}:{type(res).__name__}")
        for by in ("yoy", "soy", "boy", "eopy", "tty", -1, -3, 2, 0):
            res = attempt(t.shift, by)
            if isinstance(res, Exception):
                row.append(f"shift[{by}]=EXC:{type(res).__name__}")
            else:
                row.append(f"shift[{by}]={safe_repr(res)}")
        out(*row)


# ----------------------------------------------------------------------------
# 2. Change transforms by frequency, variants, missing values, shifts
# ----------------------------------------------------------------------------

MISSING = ((3, 0), (4, 0), (7, 1), (0, 1), (9, 0))

SERIES_SPECS = {
    "yy": (ir.yy(2015), 9),
    "hh": (ir.hh(2019, 2), 11),
    "qq": (ir.qq(2019, 3), 14),
    "mm": (ir.mm(2019, 11), 30),
    "dd_short": (ir.dd(2019, 12, 27), 12),
    "dd_leap": (ir.dd(2020, 2, 25), 10),
    "dd_long": (ir.dd(2019, 12, 20), 400),
    "ii": (ir.ii(-3), 9),
}

CHANGE_FUNCS = ("diff", "diff_log", "pct", "roc", )
ANNUALISED_FUNCS = ("adiff", "adiff_log", "apct", "aroc", )
CONVERSIONS = ("roc_from_pct", "pct_from_roc", "pct_from_apct", "roc_from_apct", "roc_from_aroc", )
CUM_FUNCS = ("cum_diff", "cum_diff_log", "cum_pct", "cum_roc", )
SHIFTS = (-1, -2, -4, -5, "yoy", "soy", "eopy", "tty", )


def digest_only(label, x):
    """Short line for big series: start, end, shape, nan count, rounded sums"""
    if isinstance(x, Exception):
        out(label, fmt_series(x))
        return
    data = np.asarray(x.data, dtype=float)
    h = hashlib.sha256(np.round(data, 9).tobytes()).hexdigest()[:16] if data.size else "empty"
    out(label, f"start={x.start!r} end={x.end!r} shape={data.shape} nans={int(np.isnan(data).sum())} nansum={np.round(np.nansum(data), 8) + 0.0} h={h}")


out("# change transforms")
for spec_name, (start, num_periods) in SERIES_SPECS.items():
    for num_variants in (1, 2):
        for with_missing in (False, True):
            x = make_series(start, num_periods, num_variants, seed=num_periods + num_variants, missing=MISSING if with_missing else ())
            show = digest_only if num_periods > 40 else (lambda label, s: out(label, fmt_series(s)))
            tag = f"{spec_name}/v{num_variants}/{'nan' if with_missing else 'full'}"
            show(f"{tag} x", x)
            for func_name in CHANGE_FUNCS:
                func = getattr(ir, func_name)
                show(f"{tag} {func_name}()", attempt(func, x))
                for shift in SHIFTS:
                    y = attempt(func, x, shift)
                    show(f"{tag} {func_name}({shift!r})", y)
                    # In-place method gives the same result and returns None
                    z = x.copy()
                    r = attempt(getattr(z, func_name), shift)
                    if isinstance(r, Exception):
                        show(f"{tag} inplace {func_name}({shift!r})", r)
                    else:
                        same = (
                            not isinstance(y, Exception)
                            and z.start == y.start if (z.start is not None and not isinstance(y, Exception) and y.start is not None) else (not isinstance(y, Exception) and z.start is y.start)
                        )
                        same = bool(same) and np.array_equal(z.data, y.data, equal_nan=True)
                        out(f"{tag} inplace {func_name}({shift!r}) returns={r!r} same={same}")
            for func_name in ANNUALISED_FUNCS:
                show(f"{tag} {func_name}", attempt(getattr(ir, func_name), x))
            for func_name in CONVERSIONS:
                show(f"{tag} {func_name}", attempt(getattr(ir, func_name), x))
            # Consistency of conversions with the transforms
            p = ir.pct(x)
            r = ir.roc(x)
            ap = ir.apct(x)
            ar = ir.aroc(x)
            checks = (
                np.allclose(ir.roc_from_pct(p).data, r.data, equal_nan=True, rtol=1e-12, atol=1e-12),
                np.allclose(ir.pct_from_roc(r).data, p.data, equal_nan=True, rtol=1e-10, atol=1e-10),
                np.allclose(ir.pct_from_apct(ap).data, p.data, equal_nan=True, rtol=1e-8, atol=1e-8),
                np.allclose(ir.roc_from_apct(ap).data, r.data, equal_nan=True, rtol=1e-8, atol=1e-8),
                np.allclose(ir.roc_from_aroc(ar).data, r.data, equal_nan=True, rtol=1e-8, atol=1e-8),
            )
            out(f"{tag} conversions consistent", checks)


# ----------------------------------------------------------------------------
# 3. Negative (non-positive-data) series for diff, log of negative -> nan
# ----------------------------------------------------------------------------

out("# signed data")
x = make_series(ir.qq(2020, 2), 10, 2, seed=5, missing=((2, 0), ), positive=False)
for func_name in CHANGE_FUNCS + ANNUALISED_FUNCS:
    with np.errstate(all="ignore"):
        out(f"signed {func_name}", fmt_series(attempt(getattr(ir, func_name), x)))


# ----------------------------------------------------------------------------
# 4. Cumulation: forward, backward, spans, initial conditions, round trips
# ----------------------------------------------------------------------------

out("# cumulation")
CUM_SPECS = {
    "yy": (ir.yy(2015), 9),
    "hh": (ir.hh(2019, 2), 11),
    "qq": (ir.qq(2019, 3), 14),
    "mm": (ir.mm(2019, 11), 20),
    "dd": (ir.dd(2019, 12, 27), 12),
    "ii": (ir.ii(-3), 9),
}
PAIRS = (("diff", "cum_diff"), ("diff_log", "cum_diff_log"), ("pct", "cum_pct"), ("roc", "cum_roc"), )

for spec_name, (start, num_periods) in CUM_SPECS.items():
    for num_variants in (1, 2):
        for with_missing in (False, True):
            x = make_series(start, num_periods, num_variants, seed=3*num_periods + num_variants, missing=((5, 0), (6, 1)) if with_missing else ())
            tag = f"{spec_name}/v{num_variants}/{'nan' if with_missing else 'full'}"
            end = x.end
            for change_name, cum_name in PAIRS:
                change_func = getattr(ir, change_name)
                cum_func = getattr(ir, cum_name)
                for shift in (-1, -2, -3):
                    d = change_func(x, shift)
                    # Defaults
                    out(f"{tag} {cum_name}({shift}) default", fmt_series(attempt(cum_func, d, shift)))
                    # Scalar initial
                    out(f"{tag} {cum_name}({shift}) initial=2.5", fmt_series(attempt(cum_func, d, shift, 2.5)))
                    # Original series as initial condition, default span
                    c = attempt(cum_func, d, shift, x)
                    out(f"{tag} {cum_name}({shift}) initial=x", fmt_series(c))
                    if not isinstance(c, Exception) and not with_missing:
                        ok = c.start == x.start and c.data.shape == x.data.shape and np.allclose(c.data, x.data, rtol=1e-9, atol=1e-9)
                        out(f"{tag} {cum_name}({shift}) round trip forward", bool(ok))
                    # Forward sub-span
                    fwd_span = ir.Span(start - shift + 1, end - 1)
                    out(f"{tag} {cum_name}({shift}) fwd span", fmt_series(attempt(cum_func, d, shift, x, fwd_span)))
                    out(f"{tag} {cum_name}({shift}) fwd span kw", fmt_series(attempt(cum_func, d, shift=shift, initial=x, span=fwd_span)))
                    # Open-ended forward span
                    out(f"{tag} {cum_name}({shift}) fwd open", fmt_series(attempt(cum_func, d, shift, x, ir.Span(start - shift, None))))
                    # Backward spans
                    bwd_span = ir.Span(end + shift, start, -1)
                    c = attempt(cum_func, d, shift, x, bwd_span)
                    out(f"{tag} {cum_name}({shift}) bwd span", fmt_series(c))
                    if not isinstance(c, Exception) and not with_missing and c.start is not None:
                        ok = c.start == x.start and c.data.shape == x.data.shape and np.allclose(c.data, x.data, rtol=1e-9, atol=1e-9)
                        out(f"{tag} {cum_name}({shift}) round trip backward", bool(ok))
                    bwd_span2 = ir.Span(end + shift - 1, start + 1, -1)
                    out(f"{tag} {cum_name}({shift}) bwd span2", fmt_series(attempt(cum_func, d, shift, x, bwd_span2)))
                    out(f"{tag} {cum_name}({shift}) bwd full", fmt_series(attempt(cum_func, d, shift, x, ir.Span(end, start, -1))))
                    out(f"{tag} {cum_name}({shift}) bwd open", fmt_series(attempt(cum_func, d, shift, x, ir.Span(None, None, -1))))
                    # In-place method
                    z = d.copy()
                    r = attempt(getattr(z, cum_name), shift, x)
                    out(f"{tag} inplace {cum_name}({shift}) returns={r!r}", fmt_series(z))
                # Keyword shifts in cumulation
                for shift in ("yoy", "soy", "eopy", "tty"):
                    d = attempt(change_func, x, shift)
                    if isinstance(d, Exception):
                        out(f"{tag} {change_name}({shift!r})", fmt_series(d))
                        continue
                    out(f"{tag} {cum_name}({shift!r}) default", fmt_series(attempt(cum_func, d, shift)))
                    out(f"{tag} {cum_name}({shift!r}) initial=x", fmt_series(attempt(cum_func, d, shift, x)))
                    out(f"{tag} {cum_name}({shift!r}) bwd", fmt_series(attempt(cum_func, d, shift, x, ir.Span(end - 2, start + 1, -1))))


# ----------------------------------------------------------------------------
# 5. Invalid shifts
# ----------------------------------------------------------------------------

out("# invalid shifts")
x = make_series(ir.qq(2020, 1), 8, 1, seed=11)
for shift in (0, 1, 3, -1.5, 0.5, -1.0, -2.0, np.int64(-2), np.float64(-1), True, False, None, float("nan"), float("inf"), "xyz", "", "boy", ):
    for func_name in ("diff", "pct", "cum_diff", "cum_roc"):
        with np.errstate(all="ignore"):
            res = attempt(getattr(ir, func_name), x, shift)
        out(f"invalid {func_name}({shift!r})", fmt_series(res))


# ----------------------------------------------------------------------------
# 6. Series.shift and its keyword variants, empty series
# ----------------------------------------------------------------------------

out("# Series.shift")
for spec_name, (start, num_periods) in CUM_SPECS.items():
    for num_variants in (1, 2):
        x = make_series(start, num_periods, num_variants, seed=17 + num_variants, missing=((0, 0), (4, 0), (4, 1), (num_periods-1, 1)))
        tag = f"{spec_name}/v{num_variants}"
        for by in (-1, -3, 2, 0, "yoy", "soy", "eopy", "tty"):
            z = x.copy()
            r = attempt(z.shift, by)
            if isinstance(r, Exception):
                out(f"{tag} shift({by!r})", fmt_series(r))
            else:
                out(f"{tag} shift({by!r}) returns={r!r}", fmt_series(z))
        for neutral_value in (0, 1, None, -7.5):
            z = x.copy()
            r = attempt(z.shift, "tty", neutral_value=neutral_value)
            if isinstance(r, Exception):
                out(f"{tag} shift('tty', neutral_value={neutral_value!r})", fmt_series(r))
            else:
                out(f"{tag} shift('tty', neutral_value={neutral_value!r})", fmt_series(z))
        z = x.copy()
        r = attempt(z.shift, )
        out(f"{tag} shift() returns={r!r}", fmt_series(z))
        z = x.copy()
        r = attempt(z.shift, True)
        out(f"{tag} shift(True)", fmt_series(z))
        z = x.copy()
        r = attempt(z.shift, -1.0)
        out(f"{tag} shift(-1.0)", fmt_series(r if isinstance(r, Exception) else z))
        z = x.copy()
        r = attempt(z.shift, np.int64(-1))
        out(f"{tag} shift(np.int64(-1))", fmt_series(r if isinstance(r, Exception) else z))

out("# empty series")
for num_variants in (1, 3):
    e = ir.Series(num_variants=num_variants)
    for by in (-1, 2, "yoy", "soy", "eopy", "tty"):
        z = e.copy()
        r = attempt(z.shift, by)
        out(f"empty/v{num_variants} shift({by!r})", fmt_series(r if isinstance(r, Exception) else z))
    for func_name in CHANGE_FUNCS + ANNUALISED_FUNCS + CONVERSIONS + CUM_FUNCS:
        out(f"empty/v{num_variants} {func_name}", fmt_series(attempt(getattr(ir, func_name), e)))


# ----------------------------------------------------------------------------
# 7. Trimming of leading and trailing missing rows
# ----------------------------------------------------------------------------

out("# trimming")
nan = np.nan
TRIM_CASES = {
    "none": [[1, 2], [3, 4], [5, 6]],
    "leading": [[nan, nan], [nan, nan], [3, 4], [5, 6]],
    "trailing": [[1, 2], [3, 4], [nan, nan]],
    "both": [[nan, nan], [1, nan], [nan, nan], [nan, 4], [nan, nan], [nan, nan]],
    "partial_rows": [[nan, 1], [2, nan]],
    "all": [[nan, nan], [nan, nan]],
    "single_obs": [[1, 2]],
    "single_nan": [[nan, nan]],
    "interior_only": [[1, 2], [nan, nan], [3, 4]],
}
for name, values in TRIM_CASES.items():
    data = np.array(values, dtype=float)
    res = _main._get_num_leading_trailing_missing_rows(data)
    out(f"trim {name} counts", tuple(int(i) for i in res), tuple(type(i).__name__ for i in res))
    for start in (ir.qq(2020, 3), ir.dd(2020, 12, 30), ir.ii(5)):
        x = ir.Series(start=start, num_variants=2, values=data)
        out(f"trim {name} {start!r} constructed", fmt_series(x))
        z = ir.Series(num_variants=2)
        z.start = start
        z.data = data.copy()
        r = z.trim()
        out(f"trim {name} {start!r} trim() returns_self={r is z}", fmt_series(z))
for shape in ((0, 1), (0, 3), (3, 0), (1, 1)):
    data = np.full(shape, nan)
    res = attempt(_main._get_num_leading_trailing_missing_rows, data)
    if isinstance(res, Exception):
        out(f"trim shape={shape}", fmt_series(res))
    else:
        out(f"trim shape={shape}", tuple(int(i) for i in res), tuple(type(i).__name__ for i in res))
for dtype in (int, bool):
    data = np.array([[0, 1], [1, 0], [0, 0]], dtype=dtype)
    res = _main._get_num_leading_trailing_missing_rows(data)
    out(f"trim dtype={dtype.__name__}", tuple(int(i) for i in res), tuple(type(i).__name__ for i in res))

# set_data through to trim
x = make_series(ir.mm(2020, 11), 6, 2, seed=23)
x.set_data(ir.mm(2020, 11) >> ir.mm(2020, 12), np.nan)
out("set_data leading nan", fmt_series(x))
x.set_data(ir.mm(2021, 4), np.nan)
out("set_data trailing nan", fmt_series(x))
x.set_data(ir.mm(2021, 8), 1.25)
out("set_data extend", fmt_series(x))
x.set_data(ir.Span(None, None), np.nan)
out("set_data all nan", fmt_series(x))


# ----------------------------------------------------------------------------
# 8. Documented formulas, period by period
# ----------------------------------------------------------------------------

out("# formulas")
for spec_name, (start, num_periods) in CUM_SPECS.items():
    x = make_series(start, num_periods, 2, seed=31, missing=((3, 0), ))
    freq = x.frequency.value or 1
    span = tuple(x.span)
    for shift in (-1, -2):
        for func_name, formula in (
            ("diff", lambda a, b: a - b),
            ("diff_log", lambda a, b: np.log(a) - np.log(b)),
            ("pct", lambda a, b: 100*(a/b - 1)),
            ("roc", lambda a, b: a/b),
        ):
            y = getattr(ir, func_name)(x, shift)
            ok = True
            for t in span:
                expected = formula(x.get_data(t), x.get_data(t + shift))
                ok = ok and np.allclose(y.get_data(t), expected, equal_nan=True, rtol=1e-12, atol=1e-12)
            out(f"formula {spec_name} {func_name}({shift})", bool(ok))
    for func_name, formula in (
        ("adiff", lambda a, b: freq*(a - b)),
        ("adiff_log", lambda a, b: freq*(np.log(a) - np.log(b))),
        ("apct", lambda a, b: 100*((a/b)**freq - 1)),
        ("aroc", lambda a, b: (a/b)**freq),
    ):
        y = getattr(ir, func_name)(x)
        ok = True
        for t in span:
            expected = formula(x.get_data(t), x.get_data(t - 1))
            ok = ok and np.allclose(y.get_data(t), expected, equal_nan=True, rtol=1e-10, atol=1e-10)
        out(f"formula {spec_name} {func_name}", bool(ok))


digest = hashlib.sha256("\n".join(LINES).encode("utf-8")).hexdigest()
print("LINES", len(LINES))
print("SHA256", digest)

"""
Deterministic digest of the public behaviour behind property C19:
databox <-> CSV, databox <-> dataslate, and databox-level name operations.

Run as
    cd /tmp/wt2/C19 && PYTHONPATH=/tmp/wt2/C19/src /venv/bin/python /tmp/twin3_out/C19/behaviour.py
The output must be byte-identical on the untouched worktree and with each twin applied.
"""

import warnings
warnings.filterwarnings("ignore")

import contextlib
import io
import os
import sys
import tempfile

import numpy as np
import irispie as ir
from irispie.dates import Frequency, EmptySpan
from irispie.dataslates.main import Dataslate
from irispie.dataslates._invariants import Invariant
from irispie.dataslates._variants import Variant
from irispie.databoxes import _imports, _fred
from irispie import frames as _frames


TMP = tempfile.mkdtemp(prefix="c19_behaviour_")
NAN = np.nan


def out(*args):
    # The name of the scratch directory is random; keep it out of the digest
    print(" ".join(str(a) for a in args).replace(TMP, "<TMP>"))


def arr(x):
    x = np.asarray(x, dtype=float)
    return np.round(x, 8).tolist()


def show_value(v):
    if isinstance(v, ir.Series):
        if v.start_date is None:
            return f"Series[{v.frequency.name} empty nv={v.shape[1]} desc={v.get_description()!r}]"
        return (
            f"Series[{v.frequency.name} {v.start_date}..{v.end_date} nv={v.shape[1]} "
            f"desc={v.get_description()!r} data={arr(v.get_data())}]"
        )
    if isinstance(v, np.ndarray):
        return f"ndarray{arr(v)}"
    return f"{type(v).__name__}:{v!r}"


def show_db(title, db):
    out(f"--- {title} [{type(db).__name__}, n={len(db)}, desc={getattr(db, '__description__', None)!r}]")
    for k, v in db.items():
        out(f"    {k!r}: {show_value(v)}")


def attempt(title, func):
    try:
        result = func()
        out(f"{title}: OK {result!r}")
        return result
    except BaseException as exc:
        out(f"{title}: RAISED {type(exc).__name__}: {str(exc)[:200]!r}")
        return None


def make_db():
    db = ir.Databox()
    db["y1"] = ir.Series(start=ir.yy(2019), values=(1.5, 2.5, NAN, 4.125), description="Yearly one")
    db["y2"] = ir.Series(start=ir.yy(2017), values=(7.0, 8.0), description="")
    db["h1"] = ir.Series(start=ir.hh(2020, 2), values=(7.0, NAN, 9.0), description="Half, with comma")
    db["q1"] = ir.Series(start=ir.qq(2020, 1), values=(1.0, 2.0, NAN, 4.0), description="Quarterly")
    db["q2"] = ir.Series(
        start=ir.qq(2019, 3),
        values=np.array([[1.0, 10.0, 100.0], [NAN, 20.0, 200.0], [3.0, NAN, 300.0]]),
        description="Quarterly three variants",
    )
    db["q3"] = ir.Series(start=ir.qq(2021, 2), values=(-1.123456789123, 1e-9, 1e12), description="Rounding")
    db["m1"] = ir.Series(start=ir.mm(2020, 11), values=np.array([[1.0, 2.0], [3.0, NAN], [5.0, 6.0]]), description="Monthly two")
    db["d1"] = ir.Series(start=ir.dd(2020, 2, 27), values=(1.0, 2.0, 3.0, NAN, 5.0), description="Daily over leap day")
    db["i1"] = ir.Series(start=ir.ii(-2), values=(1.0, 2.0, 3.0, 4.0), description="Integer")
    db["i2"] = ir.Series(start=ir.ii(3), values=(NAN, 2.0), description="Integer two")
    db["empty"] = ir.Series()
    db["scalar"] = 3.0
    db["list"] = [1, 2]
    db["text"] = "abc"
    db.__description__ = "Master databox"
    return db


# ----------------------------------------------------------------------------
out("=== A. CSV round trips")
# ----------------------------------------------------------------------------

def csv_round_trip(title, db, write_kwargs, read_kwargs):
    file_name = os.path.join(TMP, "rt.csv")
    if os.path.exists(file_name):
        os.remove(file_name)
    try:
        info = db.to_csv_file(file_name, return_info=True, **write_kwargs)
    except BaseException as exc:
        out(f"--- {title}: WRITE RAISED {type(exc).__name__}: {str(exc)[:200]!r}")
        return
    out(f"--- {title}: info={info!r}")
    with open(file_name, "rt") as fid:
        text = fid.read()
    out("    file text: " + repr(text))
    try:
        back = type(db).from_csv_file(file_name, **read_kwargs)
    except BaseException as exc:
        out(f"    READ RAISED {type(exc).__name__}: {str(exc)[:200]!r}")
        return
    show_db(title + " (read back)", back)


db = make_db()
csv_round_trip("all, description row", db, dict(description_row=True), dict(description_row=True))
csv_round_trip("all, no description row", db, dict(), dict())
csv_round_trip("selected names", db, dict(names=["q2", "m1", "y2", "scalar"], description_row=True), dict(description_row=True))
csv_round_trip("predicate names", db, dict(names=lambda n: n.startswith("q") or n.startswith("i")), dict())
csv_round_trip("span quarterly", db, dict(span=ir.qq(2019, 4) >> ir.qq(2020, 2)), dict())
csv_round_trip("span daily", db, dict(span=ir.dd(2020, 2, 28) >> ir.dd(2020, 3, 2), description_row=True), dict(description_row=True))
csv_round_trip(
    "frequency_span",
    db,
    dict(frequency_span={4: ir.qq(2019, 1) >> ir.qq(2019, 4), Frequency.MONTHLY: ..., 1: None, 0: ir.ii(0) >> ir.ii(4)}, round=3),
    dict(),
)
csv_round_trip("start period only", db, dict(names=["q1", "q2", "i1"]), dict(start_period_only=True))
csv_round_trip("semicolon delimiter, nan string", db, dict(delimiter=";", nan_str="NaN", names=["m1", "h1"]), dict(delimiter=";", csv_reader_settings={"delimiter": ";"}))
csv_round_trip("name transform", db, dict(names=["q1", "y1"]), dict(name_row_transform=lambda s: s.upper() if not s.startswith("__") else s))
csv_round_trip("nothing to export", db, dict(names=["scalar", "list"], when_empty="silent"), dict())
csv_round_trip("nothing to export, error", db, dict(names=["scalar", "list"], when_empty="error"), dict())
csv_round_trip("empty databox", ir.Databox(), dict(when_empty="silent"), dict())

# Hand-written CSV files: continuation columns, blank names, several blocks, odd marks
hand_written = {
    "basic": (
        "__quarterly__,a,*,*,,b,__yearly__,c,*\n"
        "2020-Q1,1,2,3,,4,2020,5,6\n"
        "2020-Q2,7,8,9,,10,2021,11,12\n"
        ",,,,,,2022,13,\n"
    ),
    "leading star and gaps": (
        "__monthly__,*,a,,*,b,*,__\n"
        "2020-01,1,2,3,4,5,6,\n"
        "2020-02,7,8,9,10,11,12,\n"
    ),
    "short marks": (
        "__Q,x,__m__,y,*,__i,z\n"
        "2020-Q1,1,2020-01,2,3,(1),4\n"
        "2020-Q2,5,2020-02,6,7,(2),8\n"
    ),
    "with descriptions": (
        "__daily__,p,*,q\n"
        ",Desc p,ignored,Desc q\n"
        "2020-02-28,1,2,3\n"
        "2020-02-29,4,,6\n"
        "2020-03-01,7,8,\n"
    ),
    "no blocks": (
        "a,b,c\n"
        "1,2,3\n"
    ),
    "bom": (
        "﻿__yearly__,a\n"
        "2020,1\n"
    ),
}
for key, text in hand_written.items():
    file_name = os.path.join(TMP, "hand.csv")
    with open(file_name, "wt", encoding="utf-8") as fid:
        fid.write(text)
    kwargs = dict(description_row=True) if key == "with descriptions" else {}
    try:
        back = ir.Databox.from_csv_file(file_name, **kwargs)
        show_db("hand-written: " + key, back)
    except BaseException as exc:
        out(f"--- hand-written: {key}: RAISED {type(exc).__name__}: {str(exc)[:200]!r}")

out("--- _ImportBlock.column_iterator directly")
for names, descriptions in [
    (["a", "*", "*", "", "b"], ["da", "x", "y", "z", "db"]),
    (["*", "*", "a"], ["1", "2", "3"]),
    (["", "", ""], ["", "", ""]),
    ([], []),
    (["a"], ["da"]),
    (["a", "b", "c"], ["da", "db", "dc"]),
    (["a", "", "*", "b", "*"], ["da", "", "", "db", ""]),
    (["a", "*", "b"], ["da"]),
    (["a", "*", "b", "*", "*"], ["da", "", "db", "", "", "extra", "more"]),
]:
    block = _imports._ImportBlock(None, None, 0, len(names), list(names), list(descriptions))
    attempt(f"    {names!r} {descriptions!r}", lambda: [(list(c), n, d) for c, n, d in block.column_iterator()])

out("--- Frequency.from_letter")
for s in ["__quarterly__", "q", "Q", "__q", "y", "Y", "a", "h", "m", "w", "d", "i", "u", "__monthly__",
          "_d_", "quarterly", "Daily", "x", "", "__", "_", "1", " q", "ß", "ı", "__eof__", "integer"]:
    attempt(f"    from_letter({s!r})", lambda: Frequency.from_letter(s).name)
attempt("    from_letter(None)", lambda: Frequency.from_letter(None))
attempt("    from_letter(4)", lambda: Frequency.from_letter(4))

out("--- _fred._get_dates_and_values_from_data_response")
attempt("    regular", lambda: [tuple(x) for x in _fred._get_dates_and_values_from_data_response(
    {"observations": [{"date": "2020-01-01", "value": "1.5", "x": 0}, {"date": "2020-04-01", "value": "."}]})])
attempt("    single", lambda: [tuple(x) for x in _fred._get_dates_and_values_from_data_response(
    {"observations": [{"date": "2020-01-01", "value": "1.5"}]})])
attempt("    empty", lambda: [tuple(x) for x in _fred._get_dates_and_values_from_data_response({"observations": []})])
attempt("    empty unpack", lambda: (lambda a, b: (a, b))(*_fred._get_dates_and_values_from_data_response({"observations": []})))
attempt("    missing key", lambda: [tuple(x) for x in _fred._get_dates_and_values_from_data_response(
    {"observations": [{"date": "2020-01-01", "value": "1.5"}, {"date": "2020-04-01"}]})])
attempt("    no observations", lambda: _fred._get_dates_and_values_from_data_response({}))
attempt("    generator", lambda: [tuple(x) for x in _fred._get_dates_and_values_from_data_response(
    {"observations": ({"date": str(i), "value": str(i * i)} for i in range(4))})])
attempt("    type", lambda: type(_fred._get_dates_and_values_from_data_response({"observations": []})).__name__)

out("--- _imports2 column-wise factory")
def _try_imports2():
    from irispie.databoxes import _imports2
    file_name = os.path.join(TMP, "hand2.csv")
    with open(file_name, "wt", encoding="utf-8") as fid:
        fid.write("﻿__quarterly__,a,b\nskip,da,db\n2020-Q1,1,2\n2020-Q2,3\n")
    results = []
    for kwargs in (dict(), dict(has_description_row=True), dict(skip_rows=1)):
        factory = _imports2._ColumnwiseFileFactory(file_name, **kwargs)
        result = factory.create_header_and_data_iterators()
        results.append((type(result).__name__, len(result), [list(i) for i in result]))
    return results
attempt("    create_header_and_data_iterators", _try_imports2)
def _try_imports2_missing():
    from irispie.databoxes import _imports2
    return _imports2._ColumnwiseFileFactory(os.path.join(TMP, "does_not_exist.csv")).create_header_and_data_iterators()
attempt("    missing file", lambda: _try_imports2_missing() and None)


# ----------------------------------------------------------------------------
out("=== B. Databox name operations")
# ----------------------------------------------------------------------------

def check_untouched(title, before, after, touched):
    same = all(after[k] is before[k] for k in after.keys() if k in before and k not in touched)
    out(f"    {title}: untouched items identical objects: {same}")


db = make_db()
d = db.copy()
out("copy keeps description:", repr(d.__description__), "is deep:", d["q1"] is not db["q1"], d["list"] is not db["list"])
show_db("copy()", d)
show_db("copy(list)", db.copy(["q1", "scalar", "nonexistent"]))
show_db("copy(list, list)", db.copy(["q1", "scalar"], ["Q1", "SCALAR"]))
show_db("copy(predicate, func)", db.copy(lambda n: n.startswith("i"), lambda n: n + "_copy"))
show_db("copy(str, str)", db.copy("m1", "mm"))
attempt("copy strict missing", lambda: db.copy(["q1", "nonexistent"], strict_names=True))

out("--- shallow")
s = db.shallow()
out("type", type(s).__name__, "desc", repr(s.__description__), "keys", list(s.keys()))
out("same objects:", all(s[k] is db[k] for k in db.keys()), "distinct container:", s is not db)
s = db.shallow(["q2", "list", "nope", "y1"], ["Q2", "LIST", "NOPE", "Y1"])
out("keys", list(s.keys()), "same objects:", s["Q2"] is db["q2"], s["LIST"] is db["list"], s["Y1"] is db["y1"])
s = db.shallow(lambda n: len(n) == 2, lambda n: n[0])
out("duplicate targets:", list(s.keys()), [k for k in db.keys() if any(s[t] is db[k] for t in s)])
s = db.shallow("text")
out("single:", dict(s))
s = db.shallow(target_names=str.upper)
out("targets only:", list(s.keys()))
s = db.shallow(())
out("empty selection:", dict(s), type(s).__name__)
attempt("shallow strict missing", lambda: db.shallow(["q1", "nope"], strict_names=True))
attempt("shallow strict ok", lambda: list(db.shallow(["q1", "y1"], strict_names=True).keys()))
class SubBox(ir.Databox):
    pass
sb = SubBox(a=1, b=2)
out("subclass shallow:", type(sb.shallow("a")).__name__, dict(sb.shallow("a")))
out("subclass or:", type(sb | {"c": 3}).__name__, dict(sb | {"c": 3}))

out("--- print_contents")
for sel in (None, ["q1", "scalar", "list", "nope"], lambda n: n.startswith("y"), "text", ()):
    buffer = io.StringIO()
    with contextlib.redirect_stdout(buffer):
        result = db.print_contents(sel) if sel is not None else db.print_contents()
    out("    result:", result, "text:", repr(buffer.getvalue()))
buffer = io.StringIO()
with contextlib.redirect_stdout(buffer):
    ir.Databox().print_contents()
out("    empty databox text:", repr(buffer.getvalue()))

out("--- rename")
d = make_db(); before = dict(d)
out("returns:", d.rename(["q1", "scalar", "nope"], ["Q1", "SCALAR", "NOPE"]))
out(list(d.keys())); check_untouched("rename list", before, d, ())
out("moved objects:", d["Q1"] is before["q1"], d["SCALAR"] is before["scalar"], "desc", repr(d.__description__))
d = make_db(); before = dict(d)
d.rename(["q1", "q2"], ["q2", "q1"])
out("swap chain:", list(d.keys()), d["q1"] is before["q1"], "q2" in d)
d = make_db(); before = dict(d)
d.rename(["q1", "q2", "q3"], ["q2", "q3", "q1"])
out("rotate chain:", list(d.keys()), d["q1"] is before["q1"])
d = make_db()
d.rename(lambda n: n.startswith("i"), lambda n: "int_" + n)
out("predicate/func:", list(d.keys()))
d = make_db()
d.rename("text", "TEXT")
out("single:", list(d.keys()))
d = make_db()
d.rename(target_names=lambda n: n.upper())
out("all upper:", list(d.keys()))
d = make_db()
d.rename()
out("no-op:", list(d.keys()))
d = make_db()
d.rename(["q1", "q2"], ["same", "same"])
out("same target:", list(d.keys()), show_value(d["same"]))
d = make_db()
d.rename(["q1"], ["q1"])
out("onto itself:", list(d.keys()))
d = make_db()
attempt("rename strict missing", lambda: d.rename(["q1", "nope", "q2"], ["A", "B", "C"], strict_names=True))
out("after failed strict:", list(d.keys()))
d = make_db()
d.rename(["q1", "q2", "q3"], ["A"])
out("short targets:", list(d.keys()))

out("--- remove")
d = make_db(); before = dict(d)
out("returns:", d.remove(["q1", "nope", "scalar"]))
out(list(d.keys())); check_untouched("remove", before, d, ())
d = make_db(); d.remove(lambda n: n[0] in "qy"); out("predicate:", list(d.keys()))
d = make_db(); d.remove("text"); out("single:", list(d.keys()))
d = make_db(); out("None returns:", d.remove(None), d.remove(), len(d))
d = make_db(); d.remove(()); out("empty:", len(d))
d = make_db(); d.remove(iter(["q1", "q2"])); out("iterator:", list(d.keys()))
d = make_db(); attempt("remove strict missing", lambda: d.remove(["q1", "nope", "q2"], strict_names=True)); out("after:", list(d.keys()))
d = make_db(); attempt("remove duplicate", lambda: d.remove(["q1", "q1", "q2"])); out("after:", list(d.keys()))
d = make_db(); d.remove(lambda n: True); out("all:", dict(d), repr(d.__description__))

out("--- keep")
d = make_db(); before = dict(d)
out("returns:", d.keep(["scalar", "q1", "nope", "y2"]))
out(list(d.keys())); check_untouched("keep", before, d, ())
d = make_db(); d.keep(lambda n: n[0] in "qy"); out("predicate:", list(d.keys()))
d = make_db(); d.keep("text"); out("single:", list(d.keys()))
d = make_db(); r = d.keep(None); out("None returns self:", r is d, len(d))
d = make_db(); r = d.keep(); out("default returns self:", r is d, len(d))
d = make_db(); d.keep(()); out("empty:", dict(d), repr(d.__description__))
d = make_db(); d.keep(iter(["q2", "q1"])); out("iterator:", list(d.keys()))
d = make_db(); d.keep(["q2", "q1", "q2"]); out("duplicates:", list(d.keys()))
d = make_db(); attempt("keep strict missing", lambda: d.keep(["q1", "nope"], strict_names=True)); out("after:", list(d.keys()))
d = make_db(); d[("tuple", 1)] = 1; d[5] = 2; d.keep(["q1", 5]); out("non-string keys:", list(d.keys()))

out("--- apply")
d = make_db(); before = dict(d)
out("returns:", d.apply(lambda x: x * 2, ["q1", "scalar", "nope"], in_place=False))
out(show_value(d["q1"]), d["scalar"], list(d.keys()) == list(before.keys()))
check_untouched("apply", before, d, ("q1", "scalar"))
d = make_db(); before = dict(d)
d.apply(lambda x: x.clip(ir.qq(2020, 2), ir.qq(2020, 3)), lambda n: n in ("q1", "q3"))
out("in place:", show_value(d["q1"]), show_value(d["q3"]), d["q1"] is before["q1"])
d = make_db()
d.apply(lambda x: 0, "list", in_place=True)
out("in place ignores output:", d["list"])
d = make_db()
d.apply(lambda x: None, in_place=False)
out("all to None:", set(map(repr, d.values())), list(d.keys()) == list(make_db().keys()))
for when_fails in ("critical", "error", "warning", "silent", "bogus"):
    d = make_db()
    with warnings.catch_warnings(record=True) as caught:
        warnings.simplefilter("always")
        attempt(f"apply failing when_fails={when_fails}", lambda: d.apply(lambda x: x + 1, ["scalar", "text", "list", "q1"], in_place=False, when_fails=when_fails))
        out("    warnings:", [(w.category.__name__, str(w.message)) for w in caught])
    out("    after:", d["scalar"], d["text"], d["list"], show_value(d["q1"]))
d = make_db(); attempt("apply strict missing", lambda: d.apply(lambda x: x, ["q1", "nope"], strict_names=True))
d = make_db(); attempt("apply strict missing silent", lambda: d.apply(lambda x: x, ["q1", "nope"], strict_names=True, when_fails="silent"))
def _raise_keyboard(x):
    raise KeyboardInterrupt("stop")
d = make_db(); attempt("apply base exception", lambda: d.apply(_raise_keyboard, ["q1"], when_fails="silent"))

out("--- __or__")
a = make_db()
b = ir.Databox(); b["q1"] = ir.Series(start=ir.qq(2000, 1), values=(9.0,)); b["new"] = [1, [2]]; b.__description__ = "Other"
c = a | b
show_db("a | b", c)
out("deep from left:", c["q2"] is not a["q2"], c["list"] is not a["list"], "shallow from right:", c["q1"] is b["q1"], c["new"] is b["new"])
out("left unchanged:", list(a.keys()) == list(make_db().keys()), show_value(a["q1"]))
out("type:", type(c).__name__, type(a | {"x": 1}).__name__, list((a | {"x": 1}).keys())[-2:])
out("pairs:", list((a | [("x", 1), ("y1", 2)]).items())[-1], (a | [("x", 1), ("y1", 2)])["y1"])
attempt("or with int", lambda: a | 3)
attempt("dict | databox", lambda: type({"x": 1} | a).__name__)
out("empty | empty:", dict(ir.Databox() | ir.Databox()), repr((ir.Databox() | a).__description__))

out("--- get_span_by_frequency")
d = make_db()
for f in list(Frequency) + [1, 2, 4, 12, 52, 365, 0, -1]:
    span = d.get_span_by_frequency(f)
    out(f"    {f!r}: {type(span).__name__} {span.start_date} {span.end_date} len={len(span)} singleton={span is EmptySpan()}")
attempt("    frequency 7", lambda: type(d.get_span_by_frequency(7)).__name__)
attempt("    frequency None", lambda: type(d.get_span_by_frequency(None)).__name__)
attempt("    frequency 'q'", lambda: type(d.get_span_by_frequency("q")).__name__)
d2 = ir.Databox()
d2["a"] = ir.Series(start=ir.qq(2020, 1), values=(1.0, 2.0))
d2["b"] = ir.Series(start=ir.qq(2020, 1), values=(1.0, 2.0))
d2["c"] = ir.Series(start=ir.qq(2019, 4), values=(1.0,))
span = d2.get_span_by_frequency(4)
out("    ties:", span.start_date, span.end_date, span.start_date is d2["c"].start_date, [str(p) for p in span])
d2["e"] = ir.Series(frequency=Frequency.QUARTERLY) if "frequency" in ir.Series.__init__.__code__.co_varnames else ir.Series()
attempt("    with empty series", lambda: str(d2.get_span_by_frequency(4).start_date))
out("    empty databox:", type(ir.Databox().get_span_by_frequency(4)).__name__)

out("--- overlay / underlay / clip / prepend / merge")
def other_db():
    o = ir.Databox()
    o["q1"] = ir.Series(start=ir.qq(2019, 3), values=(10.0, 20.0, 30.0, NAN, 50.0, 60.0, 70.0, 80.0))
    o["q2"] = ir.Series(start=ir.qq(2019, 1), values=np.array([[5.0, 6.0, 7.0]] * 6))
    o["m1"] = ir.Series(start=ir.qq(2020, 1), values=(1.0,))
    o["scalar"] = 99
    o["extra"] = ir.Series(start=ir.yy(2000), values=(1.0,))
    return o
for method in ("overlay", "underlay"):
    for kwargs in (dict(), dict(names=["q1", "nope"]), dict(names=["q1", "q2", "m1"])):
        d = make_db(); before = dict(d); o = other_db()
        attempt(f"{method} {kwargs}", lambda: getattr(d, method)(o, **kwargs))
        out("   ", show_value(d["q1"])); out("   ", show_value(d["q2"])); out("   ", show_value(d["m1"]))
        out("    keys same:", list(d.keys()) == list(before.keys()), "others untouched:", all(d[k] is before[k] for k in d))
    d = make_db(); attempt(f"{method} strict missing", lambda: getattr(d, method)(other_db(), names=["q1", "nope"], strict_names=True))
for args in ((ir.qq(2020, 2), ir.qq(2020, 3)), (None, ir.qq(2019, 4)), (ir.dd(2020, 2, 29), None), (None, None), (ir.ii(0), ir.ii(0))):
    d = make_db(); d.clip(*args)
    show_db(f"clip {args[0]} {args[1]}", d)
d = make_db(); out("prepend returns:", d.prepend(other_db(), ir.qq(2019, 4)))
show_db("prepend", d)
for strategy in ("stack", "replace", "discard", "silent", "warning", "error", "critical"):
    d = make_db(); d.keep(["q1", "scalar", "list", "text"])
    o = ir.Databox(); o["q1"] = ir.Series(start=ir.qq(2020, 2), values=(5.0, 6.0)); o["scalar"] = 4; o["list"] = [3]; o["brand_new"] = 1
    with warnings.catch_warnings(record=True) as caught:
        warnings.simplefilter("always")
        attempt(f"merge {strategy}", lambda: d.merge(o, strategy))
        out("    warnings:", len(caught))
    show_db(f"merge {strategy}", d)
show_db("by_merging", ir.Databox.by_merging([make_db().copy(["q1", "scalar"]), make_db().copy(["q1", "m1"]), {"scalar": 1}]))

out("--- sequences of operations")
d = make_db()
d.rename(lambda n: n.startswith("q"), lambda n: "quarterly_" + n)
d.keep(lambda n: "_" in n or n in ("y1", "scalar"))
d.apply(lambda x: x + 1, lambda n: n != "scalar", in_place=False)
e = d | {"scalar": 4}
e.remove("y1")
e.clip(ir.qq(2020, 1), None)
f = e.shallow(lambda n: True, lambda n: n.removeprefix("quarterly_"))
show_db("sequence result", f)
csv_round_trip("sequence to csv", f, dict(description_row=True), dict(description_row=True))


# ----------------------------------------------------------------------------
out("=== C. Dataslates")
# ----------------------------------------------------------------------------

def show_ds(title, ds):
    inv = ds._invariant
    out(f"--- {title}: names={ds.names} periods={[str(p) for p in ds.periods]} base_columns={inv.base_columns} "
        f"nv={ds.num_variants} descriptions={ds.descriptions} min_max_shift={tuple(inv.min_max_shift)}")
    for vid in range(ds.num_variants):
        data = ds.get_data_variant(vid)
        out(f"    v{vid}: shape={data.shape} dtype={data.dtype} data={arr(data)}")


db = make_db()
for span, names, kwargs in [
    (ir.qq(2019, 2) >> ir.qq(2021, 1), ["q1", "q2", "scalar", "list", "nope"], dict(num_variants=3)),
    (ir.qq(2019, 2) >> ir.qq(2021, 1), ["q1", "m1"], dict(num_variants=1)),
    (ir.qq(2020, 1) >> ir.qq(2020, 2), ["q1", "q2"], dict(num_variants=1)),
    (ir.qq(2019, 2) >> ir.qq(2021, 1), ["q1", "q2", "q3"], dict(num_variants=2, fallbacks={"q1": 0.5, "q3": -1}, overwrites={"q2": 7})),
    (ir.qq(2019, 2) >> ir.qq(2021, 1), ["q1", "q2"], dict(num_variants=2, base_columns=(2, 3, 4), clip_data_to_base_span=True, descriptions=("A", None))),
    (ir.mm(2020, 10) >> ir.mm(2021, 2), ["m1", "scalar", "list"], dict(num_variants=2)),
    (ir.mm(2020, 10) >> ir.mm(2021, 2), None, dict(num_variants=2)),
    (ir.dd(2020, 2, 26) >> ir.dd(2020, 3, 3), ["d1"], dict()),
    (ir.ii(-4) >> ir.ii(5), ["i1", "i2"], dict()),
    (ir.yy(2016) >> ir.yy(2023), ["y1", "y2"], dict(fallbacks={"y1": 0})),
]:
    try:
        ds = Dataslate.from_databox(db, names, span, **kwargs)
    except BaseException as exc:
        out(f"--- from_databox {span} {names}: RAISED {type(exc).__name__}: {str(exc)[:200]!r}")
        continue
    show_ds(f"from_databox {span.start_date}..{span.end_date} {names} {sorted(kwargs)}", ds)
    back = ds.to_databox()
    show_db("to_databox", back)
    show_db("to_databox trim=False onto target", ds.to_databox(target_db=ir.Databox(keep_me=1), trim=False))
    # Round trip: values on span identical to input, NaN elsewhere
    for n in ds.names:
        if n in db and isinstance(db[n], ir.Series) and not kwargs.get("fallbacks") and not kwargs.get("overwrites") and not kwargs.get("clip_data_to_base_span"):
            nv = min(db[n].shape[1], ds.num_variants)
            expected = db[n].get_data(tuple(span))[:, :nv]
            got = np.column_stack([ds.get_data_variant(v)[ds.names.index(n), :] for v in range(nv)])
            out(f"    round trip {n}: {np.array_equal(expected, got, equal_nan=True)}")


def fresh_ds(num_variants=2, base_columns=(2, 3, 4, 5), min_max_shift=(-2, 1)):
    return Dataslate.from_databox(
        make_db(), ["q1", "q2", "scalar"], ir.qq(2019, 3) >> ir.qq(2020, 4),
        num_variants=num_variants, base_columns=base_columns, min_max_shift=min_max_shift,
        descriptions=("one", "two", "three"),
    )


out("--- Dataslate period trimming")
for method_name in ("remove_periods_from_start", "remove_periods_from_end", "add_periods_to_end"):
    for n in (0, 1, 2, 3, 5, 6, 7, -1, True, 2.0, None, "1"):
        ds = fresh_ds()
        invariant_before = ds._invariant
        variants_before = list(ds._variants)
        arrays_before = [v.data for v in ds._variants]
        result = attempt(f"{method_name}({n!r})", lambda: getattr(ds, method_name)(n))
        show_ds("after", ds)
        out("    same invariant object:", ds._invariant is invariant_before,
            "same variant objects:", all(a is b for a, b in zip(ds._variants, variants_before)),
            "same arrays:", [v.data is a for v, a in zip(ds._variants, arrays_before)],
            "views:", [v.data.base is not None for v in ds._variants])
        attempt("    to_databox", lambda: show_db("trimmed to_databox", ds.to_databox()))
    attempt(f"{method_name}()", lambda: getattr(fresh_ds(), method_name)())
    attempt(f"{method_name}(num=1)", lambda: getattr(fresh_ds(), method_name)(num=1))
    attempt(f"{method_name} on empty Dataslate", lambda: getattr(Dataslate(), method_name)(1))
    attempt(f"{method_name} on empty Dataslate, negative", lambda: getattr(Dataslate(), method_name)(-1))
    ds0 = Dataslate.from_databox(make_db(), ["q1"], ir.qq(2020, 1) >> ir.qq(2020, 2), num_variants=0)
    attempt(f"{method_name} with no variants", lambda: getattr(ds0, method_name)(1))
    show_ds("no variants after", ds0)

out("--- combined trimming sequence")
ds = fresh_ds(num_variants=3)
ds.add_periods_to_end(2); ds.remove_periods_from_start(1); ds.remove_periods_from_end(1); ds.add_periods_to_end(1); ds.remove_periods_from_start(2)
show_ds("sequence", ds)
show_db("sequence to_databox full", ds.to_databox())
attempt("sequence to_databox base", lambda: show_db("sequence to_databox base", ds.to_databox(span="base")))
ds = fresh_ds(); ds.remove_initial(); show_ds("remove_initial", ds)
ds = fresh_ds(); ds.remove_terminal(); show_ds("remove_terminal", ds)
ds = fresh_ds(); ds.remove_terminal(); ds.remove_initial(); show_ds("remove both", ds)
ds = fresh_ds(); cp = ds.copy(); cp.add_periods_to_end(2); cp.remove_periods_from_start(3)
show_ds("original after copy trimmed", ds)
for freq_span, freq_names in (
    (ir.dd(2020, 2, 27) >> ir.dd(2020, 2, 28), ["d1", "scalar"]),
    (ir.ii(-1) >> ir.ii(0), ["i1", "i2"]),
    (ir.mm(2020, 12) >> ir.mm(2020, 12), ["m1"]),
    (ir.yy(2020) >> ir.yy(2021), ["y1", "y2", "list"]),
    (ir.hh(2020, 2) >> ir.hh(2021, 1), ["h1"]),
):
    ds = Dataslate.from_databox(make_db(), freq_names, freq_span, num_variants=2, base_columns=(0,))
    ds.add_periods_to_end(3); ds.remove_periods_from_start(1)
    show_ds(f"other frequency {freq_span.start_date}", ds)

out("--- Invariant / Variant directly")
for n in (0, 1, 3, 8, 9, -1, -3, True, False):
    inv = Invariant(("a", "b"), tuple(ir.qq(2020, 1) >> ir.qq(2021, 4)), base_columns=(5, 1, 2, 7))
    attempt(f"Invariant.remove_periods_from_start({n!r})", lambda: inv.remove_periods_from_start(n))
    out("    ", [str(p) for p in inv.periods], inv.base_columns, type(inv.periods).__name__, type(inv.base_columns).__name__)
    inv = Invariant(("a", "b"), tuple(ir.qq(2020, 1) >> ir.qq(2021, 4)), base_columns=(5, 1, 2, 7))
    attempt(f"Invariant.add_periods_to_end({n!r})", lambda: inv.add_periods_to_end(n))
    out("    ", [str(p) for p in inv.periods], inv.base_columns, type(inv.periods).__name__, [type(p).__name__ for p in inv.periods[-2:]])
    var = Variant(); var.data = np.arange(12.0).reshape(2, 6); original = var.data
    attempt(f"Variant.remove_periods_from_start({n!r})", lambda: var.remove_periods_from_start(n))
    out("    ", arr(var.data), var.data is original, var.data.base is original.base if var.data is not original else None)
    var = Variant(); var.data = np.arange(12.0).reshape(2, 6); original = var.data
    attempt(f"Variant.add_periods_to_end({n!r})", lambda: var.add_periods_to_end(n))
    out("    ", arr(var.data), var.data is original, var.data.dtype, var.data.flags["C_CONTIGUOUS"], var.data.flags["OWNDATA"])
inv = Invariant((), ()); attempt("Invariant no periods add", lambda: inv.add_periods_to_end(1)); attempt("Invariant no periods add 0", lambda: inv.add_periods_to_end(0))
attempt("Invariant no periods remove", lambda: inv.remove_periods_from_start(1)); out("    ", inv.periods, inv.base_columns)
attempt("Invariant add float", lambda: Invariant(("a",), tuple(ir.qq(2020, 1) >> ir.qq(2020, 2))).add_periods_to_end(1.5))
attempt("Invariant add nan", lambda: Invariant(("a",), tuple(ir.qq(2020, 1) >> ir.qq(2020, 2))).add_periods_to_end(NAN))
attempt("Invariant remove None", lambda: Invariant(("a",), tuple(ir.qq(2020, 1) >> ir.qq(2020, 2))).remove_periods_from_start(None))
attempt("Invariant keyword", lambda: Invariant(("a",), tuple(ir.qq(2020, 1) >> ir.qq(2020, 2))).remove_periods_from_start(num_periods_to_remove=1))
attempt("Invariant keyword add", lambda: Invariant(("a",), tuple(ir.qq(2020, 1) >> ir.qq(2020, 2))).add_periods_to_end(num_periods_to_add=1))
for data in (np.zeros((0, 4)), np.zeros((3, 0)), np.array([[1, 2, 3]]), np.asfortranarray(np.arange(6.0).reshape(2, 3)), np.arange(12.0).reshape(2, 6)[:, 1:4], np.arange(6, dtype=np.float32).reshape(2, 3)):
    var = Variant(); var.data = data
    attempt("    pad", lambda: var.add_periods_to_end(2))
    out("    pad:", var.data.shape, var.data.dtype, arr(var.data) if var.data.dtype.kind == "f" else var.data.tolist(), var.data.flags["C_CONTIGUOUS"], var.data.flags["F_CONTIGUOUS"])
    var = Variant(); var.data = data
    attempt("    cut", lambda: var.remove_periods_from_start(2))
    out("    cut:", var.data.shape, var.data.dtype, var.data.tolist())
var = Variant(); attempt("Variant no data add", lambda: var.add_periods_to_end(1)); attempt("Variant no data add 0", lambda: var.add_periods_to_end(0))
attempt("Variant no data remove", lambda: var.remove_periods_from_start(1)); attempt("Variant no data remove 0", lambda: var.remove_periods_from_start(0))
var = Variant(); var.data = np.zeros((1, 3))
attempt("Variant add nan", lambda: var.add_periods_to_end(NAN)); attempt("Variant add float", lambda: var.add_periods_to_end(1.5)); attempt("Variant add None", lambda: var.add_periods_to_end(None))
attempt("Variant remove float", lambda: var.remove_periods_from_start(1.5)); attempt("Variant remove nan", lambda: var.remove_periods_from_start(NAN))
attempt("Variant add keyword", lambda: var.add_periods_to_end(num_periods_to_add=1)); out("    ", var.data.shape)
attempt("Variant remove keyword", lambda: var.remove_periods_from_start(num_periods_to_remove=1)); out("    ", var.data.shape)

out("--- frames._get_break_periods_from_break_points")
periods = tuple(ir.qq(2020, 1) >> ir.qq(2021, 2))
for flags in ((True, False, False, True, False, True), (False,) * 6, (True,) * 6, (1, 0, 2, 0.0, "x", ""), (True, True), np.array([True, False, True, False, False, False]), (True,) * 9):
    attempt(f"    {flags!r}", lambda: (lambda r: (type(r).__name__, [str(p) for p in r]))(_frames._get_break_periods_from_break_points(flags, periods)))
attempt("    empty periods", lambda: _frames._get_break_periods_from_break_points((), ()))
attempt("    list periods", lambda: [str(p) for p in _frames._get_break_periods_from_break_points([True, True], list(periods[:2]))])
attempt("    generator flags", lambda: [str(p) for p in _frames._get_break_periods_from_break_points((i % 2 == 0 for i in range(6)), periods)])
attempt("    keyword", lambda: _frames._get_break_periods_from_break_points(base_break_points=(True,), base_periods=periods))


# ----------------------------------------------------------------------------
out("=== D. Model-level users of the conversions (simulate, vary_stds, RedVAR estimate)")
# ----------------------------------------------------------------------------

source = r"""
!transition_variables
    a, b, c
!transition_shocks
    shk_a, shk_b, shk_c
!parameters
    rho
!transition_equations
    a = rho*a[-1] + shk_a;
    b = 0.5*b[-2] + 0.1*a[+1] + shk_b;
    c = a + b + shk_c;
"""

def _model_section():
    m = ir.Simultaneous.from_string(source, linear=True, flatten=True)
    m.assign(rho=0.8, std_shk_a=0.1, std_shk_b=0.2, std_shk_c=0.3)
    m.steady(); m.solve()
    span = ir.qq(2020, 1) >> ir.qq(2020, 4)
    in_db = ir.Databox.steady(m, span)
    in_db["shk_a"] = ir.Series(start=ir.qq(2020, 1), values=(1.0, 0.0, NAN, -0.5))
    in_db["b"] = ir.Series(start=ir.qq(2019, 1), values=(0.1, 0.2, 0.3, 0.4), description="input b")
    in_db["unrelated"] = "keep me"
    target = ir.Databox(); target["a"] = "to be replaced"; target["other"] = [1, 2]; target.__description__ = "Target"
    for kwargs in (dict(), dict(target_db=target), dict(prepend_input=False), dict(remove_initial=False, remove_terminal=False),
                   dict(remove_initial=False), dict(remove_terminal=False, target_db=target, prepend_input=False), dict(return_info=True, target_db=target),
                   dict(return_info=True, unpack_singleton=False), dict(num_variants=2, return_info=True)):
        result = m.simulate(in_db, span, **kwargs)
        if kwargs.get("return_info"):
            out_db, info = result
            out(f"    info type: {type(info).__name__} len={len(info)}", sorted(info.keys()) if isinstance(info, dict) else [sorted(i.keys()) for i in info])
        else:
            out_db = result
            out("    result type:", type(result).__name__)
        show_db(f"simulate {sorted(kwargs)}", out_db)
    out("    target unchanged:", dict(target), repr(target.__description__), "input unchanged:", show_value(in_db["b"]))
    mm_ = m.copy(); mm_.alter_num_variants(2); mm_.assign(rho=(0.8, 0.5)); mm_.steady(); mm_.solve()
    show_db("simulate two variants", mm_.simulate(in_db, span, target_db=target))
    out_db, info = mm_.simulate(in_db, span, return_info=True)
    out("    info two variants:", type(info).__name__, len(info))
    # vary_stds
    periods = (span.start_date + 1, span.end_date - 1)
    sdb = ir.Databox(); sdb["std_shk_a"] = ir.Series(periods=periods, values=(10.0, 20.0)); sdb["std_shk_b"] = 5
    for args, kwargs in (((sdb, None, span), dict()), ((None, sdb, span), dict()), ((sdb, sdb, span), dict(target_db=target)),
                         ((None, None, span), dict(return_info=True)), ((sdb, None, span), dict(return_info=True, unpack_singleton=False, target_db=target)),
                         ((sdb, None, span), dict(num_variants=2, return_info=True))):
        result = m.vary_stds(*args, **kwargs)
        if kwargs.get("return_info"):
            out("    vary_stds info:", type(result).__name__, len(result), repr(result[1]))
            result = result[0]
        else:
            out("    vary_stds type:", type(result).__name__)
        show_db(f"vary_stds {[a is not None for a in args[:2]]} {sorted(kwargs)}", result)
    attempt("vary_stds no span", lambda: m.vary_stds(sdb, None))
    out("    target unchanged:", dict(target))

attempt("model section", _model_section)

def _red_var_section():
    rng = np.random.default_rng(0)
    span = ir.qq(2010, 1) >> ir.qq(2014, 4)
    db = ir.Databox()
    x = np.cumsum(rng.standard_normal((len(span), 2)), axis=0) * 0.1
    db["x"] = ir.Series(start=span.start_date, values=x[:, 0], description="x input")
    db["y"] = ir.Series(start=span.start_date, values=x[:, 1])
    db["z"] = "untouched"
    v = ir.RedVAR(["x", "y"], order=2)
    target = ir.Databox(); target["x"] = 1; target["keep"] = 2
    for kwargs in (dict(), dict(target_db=target)):
        out_db = v.estimate(db, span, **kwargs)
        out("    estimate type:", type(out_db).__name__)
        show_db(f"estimate {sorted(kwargs)}", out_db)
    out("    target unchanged:", dict(target))

attempt("red var section", _red_var_section)

import shutil
shutil.rmtree(TMP, ignore_errors=True)
out("=== done")

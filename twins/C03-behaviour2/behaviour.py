r"""
Behaviour digest for C03 (Kalman filter, smoother, likelihood).

Run with
    cd /tmp/wt2/C03 && PYTHONPATH=/tmp/wt2/C03/src /venv/bin/python /tmp/twin2_out/C03/behaviour.py 2>/dev/null

Prints a deterministic digest of kalman_filter / neg_log_likelihood output
(and of the slatables and period generators they are built on) for a range
of models, std parameterisations, missing-data masks, spans and options.
"""

from __future__ import annotations

import contextlib
import hashlib
import io
import warnings

import numpy as np

import irispie as ir
from irispie.simultaneous import _kalmans as sk
from irispie.fords import kalmans as fk

warnings.filterwarnings("ignore")
np.seterr(all="ignore", )


NDIGITS = 9


def fmt_number(x):
    if x is None:
        return "None"
    if isinstance(x, (bool, np.bool_, )):
        return repr(bool(x))
    if isinstance(x, (int, np.integer, )):
        return repr(int(x))
    x = float(x)
    if np.isnan(x):
        return "nan"
    if np.isinf(x):
        return "inf" if x > 0 else "-inf"
    x = round(x, NDIGITS)
    if x == 0:
        x = 0.0
    return f"{x:.{NDIGITS}g}"


def fmt_array(a):
    a = np.asarray(a)
    if a.dtype == object:
        return "[" + ",".join(fmt_any(i) for i in a.tolist()) + "]"
    return f"{a.shape}[" + ",".join(fmt_number(i) for i in a.reshape(-1).tolist()) + "]"


def fmt_series(s):
    periods = s.periods if hasattr(s, "periods") else None
    try:
        start = str(s.start)
        end = str(s.end)
    except Exception:
        start = end = "?"
    data = np.asarray(s.data)
    return f"Series({start}..{end}){fmt_array(data)}"


def fmt_any(x):
    if x is None:
        return "None"
    if isinstance(x, ir.Series):
        return fmt_series(x)
    if isinstance(x, dict):
        return "{" + ";".join(f"{k}={fmt_any(v)}" for k, v in x.items()) + "}"
    if isinstance(x, np.ndarray):
        return fmt_array(x)
    if isinstance(x, (list, tuple, )):
        open_, close_ = ("[", "]") if isinstance(x, list) else ("(", ")")
        return open_ + ",".join(fmt_any(i) for i in x) + close_
    if isinstance(x, str):
        return repr(x)
    if isinstance(x, (int, float, np.number, bool, np.bool_, )):
        return fmt_number(x)
    return f"<{type(x).__name__}>"


LINES = []


def emit(label, value):
    text = fmt_any(value)
    digest = hashlib.sha256(text.encode()).hexdigest()[:16]
    short = text if len(text) <= 160 else text[:157] + "..."
    line = f"{label} :: {type(value).__name__} :: {digest} :: {short}"
    LINES.append(line)
    print(line)


def emit_out(label, out, info):
    if out is None:
        emit(f"{label}/out", None)
    else:
        emit(f"{label}/out.keys", list(out.keys()))
        emit(f"{label}/out.type", type(out).__name__)
        for k, v in out.items():
            if isinstance(v, dict):
                emit(f"{label}/out.{k}.keys", list(v.keys()))
                emit(f"{label}/out.{k}.type", type(v).__name__)
                for n, s in v.items():
                    emit(f"{label}/out.{k}.{n}", s)
            else:
                emit(f"{label}/out.{k}", v)
    if info is not None:
        infos = info if isinstance(info, list) else [info]
        emit(f"{label}/info.type", type(info).__name__)
        for i, inf in enumerate(infos):
            emit(f"{label}/info[{i}].keys", list(inf.keys()))
            for n, s in inf.items():
                emit(f"{label}/info[{i}].{n}", s)


#-------------------------------------------------------------------------------
# Models
#-------------------------------------------------------------------------------


SOURCE_AR = r"""
!transition_variables
    x, z
!transition_shocks
    ex, ez
!measurement_variables
    ox, oz, os
!measurement_shocks
    mx, ms
!parameters
    rx, rz, cx, k
!transition_equations
    x = cx + rx*x{-1} + 0.2*z{-1} + ex;
    z = rz*z{-1} + 0.1*x{-2} + ez;
!measurement_equations
    ox = x + mx;
    oz = z + k;
    os = x + z{-1} + ms;
"""


SOURCE_LOG = r"""
!transition_variables
    y, g
!log_variables
    y, oy
!transition_shocks
    ey, eg
!measurement_variables
    oy, og
!measurement_shocks
    my
!parameters
    ry, ss_y, rg
!transition_equations
    log(y) = (1-ry)*log(ss_y) + ry*log(y{-1}) + g + ey;
    g = rg*g{-1} + eg;
!measurement_equations
    oy = y*exp(my);
    og = g;
"""


SOURCE_UNIT = r"""
!transition_variables
    lvl, gr
!transition_shocks
    el, eg
!measurement_variables
    ol, og
!measurement_shocks
    ml
!parameters
    rg, mu
!transition_equations
    lvl = lvl{-1} + gr + el;
    gr = (1-rg)*mu + rg*gr{-1} + eg;
!measurement_equations
    ol = lvl + ml;
    og = gr;
"""


def make_ar(num_variants=1, ):
    m = ir.Simultaneous.from_string(SOURCE_AR, linear=True, flat=True, )
    if num_variants > 1:
        m.alter_num_variants(num_variants, )
        m.assign(
            rx=[0.8, 0.5, 0.3][:num_variants], rz=[0.6, 0.4, -0.2][:num_variants],
            cx=[0.5, 0.1, 0.0][:num_variants], k=[1.0, 2.0, 3.0][:num_variants],
            std_ex=[1.0, 0.7, 0.4][:num_variants], std_ez=[0.5, 0.5, 1.5][:num_variants],
            std_mx=[0.3, 0.2, 0.0][:num_variants], std_ms=[0.2, 0.1, 0.9][:num_variants],
        )
    else:
        m.assign(
            rx=0.8, rz=0.6, cx=0.5, k=1.0,
            std_ex=1.0, std_ez=0.5, std_mx=0.3, std_ms=0.2,
        )
    m.steady()
    m.solve()
    return m


def make_log():
    m = ir.Simultaneous.from_string(SOURCE_LOG, linear=False, flat=True, )
    m.assign(ry=0.7, ss_y=2.0, rg=0.5, std_ey=0.05, std_eg=0.02, std_my=0.01, )
    m.assign(y=2.0, g=0.0, oy=2.0, og=0.0, )
    with contextlib.redirect_stdout(io.StringIO(), ):
        m.steady()
    m.solve()
    return m


def make_unit():
    m = ir.Simultaneous.from_string(SOURCE_UNIT, linear=True, flat=True, )
    m.assign(rg=0.6, mu=0.3, std_el=0.4, std_eg=0.2, std_ml=0.1, )
    m.assign(lvl=(0, 0.3), gr=(0.3, 0), ol=(0, 0.3), og=(0.3, 0), )
    m.solve()
    return m


def make_series(start, values, ):
    return ir.Series(start=start, values=np.array(list(values), dtype=float, ), )


def make_data(start, num_periods, names, seed, missing=(), log_names=(), ):
    rng = np.random.default_rng(seed, )
    db = ir.Databox()
    for j, n in enumerate(names):
        values = np.round(rng.standard_normal(num_periods, ), 3, ) + 0.5*j
        if n in log_names:
            values = np.exp(0.1*values) * 2
        values = values.tolist()
        for (mn, t) in missing:
            if mn == n:
                values[t] = np.nan
        db[n] = make_series(start, values, )
    return db


#-------------------------------------------------------------------------------
# Scenarios
#-------------------------------------------------------------------------------


def run_filter(label, m, db, span, **kwargs):
    try:
        with warnings.catch_warnings():
            warnings.simplefilter("ignore")
            result = m.kalman_filter(db, span, return_info=True, **kwargs, )
        out, info = result
        emit_out(label, out, info, )
    except Exception as exc:
        emit(f"{label}/EXC", f"{type(exc).__name__}: {exc}"[:300])


def run_nll(label, m, db, span, **kwargs):
    try:
        with warnings.catch_warnings():
            warnings.simplefilter("ignore")
            value = m.neg_log_likelihood(db, span, **kwargs, )
        emit(label, value, )
    except Exception as exc:
        emit(f"{label}/EXC", f"{type(exc).__name__}: {exc}"[:300])


def emit_slatable(label, s, ):
    emit(f"{label}.max_lag", s.max_lag)
    emit(f"{label}.max_lead", s.max_lead)
    emit(f"{label}.databox_names", s.databox_names)
    emit(f"{label}.output_names", s.output_names)
    emit(f"{label}.descriptions", s.descriptions)
    emit(f"{label}.fallbacks", s.fallbacks)
    emit(f"{label}.fallbacks.order", list(s.fallbacks.keys()))
    emit(f"{label}.overwrites", s.overwrites)
    emit(f"{label}.overwrites.order", list(s.overwrites.keys()))
    emit(f"{label}.qid_to_logly", {str(k): v for k, v in s.qid_to_logly.items()} if s.qid_to_logly is not None else None)
    emit(f"{label}.validators.keys", list(s.databox_validators.keys()))
    for n, (func, msg) in s.databox_validators.items():
        emit(f"{label}.validators.{n}", [func(ir.Series()), func(1.0), msg])
    emit(f"{label}.types", [
        type(getattr(s, a)).__name__ for a in (
            "max_lag", "max_lead", "databox_names", "output_names", "fallbacks",
            "overwrites", "qid_to_logly", "databox_validators", "descriptions",
        )
    ])


def main():

    #
    # 1. Slatables
    #
    for mname, maker in (("ar", make_ar), ("ar3", lambda: make_ar(3)), ("log", make_log), ("unit", make_unit), ):
        m = maker()
        for sfd in (False, True, ):
            for stfd in (False, True, ):
                for op in (False, True, ):
                    s = m.slatable_for_kalman_filter(shocks_from_data=sfd, stds_from_data=stfd, output_parameters=op, )
                    emit_slatable(f"slatable/kf/{mname}/{int(sfd)}{int(stfd)}{int(op)}", s, )
        for pfd in (False, True, ):
            s = m.slatable_for_simulate(parameters_from_data=pfd, shocks_from_data=True, stds_from_data=False, )
            emit_slatable(f"slatable/sim/{mname}/{int(pfd)}", s, )
        try:
            m.slatable_for_kalman_filter(shocks_from_data=True, )
        except Exception as exc:
            emit(f"slatable/kf/{mname}/missing-arg", f"{type(exc).__name__}: {exc}")
        try:
            m.slatable_for_kalman_filter(parameters_from_data=True, shocks_from_data=True, stds_from_data=True, )
        except Exception as exc:
            emit(f"slatable/kf/{mname}/dup-arg", f"{type(exc).__name__}: {exc}")

    #
    # 2. Period generators of the Simultaneous inlay
    #
    m = make_ar()
    sol = m._gets_solution(deviation=False, )
    rng = np.random.default_rng(7, )
    y1 = np.round(rng.standard_normal((3, 5, )), 3, )
    y1[0, 1] = np.nan
    y1[:, 3] = np.nan
    y1[2, 4] = np.nan
    std_u = np.abs(np.round(rng.standard_normal((2, 5, )), 3, ))
    std_w = np.abs(np.round(rng.standard_normal((2, 5, )), 3, ))
    impacts = [None, np.array([1.0, 2.0]), None, np.array([0.0, 0.0]), np.array([-1.0, 0.5])]
    for all_v_impact in (None, impacts, ):
        for t in (0, 1, 3, 4, -1, ):
            r = sk._generate_period_system(t, sol, y1, std_u, std_w, all_v_impact, )
            emit(f"gen_system/{'none' if all_v_impact is None else 'imp'}/{t}", list(r))
            emit(f"gen_system.types/{'none' if all_v_impact is None else 'imp'}/{t}", [type(i).__name__ for i in r] + [type(r).__name__, len(r)])
            emit(f"gen_system.identity/{t}", [r[0] is sol.Ta, r[1] is sol.Pa, r[2] is sol.Ka, r[9] is sol.Ua])
    u = np.round(rng.standard_normal((2, 5, )), 3, )
    v = np.round(rng.standard_normal((1, 5, )), 3, )
    w = np.round(rng.standard_normal((2, 5, )), 3, )
    for t in (0, 1, 3, 4, -2, ):
        r = sk._generate_period_data(t, y1, u, v, w, )
        emit(f"gen_data/{t}", list(r))
        emit(f"gen_data.types/{t}", [type(i).__name__ for i in r] + [type(r).__name__, len(r)])
        emit(f"gen_data.views/{t}", [r[1].base is u, r[2].base is v, r[3].base is w, r[0].base is None])

    #
    # 3. Stationary linear model, quarterly, different masks and options
    #
    start = ir.qq(2020, 1)
    n = 12
    span = start >> (start + n - 1)
    obs = ("ox", "oz", "os", )
    masks = {
        "full": (),
        "some": (("ox", 0), ("ox", 1), ("oz", 3), ("os", 3), ("ox", 3), ("os", 7), ("oz", 11), ("ox", 11), ("os", 11), ),
        "tail": tuple((o, t) for o in obs for t in range(6, n)),
        "allnan": tuple((o, t) for o in obs for t in range(n)),
    }
    m = make_ar()
    for mask_name, mask in masks.items():
        db = make_data(start, n, obs, seed=1, missing=mask, )
        for deviation in (False, True, ):
            for rescale in (False, True, ):
                label = f"ar/{mask_name}/dev{int(deviation)}/resc{int(rescale)}"
                run_filter(label, m, db, span, deviation=deviation, rescale_variance=rescale, )
                run_nll(label + "/nll", m, db, span, deviation=deviation, rescale_variance=rescale, )

    #
    # 4. Return options
    #
    db = make_data(start, n, obs, seed=2, missing=masks["some"], )
    for return_ in (
        ("predict", "update", "smooth", "predict_err", "predict_mse_obs", ),
        ("predict", ),
        ("update", ),
        ("smooth", ),
        "smooth",
        ("predict_err", ),
        ("predict", "predict_mse_obs", ),
        ("update", "predict_err", ),
        ("predict_mse_obs", ),
        (),
    ):
        label = "ar/return/" + (return_ if isinstance(return_, str) else "+".join(return_) or "none")
        run_filter(label, m, db, span, return_=return_, rescale_variance=True, )
        run_filter(label + "/nocontrib", m, db, span, return_=return_, likelihood_contributions=False, )
    run_filter("ar/return/flags", m, db, span, return_smooth=False, return_predict_mse_obs=False, )
    run_filter("ar/return/flags2", m, db, span, return_predict=False, return_update=False, return_predict_err=False, rescale_variance=True, )
    try:
        out = m.kalman_filter(db, span, )
        emit("ar/noinfo.type", type(out).__name__)
        emit("ar/noinfo.keys", list(out.keys()))
    except Exception as exc:
        emit("ar/noinfo/EXC", f"{type(exc).__name__}: {exc}")

    #
    # 5. Time-varying stds and shock means supplied as data
    #
    db = make_data(start, n, obs, seed=3, missing=masks["some"], )
    db["std_ex"] = make_series(start + 2, [2.0, 0.0, 3.0, 0.5, ], )
    db["std_mx"] = make_series(start, [0.1*(i+1) for i in range(n)], )
    db["std_ms"] = make_series(start + 5, [0.0, 0.0, ], )
    db["ex"] = make_series(start + 1, [0.5, -0.5, ], )
    db["mx"] = make_series(start + 4, [0.25, ], )
    db["ant_ex"] = make_series(start + 3, [1.0, 0.0, -2.0, ], )
    for sfd in (False, True, ):
        for stfd in (False, True, ):
            for rescale in (False, True, ):
                label = f"ar/fromdata/sh{int(sfd)}/std{int(stfd)}/resc{int(rescale)}"
                run_filter(label, m, db, span, shocks_from_data=sfd, stds_from_data=stfd, rescale_variance=rescale, )
                run_nll(label + "/nll", m, db, span, shocks_from_data=sfd, stds_from_data=stfd, rescale_variance=rescale, )
    run_filter("ar/fromdata/outpar", m, db, span, stds_from_data=True, output_parameters=True, )

    #
    # 6. Prepend/append, diffuse options, singularity checking
    #
    db = make_data(start - 4, n + 8, obs, seed=4, missing=(("ox", 2), ("oz", 9), ), )
    run_filter("ar/prepend", m, db, span, prepend_initial=True, )
    run_filter("ar/append", m, db, span, append_terminal=True, rescale_variance=True, )
    run_filter("ar/prepend+append", m, db, span, prepend_initial=True, append_terminal=True, )
    for dm in ("approx_diffuse", "fixed_unknown", "fixed_zero", ):
        run_filter(f"ar/diffuse/{dm}", m, db, span, diffuse_method=dm, )
        run_filter(f"ar/diffuse/{dm}/scale", m, db, span, diffuse_method=dm, diffuse_scale=1e6, rescale_variance=True, )
    run_filter("ar/check_sing", m, db, span, check_singularity=True, )
    m0 = make_ar()
    m0.assign(std_mx=0, std_ms=0, std_ez=0, )
    for ws in ("error", "warning", "silent", ):
        run_filter(f"ar/check_sing/singular/{ws}", m0, db, span, check_singularity=True, when_singularity=ws, return_=("predict", ), )

    #
    # 7. Short spans, single period, reversed span
    #
    db = make_data(start, n, obs, seed=5, missing=(("ox", 0), ), )
    run_filter("ar/span1", m, db, start >> start, rescale_variance=True, )
    run_filter("ar/span2", m, db, (start + 3) >> (start + 4), )
    run_filter("ar/span-outside", m, db, (start + 10) >> (start + 15), rescale_variance=True, )
    run_filter("ar/span-tuple", m, db, tuple((start + 2) >> (start + 6)), )
    run_filter("ar/span-reversed", m, db, ir.Span(start + 6, start + 2, -1), )
    run_filter("ar/span-empty", m, db, (), )

    #
    # 8. Multiple variants
    #
    m3 = make_ar(3)
    db = make_data(start, n, obs, seed=6, missing=masks["some"], )
    db["std_ex"] = make_series(start + 2, [2.0, 0.0, 3.0, 0.5, ], )
    for rescale in (False, True, ):
        for stfd in (False, True, ):
            label = f"ar3/resc{int(rescale)}/std{int(stfd)}"
            run_filter(label, m3, db, span, rescale_variance=rescale, stds_from_data=stfd, )
            run_nll(label + "/nll", m3, db, span, rescale_variance=rescale, stds_from_data=stfd, )
    run_filter("ar3/nv2", m3, db, span, num_variants=2, )
    run_filter("ar3/smooth-only", m3, db, span, return_=("smooth", ), rescale_variance=True, )
    run_filter("ar3/mse-only", m3, db, span, return_=("predict", "predict_mse_obs", ), )
    run_filter("ar1/nv2", m, db, span, num_variants=2, rescale_variance=True, )
    # Multi-variant data
    db2 = make_data(start, n, obs, seed=8, missing=masks["some"], )
    rng = np.random.default_rng(9, )
    vals = np.round(rng.standard_normal((n, 3, )), 3, )
    vals[2, 1] = np.nan
    vals[5, :] = np.nan
    try:
        db2["ox"] = ir.Series(start=start, values=vals, )
        run_filter("ar3/mvdata", m3, db2, span, rescale_variance=True, )
    except Exception as exc:
        emit("ar3/mvdata/EXC", f"{type(exc).__name__}: {exc}")

    #
    # 9. Log variables
    #
    ml = make_log()
    obs_l = ("oy", "og", )
    db = make_data(start, n, obs_l, seed=10, missing=(("oy", 1), ("og", 4), ("oy", 4), ("og", 9), ), log_names=("oy", ), )
    db["og"] = db["og"] * 0.05
    for deviation in (False, True, ):
        for rescale in (False, True, ):
            label = f"log/dev{int(deviation)}/resc{int(rescale)}"
            run_filter(label, ml, db, span, deviation=deviation, rescale_variance=rescale, )
            run_nll(label + "/nll", ml, db, span, deviation=deviation, rescale_variance=rescale, )
    run_filter("log/prepend", ml, db, span, prepend_initial=True, return_=("smooth", "predict_err", ), )

    #
    # 10. Unit-root model with different diffuse methods
    #
    mu = make_unit()
    obs_u = ("ol", "og", )
    db = make_data(start, n, obs_u, seed=11, missing=(("ol", 0), ("og", 0), ("ol", 5), ("og", 8), ), )
    db["ol"] = db["ol"].copy()
    for dm in ("fixed_unknown", "approx_diffuse", "fixed_zero", ):
        for rescale in (False, True, ):
            label = f"unit/{dm}/resc{int(rescale)}"
            run_filter(label, mu, db, span, diffuse_method=dm, rescale_variance=rescale, )
            run_nll(label + "/nll", mu, db, span, diffuse_method=dm, rescale_variance=rescale, )

    #
    # 11. Other frequencies: daily, monthly, yearly, integer
    #
    for fname, fstart in (
        ("daily", ir.dd(2021, 12, 27)),
        ("monthly", ir.mm(2021, 11)),
        ("yearly", ir.yy(1999)),
        ("integer", ir.ii(-3)),
    ):
        fspan = fstart >> (fstart + 7)
        db = make_data(fstart, 8, obs, seed=12, missing=(("ox", 2), ("oz", 2), ("os", 2), ("os", 6), ), )
        db["std_ez"] = make_series(fstart + 3, [1.5, 2.5, ], )
        run_filter(f"freq/{fname}", m, db, fspan, stds_from_data=True, rescale_variance=True, )
        run_nll(f"freq/{fname}/nll", m, db, fspan, stds_from_data=True, )

    #
    # 12. Direct exercise of the output store
    #
    db = make_data(start, n, obs, seed=13, missing=masks["some"], )
    slatable = m.slatable_for_kalman_filter(shocks_from_data=False, stds_from_data=False, output_parameters=False, )
    ds = ir.Dataslate.from_databox_for_slatable(slatable, db, span, num_variants=1, clip_data_to_base_span=True, )
    for return_ in (("predict", "update", "smooth", "predict_err", "predict_mse_obs", ), ("update", ), ("predict", ), ):
        needs = fk.Needs(
            return_=return_, return_predict=True, return_update=True, return_smooth=True,
            return_predict_err=True, return_predict_mse_obs=True,
        )
        tag = "+".join(return_)
        total = fk._OutputStore(input_ds=ds, num_variants=0, measurement_names=list(obs), needs=needs, name_to_log_name={}, )
        for k, scale in enumerate((None, 1, 1.0, np.float64(1.0), 4.0, np.float64(2.25), 0.0, -1.0, )):
            store = fk._OutputStore(input_ds=ds, num_variants=1, measurement_names=list(obs), needs=needs, name_to_log_name={}, )
            for a in ("predict_std", "update_std", "smooth_std", "predict_med", "update_med", "smooth_med", ):
                sub = getattr(store, a)
                if sub is not None:
                    sub._dataslate._variants[0].data[...] = np.arange(sub._dataslate._variants[0].data.size).reshape(sub._dataslate._variants[0].data.shape) / 7 + k
            if store.predict_mse_obs is not None:
                store.predict_mse_obs[0][0] = np.eye(2) * (k + 1)
            r = store.rescale_stds(scale, )
            emit(f"store/{tag}/rescale[{k}].return", r)
            emit_out(f"store/{tag}/rescale[{k}]", store.create_out_data(), None, )
            kod = fk.KalmanOutputData(store, )
            emit_out(f"store/{tag}/kod[{k}]", {a: getattr(kod, a) for a in kod.__slots__ if getattr(kod, a) is not None}, None, )
            emit(f"store/{tag}/kod[{k}].none", [a for a in kod.__slots__ if getattr(kod, a) is None])
            r = total.extend(store, )
            emit(f"store/{tag}/extend[{k}].return", r)
        emit_out(f"store/{tag}/total", total.create_out_data(), None, )

    print("TOTAL", len(LINES), hashlib.sha256("\n".join(LINES).encode()).hexdigest())


if __name__ == "__main__":
    main()

"""
Behaviour digest for property C02 (Jacobians from algorithmic differentiation).

Run as

    cd /tmp/wt/C02 && PYTHONPATH=/tmp/wt/C02/src /venv/bin/python /tmp/twin_out/C02/behaviour.py

Prints a deterministic text digest (rounded numbers, reprs, exception class
names) followed by a SHA-256 of the whole digest.
"""

import warnings
warnings.filterwarnings("ignore")

import sys
import io
import hashlib
import contextlib
import copy

import numpy as np
import scipy as sp

import irispie as ir
from irispie.aldi import differentiators as ad
from irispie.aldi import finite_differentiators as fd
from irispie.aldi import adaptations as aa
from irispie.aldi import maps as mp
from irispie.incidences.main import Token
from irispie import equations as eq_
from irispie import quantities as qu_
from irispie.steadiers import evaluators as se_
from irispie.stacked_time import _evaluators as st_
from irispie.stacked_time import _jacobians as stj_
from irispie.period_by_period import _evaluators as pp_


_LINES = []
_DIGITS = 12
_DEBUG = "--debug" in sys.argv


def out(*args):
    line = " ".join(str(a) for a in args)
    _LINES.append(line)
    print(line)


def fmt(x):
    """Deterministic representation of numbers, arrays, containers"""
    if x is None or isinstance(x, (str, bool)):
        return repr(x)
    if sp.sparse.issparse(x):
        return "sparse" + fmt(np.asarray(x.todense()))
    if isinstance(x, np.ndarray):
        if x.dtype == bool:
            return f"bool{x.shape}" + repr(x.astype(int).tolist())
        y = np.round(np.asarray(x, dtype=float), _DIGITS) + 0.0
        return f"arr{y.shape}" + repr(y.tolist())
    if isinstance(x, (int, np.integer)):
        return repr(int(x))
    if isinstance(x, (float, np.floating)):
        return repr(round(float(x), _DIGITS) + 0.0)
    if isinstance(x, dict):
        return "{" + ", ".join(f"{fmt(k)}: {fmt(v)}" for k, v in x.items()) + "}"
    if isinstance(x, (tuple, list)):
        br = "()" if isinstance(x, tuple) else "[]"
        return br[0] + ", ".join(fmt(i) for i in x) + br[1]
    if isinstance(x, Token):
        return f"T({x.qid},{x.shift})"
    return repr(x)


def attempt(label, func):
    """Run func and report either the outcome or the exception class"""
    try:
        with contextlib.redirect_stdout(io.StringIO()):
            result = func()
        out(label, "->", fmt(result))
    except Exception as exc:
        out(label, "-> EXC", type(exc).__name__)
        if _DEBUG:
            import traceback
            traceback.print_exc()


def atom_repr(a):
    if hasattr(a, "_is_atom"):
        return ("ATOM", a.value, a.diff, a._logly)
    return ("PLAIN", a)


#-----------------------------------------------------------------------------
# 1. Atom arithmetic
#-----------------------------------------------------------------------------


def section_atoms():
    out("== atoms")
    A = ad.Atom.no_context
    scalars = {
        "p": lambda: A(1.7, 1.0, False),
        "q": lambda: A(0.6, 2.5, False),
        "lg": lambda: A(2.3, 1.0, True),
        "ng": lambda: A(-0.8, 1.0, None),
    }
    vec_value = np.array([0.4, 1.0, 2.5, 1.0])
    vec_value2 = np.array([1.0, 0.2, 2.5, 3.0])
    dd1 = np.array([[1.0, 1.0, 1.0, 1.0], [0.0, 0.0, 0.0, 0.0], [0.0, 0.0, 0.0, 0.0]])
    dd2 = np.array([[0.0, 0.0, 0.0, 0.0], [1.0, 1.0, 1.0, 1.0], [0.0, 0.0, 0.0, 0.0]])
    vectors = {
        "u": lambda: A(vec_value.copy(), dd1.copy(), False),
        "v": lambda: A(vec_value2.copy(), dd2.copy(), False),
        "ul": lambda: A(vec_value.copy(), dd1.copy(), True),
    }
    binary = {
        "add": lambda a, b: a + b,
        "sub": lambda a, b: a - b,
        "mul": lambda a, b: a * b,
        "div": lambda a, b: a / b,
        "pow": lambda a, b: a ** b,
    }
    for pool, names in ((scalars, ("p", "q", "lg", "ng")), (vectors, ("u", "v", "ul"))):
        for n1 in names:
            for n2 in names:
                for op_name, op in binary.items():
                    attempt(f"{op_name}({n1},{n2})", lambda: atom_repr(op(pool[n1](), pool[n2]())))
            for const in (2, 0.5, -1.5, 0, 3.0):
                for op_name, op in binary.items():
                    attempt(f"{op_name}({n1},{const})", lambda: atom_repr(op(pool[n1](), const)))
                    attempt(f"{op_name}({const},{n1})", lambda: atom_repr(op(const, pool[n1]())))
            attempt(f"neg({n1})", lambda: atom_repr(-pool[n1]()))
            attempt(f"pos({n1})", lambda: atom_repr(+pool[n1]()))
            for fn in ("log", "exp", "sqrt", "logistic", "abs", "normal_cdf", "normal_pdf"):
                attempt(f"{fn}({n1})", lambda: atom_repr(getattr(aa, fn)(pool[n1]())))
            for fn in ("maximum", "minimum"):
                attempt(f"{fn}({n1})", lambda: atom_repr(getattr(aa, fn)(pool[n1]())))
                for const in (1.0, 0.4, 2, -3):
                    attempt(f"{fn}({n1},{const})", lambda: atom_repr(getattr(aa, fn)(pool[n1](), const)))
                    attempt(f"{fn}({const},{n1})", lambda: atom_repr(getattr(aa, fn)(const, pool[n1]())))
                for n2 in names:
                    attempt(f"{fn}({n1},{n2})", lambda: atom_repr(getattr(aa, fn)(pool[n1](), pool[n2]())))
            attempt(f"mininum({n1},1.0)", lambda: atom_repr(pool[n1]().mininum(1.0)))
    # Plain numbers through the adaptations
    for fn in sorted(aa._ELEMENTWISE_FUNCTIONS.keys()):
        attempt(f"plain {fn}(0.7)", lambda: getattr(aa, fn)(0.7) if fn not in ("maximum", "minimum") else getattr(aa, fn)(0.7, 0.2))
        attempt(f"plain {fn}(arr)", lambda: getattr(aa, fn)(vec_value) if fn not in ("maximum", "minimum") else getattr(aa, fn)(vec_value, vec_value2))
    # Zero atom and atoms in context
    attempt("zero", lambda: atom_repr(ad.Atom.zero((3, 2))))
    attempt("zero+p", lambda: atom_repr(scalars["p"]() + ad.Atom.zero((3, 1))))
    data = np.array([[1.0, 2.0, 3.0, 4.0], [0.5, 0.25, 0.125, 2.0]])
    def in_context():
        a = ad.Atom.in_context(diff=np.array([[1.0], [0.0]]), data_index=(1, -1), logly=True)
        b = ad.Atom.in_context(diff=0, data_index=(0, np.array([0, 1])), logly=None)
        ad.Atom._data_context = data
        ad.Atom._column_offset = 2
        try:
            return [atom_repr(a), atom_repr(b), atom_repr(a*b), atom_repr(b**a - a/b)]
        finally:
            ad.Atom._data_context = None
            ad.Atom._column_offset = None
    attempt("in_context", in_context)
    attempt("context keys", lambda: sorted(aa.add_function_adaptations_to_context(None).keys()))
    attempt("context keys extra", lambda: sorted(aa.add_function_adaptations_to_context({"zz": 1}).keys()))


#-----------------------------------------------------------------------------
# 2. Finite differentiation of user functions
#-----------------------------------------------------------------------------


def _user_f(a, b):
    return a * np.tanh(b) + b ** 2


def _user_g(a):
    return np.sin(a) / (1 + a ** 2)


def _user_h(a, b, c):
    return a * b - c / (1 + a * a)


def section_finite():
    out("== finite")
    A = ad.Atom.no_context
    ff = fd.finite_differentiator(_user_f)
    gg = fd.finite_differentiator(_user_g)
    hh = fd.finite_differentiator(_user_h)
    d1 = np.array([[1.0], [0.0]])
    d2 = np.array([[0.0], [1.0]])
    attempt("f(atom,atom)", lambda: atom_repr(ff(A(0.7, d1, False), A(-0.3, d2, False))))
    attempt("f(atom,const)", lambda: atom_repr(ff(A(0.7, d1, False), 2.0)))
    attempt("f(const,atom)", lambda: atom_repr(ff(3, A(250.0, d2, False))))
    attempt("f(const,const)", lambda: atom_repr(ff(3, 0.25)))
    attempt("f(logly,atom)", lambda: atom_repr(ff(A(0.7, d1, True), A(1e-9, d2, False))))
    attempt("g(atom)", lambda: atom_repr(gg(A(np.array([0.1, -20.0, 3.0]), np.array([[1.0, 1.0, 1.0]]), False))))
    attempt("h(a,b,c)", lambda: atom_repr(hh(A(0.7, d1, False), 0.5, A(-1.3, d2, True))))
    attempt("epsilon", lambda: [fd._get_epsilon(v) for v in (0, 0.5, -3, 1e4, np.array([0.1, -7.0]))])


#-----------------------------------------------------------------------------
# 3. Maps
#-----------------------------------------------------------------------------


def section_maps():
    out("== maps")
    eids = (3, 0, 5, 7)
    eid_to_wrts = {
        0: (Token(1, 0), Token(2, -1)),
        3: (Token(0, 0), Token(1, 0), Token(1, 1)),
        5: (),
        7: (Token(4, 0),),
    }
    attempt("offsets", lambda: mp.create_eid_to_rhs_offset(eids, eid_to_wrts))
    attempt("offsets single", lambda: mp.create_eid_to_rhs_offset((0,), eid_to_wrts))
    offsets = mp.create_eid_to_rhs_offset(eids, eid_to_wrts)
    columns = [Token(1, 0), None, Token(0, 0), Token(2, -1), Token(1, 1), Token(9, 9)]
    def static(ee, cols, **kw):
        m = mp.ArrayMap.static(list(ee), eid_to_wrts, cols, offsets, **kw)
        return (m.lhs, m.rhs, len(m))
    attempt("static", lambda: static(eids, columns, rhs_column=0, lhs_column_offset=0))
    attempt("static offs", lambda: static((0, 3), columns, rhs_column=2, lhs_column_offset=10))
    attempt("static empty", lambda: static((5,), columns, rhs_column=0, lhs_column_offset=0))
    attempt("static none", lambda: static((), columns, rhs_column=0, lhs_column_offset=0))
    attempt("static extra kwarg", lambda: static(eids, columns, rhs_column=0, lhs_column_offset=0, whatever=1))
    attempt("static missing kwarg", lambda: static(eids, columns, rhs_column=0))
    def nones():
        m = mp.ArrayMap(lhs=([0, None, 2, None], [5, 6, 7, 8]), rhs=([1, 2, 3, 4], [0, 0, 0, 0]))
        m.remove_nones()
        return (m.lhs, m.rhs)
    attempt("remove_nones", nones)
    def nones_empty():
        m = mp.ArrayMap()
        m.remove_nones()
        return (m.lhs, m.rhs)
    attempt("remove_nones empty", nones_empty)
    def nones_all():
        m = mp.ArrayMap(lhs=([None, None], [5, 6]), rhs=([1, 2], [0, 0]))
        m.remove_nones()
        return (m.lhs, m.rhs)
    attempt("remove_nones all", nones_all)
    def appended():
        m = mp.ArrayMap()
        m.append((1, 2), (3, 4))
        m.add_lhs_rhs((7, 8), (9, 10), iter((11, 12)), [13, 14])
        return (m.lhs, m.rhs, len(m))
    attempt("append", appended)
    def vector():
        v = mp.VectorMap.static((4, 2, 9))
        v.append((3,), (1,))
        return (v.lhs, v.rhs, len(v))
    attempt("vector", vector)


#-----------------------------------------------------------------------------
# 4. Models
#-----------------------------------------------------------------------------


_SOURCE_1 = r"""
!transition-variables
    x, y, z, w
!log-variables
    x, w
!transition-shocks
    ex, ey
!parameters
    a, b, c
!transition-equations
    log(x) = a*log(x{-1}) + (1-a)*log(c) + ex;
    y = b*y{-1} + (1-b)*y{+1} + sqrt(x)*exp(-z{-2}) - x^b/w{+1} + ey;
    z = logistic(y - c) + maximum(y{-1}, 0.3) - 2/x + myfunc(y, z{-1}) - (+x{+2})/7;
    w = x^y * c^z{+1} + (-x{-1})*w{-1} / (1 + y^2) - c^(-y);
!measurement-variables
    ox, oy
!log-variables
    ox
!measurement-shocks
    mx
!measurement-equations
    ox = x*exp(mx);
    oy = y + z{-1} - 3*w;
"""


_SOURCE_2 = r"""
!transition-variables
    k, c, r, g
!log-variables !all-but
    g
!transition-shocks
    eg
!parameters
    alpha, beta, delta, rho, gss
!transition-equations
    1/c = beta*(1/c{+1})*(1 + r{+1} - delta);
    k = (1-delta)*k{-1} + exp(g)*k{-1}^alpha - c;
    r = alpha*exp(g)*k{-1}^(alpha-1);
    g = rho*g{-1} + (1-rho)*gss + eg;
"""


_SOURCE_3 = r"""
!transition-variables
    p, q, s
!log-variables
    p
!transition-shocks
    ep
!parameters
    mu, th
!transition-equations
    diff_log(p) = mu + th*(diff_log(p{-1}) - mu) + ep !! p = p{-1}*exp(mu);
    q = movavg(log(p), -3) - log(p{-4}) + 0.2*q{+1};
    s = 0.5*s{-1} + diff(q) + maximum(q, -10) !! s = 0.5*s{-1} + q - q{-1} + q;
!measurement-variables
    op
!measurement-equations
    op = 100*log(p) + s;
"""


_SOURCE_LINEAR = r"""
!transition-variables
    x, y
!transition-shocks
    ex, ey
!exogenous-variables
    ax
!parameters
    a, b
!transition-equations
    x = a*x{-1} + b*y{+1} + ex + 2*ax;
    y = 0.5*y{-1} - b*x + 1 + ey;
!measurement-variables
    ox
!measurement-shocks
    mo
!measurement-equations
    ox = 3*x - y{-1} + 2 + mo;
"""


def print_system(label, system):
    for n in ("A", "B", "C", "D", "F", "G", "H", "J"):
        out(label, n, fmt(getattr(system, n)))


def describe_descriptor(label, model):
    d = model._invariant.dynamic_descriptor
    sv = d.system_vectors
    out(label, "transition_eids", fmt(list(sv.transition_eids)), "measurement_eids", fmt(list(sv.measurement_eids)))
    out(label, "transition_variables", fmt(list(sv.transition_variables)))
    out(label, "logly", fmt(list(sv.transition_variables_are_logly)), fmt(list(sv.measurement_variables_are_logly)))
    out(label, "eid_to_wrt_tokens", fmt({k: tuple(v) for k, v in sv.eid_to_wrt_tokens.items()}))
    sm = d.system_map
    for n in ("A", "B", "D", "F", "G", "J"):
        mm = getattr(sm, n)
        out(label, "map", n, fmt((tuple(mm.lhs), tuple(mm.rhs))))
    for n in ("C", "H"):
        mm = getattr(sm, n)
        out(label, "map", n, fmt((tuple(mm.lhs), tuple(mm.rhs))))
    out(label, "aldi xtrings", fmt([e.xtring for e in d.aldi_context._equations]))


_SOURCE_BACKWARD = r"""
!transition-variables
    u, v
!log-variables
    u
!transition-shocks
    eu, ev
!parameters
    ru, uu
!transition-equations
    log(u) = ru*log(u{-1}) + (1-ru)*log(uu) + eu;
    v = 0.5*v{-1} + sqrt(u)/u{-2} - logistic(v{-1}*u) + maximum(u - uu, -1) + ev;
"""


def make_model_backward():
    m = ir.Simultaneous.from_string(_SOURCE_BACKWARD)
    m.assign(ru=0.6, uu=2.0, u=2.0, v=0.5)
    return m


def make_model_1():
    m = ir.Simultaneous.from_string(_SOURCE_1, context={"myfunc": _user_f})
    m.assign(a=0.8, b=0.4, c=1.5, x=1.5, y=0.7, z=0.2, w=2.0, ox=1.5, oy=0.1)
    return m


def make_model_2():
    m = ir.Simultaneous.from_string(_SOURCE_2)
    m.assign(alpha=0.36, beta=0.98, delta=0.05, rho=0.7, gss=0.01, k=8.0, c=1.8, r=0.07, g=0.01)
    return m


def make_model_3(**kwargs):
    m = ir.Simultaneous.from_string(_SOURCE_3, **kwargs)
    m.assign(mu=0.01, th=0.5, p=(2.0, 0.01), q=(0.03, 0), s=(0.06, 0), op=(70, 1))
    return m


def make_model_linear():
    m = ir.Simultaneous.from_string(_SOURCE_LINEAR, linear=True)
    m.assign(a=0.7, b=0.2, ax=0.3)
    return m


def section_systemize():
    out("== systemize")
    m1 = make_model_1()
    describe_descriptor("m1", m1)
    print_system("m1", m1.systemize())
    print_system("m1 linear flag", m1.systemize(linear=True))
    #
    # Multiple variants
    mv = make_model_1()
    mv.alter_num_variants(3)
    mv.assign(a=[0.8, 0.5, 0.1], y=[0.7, 1.1, -0.4], x=[1.5, 0.9, 3.0], z=[0.2, np.nan, 0.5])
    for i, s in enumerate(mv.systemize()):
        print_system(f"m1 variant {i}", s)
    attempt("m1 singleton list", lambda: len(make_model_1().systemize(unpack_singleton=False)))
    #
    # Change of log status
    for new_logly, names in ((False, None), (True, None), (True, ("y", "oy")), (False, ("x",))):
        mm = make_model_1()
        mm.change_logly(new_logly, names)
        describe_descriptor(f"m1 logly {new_logly} {names}", mm) if names == ("x",) else None
        print_system(f"m1 logly {new_logly} {names}", mm.systemize())
    #
    m2 = make_model_2()
    print_system("m2", m2.systemize())
    with contextlib.redirect_stdout(io.StringIO()):
        m2.steady()
    out("m2 steady", fmt(m2.get_steady_levels(round=6)))
    print_system("m2 at steady", m2.systemize())
    m2.solve()
    out("m2 T", fmt(m2.get_solution_matrices().T if hasattr(m2, "get_solution_matrices") else None))
    #
    m3 = make_model_3()
    describe_descriptor("m3", m3)
    print_system("m3", m3.systemize())
    m3f = make_model_3(flat=True)
    print_system("m3 flat", m3f.systemize())
    #
    ml = make_model_linear()
    describe_descriptor("ml", ml)
    print_system("ml", ml.systemize())
    print_system("ml nonlinear flag", ml.systemize(linear=False))


#-----------------------------------------------------------------------------
# 5. Rejected or unsupported functions in equations
#-----------------------------------------------------------------------------


def section_functions_in_equations():
    out("== functions in equations")
    template = r"""
!transition-variables
    x, y
!log-variables
    y
!transition-shocks
    e
!parameters
    a
!transition-equations
    x = a*x{-1} + ?EXPR? + e;
    y = x{+1}^2 + 1 + y{-1}/3;
"""
    expressions = (
        "log(y)", "exp(x)*y", "sqrt(y{-1}+x^2)", "logistic(x-y)", "maximum(x,y)", "maximum(x, 0.1)",
        "maximum(x)", "minimum(x, y)", "minimum(x, 5)", "abs(x)", "normal_cdf(x)", "normal_pdf(x)",
        "(x+y)^(x-y)", "2^x", "y^0.5", "y^2", "1/(x+y)", "-(-x)", "+y - -x", "x*y/x{-1}*y{+1}",
        "a^a", "user(x, y)", "user(a, y{+1})", "user(2, 3)", "tanh(x)", "x^y^a", "0*x", "(a-a)/y",
        "sqrt(a)*x", "exp(log(y))", "maximum(y, y{-1})", "maximum(0.1, x)", "3 - x", "3/y", "a - x*a",
    )
    for expr in expressions:
        def run():
            m = ir.Simultaneous.from_string(template.replace("?EXPR?", expr), context={"user": _user_f})
            m.assign(a=0.6, x=0.8, y=1.3)
            s = m.systemize()
            return (s.A, s.B, s.C, s.D)
        attempt(f"expr [{expr}]", run)


#-----------------------------------------------------------------------------
# 6. Steady-state Jacobians
#-----------------------------------------------------------------------------


def steady_evaluators_for(model, flat):
    klass = se_.FlatSteadyEvaluator if flat else se_.NonflatSteadyEvaluator
    equations = tuple(model.get_steady_equation_objects(kind=eq_.EquationKind.TRANSITION_EQUATION | eq_.EquationKind.MEASUREMENT_EQUATION))
    quantities = model.get_quantities()
    wrt_qids = tuple(sorted(
        q.id for q in quantities
        if q.kind in (qu_.QuantityKind.TRANSITION_VARIABLE | qu_.QuantityKind.MEASUREMENT_VARIABLE)
    ))
    for vid, variant in enumerate(model._variants):
        yield vid, klass(
            wrt_qids, wrt_qids, equations, quantities, variant,
            context=model._invariant._context,
        )


def section_steady():
    out("== steady")
    def show(label, model, flat):
        for vid, ev in steady_evaluators_for(model, flat):
            jac = ev._jacobian
            out(label, vid, "shape", fmt(tuple(jac._shape)), "map", fmt((tuple(jac._map.lhs), tuple(jac._map.rhs))))
            out(label, vid, "aldi", fmt([e.xtring for e in jac._aldi_context._equations]))
            guess = ev.get_init_guess()
            out(label, vid, "guess", fmt(guess))
            with contextlib.redirect_stdout(io.StringIO()):
                f0, j0 = ev.eval(guess)
                j1 = ev.eval_jacob(guess + 0.05*np.arange(1, guess.size+1)/guess.size)
            out(label, vid, "f0", fmt(f0))
            out(label, vid, "j0", fmt(j0))
            out(label, vid, "j1", fmt(j1))
    show("m1 flat", make_model_1(), True)
    show("m1 nonflat", make_model_1(), False)
    mv = make_model_1()
    mv.alter_num_variants(2)
    mv.assign(y=[0.7, 0.3], x=[1.5, np.nan], b=[0.4, 0.9])
    show("m1 variants flat", mv, True)
    show("m2 flat", make_model_2(), True)
    show("m3 nonflat", make_model_3(), False)
    show("m3 flat", make_model_3(flat=True), True)
    show("ml flat", make_model_linear(), True)
    mm = make_model_1()
    mm.change_logly(False, ("x",))
    show("m1 x nonlog flat", mm, True)
    #
    # End to end
    for label, maker, kwargs in (
        ("m2", make_model_2, {}),
        ("m3", make_model_3, {"fix_level": ("p",)}),
        ("m3 flat", lambda: make_model_3(flat=True), {}),
    ):
        def run():
            m = maker()
            m.steady(**kwargs)
            return (m.get_steady_levels(round=6), m.get_steady_changes(round=6))
        attempt(f"steady {label}", run)


#-----------------------------------------------------------------------------
# 7. Stacked-time and period-by-period Jacobians
#-----------------------------------------------------------------------------


def _data_array_for(model, num_columns, seed):
    rng = np.random.default_rng(seed)
    qid_to_logly = model.create_qid_to_logly()
    variant = model._variants[0]
    data = variant.create_steady_array(qid_to_logly, num_columns=num_columns, shift_in_first_column=0)
    data = np.array(data, dtype=float)
    bump = 1 + 0.1*rng.uniform(-1, 1, size=data.shape)
    data = data * bump
    shock_qids = [q.id for q in model.get_quantities() if q.kind in qu_.QuantityKind.ANY_SHOCK_OR_SHOCK_VALUE] \
        if hasattr(qu_.QuantityKind, "ANY_SHOCK_OR_SHOCK_VALUE") else []
    data[shock_qids, :] = 0.01*rng.uniform(-1, 1, size=(len(shock_qids), num_columns))
    return data


def section_stacked():
    out("== stacked time")
    for label, maker, seed in (("m1", make_model_1, 1), ("m2", make_model_2, 2), ("m3", make_model_3, 3)):
        model = maker()
        equations = model.get_dynamic_equation_objects(kind=eq_.EquationKind.TRANSITION_EQUATION)
        quantities = model.get_quantities()
        endogenous_qids = tuple(q.id for q in model.get_quantities(kind=qu_.QuantityKind.TRANSITION_VARIABLE))
        num_columns = 12
        data = _data_array_for(model, num_columns, seed)
        for columns in ((5, 6, 7), (6,), (5, 7), (7, 6, 5)):
            wrt_spots = tuple(Token(qid, col) for col in columns for qid in endogenous_qids)
            if label == "m1" and len(columns) == 3:
                wrt_spots = wrt_spots[1:-2]
            def run():
                ev = st_.create_evaluator(
                    wrt_spots=wrt_spots,
                    columns_to_eval=columns,
                    wrt_equations=equations,
                    all_quantities=quantities,
                    terminator=None,
                    context=model.get_context(),
                )
                local = data.copy()
                guess = ev.get_init_guess(local)
                f, j = ev.eval_func_jacob(guess, local)
                j2 = ev.eval_jacob(guess + 0.01, local)
                return (guess, f, j, j2)
            attempt(f"{label} columns {columns}", run)
        def direct():
            jac = stj_.Jacobian(
                equations,
                tuple(Token(qid, col) for col in (4, 5) for qid in endogenous_qids),
                model.create_qid_to_logly(),
                context=model.get_context(),
                columns_to_eval=(4, 5),
                terminator=None,
            )
            return (
                tuple(jac._shape), tuple(jac._map.lhs), tuple(jac._map.rhs),
                tuple(jac.sparse_pattern), jac.eval(data.copy()),
                [e.xtring for e in jac._aldi_context._equations],
            )
        attempt(f"{label} direct", direct)


def section_period():
    out("== period by period")
    for label, maker, seed in (("m1", make_model_1, 4), ("m2", make_model_2, 5), ("m3", make_model_3, 6)):
        model = maker()
        equations = model.get_dynamic_equation_objects(kind=eq_.EquationKind.TRANSITION_EQUATION)
        quantities = model.get_quantities()
        endogenous_qids = tuple(q.id for q in model.get_quantities(kind=qu_.QuantityKind.TRANSITION_VARIABLE))
        data = _data_array_for(model, 12, seed)
        for wrt_qids in (endogenous_qids, endogenous_qids[::-1], endogenous_qids[:-1]):
            def run():
                ev = pp_.create_evaluator(
                    wrt_qids, equations, quantities, None, model.get_context(), None,
                )
                outcome = []
                for column in (5, 8):
                    local = data.copy()
                    guess = ev.get_init_guess(local, column)
                    with contextlib.redirect_stdout(io.StringIO()):
                        f, j = ev.evaluate(guess, local, column)
                    outcome.append((guess, f, j))
                return outcome
            attempt(f"{label} wrt {wrt_qids}", run)


def section_simulate():
    out("== simulate")
    def run(method, maker, freq_start, shocks, **kwargs):
        m = maker()
        with contextlib.redirect_stdout(io.StringIO()):
            m.steady()
        m.solve()
        span = freq_start >> freq_start + 5
        db = ir.Databox.steady(m, span)
        for name, value in shocks.items():
            db[name][freq_start] = value
        with contextlib.redirect_stdout(io.StringIO()):
            result = m.simulate(db, span, method=method, **kwargs)
        sim = result[0] if isinstance(result, tuple) else result
        names = [q.human for q in m.get_quantities(kind=qu_.QuantityKind.TRANSITION_VARIABLE)]
        return {n: np.asarray(sim[n].get_data(span)).flatten() for n in names}
    attempt("stacked m2 qq", lambda: run("stacked_time", make_model_2, ir.qq(2021, 2), {"eg": 0.02}))
    attempt("stacked m2 dd", lambda: run("stacked_time", make_model_2, ir.dd(2021, 2, 27), {"eg": -0.01}))
    attempt("period m2 mm", lambda: run("period", make_model_2, ir.mm(2021, 11), {"eg": 0.02}))
    attempt("period m2 mm tolerant", lambda: run("period", make_model_2, ir.mm(2021, 11), {"eg": 0.02}, solver_settings={"step_tolerance": 100}))
    attempt("period mb hh", lambda: run("period_by_period", make_model_backward, ir.hh(2021, 2), {"eu": 0.1}, solver_settings={"step_tolerance": 100}))
    attempt("stacked mb ii", lambda: run("stacked", make_model_backward, ir.ii(7), {"eu": -0.1, "ev": 0.05}))
    attempt("stacked m2 yy data terminal", lambda: run("stacked_time", make_model_2, ir.yy(2021), {"eg": 0.02}, terminal="data"))
    attempt("first_order m2", lambda: run("first_order", make_model_2, ir.qq(2021, 2), {"eg": 0.02}))


def main():
    np.set_printoptions(precision=_DIGITS, suppress=True)
    for section in (
        section_atoms,
        section_finite,
        section_maps,
        section_systemize,
        section_functions_in_equations,
        section_steady,
        section_stacked,
        section_period,
        section_simulate,
    ):
        try:
            section()
        except Exception as exc:
            out("SECTION FAILED", section.__name__, type(exc).__name__, str(exc)[:200])
    digest = hashlib.sha256("\n".join(_LINES).encode("utf-8")).hexdigest()
    print("LINES", len(_LINES))
    print("SHA256", digest)


if __name__ == "__main__":
    main()

"""
Behaviour digest for property C16 (block decomposition / sequentialize).

Run as:
    cd /tmp/wt/C16 && PYTHONPATH=/tmp/wt/C16/src /venv/bin/python /tmp/twin_out/C16/behaviour.py

Prints a deterministic digest; the output must be identical on the untouched
worktree and with each twin diff applied.
"""

import contextlib
import hashlib
import io
import itertools
import random
import re

import numpy as np

import irispie as ir
from irispie.incidences import blazer as bz


def norm(x):
    """Canonical, type-aware, deterministic text of a result"""
    if isinstance(x, bz.Block):
        return f"Block(e={norm(x.eids)},q={norm(x.qids)})"
    if isinstance(x, bz.HumanBlock):
        return f"HumanBlock(e={x.equations!r},q={x.quantities!r})"
    if isinstance(x, np.ndarray):
        return f"nd[{x.dtype}|{x.shape}|{x.tolist()!r}]"
    if isinstance(x, dict):
        return "{" + ",".join(f"{k!r}:{norm(v)}" for k, v in x.items()) + "}"
    if isinstance(x, tuple):
        return "(" + ",".join(norm(i) for i in x) + ")"
    if isinstance(x, list):
        return "[" + ",".join(norm(i) for i in x) + "]"
    if isinstance(x, (np.integer, )):
        return f"npint:{int(x)}"
    if isinstance(x, (np.bool_, )):
        return f"npbool:{bool(x)}"
    return f"{type(x).__name__}:{x!r}"


def call(func, *args, **kwargs):
    try:
        return "OK " + norm(func(*args, **kwargs))
    except Exception as exc:
        return f"EXC {type(exc).__name__}: {exc}"


class Digest:
    def __init__(self, title):
        self.title = title
        self.h = hashlib.sha256()
        self.n = 0
        self.num_exc = 0
    def add(self, text):
        self.h.update(text.encode("utf-8"))
        self.h.update(b"\n")
        self.n += 1
        self.num_exc += text.startswith("EXC")
    def done(self):
        print(f"{self.title}: n={self.n} exc={self.num_exc} sha={self.h.hexdigest()[:24]}")


def all_functions(im, eids=None, qids=None, dg=None, light=False):
    kw = {}
    if eids is not None:
        kw["eids"] = eids
    if qids is not None:
        kw["qids"] = qids
    dg.add(call(bz.blaze, im.copy(), return_info=True, **kw))
    dg.add(call(bz.sequentialize_strictly, im.copy(), **kw))
    if light:
        return
    dg.add(call(bz.blaze, im.copy(), **kw))
    dg.add(call(bz.prefetch, im.copy(), **kw))
    dg.add(call(bz.triangularize_inner_block, im.copy(), **kw))
    dg.add(call(bz.triangularize_inner_block, im.copy(), max_iterations=1, **kw))
    dg.add(call(bz.is_sequential, im.copy()))
    if im.dtype == bool:
        dg.add(call(bz.is_sequential, im.copy(), 0))
    # input must not be mutated
    before = im.copy()
    call(bz.blaze, im, **kw)
    call(bz.sequentialize_strictly, im, **kw)
    call(bz.triangularize_inner_block, im, **kw)
    dg.add("MUT " + str(np.array_equal(before, im)))


def has_perfect_matching(im):
    n = im.shape[0]
    return any(all(im[i, p[i]] for i in range(n)) for p in itertools.permutations(range(n)))


# ---------------------------------------------------------------------------
# 1. Exhaustive boolean matrices n<=4 (all of them, with and without a
#    perfect matching), default ids and shuffled id labelings
#    (n=4: only blaze+info and sequentialize_strictly, to keep the run short)
# ---------------------------------------------------------------------------

rng = random.Random(20240916)

for n in (0, 1, 2, 3, 4):
    dg = Digest(f"exhaustive n={n}")
    dg_pm = Digest(f"exhaustive n={n} perfect-matching only, relabelled")
    for bits in itertools.product((False, True), repeat=n*n):
        im = np.array(bits, dtype=bool).reshape(n, n)
        all_functions(im, dg=dg, light=(n == 4))
        if n and has_perfect_matching(im):
            eids = rng.sample(range(100, 100 + 3*n), n)
            qids = rng.sample(range(50, 50 + 3*n), n)
            dg_pm.add(call(bz.blaze, im, tuple(eids), iter(qids), return_info=True))
            dg_pm.add(call(bz.sequentialize_strictly, im, eids, eids))
            if n < 4:
                dg_pm.add(call(bz.blaze, im, eids, qids))
                dg_pm.add(call(bz.prefetch, im, eids=tuple(eids), qids=tuple(qids)))
    dg.done()
    dg_pm.done()


# ---------------------------------------------------------------------------
# 2. Sampled larger matrices: block structured, triangular, dense, sparse,
#    permuted; bool and int dtypes; several id labelings
# ---------------------------------------------------------------------------

def random_block_structured(n, rng):
    im = np.zeros((n, n), dtype=bool)
    pos = 0
    while pos < n:
        size = min(rng.choice((1, 1, 2, 3, 4)), n - pos)
        blk = np.array([[rng.random() < 0.7 for _ in range(size)] for _ in range(size)], dtype=bool)
        blk |= np.eye(size, dtype=bool)
        im[pos:pos+size, pos:pos+size] = blk
        if pos:
            below = np.array([[rng.random() < 0.25 for _ in range(pos)] for _ in range(size)], dtype=bool)
            im[pos:pos+size, :pos] = below
        pos += size
    return im


def random_matrices(rng):
    for n in (5, 6, 7, 8, 10, 13, 20):
        for rep in range(12):
            # lower triangular with full diagonal
            tri = np.tril(np.array([[rng.random() < 0.4 for _ in range(n)] for _ in range(n)], dtype=bool)) | np.eye(n, dtype=bool)
            yield "tri", tri
            # dense with diagonal
            dense = np.array([[rng.random() < 0.85 for _ in range(n)] for _ in range(n)], dtype=bool) | np.eye(n, dtype=bool)
            yield "dense", dense
            # sparse with diagonal
            sparse = np.array([[rng.random() < 0.12 for _ in range(n)] for _ in range(n)], dtype=bool) | np.eye(n, dtype=bool)
            yield "sparse", sparse
            # block structured
            yield "block", random_block_structured(n, rng)
            # arbitrary (may lack a perfect matching)
            yield "any", np.array([[rng.random() < 0.3 for _ in range(n)] for _ in range(n)], dtype=bool)
    yield "full", np.ones((6, 6), dtype=bool)
    yield "eye", np.eye(7, dtype=bool)
    yield "antieye", np.fliplr(np.eye(7, dtype=bool))
    yield "zeros", np.zeros((4, 4), dtype=bool)
    # a cycle that needs many sweeps
    cyc = np.eye(9, dtype=bool) | np.roll(np.eye(9, dtype=bool), 1, axis=1)
    yield "cycle", cyc
    # bidiagonal chains
    yield "chain_lo", np.eye(9, dtype=bool) | np.eye(9, k=-1, dtype=bool)
    yield "chain_up", np.eye(9, dtype=bool) | np.eye(9, k=1, dtype=bool)


rng = random.Random(16)
dg = Digest("sampled larger matrices")
kinds = {}
for kind, im in random_matrices(rng):
    kinds[kind] = kinds.get(kind, 0) + 1
    n = im.shape[0]
    all_functions(im, dg=dg)
    # permuted rows and columns
    rp = rng.sample(range(n), n)
    cp = rng.sample(range(n), n)
    imp = im[rp, :][:, cp]
    all_functions(imp, dg=dg)
    # id labelings
    eids = rng.sample(range(1000), n)
    qids = rng.sample(range(1000), n)
    all_functions(imp, eids=tuple(eids), qids=tuple(qids), dg=dg)
    all_functions(imp, eids=list(rp), qids=list(cp), dg=dg)
    dg.add(call(bz.blaze, imp, rp, cp))
    dg.add(call(bz.sequentialize_strictly, imp, rp, cp))
    # numpy integer labels, range labels
    dg.add(call(bz.blaze, imp, np.array(eids), np.array(qids), return_info=True))
    dg.add(call(bz.blaze, imp, range(n), range(n, 2*n)))
    # integer / uint8 dtype incidence
    for dtype in (int, np.uint8, np.int8):
        dg.add(call(bz.blaze, imp.astype(dtype), eids, qids, return_info=True))
        dg.add(call(bz.prefetch, imp.astype(dtype), eids=tuple(eids), qids=tuple(qids)))
        dg.add(call(bz.sequentialize_strictly, imp.astype(dtype), eids, qids))
        dg.add(call(bz.triangularize_inner_block, imp.astype(dtype), eids=eids, qids=qids))
dg.done()
print("kinds:", sorted(kinds.items()))


# ---------------------------------------------------------------------------
# 3. Odd inputs: non-square, integer counts > 1, too few ids, empty
# ---------------------------------------------------------------------------

dg = Digest("odd inputs")
rng = random.Random(3)
for shape in ((2, 3), (3, 2), (1, 4), (4, 1), (0, 3), (3, 0), (5, 7), (7, 5)):
    for rep in range(10):
        im = np.array([[rng.random() < 0.5 for _ in range(shape[1])] for _ in range(shape[0])], dtype=bool).reshape(shape)
        all_functions(im, dg=dg)
for n in (2, 3, 4, 5):
    for rep in range(25):
        im = np.array([[rng.choice((0, 0, 1, 1, 2, 3)) for _ in range(n)] for _ in range(n)], dtype=int)
        all_functions(im, dg=dg)
        all_functions(im.astype(float), dg=dg)
im = np.eye(3, dtype=bool)
dg.add(call(bz.blaze, im, (1, 2), (1, 2, 3)))
dg.add(call(bz.blaze, im, (1, 2, 3, 4), (1, 2, 3)))
dg.add(call(bz.prefetch, im, eids=(5, 6), qids=(7, 8, 9)))
dg.add(call(bz.sequentialize_strictly, im, (1, 2), None))
dg.add(call(bz.sequentialize_strictly, im, None, (2, 1, 0)))
# lower triangular / full / empty through the public entry points with odd id containers
dg.add(call(bz.blaze, np.tril(np.ones((4, 4), dtype=bool)), (4, 3, 2, 1), (8, 7, 6, 5), return_info=True))
dg.add(call(bz.blaze, np.ones((3, 3), dtype=bool), iter((4, 3, 2)), [8, 7, 6], return_info=True))
dg.add(call(bz.blaze, np.zeros((0, 0), dtype=bool), (), (), return_info=True))
dg.add(call(bz.prefetch, np.tril(np.ones((3, 3), dtype=bool)), eids=(0, 1, 2), qids=(3, 4, 5)))
dg.add(call(bz.prefetch, np.triu(np.ones((3, 3), dtype=bool)), eids=[0, 1, 2], qids=[3, 4, 5]))
dg.add(call(bz.triangularize_inner_block, np.array([[1, 0, 1], [1, 1, 1], [0, 0, 1]], dtype=bool)))
dg.add(call(bz.triangularize_inner_block, np.array([[1, 0, 1], [1, 1, 1], [0, 0, 1]], dtype=bool), max_iterations=0))
dg.add(call(bz.triangularize_inner_block, np.array([[1, 0, 1], [1, 1, 1], [0, 0, 1]], dtype=bool), eids=(7, 8, 9), qids=(1, 2, 3), max_iterations=2))
dg.add(call(bz.Block, (3, 1, 2), (9, 7, 8)))
dg.add(call(bz.Block, iter((3, 1, 2)), [9, 7, 8]))
dg.add(call(bz.Block))
dg.done()


# ---------------------------------------------------------------------------
# 4. Sequential models: sequentialize, is_sequential, incidence matrix,
#    equation order, failure leaves the model untouched
# ---------------------------------------------------------------------------

def describe_model(m):
    return "|".join((
        repr(bool(m.is_sequential)),
        repr(m.lhs_names),
        repr(m.equation_strings),
        norm(np.asarray(m.incidence_matrix)),
    ))


SOURCES = {
    "already_sequential": """
        !equations
            a = 1 + u;
            b = a + 1;
            c = a + b + c[-1];
    """,
    "reversed": """
        !equations
            c = a + b + c[-1];
            b = a + 1;
            a = 1 + u;
    """,
    "mixed": """
        !equations
            d = c + a;
            a = u + a[-1];
            e = d + b + e[-1] + f[-1];
            c = b + a;
            b = a;
            f = v;
    """,
    "lags_only": """
        !equations
            a = b[-1];
            b = a[-1];
    """,
    "leads": """
        !equations
            a = b[+1] + c;
            c = b;
            b = 1;
    """,
    "cyclic": """
        !equations
            a = b + 1;
            b = a + 1;
    """,
    "cyclic_inner": """
        !equations
            z = y;
            x = u;
            a = b + x;
            b = a + x;
            y = a + b;
    """,
    "self_reference": """
        !equations
            b = a;
            a = a + 1;
    """,
    "transforms": """
        !equations
            diff(c) = b;
            log(b) = a + 0.1*log(b[-1]);
            pct(a) = pct(a[-1]) + u;
            diff_log(d) = c + a;
    """,
    "residuals": """
        !equations
            y = x + res_y;
            x = 0.5*w + res_x;
            w = 0.9*w[-1] + res_w;
    """,
    "identities": """
        !equations
            q === y + x;
            y = x + res_y;
            x === 2*w;
            w = 0.9*w[-1] + res_w;
    """,
    "single": """
        !equations
            a = u;
    """,
    "duplicate_lhs": """
        !equations
            b = a;
            a = 1;
            b = a + 1;
    """,
}

dg = Digest("sequential models")
for name, source in SOURCES.items():
    try:
        m = ir.Sequential.from_string(source, )
    except Exception as exc:
        line = f"{name}: from_string EXC {type(exc).__name__}"
        print(line)
        dg.add(line)
        continue
    before = describe_model(m)
    im = np.asarray(m.incidence_matrix)
    result = call(m.sequentialize)
    after = describe_model(m)
    again = call(m.sequentialize)
    after_again = describe_model(m)
    direct = call(bz.sequentialize_strictly, im)
    blocks = call(bz.blaze, im, return_info=True)
    line = f"{name}: {result} / again {again} / untouched={before == after} stable={after == after_again} seq={bool(m.is_sequential)}"
    print(line)
    print("    order:", m.lhs_names_in_equations if hasattr(m, "lhs_names_in_equations") else None)
    for t in (line, before, after, after_again, direct, blocks, repr(m.lhs_names)):
        dg.add(t)
    # copies and explicit reordering
    m2 = ir.Sequential.from_string(source, )
    n = m2.num_equations
    order = list(range(n))
    random.Random(n).shuffle(order)
    dg.add(call(m2.reorder_equations, order))
    dg.add(describe_model(m2))
    dg.add(call(m2.sequentialize))
    dg.add(describe_model(m2))
dg.done()

# A larger generated chain in random order
rng = random.Random(77)
dg = Digest("sequential generated chains")
for n in (3, 6, 12, 25):
    for rep in range(4):
        eqs = []
        for i in range(n):
            deps = [j for j in range(i) if rng.random() < 0.3]
            rhs = " + ".join([f"x{j}" for j in deps] + [f"0.5*x{i}[-1]", f"x{(i + 1) % n}[-1]", "u"])
            eqs.append(f"x{i} = {rhs};")
        rng.shuffle(eqs)
        m = ir.Sequential.from_string("!equations\n" + "\n".join(eqs), )
        before = describe_model(m)
        res = call(m.sequentialize)
        dg.add(before)
        dg.add(res)
        dg.add(describe_model(m))
        dg.add(repr(bool(m.is_sequential)))
dg.done()

# Simulation after sequentialize gives the same numbers as the hand-ordered model
src_a = SOURCES["mixed"]
m = ir.Sequential.from_string(src_a, )
order = m.sequentialize()
span = ir.qq(2020, 1) >> ir.qq(2021, 4)
db = ir.Databox()
for nm in ("a", "b", "c", "d", "e", "f"):
    db[nm] = ir.Series(periods=(ir.qq(2020, 1) - 1) >> ir.qq(2021, 4), values=(1.0, )*9, )
db["u"] = ir.Series(periods=span, values=tuple(0.1*i for i in range(8)), )
db["v"] = ir.Series(periods=span, values=tuple(0.01*i*i for i in range(8)), )
sim = m.simulate(db, span, )
if isinstance(sim, tuple):
    sim = sim[0]
print("simulate order:", order)
for nm in ("a", "b", "c", "d", "e", "f"):
    print("   ", nm, [round(float(v), 10) for v in sim[nm](span).get_data().flatten()])


# ---------------------------------------------------------------------------
# 5. Steady-state blocks of a Simultaneous model (public path through blaze)
# ---------------------------------------------------------------------------

SIMULTANEOUS = """
!variables
    y, c, k, i, r, a, z
!log-variables
    y, c, k, i, a
!shocks
    eps_a
!parameters
    alpha, beta, delta, rho, ss_a
!equations
    y = a * k[-1]^alpha;
    c + i = y;
    k = (1-delta)*k[-1] + i;
    1/c = beta * 1/c[+1] * r[+1];
    r = alpha * y / k[-1] + 1 - delta;
    log(a) = rho*log(a[-1]) + (1-rho)*log(ss_a) + eps_a;
    z = y/c + r;
"""

dg = Digest("simultaneous steady blocks")
for flat in (False, True):
    try:
        sm = ir.Simultaneous.from_string(SIMULTANEOUS, flat=flat, )
        sm.assign(alpha=0.3, beta=0.97, delta=0.1, rho=0.8, ss_a=1.5, )
        sm.assign(y=1, c=0.7, k=3, i=0.3, r=1.03, a=1.5, z=2, )
        plan = ir.SteadyPlan(sm, )
        blocks = sm.split_into_blocks(plan, ) if hasattr(sm, "split_into_blocks") else None
        line = f"flat={flat} blocks=" + (norm(tuple(blocks)) if blocks is not None else "n/a")
        print(line)
        dg.add(line)
        buffer = io.StringIO()
        with contextlib.redirect_stdout(buffer):
            sm.steady(split_into_blocks=True, )
        for header in re.findall(r"^-\[Variant[^-]*", buffer.getvalue(), flags=re.M):
            print("   ", header)
            dg.add(header)
        vals = sm.get_steady_levels(round=8, )
        line = f"flat={flat} steady=" + repr(sorted((k, float(v)) for k, v in vals.items()))
        print(line)
        dg.add(line)
    except Exception as exc:
        line = f"flat={flat} EXC {type(exc).__name__}: {exc}"
        print(line)
        dg.add(line)
dg.done()

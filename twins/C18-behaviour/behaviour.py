r"""
Behaviour digest for property C18 (RedVAR.estimate / simulate / mean / eigenvalues / acov).

Run as

    cd /tmp/wt/C18 && PYTHONPATH=/tmp/wt/C18/src /venv/bin/python /tmp/twin_out/C18/behaviour.py

The output is deterministic; it must be identical on the untouched worktree
and with any behaviour-preserving change applied. Each array is reported by
its shape, a sha256 of the exact bytes (first 16 hex digits) and a few
numbers rounded to 10 significant digits.
"""

import warnings
warnings.simplefilter("ignore")

import hashlib
import itertools
import numpy as np
import irispie as ir


def _flat(x):
    if x is None:
        return None
    return np.ascontiguousarray(np.asarray(x))


def digest(x):
    r"""Exact digest plus rounded summary of an array-like"""
    if x is None:
        return "None"
    if isinstance(x, (tuple, list)) and x and isinstance(x[0], (tuple, list, np.ndarray)):
        return "[" + "; ".join(digest(i) for i in x) + "]"
    a = _flat(x)
    if a.dtype.kind == "c":
        a = np.stack([a.real, a.imag])
    a = a.astype(float)
    # Normalize negative zeros and NaN payloads so that the hash is well defined
    a = a + 0.0
    a[np.isnan(a)] = np.nan
    h = hashlib.sha256(a.tobytes()).hexdigest()[:16]
    finite = a[np.isfinite(a)]
    summary = (
        float(np.format_float_scientific(finite.sum(), precision=9)) if finite.size else None,
        float(np.format_float_scientific(np.abs(finite).max(), precision=9)) if finite.size else None,
        int(np.isnan(a).sum()),
    )
    return f"shape={a.shape} sha={h} sum/maxabs/nans={summary}"


def series_digest(db, names, span):
    out = []
    for n in names:
        s = db[n]
        out.append(f"    {n}: start={s.start} end={s.end} nv={s.num_variants} {digest(s.get_data(span))}")
    return "\n".join(out)


def make_db(rng, span_with_presample, endo, exo, num_variants=1, missing_rows=(), dgp=None, ):
    r"""Random data; optionally generated noise-free by a given VAR(1)"""
    periods = tuple(span_with_presample)
    nper = len(periods)
    db = ir.Databox()
    exo_data = {}
    for n in exo:
        vals = rng.standard_normal((nper, num_variants))
        exo_data[n] = vals
    if dgp is None:
        endo_data = {
            n: np.cumsum(rng.standard_normal((nper, num_variants)), axis=0) * 0.3 + i
            for i, n in enumerate(endo)
        }
    else:
        A, B, c = dgp
        k = len(endo)
        y = np.zeros((k, nper, num_variants))
        y[:, 0, :] = rng.standard_normal((k, num_variants))
        for t in range(1, nper):
            for v in range(num_variants):
                xt = np.array([exo_data[n][t, v] for n in exo]).reshape(-1)
                y[:, t, v] = A @ y[:, t-1, v] + (B @ xt if exo else 0) + c
        endo_data = {n: y[i, :, :] for i, n in enumerate(endo)}
    for n, vals in itertools.chain(endo_data.items(), exo_data.items()):
        vals = np.array(vals, dtype=float)
        db[n] = ir.Series(periods=periods, values=vals[:, 0], )
        if num_variants > 1:
            db[n] = ir.Series(
                num_variants=num_variants,
                periods=periods,
                values=vals,
            )
    for name, index in missing_rows:
        s = db[name]
        s[periods[index]] = np.nan
        db[name] = s
    return db


def report_model(tag, v, ):
    print(f"  [{tag}] num_variants={v.num_variants} order={v.order} intercept={v.has_intercept} exogenous={v.has_exogenous}")
    systems = v.get_system_matrices(unpack_singleton=False, )
    for i, (s, variant) in enumerate(zip(systems, v._variants)):
        print(f"    v{i} A: {digest(s.A)}")
        print(f"    v{i} B: {digest(s.B)}")
        print(f"    v{i} c: {digest(s.c)}")
        print(f"    v{i} cov: {digest(s.cov_residuals)}")
        print(f"    v{i} u: {digest(variant.residual_estimates)}")
        fp = variant.fitted_periods
        print(f"    v{i} fitted: n={len(fp)} first={fp[0] if fp else None} last={fp[-1] if fp else None} "
              f"sha={hashlib.sha256(' '.join(str(p) for p in fp).encode()).hexdigest()[:12]}")
    for i, m in enumerate(v.get_mean(unpack_singleton=False, )):
        print(f"    v{i} mean: {digest(m)}")
    for i, e in enumerate(v.get_eigenvalues(unpack_singleton=False, )):
        print(f"    v{i} eig: n={len(e)} types={sorted({type(x).__name__ for x in e})} {digest(np.array(e, dtype=complex))}")
    print(f"    max_abs_eig: {[round(x, 10) for x in v.get_max_abs_eigenvalue(unpack_singleton=False, )]}")
    stability = v.get_stability(unpack_singleton=False, )
    print(f"    stable: {stability}")
    for i, (is_stable, variant) in enumerate(zip(stability, v._variants)):
        if is_stable:
            acov = variant.get_acov(up_to_order=2, )
            print(f"    v{i} acov: n={len(acov)} {digest(list(acov))}")
    for i, sm in enumerate(systems):
        print(f"    v{i} system dims: {sm.num_endogenous} {sm.order} {sm.num_exogenous} {sm.num_lagged_endogenous} {sm.has_intercept}")
    for i, sol in enumerate(v.get_companion_matrices(unpack_singleton=False, )):
        print(f"    v{i} companion T: {digest(sol.T)} P: {digest(sol.P)} K: {digest(sol.K)}")
    for i, sol in enumerate(v.get_companion_matrices(unpack_singleton=False, deviation=True, )):
        print(f"    v{i} companion(dev) K: {digest(sol.K)}")


def check_normal_equations(v, db, est_db, endo, exo, span, order, ):
    r"""Residual orthogonality and data reproduction on the fitted periods"""
    res_names = v.get_residual_names()
    for i, variant in enumerate(v._variants):
        fp = variant.fitted_periods
        s = variant.system
        def col(name, period, dbx):
            d = dbx[name].get_data((period, ))
            return float(d[0, min(i, d.shape[1]-1)])
        max_orth = 0.0
        max_repro = 0.0
        U = np.array([[col(n, p, est_db) for p in fp] for n in res_names])
        Y0 = np.array([[col(n, p, db) for p in fp] for n in endo])
        Y1 = np.vstack([
            np.array([[col(n, p - lag, db) for p in fp] for n in endo])
            for lag in range(1, order + 1)
        ])
        X = np.array([[col(n, p, db) for p in fp] for n in exo]).reshape(len(exo), len(fp))
        fitted = s.A @ Y1 + (s.B @ X if exo else 0) + (s.c.reshape(-1, 1) if s.c is not None else 0)
        max_repro = float(np.max(np.abs(fitted + U - Y0)))
        print(f"    v{i} reproduce<=1e-9: {max_repro <= 1e-9 * max(1.0, float(np.max(np.abs(Y0))))}  "
              f"U: {digest(U)}")


def run_case(tag, *, seed, freq_start, nper, endo, exo=(), order=1, intercept=True,
             dof_correction=False, prior_obs=None, num_variants=1, missing_rows=(),
             omit_missing=True, interpret_span="short", dgp=None, simulate=True,
             target_db=False, check=True, ):
    print(f"CASE {tag}")
    rng = np.random.default_rng(seed)
    start = freq_start
    long_span = start >> (start + nper - 1)
    short_span = (start + order) >> (start + nper - 1)
    db = make_db(rng, long_span, endo, exo, num_variants=num_variants, missing_rows=missing_rows, dgp=dgp, )
    v = ir.RedVAR(endo, exogenous_names=exo or None, order=order, intercept=intercept, )
    span = short_span if interpret_span == "short" else long_span
    kwargs = dict(
        interpret_span=interpret_span,
        omit_missing=omit_missing,
        prior_obs=prior_obs,
        dof_correction=dof_correction,
    )
    if num_variants != 1:
        kwargs["num_variants"] = num_variants
    if target_db:
        tdb = ir.Databox()
        tdb["extra"] = ir.Series(periods=long_span, values=1.5, )
        tdb["res_" + endo[0]] = ir.Series(periods=long_span, values=-7.0, )
        kwargs["target_db"] = tdb
    try:
        est_db = v.estimate(db, span, **kwargs, )
    except Exception as exc:
        print(f"  estimate raised {type(exc).__name__}: {exc}")
        return
    print(f"  est_db keys: {sorted(est_db.keys())}")
    res_names = list(v.get_residual_names())
    print(series_digest(est_db, list(endo) + list(exo) + res_names, long_span))
    try:
        report_model(tag, v, )
    except Exception as exc:
        print(f"  report raised {type(exc).__name__}: {exc}")
    if check:
        check_normal_equations(v, db, est_db, endo, exo, short_span, order, )
    #
    if simulate and not missing_rows:
        sim_kwargs = {} if num_variants == 1 else dict(num_variants=num_variants)
        sim_db = v.simulate(est_db, short_span, **sim_kwargs, )
        print("  simulate(residuals_from_data=True):")
        print(series_digest(sim_db, list(endo), long_span))
        err = max(
            float(np.nanmax(np.abs(sim_db[n].get_data(short_span) - db[n].get_data(short_span))))
            for n in endo
        )
        print(f"    reproduces data <=1e-8: {err <= 1e-8}")
        sim_db2 = v.simulate(est_db, short_span, residuals_from_data=False, remove_initial=True, **sim_kwargs, )
        print("  simulate(residuals_from_data=False, remove_initial=True):")
        print(series_digest(sim_db2, list(endo) + res_names, long_span))
        sim_db3 = v.simulate(est_db, short_span, deviation=True, prepend_input=True, **sim_kwargs, )
        print("  simulate(deviation=True, prepend_input=True):")
        print(series_digest(sim_db3, list(endo), long_span))
        # Simulate over a shorter sub-span, and into a target databox
        sub_span = (start + order + 3) >> (start + nper - 4)
        tdb = ir.Databox()
        tdb["zzz"] = 1
        sim_db4 = v.simulate(est_db, sub_span, target_db=tdb, **sim_kwargs, )
        print(f"  simulate(sub span, target_db): keys={sorted(sim_db4.keys())}")
        print(series_digest(sim_db4, list(endo), long_span))
    # A copy of the model keeps the system matrices
    c = v.copy()
    print(f"  copy A: {digest(c.get_system_matrices(unpack_singleton=False)[0].A)}")


def main():
    np.set_printoptions(precision=10, suppress=False, linewidth=200)
    mnp = ir.MinnesotaPriorObs(rho=0.5, mu2=4, kappa=1, )
    mnp_vec = ir.MinnesotaPriorObs(rho=np.array([0.1, 0.9]), mu=1.5, )
    mep = ir.MeanPriorObs(mean=[0.5, -0.5], mu2=9, )
    mep1 = ir.MeanPriorObs(mean=0.25, mu=2, )
    mnp3 = ir.MinnesotaPriorObs(rho=np.array([0.2, 0.5, 1.0]), mu2=10, kappa=2, )
    mep3 = ir.MeanPriorObs(mean=np.array([1.0, 2.0, 3.0]), mu=3, )

    run_case("q-1endo-order1", seed=1, freq_start=ir.qq(2001, 1), nper=30, endo=("a", ), )
    run_case("q-2endo-order2", seed=2, freq_start=ir.qq(2001, 1), nper=40, endo=("a", "b"), order=2, )
    run_case("q-2endo-order2-dof", seed=2, freq_start=ir.qq(2001, 1), nper=40, endo=("a", "b"), order=2, dof_correction=True, )
    run_case("q-2endo-order2-nointercept", seed=2, freq_start=ir.qq(2001, 1), nper=40, endo=("a", "b"), order=2, intercept=False, )
    run_case("q-2endo-order2-nointercept-dof", seed=2, freq_start=ir.qq(2001, 1), nper=40, endo=("a", "b"), order=2, intercept=False, dof_correction=True, )
    run_case("m-3endo-2exo-order3", seed=3, freq_start=ir.mm(2010, 5), nper=60, endo=("y1", "y2", "y3"), exo=("x1", "x2"), order=3, dof_correction=True, )
    run_case("m-3endo-1exo-order1-nointercept", seed=4, freq_start=ir.mm(2010, 5), nper=60, endo=("y1", "y2", "y3"), exo=("x1", ), order=1, intercept=False, )
    run_case("y-2endo-1exo-long-span", seed=5, freq_start=ir.yy(1990), nper=35, endo=("a", "b"), exo=("x", ), order=2, interpret_span="long", )
    run_case("d-2endo-daily", seed=6, freq_start=ir.dd(2020, 2, 25), nper=50, endo=("a", "b"), order=2, dof_correction=True, )
    run_case("ii-2endo-integer", seed=7, freq_start=ir.ii(-5), nper=30, endo=("a", "b"), order=1, )
    run_case("hh-1endo-halfyearly", seed=8, freq_start=ir.hh(2000, 2), nper=30, endo=("a", ), exo=("x", ), order=4, )
    #
    # Missing rows
    run_case("q-missing-endo", seed=9, freq_start=ir.qq(2001, 1), nper=40, endo=("a", "b"), order=2,
             missing_rows=(("a", 10), ("b", 25), ("b", 26), ), )
    run_case("q-missing-exo-and-endo", seed=10, freq_start=ir.qq(2001, 1), nper=40, endo=("a", "b"), exo=("x", ), order=1,
             missing_rows=(("x", 7), ("a", 0), ("b", 39), ), dof_correction=True, )
    run_case("q-missing-nointercept-variants", seed=11, freq_start=ir.qq(2001, 1), nper=40, endo=("a", "b"), exo=("x", ), order=2,
             intercept=False, num_variants=3, missing_rows=(("a", 12), ), )
    run_case("q-all-missing", seed=12, freq_start=ir.qq(2001, 1), nper=8, endo=("a", ), order=2,
             missing_rows=(("a", 2), ("a", 5), ), )
    run_case("q-omit-missing-false-complete", seed=13, freq_start=ir.qq(2001, 1), nper=30, endo=("a", "b"), exo=("x", ), order=2,
             omit_missing=False, )
    run_case("q-omit-missing-false-incomplete", seed=13, freq_start=ir.qq(2001, 1), nper=30, endo=("a", "b"), order=1,
             omit_missing=False, missing_rows=(("a", 12), ), check=False, )
    #
    # Multiple variants
    run_case("q-variants-2", seed=14, freq_start=ir.qq(2001, 1), nper=40, endo=("a", "b"), order=2, num_variants=2, dof_correction=True, )
    run_case("m-variants-4-exo", seed=15, freq_start=ir.mm(2001, 1), nper=45, endo=("a", "b", "c"), exo=("x", ), order=1, num_variants=4, )
    #
    # Prior dummy observations
    run_case("q-minnesota", seed=16, freq_start=ir.qq(2001, 1), nper=40, endo=("a", "b"), order=2, prior_obs=mnp, )
    run_case("q-minnesota-vec-exo-dof", seed=16, freq_start=ir.qq(2001, 1), nper=40, endo=("a", "b"), exo=("x", ), order=3, prior_obs=mnp_vec, dof_correction=True, )
    run_case("q-minnesota-nointercept", seed=16, freq_start=ir.qq(2001, 1), nper=40, endo=("a", "b"), order=2, intercept=False, prior_obs=mnp, )
    run_case("q-mean-prior", seed=17, freq_start=ir.qq(2001, 1), nper=40, endo=("a", "b"), order=2, prior_obs=mep, )
    run_case("q-mean-prior-scalar-exo", seed=17, freq_start=ir.qq(2001, 1), nper=40, endo=("a", "b"), exo=("x", ), order=1, prior_obs=mep1, )
    run_case("q-mean-prior-nointercept", seed=17, freq_start=ir.qq(2001, 1), nper=40, endo=("a", "b"), order=1, intercept=False, prior_obs=mep1, )
    run_case("q-combined-priors-missing-variants", seed=18, freq_start=ir.qq(2001, 1), nper=40, endo=("a", "b"), exo=("x", ), order=2,
             prior_obs=(mnp, mep), num_variants=2, missing_rows=(("b", 20), ), dof_correction=True, )
    run_case("q-combined-priors-list", seed=18, freq_start=ir.qq(2001, 1), nper=40, endo=("a", "b"), order=2, prior_obs=[mep, mnp, mnp_vec], )
    #
    # Larger samples (rounding differences in matrix products would show up here)
    run_case("m-large-4endo-2exo", seed=30, freq_start=ir.mm(1990, 1), nper=330, endo=("a", "b", "c", "d"), exo=("x", "z"), order=2, dof_correction=True, )
    run_case("d-large-3endo-missing-prior", seed=31, freq_start=ir.dd(2019, 12, 20), nper=400, endo=("a", "b", "c"), exo=("x", ), order=3,
             prior_obs=(mnp3, mep3), missing_rows=(("a", 100), ("x", 250), ("c", 399), ), )
    run_case("q-large-5endo-variants", seed=32, freq_start=ir.qq(1950, 1), nper=280, endo=("a", "b", "c", "d", "e"), order=4, num_variants=2, intercept=False, )
    #
    # Target databox
    run_case("q-target-db", seed=19, freq_start=ir.qq(2001, 1), nper=30, endo=("a", "b"), order=1, target_db=True, )
    #
    # Noise-free data generated by a VAR return that VAR
    A = np.array([[0.5, 0.1], [-0.2, 0.3]])
    B = np.array([[1.0], [-0.5]])
    c = np.array([0.3, -0.1])
    run_case("q-noise-free-dgp", seed=20, freq_start=ir.qq(2001, 1), nper=30, endo=("a", "b"), exo=("x", ), order=1, dgp=(A, B, c), )
    run_case("q-noise-free-dgp-nointercept", seed=21, freq_start=ir.qq(2001, 1), nper=30, endo=("a", "b"), exo=("x", ), order=1,
             intercept=False, dgp=(A, B, np.zeros(2)), )
    #
    # Unstable (random-walk like) data still estimate; eigenvalues and mean reported
    run_case("q-trending", seed=22, freq_start=ir.qq(2001, 1), nper=25, endo=("a", ), order=1, simulate=True, )
    #
    # Model that has not been estimated yet
    print("UNESTIMATED")
    w = ir.RedVAR(("a", "b"), exogenous_names=("x", ), order=3, intercept=False, num_variants=2, )
    print(w.num_variants, w.order, w.max_lag, w.has_intercept, w.has_exogenous, tuple(w.dimensions))
    print(w.get_endogenous_names(), w.get_exogenous_names(), w.get_residual_names())
    print(w.get_endogenous_qids(), w.get_exogenous_qids(), w.get_residual_qids())
    print(w.get_eigenvalues(), w.get_max_abs_eigenvalue(), w.get_stability())
    for sm in w.get_system_matrices():
        print(sm.A, sm.B, sm.c, sm.cov_residuals, sm.num_endogenous, sm.order, sm.num_exogenous, sm.num_lagged_endogenous, sm.has_intercept)
    print([v.companion_T for v in w._variants], [v.fitted_periods for v in w._variants])
    #
    # Exact recovery printout (rounded coefficients)
    rng = np.random.default_rng(99)
    span = ir.qq(2001, 1) >> ir.qq(2008, 2)
    db = make_db(rng, span, ("a", "b"), ("x", ), dgp=(A, B, c), )
    v = ir.RedVAR(("a", "b"), exogenous_names=("x", ), order=1, )
    v.estimate(db, span[1:], )
    s = v.get_system_matrices()
    print("RECOVERY")
    print(np.round(s.A, 8).tolist(), np.round(s.B, 8).tolist(), np.round(s.c, 8).tolist())
    print(np.round(v.get_mean(), 8).tolist())
    print([complex(round(complex(e).real, 8), round(complex(e).imag, 8)) for e in v.get_eigenvalues()])
    print(float(np.max(np.abs(s.cov_residuals))) < 1e-20)


if __name__ == "__main__":
    main()

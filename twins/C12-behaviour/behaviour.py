"""
Deterministic digest of the public behaviour behind property C12
(aggregate / disaggregate / arip of irispie time series).

Run as
    cd /tmp/wt/C12 && PYTHONPATH=/tmp/wt/C12/src /venv/bin/python /tmp/twin_out/C12/behaviour.py

Every line of output is either a rounded representation of a result, or a
sha256 of the raw bytes of the result (so even last-bit changes are detected),
or the type and message of the exception raised.
"""

import warnings
warnings.filterwarnings("ignore")

import hashlib
import itertools
import statistics

import numpy as np

import irispie as ir
from irispie.series import _conversions as cv


FREQS = {
    "Y": ir.YEARLY,
    "H": ir.HALFYEARLY,
    "Q": ir.QUARTERLY,
    "M": ir.MONTHLY,
    "D": ir.DAILY,
}

STARTS = {
    "Y": (ir.yy(2019), ir.yy(2024), ),
    "H": (ir.hh(2019, 1), ir.hh(2020, 2), ),
    "Q": (ir.qq(2019, 1), ir.qq(2020, 2), ir.qq(2023, 4), ),
    "M": (ir.mm(2019, 1), ir.mm(2020, 2), ir.mm(2023, 11), ),
    "D": (ir.dd(2019, 1, 1), ir.dd(2020, 2, 17), ir.dd(2023, 12, 30), ),
}

REGULAR = ("Y", "H", "Q", "M", )

AGG_METHODS = ("mean", "sum", "prod", "first", "last", "min", "max", None, )

LINES = []


def emit(label, text, ):
    LINES.append(f"{label} :: {text}")


def digest_array(data, ):
    data = np.ascontiguousarray(np.asarray(data, dtype=float, ))
    sha = hashlib.sha256(data.tobytes()).hexdigest()[:16]
    rounded = np.round(data, 9, ) + 0.0
    return f"shape={data.shape} sha={sha} values={rounded.tolist()!r}"


def digest_series(x, ):
    if x is None:
        return "None"
    return (
        f"freq={x.frequency!s} start={x.start_date!r} end={x.end_date!r} "
        f"nv={x.num_variants} " + digest_array(x.data, )
    )


def attempt(label, func, ):
    try:
        out = func()
    except Exception as exc:
        emit(label, f"EXC {type(exc).__name__}: {exc}")
        return None
    if isinstance(out, tuple):
        emit(label, " | ".join(digest_series(i) if hasattr(i, "data") else repr(i) for i in out))
    elif hasattr(out, "data") and hasattr(out, "start_date"):
        emit(label, digest_series(out, ))
    else:
        emit(label, repr(out))
    return out


def make_series(rng, start, num_periods, num_variants, missing, positive=True, ):
    values = rng.uniform(0.5, 3.0, size=(num_periods, num_variants, ))
    if not positive:
        values = values - 1.5
    values = np.round(values, 3, )
    if missing == "some":
        mask = rng.uniform(size=values.shape, ) < 0.15
        values[mask] = np.nan
    elif missing == "inner":
        values[num_periods // 2, :] = np.nan
    elif missing == "edges":
        values[0, :] = np.nan
        values[-1, -1] = np.nan
    return ir.Series(start=start, values=values, )


def coarser(letter, ):
    order = ("Y", "H", "Q", "M", "D", )
    return order[:order.index(letter)]


def finer_regular(letter, ):
    return REGULAR[REGULAR.index(letter)+1:]


#
# 1. Aggregation, regular to regular and daily to regular
#

def section_aggregate():
    rng = np.random.default_rng(12345)
    lengths = {"H": (1, 5, ), "Q": (1, 7, 12, ), "M": (2, 13, 30, ), "D": (3, 70, 800, ), }
    for letter in ("H", "Q", "M", "D", ):
        for start, num_periods, missing in itertools.product(
            STARTS[letter], lengths[letter], ("none", "some", "inner", "edges", ),
        ):
            for num_variants in (1, 3, ):
                x = make_series(rng, start, num_periods, num_variants, missing, )
                for target in coarser(letter):
                    for method, discard in itertools.product(AGG_METHODS, (False, True, None, )):
                        label = (
                            f"agg {letter}->{target} start={start!r} n={num_periods} "
                            f"nv={num_variants} miss={missing} method={method} discard={discard}"
                        )
                        attempt(label, lambda: ir.aggregate(
                            x, FREQS[target], method=method, discard_missing=discard,
                        ))


def section_aggregate_options():
    rng = np.random.default_rng(777)
    x = make_series(rng, ir.mm(2020, 3), 29, 2, "some", )
    d = make_series(rng, ir.dd(2019, 11, 5), 500, 2, "some", )
    # Legacy option, positional arguments, callables, select
    attempt("agg legacy remove_missing=True", lambda: ir.aggregate(x, ir.QUARTERLY, method="sum", remove_missing=True, ))
    attempt("agg legacy remove_missing=False", lambda: ir.aggregate(x, ir.QUARTERLY, method="sum", remove_missing=False, ))
    attempt("agg legacy both", lambda: ir.aggregate(x, ir.QUARTERLY, method="sum", discard_missing=False, remove_missing=True, ))
    attempt("agg legacy both 2", lambda: ir.aggregate(x, ir.QUARTERLY, method="sum", discard_missing=True, remove_missing=False, ))
    attempt("agg positional", lambda: ir.aggregate(x, ir.YEARLY, "last", True, ))
    attempt("agg positional select", lambda: ir.aggregate(x, ir.QUARTERLY, "mean", False, [0, 2], ))
    attempt("agg callable median", lambda: ir.aggregate(x, ir.QUARTERLY, method=statistics.median, discard_missing=True, ))
    attempt("agg callable np.nansum", lambda: ir.aggregate(x, ir.HALFYEARLY, method=np.nansum, ))
    attempt("agg callable len", lambda: ir.aggregate(d, ir.MONTHLY, method=len, ))
    attempt("agg callable len discard", lambda: ir.aggregate(d, ir.QUARTERLY, method=len, discard_missing=True, ))
    attempt("agg geometric_mean", lambda: ir.aggregate(x, ir.YEARLY, method="geometric_mean", discard_missing=True, ))
    for select in ([0], [1], [-1], [0, -1], (1, 2), range(2), [], None, ):
        for discard in (False, True, ):
            attempt(f"agg M->Q select={select!r} discard={discard}", lambda: ir.aggregate(
                x, ir.QUARTERLY, method="sum", select=select, discard_missing=discard, ))
            attempt(f"agg D->M select={select!r} discard={discard}", lambda: ir.aggregate(
                d, ir.MONTHLY, method="mean", select=select, discard_missing=discard, ))
    attempt("agg select out of range", lambda: ir.aggregate(x, ir.QUARTERLY, select=[5], ))
    # Negative values, prod
    y = make_series(rng, ir.qq(2021, 3), 9, 2, "inner", positive=False, )
    for method in ("prod", "min", "max", "sum", "mean", ):
        attempt(f"agg negative Q->Y {method}", lambda: ir.aggregate(y, ir.YEARLY, method=method, ))
        attempt(f"agg negative Q->H {method} discard", lambda: ir.aggregate(y, ir.HALFYEARLY, method=method, discard_missing=True, ))
    # All-missing groups
    z = ir.Series(start=ir.mm(2020, 1), values=[1.0, np.nan, np.nan, np.nan, np.nan, np.nan, 7.0, 8.0, 9.0], )
    for method in AGG_METHODS:
        attempt(f"agg allmissing group M->Q {method}", lambda: ir.aggregate(z, ir.QUARTERLY, method=method, discard_missing=True, ))
    # Same frequency, wrong direction, unknown method, unknown frequency, weekly, empty
    attempt("agg same freq", lambda: ir.aggregate(x, ir.MONTHLY, method="sum", ))
    attempt("agg same freq bad method", lambda: ir.aggregate(x, ir.MONTHLY, method="nonsense", ))
    attempt("agg finer", lambda: ir.aggregate(x, ir.DAILY, ))
    attempt("agg bad method", lambda: ir.aggregate(x, ir.YEARLY, method="nonsense", ))
    attempt("agg to unknown", lambda: ir.aggregate(x, ir.Frequency.UNKNOWN, ))
    attempt("agg to integer", lambda: ir.aggregate(x, ir.Frequency.INTEGER, ))
    attempt("agg empty", lambda: ir.aggregate(ir.Series(), ir.YEARLY, ))
    attempt("agg daily to weekly", lambda: ir.aggregate(d, ir.WEEKLY, ))
    i = ir.Series(start=ir.ii(1), values=list(range(1, 10)), )
    attempt("agg integer to yearly", lambda: ir.aggregate(i, ir.YEARLY, ))
    # In-place method form returns None and modifies the object
    x_copy = x.copy()
    out = x_copy.aggregate(ir.YEARLY, method="max", discard_missing=True, )
    emit("agg inplace return", repr(out))
    emit("agg inplace", digest_series(x_copy, ))
    emit("agg original untouched", digest_series(x, ))
    # Calendar membership: leap years and month lengths
    span = ir.dd(2019, 12, 25) >> ir.dd(2024, 3, 5)
    ones = ir.Series(periods=tuple(span), values=[1.0, ]*len(span), )
    for target in ("M", "Q", "H", "Y", ):
        attempt(f"agg ones D->{target} sum", lambda: ir.aggregate(ones, FREQS[target], method="sum", ))
        attempt(f"agg ones D->{target} sum discard", lambda: ir.aggregate(ones, FREQS[target], method="sum", discard_missing=True, ))
    days = ir.Series(periods=tuple(span), values=[float(t.day) for t in span], )
    for method in ("first", "last", "min", "max", ):
        attempt(f"agg days D->M {method}", lambda: ir.aggregate(days, ir.MONTHLY, method=method, discard_missing=True, ))


#
# 2. Disaggregation, flat / first / middle / last
#

def section_disaggregate():
    rng = np.random.default_rng(2468)
    for letter in ("Y", "H", "Q", ):
        for start, num_periods, missing, num_variants in itertools.product(
            STARTS[letter], (1, 4, ), ("none", "inner", "edges", ), (1, 2, ),
        ):
            x = make_series(rng, start, num_periods, num_variants, missing, )
            for target in finer_regular(letter) + ("D", ):
                for method in ("flat", "first", "middle", "last", ):
                    label = (
                        f"dis {letter}->{target} start={start!r} n={num_periods} "
                        f"nv={num_variants} miss={missing} method={method}"
                    )
                    attempt(label, lambda: ir.disaggregate(x, FREQS[target], method=method, ))
    x = make_series(rng, ir.qq(2020, 2), 5, 2, "none", )
    attempt("dis default method", lambda: ir.disaggregate(x, ir.MONTHLY, ))
    attempt("dis same freq", lambda: ir.disaggregate(x, ir.QUARTERLY, method="first", ))
    attempt("dis same freq bad method", lambda: ir.disaggregate(x, ir.QUARTERLY, method="nonsense", ))
    attempt("dis coarser", lambda: ir.disaggregate(x, ir.YEARLY, ))
    attempt("dis bad method", lambda: ir.disaggregate(x, ir.MONTHLY, method="nonsense", ))
    attempt("dis unknown", lambda: ir.disaggregate(x, ir.Frequency.UNKNOWN, ))
    attempt("dis empty", lambda: ir.disaggregate(ir.Series(), ir.MONTHLY, ))
    attempt("dis flat unexpected kwarg", lambda: ir.disaggregate(x, ir.MONTHLY, method="flat", model=("rate", "sum"), ))
    attempt("dis weekly", lambda: ir.disaggregate(x, ir.WEEKLY, method="last", ))
    x_copy = x.copy()
    out = x_copy.disaggregate(ir.MONTHLY, method="middle", )
    emit("dis inplace return", repr(out))
    emit("dis inplace", digest_series(x_copy, ))
    emit("dis original untouched", digest_series(x, ))


#
# 3. Round trips
#

def section_roundtrip():
    rng = np.random.default_rng(1357)
    pairs = {
        "flat": ("mean", "first", "last", "min", "max", ),
        "first": ("first", ),
        "last": ("last", ),
        "middle": ("first", "last", ),
    }
    for letter in ("Y", "H", "Q", ):
        for start, missing in itertools.product(STARTS[letter], ("none", "inner", ), ):
            x = make_series(rng, start, 5, 2, missing, )
            for target in finer_regular(letter):
                for dis_method, agg_methods in pairs.items():
                    for agg_method in agg_methods:
                        for discard in (False, True, ):
                            def func():
                                high = ir.disaggregate(x, FREQS[target], method=dis_method, )
                                back = ir.aggregate(high, FREQS[letter], method=agg_method, discard_missing=discard, )
                                same = (
                                    back.start_date == x.start_date
                                    and back.data.shape == x.data.shape
                                    and bool(np.array_equal(back.data, x.data, equal_nan=True, ))
                                )
                                return (back, f"same={same}", )
                            attempt(
                                f"rt {letter}->{target}->{letter} start={start!r} miss={missing} "
                                f"{dis_method}/{agg_method} discard={discard}",
                                func,
                            )


#
# 4. Arip
#

def section_arip():
    rng = np.random.default_rng(9753)
    forms = ("rate", "multiplicative", "diff", "additive", )
    aggregations = ("sum", "mean", "avg", "first", "last", )
    for letter in ("Y", "H", "Q", ):
        for start in STARTS[letter][:2]:
            for num_periods, num_variants, missing in (
                (1, 1, "none"), (4, 1, "none"), (6, 2, "none"), (6, 2, "inner"), (5, 3, "edges"),
            ):
                x = make_series(rng, start, num_periods, num_variants, missing, )
                for target in finer_regular(letter):
                    for form, aggregation in itertools.product(forms, aggregations, ):
                        def func():
                            high = ir.disaggregate(x, FREQS[target], method="arip", model=(form, aggregation, ), )
                            agg_method = {"avg": "mean"}.get(aggregation, aggregation)
                            back = ir.aggregate(high, FREQS[letter], method=agg_method, )
                            err = back.data - x.get_data_from_until((back.start_date, back.end_date, ))
                            max_err = float(np.nanmax(np.abs(err))) if np.isfinite(err).any() else 0.0
                            return (high, f"roundtrip_ok={max_err < 1e-8}", )
                        attempt(
                            f"arip {letter}->{target} start={start!r} n={num_periods} nv={num_variants} "
                            f"miss={missing} model={form}/{aggregation}",
                            func,
                        )
    # Custom aggregation vectors
    x = make_series(rng, ir.yy(2020), 5, 2, "none", )
    attempt("arip custom vector Y->Q", lambda: ir.disaggregate(x, ir.QUARTERLY, method="arip", model=("diff", (0.1, 0.2, 0.3, 0.4), ), ))
    attempt("arip custom vector Y->H", lambda: ir.disaggregate(x, ir.HALFYEARLY, method="arip", model=("rate", [0.5, 1.5], ), ))
    attempt("arip custom vector wrong length", lambda: ir.disaggregate(x, ir.QUARTERLY, method="arip", model=("rate", (1, 1, ), ), ))
    # Targets
    q = make_series(rng, ir.qq(2020, 1), 6, 2, "none", )
    target_values = np.full((18, ), np.nan, )
    target_values[[1, 7, 8, ]] = [0.4, 0.9, 1.1, ]
    target = ir.Series(start=ir.mm(2020, 1), values=target_values, )
    for form, aggregation in itertools.product(forms[::2], aggregations, ):
        attempt(f"arip target sparse {form}/{aggregation}", lambda: ir.disaggregate(
            q, ir.MONTHLY, method="arip", model=(form, aggregation, ), target=target, ))
    # Target with one full low-frequency period (the low-frequency observation is then dropped)
    target_values = np.full((18, ), np.nan, )
    target_values[[3, 4, 5, 10, ]] = [0.5, 0.6, 0.7, 0.8, ]
    target_full = ir.Series(start=ir.mm(2020, 1), values=target_values, )
    for form, aggregation in itertools.product(forms[::2], ("sum", "mean", "last", ), ):
        attempt(f"arip target full period {form}/{aggregation}", lambda: ir.disaggregate(
            q, ir.MONTHLY, method="arip", model=(form, aggregation, ), target=target_full, ))
    emit("arip low series untouched by target", digest_series(q, ))
    # Target shorter / shifted relative to the disaggregated span
    short_target = ir.Series(start=ir.mm(2020, 5), values=[0.3, np.nan, 0.35, ], )
    attempt("arip target short", lambda: ir.disaggregate(q, ir.MONTHLY, method="arip", model=("diff", "sum", ), target=short_target, ))
    long_target = ir.Series(start=ir.mm(2019, 10), values=[0.3, ]*3 + [np.nan, ]*20 + [0.2, ], )
    attempt("arip target long", lambda: ir.disaggregate(q, ir.MONTHLY, method="arip", model=("rate", "mean", ), target=long_target, ))
    # Errors and degenerate cases
    attempt("arip no model", lambda: ir.disaggregate(q, ir.MONTHLY, method="arip", ))
    attempt("arip bad form", lambda: ir.disaggregate(q, ir.MONTHLY, method="arip", model=("nonsense", "sum", ), ))
    attempt("arip bad aggregation", lambda: ir.disaggregate(q, ir.MONTHLY, method="arip", model=("rate", "nonsense", ), ))
    attempt("arip empty", lambda: ir.disaggregate(ir.Series(), ir.MONTHLY, method="arip", model=("rate", "sum", ), ))
    attempt("arip to daily", lambda: ir.disaggregate(q, ir.DAILY, method="arip", model=("rate", "sum", ), ))
    allnan = ir.Series(start=ir.yy(2020), values=[1.0, np.nan, np.nan, 2.0], )
    attempt("arip mostly missing", lambda: ir.disaggregate(allnan, ir.QUARTERLY, method="arip", model=("rate", "mean", ), ))
    attempt("arip mostly missing diff", lambda: ir.disaggregate(allnan, ir.QUARTERLY, method="arip", model=("diff", "last", ), ))
    neg = ir.Series(start=ir.yy(2020), values=[-1.0, 2.0, -3.0, 4.0], )
    attempt("arip negative rate", lambda: ir.disaggregate(neg, ir.QUARTERLY, method="arip", model=("rate", "sum", ), ))
    attempt("arip negative diff", lambda: ir.disaggregate(neg, ir.QUARTERLY, method="arip", model=("diff", "sum", ), ))
    const = ir.Series(start=ir.hh(2020, 2), values=[2.0, ]*5, )
    attempt("arip constant", lambda: ir.disaggregate(const, ir.MONTHLY, method="arip", model=("rate", "mean", ), ))
    # In-place form
    q_copy = q.copy()
    out = q_copy.disaggregate(ir.MONTHLY, method="arip", model=("diff", "mean", ), )
    emit("arip inplace return", repr(out))
    emit("arip inplace", digest_series(q_copy, ))


#
# 5. Low-level public pieces
#

def section_low_level():
    from irispie.series import arip
    low = (np.array([1.0, 2.0, 4.0, 3.0]), np.array([2.0, np.nan, 1.0, 5.0]), )
    target = np.full((16, ), np.nan, )
    target[[0, 9, ]] = [0.2, 0.8, ]
    for form, aggregation in (("rate", "sum"), ("diff", "mean"), ("rate", "last"), ("diff", "first"), ("diff", (1, 2, 3, 4))):
        def func():
            out = arip.disaggregate_arip_data(
                iter(tuple(i.copy() for i in low)), target.copy(), (form, aggregation, ), 4, 1, 4,
            )
            return f"type={type(out).__name__} len={len(out)} " + digest_array(np.column_stack(out, ), )
        attempt(f"arip_data {form}/{aggregation}", func, )
    attempt("arip_data wrong size", lambda: arip.disaggregate_arip_data(
        iter((np.array([1.0, 2.0]), )), target.copy(), ("rate", "sum", ), 4, 1, 4, ))
    attempt("arip_data wrong target size", lambda: arip.disaggregate_arip_data(
        iter((np.array([1.0, 2.0, 3.0]), )), target.copy(), ("rate", "sum", ), 3, 1, 4, ))
    attempt("arip_data no variants", lambda: arip.disaggregate_arip_data(
        iter(()), target.copy(), ("rate", "sum", ), 4, 1, 4, ))
    emit("CHOOSE_AGGREGATION_FUNC keys", repr(sorted(arip.CHOOSE_AGGREGATION_FUNC.keys())))
    for key, func in sorted(arip.CHOOSE_AGGREGATION_FUNC.items()):
        emit(f"CHOOSE_AGGREGATION_FUNC {key}", repr(float(func(np.array([1.0, 2.0, 4.0])))))
    emit("convert_roc", repr(cv.convert_roc(1.05, ir.YEARLY, ir.QUARTERLY, )))
    emit("convert_pct", repr(cv.convert_pct(5, ir.YEARLY, ir.MONTHLY, )))
    emit("convert_diff", repr(cv.convert_diff(2, ir.QUARTERLY, ir.MONTHLY, )))
    emit("conversions __all__", repr(sorted(cv.__all__)))
    emit("ir has", repr([hasattr(ir, n) for n in ("aggregate", "disaggregate", "convert_roc", "convert_pct")]))
    emit("method tables", repr((sorted(cv._AGGREGATION_METHOD_RESOLUTION), sorted(cv._CHOOSE_DISAGGREGATION_METHOD))))


def main():
    section_aggregate()
    section_aggregate_options()
    section_disaggregate()
    section_roundtrip()
    section_arip()
    section_low_level()
    text = "\n".join(LINES)
    print(text)
    print(f"NUM_LINES {len(LINES)}")
    print("TOTAL_SHA256", hashlib.sha256(text.encode("utf-8")).hexdigest())


if __name__ == "__main__":
    main()

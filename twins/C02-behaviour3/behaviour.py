"""
Behaviour digest for property C02 (Jacobians from algorithmic differentiation)

Run as
    cd /tmp/wt2/C02 && PYTHONPATH=/tmp/wt2/C02/src /venv/bin/python /tmp/twin3_out/C02/behaviour.py

Prints a deterministic digest on stdout; floats that come straight out of the
differentiator are printed with full repr precision, floats that come out of an
iterative solver are rounded to 9 decimals
"""

import warnings
warnings.filterwarnings("ignore")

import contextlib
import copy
import io
import pickle

import numpy as np
import scipy as sp

np.seterr(all="ignore")

import irispie as ir
from irispie import equations as _equations
from irispie import quantities as _quantities
from irispie.aldi import adaptations as _adaptations
from irispie.aldi import finite_differentiators as _finite
from irispie.aldi import maps as _maps
from irispie.aldi.differentiators import Atom
from irispie.incidences.main import Token
from irispie.simultaneous import _steady
from irispie.stacked_time import _evaluators as _stacked_evaluators
from irispie.steadiers import evaluators as _steady_evaluators


#-------------------------------------------------------------------------------
# Formatting
#-------------------------------------------------------------------------------


def full(x, ):
    """Full precision representation of scalars, arrays, sparse matrices"""
    if sp.sparse.issparse(x):
        x = x.toarray()
    if isinstance(x, (tuple, list, )):
        return "(" + ", ".join(full(i) for i in x) + ")"
    a = np.asarray(x, )
    if a.dtype == object:
        return repr(x)
    a = a.astype(float)
    return f"{a.shape}:" + repr(a.tolist())


def rnd(x, decimals=9, ):
    """Rounded representation for solver results"""
    if sp.sparse.issparse(x):
        x = x.toarray()
    a = np.round(np.asarray(x, dtype=float, ), decimals, ) + 0.0
    return f"{a.shape}:" + repr(a.tolist())


def show(label, func, fmt=full, ):
    """Print outcome of func or the exception class it raises"""
    try:
        out = func()
    except Exception as exc:
        print(f"{label} -> raises {type(exc).__name__}")
        return None
    print(f"{label} -> {fmt(out)}")
    return out


def show_atom(label, func, ):
    try:
        a = func()
        if hasattr(a, "_is_atom"):
            out = f"value={full(a.value)} diff={full(a.diff)} logly={a._logly!r}"
        else:
            out = f"nonatom {type(a).__name__} {full(a)}"
    except Exception as exc:
        out = f"raises {type(exc).__name__}"
    print(f"{label} -> {out}")


@contextlib.contextmanager
def quiet():
    with contextlib.redirect_stdout(io.StringIO()):
        yield


#-------------------------------------------------------------------------------
# A. Atoms on their own
#-------------------------------------------------------------------------------


def section_atoms():
    print("=== A. atoms")
    points = {
        "scalar": (1.7, 1.0, 0.6, 0.25, ),
        "scalar_int": (2, 1, 3, 0, ),
        "vector": (
            np.array([[0.3, 1.0, 2.5, ]]),
            np.array([[1.0, 0.0, ], [0.0, 1.0, ]])[:, 0:1] * np.ones((2, 3)),
            np.array([[1.2, 0.7, 3.1, ]]),
            np.array([[0.0, ], [1.0, ]]) * np.ones((2, 3)),
        ),
        "edge": (
            np.array([[0.0, -1.0, 1e-300, 1e300, ]]),
            np.ones((1, 4)),
            np.array([[0.0, 2.0, -0.0, 1.0, ]]),
            np.ones((1, 4)) * 0.5,
        ),
    }
    for name, (xv, xd, yv, yd, ) in points.items():
        for x_logly, y_logly in ((False, False, ), (True, False, ), (True, True, ), (None, True, ), ):
            tag = f"A[{name}][{x_logly},{y_logly}]"
            mk_x = lambda: Atom.no_context(copy.deepcopy(xv), copy.deepcopy(xd), x_logly, )
            mk_y = lambda: Atom.no_context(copy.deepcopy(yv), copy.deepcopy(yd), y_logly, )
            tests = {
                "pos": lambda: +mk_x(),
                "neg": lambda: -mk_x(),
                "x-3": lambda: mk_x() - 3,
                "3-x": lambda: 3 - mk_x(),
                "2.5-x": lambda: 2.5 - mk_x(),
                "arr-x": lambda: np.float64(0.75) - mk_x(),
                "x-y": lambda: mk_x() - mk_y(),
                "x/2": lambda: mk_x() / 2,
                "x/0.3": lambda: mk_x() / 0.3,
                "2/x": lambda: 2 / mk_x(),
                "-1.5/x": lambda: -1.5 / mk_x(),
                "0/x": lambda: 0 / mk_x(),
                "x/y": lambda: mk_x() / mk_y(),
                "y/x": lambda: mk_y() / mk_x(),
                "x/x": lambda: (lambda a: a / a)(mk_x()),
                "x**2": lambda: mk_x() ** 2,
                "x**2.5": lambda: mk_x() ** 2.5,
                "x**-1": lambda: mk_x() ** -1,
                "x**0": lambda: mk_x() ** 0,
                "x**0.5": lambda: mk_x() ** 0.5,
                "x**y": lambda: mk_x() ** mk_y(),
                "_power(3)": lambda: Atom.no_context(*mk_x()._power(3), False, ),
                "_power(1/3)": lambda: Atom.no_context(*mk_x()._power(1/3), False, ),
                "log": lambda: mk_x().log(),
                "exp": lambda: mk_x().exp(),
                "sqrt": lambda: mk_x().sqrt(),
                "logistic": lambda: mk_x().logistic(),
                "log(exp)": lambda: mk_x().exp().log(),
                "sqrt(x*y)": lambda: (mk_x() * mk_y()).sqrt(),
                "logistic(x-y)": lambda: (mk_x() - mk_y()).logistic(),
                "exp(-x/y)": lambda: (-mk_x() / mk_y()).exp(),
                "1-1/(1+exp(-x))": lambda: 1 - 1 / (1 + (-mk_x()).exp()),
                "(2-x)/(3-y)": lambda: (2 - mk_x()) / (3 - mk_y()),
                "maximum": lambda: mk_x().maximum(1.0),
                "maximum_atom": lambda: mk_x().maximum(mk_y()),
                "mininum": lambda: mk_x().mininum(1.0),
                "ad.log": lambda: _adaptations.log(mk_x()),
                "ad.exp": lambda: _adaptations.exp(mk_x()),
                "ad.sqrt": lambda: _adaptations.sqrt(mk_x()),
                "ad.logistic": lambda: _adaptations.logistic(mk_x()),
                "ad.maximum": lambda: _adaptations.maximum(mk_x(), 0.5),
                "ad.minimum": lambda: _adaptations.minimum(mk_x(), 0.5),
                "ad.abs": lambda: _adaptations.abs(mk_x()),
                "ad.normal_cdf": lambda: _adaptations.normal_cdf(mk_x()),
                "ad.normal_pdf": lambda: _adaptations.normal_pdf(mk_x()),
            }
            for k, f in tests.items():
                show_atom(f"{tag} {k}", f, )
    #
    # Atoms in data context
    data = np.array([[1.1, 1.2, 1.3, 1.4, ], [0.5, 0.6, 0.7, 0.8, ], ])
    for columns in (1, np.array([0, 1, 2, ]), slice(1, 3), ):
        for logly in (False, True, ):
            d = np.array([[1.0, ], [0.0, ]]) if isinstance(columns, int) else np.array([[1.0, ], [0.0, ]]) * np.ones((2, 1))
            Atom._data_context = data
            Atom._column_offset = 1 if not isinstance(columns, slice) else 0
            try:
                a = Atom.in_context(diff=d, data_index=(0, columns, ), logly=logly, )
                b = Atom.in_context(diff=0, data_index=(1, columns, ), logly=None, )
                tag = f"A[context][{columns!r},{logly}]"
                if isinstance(columns, slice):
                    # slices cannot be offset
                    Atom._column_offset = 0
                    a._column_index = 1
                    b._column_index = 1
                show_atom(f"{tag} log(a)/b", lambda: a.log() / b, )
                show_atom(f"{tag} 1/a - sqrt(a)", lambda: 1 / a - a.sqrt(), )
                show_atom(f"{tag} 2-exp(a)^b", lambda: 2 - a.exp() ** b, )
                show_atom(f"{tag} logistic(a/b)", lambda: (a / b).logistic(), )
            finally:
                Atom._data_context = None
                Atom._column_offset = 0
    #
    print("A names", list(_adaptations._ELEMENTWISE_FUNCTIONS.keys()))
    print("A context keys", list(_adaptations.add_function_adaptations_to_context(None).keys()))
    print("A context keys 2", list(_adaptations.add_function_adaptations_to_context({"zzz": 1, "log": 2, }).keys()))
    for n, f in _adaptations._ELEMENTWISE_FUNCTIONS.items():
        args = (np.array([0.2, 1.5, ]), 0.7, ) if n in ("maximum", "minimum", ) else (np.array([0.2, 1.5, ]), )
        show(f"A plain {n}", lambda: getattr(_adaptations, n)(*args), )
        show(f"A table {n}", lambda: f(*args), )
        print(f"A same function {n}", _adaptations.add_function_adaptations_to_context(None)[n] is getattr(_adaptations, n))


#-------------------------------------------------------------------------------
# B. Finite differentiation of user functions
#-------------------------------------------------------------------------------


def section_finite():
    print("=== B. finite differentiators")
    def f1(x): return np.sin(x) + x**2
    def f2(x, y): return x * y + np.exp(x - y)
    def f3(x, y, z): return np.where(x > y, x, y) * z + np.abs(x - 1)
    def fconst(x, y): return 5.0
    calls = []
    def fcount(x, y):
        calls.append((full(x), full(y), ))
        return x + 2*y
    array_value = np.array([[0.3, -2.0, 1e-8, 12345.678, ]])
    array_diff = np.vstack((np.ones((1, 4)), np.zeros((1, 4)), ))
    array_diff_2 = np.vstack((np.zeros((1, 4)), np.ones((1, 4)), ))
    atoms = {
        "scalar": (
            lambda: Atom.no_context(0.4, 1.0, False, ),
            lambda: Atom.no_context(-3.0, 0.5, False, ),
        ),
        "logly": (
            lambda: Atom.no_context(2.4, np.array([[1.0, ], [0.0, ]]), True, ),
            lambda: Atom.no_context(0.01, np.array([[0.0, ], [1.0, ]]), True, ),
        ),
        "array": (
            lambda: Atom.no_context(array_value.copy(), array_diff.copy(), False, ),
            lambda: Atom.no_context(array_value.copy()[:, ::-1] + 1, array_diff_2.copy(), True, ),
        ),
        "big_small": (
            lambda: Atom.no_context(1e6, 1.0, False, ),
            lambda: Atom.no_context(1e-9, 1.0, False, ),
        ),
    }
    for name, (mk_a, mk_b, ) in atoms.items():
        tag = f"B[{name}]"
        show_atom(f"{tag} f1(a)", lambda: _finite.finite_differentiator(f1)(mk_a()), )
        show_atom(f"{tag} f1(b)", lambda: _finite.finite_differentiator(f1)(mk_b()), )
        show_atom(f"{tag} f2(a,b)", lambda: _finite.finite_differentiator(f2)(mk_a(), mk_b()), )
        show_atom(f"{tag} f2(a,1.5)", lambda: _finite.finite_differentiator(f2)(mk_a(), 1.5), )
        show_atom(f"{tag} f2(2,b)", lambda: _finite.finite_differentiator(f2)(2, mk_b()), )
        show_atom(f"{tag} f2(2,3)", lambda: _finite.finite_differentiator(f2)(2, 3), )
        show_atom(f"{tag} f2(a,a)", lambda: (lambda a: _finite.finite_differentiator(f2)(a, a))(mk_a()), )
        show_atom(f"{tag} f3(a,b,2)", lambda: _finite.finite_differentiator(f3)(mk_a(), mk_b(), 2.0), )
        show_atom(f"{tag} f3(a,0.4,b)", lambda: _finite.finite_differentiator(f3)(mk_a(), 0.4, mk_b()), )
        show_atom(f"{tag} fconst(a,b)", lambda: _finite.finite_differentiator(fconst)(mk_a(), mk_b()), )
        show_atom(f"{tag} f1(f2(a,b)*a)", lambda: _finite.finite_differentiator(f1)(_finite.finite_differentiator(f2)(mk_a(), mk_b()) * mk_a()), )
        show_atom(f"{tag} noargs", lambda: _finite.finite_differentiator(lambda: 1.0)(), )
        calls.clear()
        show_atom(f"{tag} fcount(a,b)", lambda: _finite.finite_differentiator(fcount)(mk_a(), mk_b()), )
        print(f"{tag} fcount calls", calls)
        calls.clear()
        show_atom(f"{tag} fcount(a,1)", lambda: _finite.finite_differentiator(fcount)(mk_a(), 1), )
        print(f"{tag} fcount calls", calls)
    for v in (0, 0.5, -0.5, 1, -7.25, 1e8, np.array([0.0, -3.0, 0.2, ]), np.float64(2.0), 3, ):
        show(f"B epsilon({v!r})", lambda: _finite._get_epsilon(v), )
    orig = [1.0, np.array([1.0, 2.0, ]), 3, ]
    show("B plus_epsilon 0", lambda: _finite._plus_epsilon(orig, 0, 0.5, ), )
    show("B plus_epsilon 1", lambda: _finite._plus_epsilon(orig, 1, -0.5, ), )
    show("B plus_epsilon 2", lambda: _finite._plus_epsilon(orig, 2, 0.25, ), )
    show("B plus_epsilon intarray", lambda: _finite._plus_epsilon([np.array([1, 2, ])], 0, 0.25, ), )
    show("B plus_epsilon orig untouched", lambda: orig, )
    show("B two sided", lambda: _finite._partial_two_sided_derivative(f2, 1, [0.5, np.array([1.0, 2.0, ])], ), )
    show("B times inner none", lambda: _finite._partial_times_inner(f2, 1, [0.5, 2.0, ], [1.0, None, ], ), )
    show("B times inner", lambda: _finite._partial_times_inner(f2, 0, [0.5, 2.0, ], [np.array([[1.0, ], [2.0, ]]), None, ], ), )


#-------------------------------------------------------------------------------
# C. Unsolved system matrices
#-------------------------------------------------------------------------------


def _user_func(u, v, ):
    return u * v + np.sin(u)


def _user_func_1(u, ):
    return np.tanh(u) * 2


_SOURCE_NONLINEAR = r"""
!transition-variables
    x, y, z, w
!log-variables
    y, w
!transition-shocks
    ex, ey, ew
!measurement-variables
    obs, obs2
!log-variables
    obs2
!measurement-shocks
    eo
!parameters
    a, b, c
!transition-equations
    x = a*x[-1] + (1-a)*b + ex + 0.1*log(y[+1]) - 0.05*(2 - x[-2])/(3 - y);
    log(y) = 0.5*log(y[-1]) + 0.2*x + ey + logistic(z[+1] - z) - 1/(1 + exp(-c));
    z = maximum(x, 0.3) + sqrt(y)*myfunc(x, y[-1]) + mytanh(w[+2]) - c^x;
    w^0.3 = (w[-1]/y)^a * exp(ew) * (b/w[+1]) ^ (-x/10) + 2/w - x/w[-1];
!measurement-equations
    obs = x + y[-1]^2 + eo;
    log(obs2) = log(y) - c / w + sqrt(w[-1]);
"""


_SOURCE_LINEAR = r"""
!transition-variables
    x, y, z
!transition-shocks
    ex, ey
!measurement-variables
    obs
!measurement-shocks
    eo
!parameters
    a, b
!transition-equations
    x = a*x[-1] + (1-a)*b + ex + 0.1*y[+1] - (2 - z[-3])/40;
    y = 0.5*y[-1] + 0.2*x + ey - (x - b)/(10*a);
    z = 0.4*z[+1] + 0.2*y - 0.03/a*x + b;
!measurement-equations
    obs = x + 2*y[-1] + eo - z/b;
"""


_SOURCE_REJECT = r"""
!transition-variables
    x
!transition-shocks
    ex
!parameters
    a
!transition-equations
    x = a*{func}(x[-1]) + ex;
"""


def _print_system(tag, system, ):
    for n in ("A", "B", "C", "D", "F", "G", "H", "J", ):
        print(f"{tag} {n} {full(getattr(system, n))}")


def _print_descriptor(tag, descriptor, ):
    sv = descriptor.system_vectors
    for n in (
        "transition_eids", "measurement_eids", "eid_to_wrt_tokens",
        "transition_variables", "transition_variables_are_logly", "true_initials",
        "transition_shocks", "anticipated_shock_values", "measurement_variables",
        "measurement_variables_are_logly", "measurement_shocks",
        "shape_A_excl_dynid", "shape_B_excl_dynid", "shape_C_excl_dynid",
        "shape_D_excl_dynid", "shape_E_excl_dynid", "shape_F", "shape_G", "shape_H", "shape_J",
    ):
        value = getattr(sv, n)
        if isinstance(value, dict):
            value = {k: tuple(tuple(t) for t in v) for k, v in value.items()}
        print(f"{tag} sv.{n} {type(value).__name__} {value!r}")
    sm = descriptor.system_map
    for n in ("A", "B", "C", "D", "F", "G", "H", "J", ):
        print(f"{tag} sm.{n} lhs={getattr(sm, n).lhs!r} rhs={getattr(sm, n).rhs!r}")
    for n in descriptor.solution_vectors.__slots__:
        print(f"{tag} solution_vectors.{n} {getattr(descriptor.solution_vectors, n)!r}")
    print(f"{tag} initials {descriptor.solution_vectors.get_initials()!r}")
    print(f"{tag} aldi equations {[ (e.id, e.xtring) for e in descriptor.aldi_context._equations ]!r}")
    print(f"{tag} num_backwards {descriptor.get_num_backwards()} num_forwards {descriptor.get_num_forwards()}")


def _create_nonlinear_model():
    m = ir.Simultaneous.from_string(
        _SOURCE_NONLINEAR,
        context={"myfunc": _user_func, "mytanh": _user_func_1, },
    )
    m.assign(a=0.8, b=1.5, c=0.7, x=1.5, y=1.2, z=2, w=0.9, obs=3, obs2=1.1, )
    return m


def section_systems():
    print("=== C. systems")
    m = _create_nonlinear_model()
    _print_descriptor("C[nonlinear] dynamic", m._invariant.dynamic_descriptor, )
    _print_descriptor("C[nonlinear] steady", m._invariant.steady_descriptor, )
    _print_system("C[nonlinear] single", m.systemize(), )
    #
    # Steady changes present
    m.assign(x=(1.5, 0.1, ), y=(1.2, 1.02, ), w=(0.9, 0.97, ), z=(2, -0.3, ), )
    _print_system("C[nonlinear] with changes", m.systemize(), )
    #
    # Multiple variants, one with missing values
    mm = m.copy()
    mm.alter_num_variants(3, )
    mm.assign(a=[0.8, 0.5, 0.3, ], x=[(1.5, 0.1, ), 0.7, np.nan, ], )
    for i, s in enumerate(mm.systemize(), ):
        _print_system(f"C[nonlinear] variant {i}", s, )
    for i, s in enumerate(mm[1].systemize(unpack_singleton=False, ), ):
        _print_system(f"C[nonlinear] variant 1 alone {i}", s, )
    #
    # Log status changes
    m = _create_nonlinear_model()
    print("C logly", m.create_qid_to_logly(), )
    m.change_logly(False, ["y", ], )
    print("C logly", m.create_qid_to_logly(), )
    _print_system("C[nonlinear] y not log", m.systemize(), )
    m.change_logly(True, ["x", "z", "nonexistent", "a", "ex", ], )
    print("C logly", m.create_qid_to_logly(), )
    _print_system("C[nonlinear] x z log", m.systemize(), )
    m.change_logly(False, )
    print("C logly", m.create_qid_to_logly(), )
    _print_system("C[nonlinear] none log", m.systemize(), )
    m.change_logly(True, [], )
    print("C logly", m.create_qid_to_logly(), )
    m.change_logly(True, ("obs", "w", ), )
    print("C logly", m.create_qid_to_logly(), )
    _print_system("C[nonlinear] obs w log", m.systemize(), )
    _print_descriptor("C[nonlinear] after change_logly", m._invariant.dynamic_descriptor, )
    print("C quantities type", type(m._invariant.quantities).__name__, )
    #
    # Derived attributes after pickling and deep copy
    m2 = pickle.loads(pickle.dumps(m))
    _print_system("C[nonlinear] unpickled", m2.systemize(), )
    m3 = copy.deepcopy(m)
    _print_system("C[nonlinear] deepcopied", m3.systemize(), )
    inv = m._invariant
    print("C derived types", [type(getattr(inv, n)).__name__ for n in inv._derived_slots], )
    print("C plain dynamic", inv._plain_dynamic_equator._func_str, inv._plain_dynamic_equator.min_shift, inv._plain_dynamic_equator.max_shift, )
    print("C plain steady", inv._plain_steady_equator._func_str, inv._plain_steady_equator.min_shift, inv._plain_steady_equator.max_shift, )
    #
    # Linear model, evaluated around zero and flagged nonlinear around steady
    ml = ir.Simultaneous.from_string(_SOURCE_LINEAR, linear=True, )
    ml.assign(a=0.8, b=1.5, x=1, y=2, z=3, obs=4, )
    _print_descriptor("C[linear] dynamic", ml._invariant.dynamic_descriptor, )
    _print_system("C[linear]", ml.systemize(), )
    mn = ir.Simultaneous.from_string(_SOURCE_LINEAR, linear=False, )
    mn.assign(a=0.8, b=1.5, x=(1, 0.5, ), y=2, z=3, obs=4, )
    _print_system("C[linear as nonlinear]", mn.systemize(), )
    #
    # Functions either differentiated or rejected
    for func in ("log", "exp", "sqrt", "logistic", "maximum", "minimum", "abs", "normal_cdf", "normal_pdf", "unknown", ):
        def run():
            mr = ir.Simultaneous.from_string(_SOURCE_REJECT.replace("{func}", func), )
            mr.assign(a=0.5, x=0.8, )
            s = mr.systemize()
            return (s.A, s.B, s.C, s.D, )
        show(f"C[offered {func}]", run, )
    #
    # Maps
    show("C offsets", lambda: list(_maps.create_eid_to_rhs_offset((3, 1, 2, ), {1: "a", 2: "bcd", 3: "ef", 4: "ghij", }).items()), fmt=repr, )
    show("C offsets list", lambda: list(_maps.create_eid_to_rhs_offset([0, ], {0: (), }).items()), fmt=repr, )
    show("C offsets duplicate", lambda: list(_maps.create_eid_to_rhs_offset([5, 6, 5, ], {5: (1, 2, ), 6: (3, ), }).items()), fmt=repr, )
    show("C offsets empty", lambda: list(_maps.create_eid_to_rhs_offset((), {}).items()), fmt=repr, )
    show("C offsets missing", lambda: list(_maps.create_eid_to_rhs_offset((1, 2, ), {1: "a", }).items()), fmt=repr, )
    show("C offsets generator", lambda: list(_maps.create_eid_to_rhs_offset((i for i in (1, 2, )), {1: "a", 2: "bc", }).items()), fmt=repr, )


#-------------------------------------------------------------------------------
# D. Steady-state Jacobians
#-------------------------------------------------------------------------------


def _create_steady_evaluator(m, variant, is_flat, fix_level=(), fix_change=(), ):
    klass = _steady_evaluators.FlatSteadyEvaluator if is_flat else _steady_evaluators.NonflatSteadyEvaluator
    wrt = _steady._resolve_steady_wrt(m, None, is_flat=is_flat, )
    name_to_qid = m.create_name_to_qid()
    fix_level = set(name_to_qid[n] for n in fix_level)
    fix_change = set(name_to_qid[n] for n in fix_change)
    level_qids = tuple(q for q in wrt.qids if q not in fix_level)
    change_qids = tuple(q for q in wrt.qids if q not in fix_change)
    with quiet():
        return klass(
            level_qids, change_qids, wrt.equations, m.get_quantities(), variant,
            context=m._invariant._context, iter_printer_settings={},
        )


def section_steady():
    print("=== D. steady")
    m = _create_nonlinear_model()
    m.assign(x=(1.5, 0.1, ), y=(1.2, 1.02, ), w=(0.9, 0.97, ), z=(2, -0.3, ), obs=(3, np.nan, ), )
    mm = m.copy()
    mm.alter_num_variants(2, )
    mm.assign(a=[0.8, 0.4, ], z=[np.nan, (np.nan, 0.2, ), ], obs2=[1.1, np.nan, ], )
    for vid in (0, 1, ):
        for is_flat in (True, False, ):
            for fix_level, fix_change in (((), (), ), (("x", ), ("y", "z", ), ), ):
                tag = f"D[v{vid}][flat={is_flat}][fix={fix_level},{fix_change}]"
                mc = mm.copy()
                variant = mc._variants[vid]
                e = _create_steady_evaluator(mc, variant, is_flat, fix_level, fix_change, )
                print(f"{tag} wrt_qids {e.wrt_qids} {e._bool_index_wrt_levels} {e._bool_index_wrt_changes}")
                print(f"{tag} attrs {e._min_shift} {e._num_columns} {e._num_levels} {e._num_changes} {e._where_logly} {e._column_offset} {e.final_guess}")
                print(f"{tag} shift_vec {full(e._shift_vec)}")
                print(f"{tag} init levels {full(e._maybelog_init_levels)} changes {full(e._maybelog_init_changes)}")
                print(f"{tag} variant levels {full(variant.levels)} changes {full(variant.changes)}")
                print(f"{tag} steady_array {full(e._steady_array)}")
                guess = e.get_init_guess()
                print(f"{tag} init_guess {full(guess)}")
                with quiet():
                    for scale in (1.0, 1.03, ):
                        g = guess * scale + (scale - 1)
                        f, j = e.eval(g, )
                        f2 = e.eval_func(g, )
                        j2 = e.eval_jacob(g, )
                        out = (full(f), full(j), full(f2), full(j2), )
                        with contextlib.redirect_stdout(None):
                            pass
                        _STASH.append((f"{tag} eval scale={scale}", out, ))
                for label, out in _STASH:
                    print(label, *out)
                _STASH.clear()
                print(f"{tag} raw jacobian {full(e._jacobian.eval(e._steady_array, e._column_offset, ))}")
                print(f"{tag} raw equator {full(e._equator.eval(e._steady_array, e._column_offset, ))}")
                print(f"{tag} extract levels {e.extract_levels(guess)!r} changes {e.extract_changes(guess)!r}")
    #
    # Nonfinite values in nonflat equator
    mc = mm.copy()
    e = _create_steady_evaluator(mc, mc._variants[0], False, )
    bad = e.get_init_guess().copy()
    bad[:] = -1e3
    def run():
        with quiet():
            return e.eval(bad, )
    show("D nonfinite", run, )
    #
    # Steady state solved
    for kwargs in ({"flat": True, }, {"flat": False, }, {"flat": False, "fix_level": ("x", ), }, ):
        def run():
            mc = ir.Simultaneous.from_string(_SOURCE_LINEAR, linear=False, )
            mc.assign(a=0.8, b=1.5, x=1, y=2, z=3, obs=4, )
            with quiet():
                mc.steady(**kwargs, )
            return (
                [mc.get_steady_levels()[n] for n in ("x", "y", "z", "obs", )],
                [mc.get_steady_changes()[n] for n in ("x", "y", "z", "obs", )],
            )
        show(f"D solved {kwargs}", run, fmt=lambda o: rnd(o[0]) + " " + rnd(o[1]), )
    def run():
        mc = ir.Simultaneous.from_string(_SOURCE_LINEAR, linear=True, )
        mc.assign(a=0.8, b=1.5, )
        mc.steady()
        return (
            [mc.get_steady_levels()[n] for n in ("x", "y", "z", "obs", )],
            [mc.get_steady_changes()[n] for n in ("x", "y", "z", "obs", )],
        )
    show("D solved linear", run, fmt=lambda o: rnd(o[0]) + " " + rnd(o[1]), )
    for source, assign, kwargs in (
        (_SOURCE_RBC_STATIONARY, dict(g=1, rho=0.7, a=1, k=3, y=1, c=1, i=0.3, r=1.05, s=0.3, ), {"flat": True, }, ),
        (_SOURCE_RBC_STATIONARY, dict(g=1, rho=0.7, a=1, k=3, y=1, c=1, i=0.3, r=1.05, s=0.3, ), {"flat": False, }, ),
        (_SOURCE_RBC_GROWTH, dict(g=1.01, rho=0.7, a=(1, 1.01, ), k=(3, 1.01, ), y=(1, 1.01, ), c=(1, 1.01, ), i=(0.3, 1.01, ), r=1.05, s=0.3, ), {"flat": False, "fix_level": ("a", ), }, ),
        (_SOURCE_RBC_GROWTH, dict(g=1.01, rho=0.7, a=2, ), {"flat": False, "fix_level": ("a", ), }, ),
    ):
        def run():
            mc = ir.Simultaneous.from_string(source, )
            mc.assign(**assign, )
            with quiet():
                mc.steady(**kwargs, )
            return (
                [mc.get_steady_levels()[n] for n in _RBC_NAMES],
                [mc.get_steady_changes()[n] for n in _RBC_NAMES],
            )
        show(f"D solved rbc {source is _SOURCE_RBC_GROWTH} {sorted(assign)} {kwargs}", run, fmt=lambda o: rnd(o[0], 7) + " " + rnd(o[1], 7), )


_STASH = []


_SOURCE_RBC = r"""
!transition-variables
    a, k, y, c, i, r, s
!log-variables !all-but
    s
!transition-shocks
    ea
!parameters
    g, rho
!transition-equations
    ?A?
    y = a*k[-1]^0.3;
    y = c + i;
    k = 0.9*k[-1] + i;
    r = 0.3*y/k[-1] + 0.9;
    c[+1]/c = 0.95*r;
    s = i/y;
"""


_SOURCE_RBC_STATIONARY = _SOURCE_RBC.replace("?A?", "log(a) = rho*log(a[-1]) + ea;")
_SOURCE_RBC_GROWTH = _SOURCE_RBC.replace("?A?", "a/a[-1] = (a[-1]/a[-2])^rho * g^(1-rho) * exp(ea);")


_RBC_NAMES = ("a", "k", "y", "c", "i", "r", "s", )


#-------------------------------------------------------------------------------
# E. Stacked-time Jacobians
#-------------------------------------------------------------------------------


def section_stacked():
    print("=== E. stacked time")
    m = _create_nonlinear_model()
    m.change_logly(True, ["z", ], )
    qid_to_logly = m.create_qid_to_logly()
    quantities = m.get_quantities()
    equations = m.get_dynamic_equation_objects(kind=_equations.TRANSITION_EQUATION, )
    endogenous_qids = [q.id for q in m.get_quantities(kind=_quantities.TRANSITION_VARIABLE, )]
    variant = m._variants[0]
    for columns in ((2, 3, 4, ), (2, ), [3, 4, ], ):
        num_columns = 8
        array = variant.create_steady_array(qid_to_logly, num_columns=num_columns, shift_in_first_column=-2, )
        array = array * (1 + 0.05 * np.cos(np.arange(array.size).reshape(array.shape)))
        spots = tuple(Token(q, c, ) for c in columns for q in endogenous_qids)
        for drop in (0, 2, ):
            tag = f"E[{columns}][drop={drop}]"
            wrt_spots = spots[drop:]
            evaluator = _stacked_evaluators.create_evaluator(
                wrt_spots=wrt_spots,
                columns_to_eval=columns,
                wrt_equations=equations,
                all_quantities=quantities,
                terminator=None,
                context=m.get_context(),
            )
            data = array.copy()
            guess = evaluator.get_init_guess(data, )
            print(f"{tag} guess {full(guess)}")
            f, j = evaluator.eval_func_jacob(None, data, )
            print(f"{tag} func {full(f)}")
            print(f"{tag} jacob {full(j)}")
            print(f"{tag} pattern {type(j).__name__} {j.shape} {j.nnz}")
            f, j = evaluator.eval_func_jacob(guess * 1.01, data, )
            print(f"{tag} func2 {full(f)}")
            print(f"{tag} jacob2 {full(j)}")
            print(f"{tag} jacob3 {full(evaluator.eval_jacob(guess * 0.99, data, ))}")
            print(f"{tag} func3 {full(evaluator.eval_func(None, data, ))}")
    #
    # Simulations
    def run(source, assign, shocks, steady_kwargs, sim_kwargs, names, **model_kwargs, ):
        mc = ir.Simultaneous.from_string(source, **model_kwargs, )
        mc.assign(**assign, )
        with quiet():
            mc.steady(**steady_kwargs, )
            mc.solve()
        span = ir.qq(2020, 1) >> ir.qq(2021, 2)
        db = ir.Databox.steady(mc, span, )
        for n, (p, v, ) in shocks.items():
            db[n][p] = v
        with quiet():
            out = mc.simulate(db, span, method="stacked_time", **sim_kwargs, )
        sim = out[0] if isinstance(out, tuple) else out
        return np.hstack([sim[n].get_data(span, ) for n in names])
    show(
        "E simulate linear source", lambda: run(
            _SOURCE_LINEAR, dict(a=0.8, b=1.5, x=1, y=2, z=3, obs=4, ),
            {"ex": (ir.qq(2020, 1), 0.1, ), "ey": (ir.qq(2020, 3), -0.2, ), },
            {"flat": True, }, {}, ("x", "y", "z", ),
        ), fmt=rnd,
    )
    show(
        "E simulate linear source data terminal", lambda: run(
            _SOURCE_LINEAR, dict(a=0.8, b=1.5, x=1, y=2, z=3, obs=4, ),
            {"ex": (ir.qq(2020, 1), 0.1, ), },
            {"flat": True, }, {"terminal": "data", }, ("x", "y", "z", ),
        ), fmt=rnd,
    )
    show(
        "E simulate rbc stationary", lambda: run(
            _SOURCE_RBC_STATIONARY, dict(g=1, rho=0.7, a=1, k=3, y=1, c=1, i=0.3, r=1.05, s=0.3, ),
            {"ea": (ir.qq(2020, 1), 0.1, ), },
            {"flat": True, }, {}, _RBC_NAMES,
        ), fmt=lambda x: rnd(x, 7),
    )
    show(
        "E simulate rbc stationary data terminal", lambda: run(
            _SOURCE_RBC_STATIONARY, dict(g=1, rho=0.7, a=1, k=3, y=1, c=1, i=0.3, r=1.05, s=0.3, ),
            {"ea": (ir.qq(2020, 2), -0.1, ), },
            {"flat": True, }, {"terminal": "data", }, _RBC_NAMES,
        ), fmt=lambda x: rnd(x, 7),
    )
    show(
        "E simulate rbc growth", lambda: run(
            _SOURCE_RBC_GROWTH, dict(g=1.01, rho=0.7, a=(1, 1.01, ), k=(3, 1.01, ), y=(1, 1.01, ), c=(1, 1.01, ), i=(0.3, 1.01, ), r=1.05, s=0.3, ),
            {"ea": (ir.qq(2020, 1), 0.1, ), },
            {"flat": False, "fix_level": ("a", ), }, {}, _RBC_NAMES,
        ), fmt=lambda x: rnd(x, 7),
    )


#-------------------------------------------------------------------------------


if __name__ == "__main__":
    section_atoms()
    section_finite()
    section_systems()
    section_steady()
    section_stacked()
    print("=== done")


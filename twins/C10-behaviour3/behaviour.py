"""
Deterministic digest of the public behaviour behind property C10 (Series as a
period-indexed map), focused on: element-wise functions and methods, frequency
conversion (aggregate, disaggregate), Period + int, copy(), Databox.shallow.

Run:  cd /tmp/wt2/C10 && PYTHONPATH=/tmp/wt2/C10/src /venv/bin/python /tmp/twin3_out/C10/behaviour.py
"""

import warnings
warnings.simplefilter("ignore")

import copy
import math
import hashlib
import numpy as np
import irispie as ir
from irispie.series import _elementwise as ew
from irispie.series import _conversions as cv

nan = float("nan")
LINES = []


def emit(*args):
    line = " ".join(str(a) for a in args)
    LINES.append(line)
    print(line)


def fmt_num(x):
    if x is None:
        return "None"
    if isinstance(x, (bool, np.bool_)):
        return str(bool(x))
    try:
        x = float(x)
    except Exception:
        return repr(x)
    if math.isnan(x):
        return "nan"
    if math.isinf(x):
        return "inf" if x > 0 else "-inf"
    return f"{x:.9g}"


def fmt_arr(a):
    a = np.asarray(a)
    return f"{a.shape}:" + "[" + ",".join(fmt_num(v) for v in a.ravel().tolist()) + "]"


def fmt_series(x):
    if not isinstance(x, ir.Series):
        return f"<{type(x).__name__}>{fmt_any(x)}"
    return f"S(start={x.start},end={x.end_date if x.start is not None else None},freq={x.frequency.name},dtype={x.data.dtype},{fmt_arr(x.data)})"


def fmt_any(x):
    if isinstance(x, ir.Series):
        return fmt_series(x)
    if isinstance(x, np.ndarray):
        return fmt_arr(x)
    if isinstance(x, (float, np.floating, int, np.integer)):
        return fmt_num(x)
    if isinstance(x, tuple):
        return "(" + ",".join(fmt_any(i) for i in x) + ")"
    return repr(x)


def attempt(label, func):
    try:
        out = func()
        emit(label, "->", fmt_any(out))
        return out
    except Exception as exc:
        msg = str(exc).strip().splitlines()
        msg = msg[-1] if msg else ""
        emit(label, "-> EXC", type(exc).__name__, msg[:120])
        return None


def mk(start, values, **kwargs):
    return ir.Series(start=start, values=np.array(values, dtype=float), **kwargs)


# ----------------------------------------------------------------------------
# Sample series
# ----------------------------------------------------------------------------

SAMPLES = {
    "q1": mk(ir.qq(2020, 1), [0.5, 2, nan, 4, -5, 0.25, 0.75, 8, 9]),
    "q_lead_trail_nan": mk(ir.qq(2019, 3), [nan, 0.1, 0.9, nan, 0.3, nan]),
    "q2v": mk(ir.qq(2020, 2), [[0.5, nan], [0.2, 0.3], [nan, nan], [0.9, -0.4], [1.5, 2.5]]),
    "m1": mk(ir.mm(2021, 11), [0.1, 0.2, 0.3, nan, 0.5, 0.6, 0.7]),
    "y1": mk(ir.yy(2000), [1, 2.5, nan, -3]),
    "h1": mk(ir.hh(2001, 2), [0.3, 0.6, 0.9]),
    "d1": mk(ir.dd(2020, 2, 25), [0.1 * (i % 7) - 0.2 if i % 5 else nan for i in range(12)]),
    "i1": mk(ir.ii(-2), [0.5, nan, 0.7, 0.8]),
    "empty": ir.Series(),
    "empty3v": ir.Series(num_variants=3),
    "allnan": mk(ir.qq(2020, 1), [nan, nan]),
}

for name, x in SAMPLES.items():
    emit("SAMPLE", name, fmt_series(x))


# ----------------------------------------------------------------------------
# Element-wise functions and methods
# ----------------------------------------------------------------------------

ONE_ARG = list(ew._ONE_ARG_FUNCTION_DISPATCH.keys())
TWO_ARGS = list(ew._TWO_ARGS_FUNCTION_DISPATCH.keys())
emit("EW __all__", ew.__all__)
emit("EW in irispie", [n for n in ew.__all__ if hasattr(ir, n)])
emit("EW func names", [(getattr(ew, n).__name__, getattr(ew, n).__module__) for n in ew.__all__])
emit("EW method names", [(getattr(ir.Series, n).__name__, getattr(ir.Series, n).__module__) for n in ew.__all__])

for fname in ONE_ARG:
    func = getattr(ir, fname)
    for sname, x in SAMPLES.items():
        before = copy.deepcopy(x)
        with np.errstate(all="ignore"):
            y = attempt(f"EWF {fname}({sname})", lambda: func(x))
        # Input unchanged and not aliased
        same = (x.start == before.start) and np.array_equal(x.data, before.data, equal_nan=True)
        alias = (y is x) or (isinstance(y, ir.Series) and np.shares_memory(y.data, x.data))
        emit(f"EWF {fname}({sname}) input_unchanged={same} aliased={alias}")
        # Method form: modifies only receiver, returns None
        z = x.copy()
        with np.errstate(all="ignore"):
            ret = attempt(f"EWM {sname}.{fname}()", lambda: getattr(z, fname)())
        emit(f"EWM {sname}.{fname}() ret={ret!r} recv={fmt_series(z)}")
        if isinstance(y, ir.Series):
            emit(f"EWM==EWF {np.array_equal(y.data, z.data, equal_nan=True) and y.start == z.start}")
    # Plain numeric inputs (no method with that name on the object)
    with np.errstate(all="ignore"):
        attempt(f"EWF {fname}(0.5)", lambda: func(0.5))
        attempt(f"EWF {fname}(np.float64(0.25))", lambda: func(np.float64(0.25)))
        attempt(f"EWF {fname}(ndarray)", lambda: func(np.array([[0.1, 0.5], [nan, 0.9]])))
        attempt(f"EWF {fname}(list)", lambda: func([0.1, 0.5, 0.9]))
        attempt(f"EWF {fname}(int)", lambda: func(1))
        attempt(f"EWF {fname}('a')", lambda: func("a"))
        attempt(f"EWF {fname}()", lambda: func())
        attempt(f"EWF {fname}(object=0.5)", lambda: func(object=0.5))

for fname in TWO_ARGS:
    func = getattr(ir, fname)
    for sname in ("q1", "q2v", "d1", "empty", "m1"):
        x = SAMPLES[sname]
        before = copy.deepcopy(x)
        if fname == "round":
            attempt(f"EW2 round({sname})", lambda: func(x))
            attempt(f"EW2 round({sname},1)", lambda: func(x, 1))
            attempt(f"EW2 round({sname},decimals=2)", lambda: func(x, decimals=2))
            z = x.copy(); ret = z.round(1)
            emit(f"EW2M {sname}.round(1) ret={ret!r} recv={fmt_series(z)}")
        else:
            attempt(f"EW2 {fname}({sname},0.4)", lambda: func(x, 0.4))
            attempt(f"EW2 {fname}({sname})", lambda: func(x))
            z = x.copy(); ret = getattr(z, fname)(0.4)
            emit(f"EW2M {sname}.{fname}(0.4) ret={ret!r} recv={fmt_series(z)}")
        same = (x.start == before.start) and np.array_equal(x.data, before.data, equal_nan=True)
        emit(f"EW2 {fname}({sname}) input_unchanged={same}")
    attempt(f"EW2 {fname}(1.26, 1)", lambda: func(1.26, 1))
    attempt(f"EW2 {fname}(ndarray, 0.5)", lambda: func(np.array([0.14, 0.55, nan]), 0.5))


# Dispatch on objects that carry a method of the same name
class Dummy:
    def __init__(self):
        self.calls = []
    def copy(self):
        new = Dummy()
        new.calls = list(self.calls) + ["copied"]
        return new
    def log(self, *args, **kwargs):
        self.calls.append(("log", args, tuple(sorted(kwargs.items()))))
        return "ignored"
    def maximum(self, *args, **kwargs):
        self.calls.append(("maximum", args, tuple(sorted(kwargs.items()))))

d = Dummy()
out = ir.log(d, 1, 2, a=3)
emit("DUMMY log", out is d, out.calls, d.calls)
out = ir.maximum(d, 7)
emit("DUMMY maximum", out is d, out.calls, d.calls)
attempt("DUMMY exp", lambda: ir.exp(d))

# Chain with arithmetic, shifts, indexing
q1 = SAMPLES["q1"]
attempt("CHAIN exp(log(q1))", lambda: ir.exp(ir.log(ir.abs(q1))))
attempt("CHAIN log(q1)+m? mixed", lambda: ir.log(ir.abs(q1)) + SAMPLES["m1"])
attempt("CHAIN log(q1)-shift", lambda: ir.log(ir.abs(q1)) - ir.log(ir.abs(q1.copy())).shift(-1) if False else None)
w = ir.abs(q1); w2 = w.copy(); w2.shift(-1)
attempt("CHAIN dlog", lambda: ir.log(w) - ir.log(w2))
attempt("CHAIN sqrt(q1)[span]", lambda: ir.sqrt(ir.abs(q1))[ir.qq(2019, 4) >> ir.qq(2020, 3)])
attempt("CHAIN sign*abs", lambda: ir.sign(q1) * ir.abs(q1) - q1)
attempt("CHAIN nonoverlap", lambda: ir.exp(SAMPLES["q_lead_trail_nan"]) + mk(ir.qq(2030, 1), [1, 2]))
attempt("CHAIN maximum series series", lambda: ir.maximum(q1, 1.0))


# ----------------------------------------------------------------------------
# Aggregation
# ----------------------------------------------------------------------------

AGG_METHODS = ["mean", "geometric_mean", "sum", "prod", "first", "last", "min", "max", None]
AGG_SOURCES = {
    "q1": [ir.YEARLY, ir.HALFYEARLY],
    "q2v": [ir.YEARLY, ir.HALFYEARLY],
    "q_lead_trail_nan": [ir.YEARLY],
    "m1": [ir.QUARTERLY, ir.HALFYEARLY, ir.YEARLY],
    "h1": [ir.YEARLY],
    "d1": [ir.MONTHLY, ir.QUARTERLY, ir.YEARLY],
}
posq = mk(ir.qq(2020, 2), [[1, 2], [3, 4], [5, 6], [7, 8], [9, 10], [11, 12], [13, nan]])
SAMPLES["posq"] = posq
AGG_SOURCES["posq"] = [ir.YEARLY, ir.HALFYEARLY]
posd = mk(ir.dd(2019, 12, 20), [1 + (i * 7) % 11 for i in range(80)])
SAMPLES["posd"] = posd
AGG_SOURCES["posd"] = [ir.MONTHLY, ir.QUARTERLY, ir.HALFYEARLY, ir.YEARLY]

for sname, targets in AGG_SOURCES.items():
    x = SAMPLES[sname]
    for target in targets:
        for method in AGG_METHODS:
            for discard in (None, False, True):
                before = copy.deepcopy(x)
                kwargs = {}
                if method is not None:
                    kwargs["method"] = method
                if discard is not None:
                    kwargs["discard_missing"] = discard
                label = f"AGG {sname}->{target.name} {kwargs}"
                y = attempt(label, lambda: ir.aggregate(x, target, **kwargs))
                same = (x.start == before.start) and np.array_equal(x.data, before.data, equal_nan=True)
                if not same or y is x:
                    emit(label, "INPUT MODIFIED OR ALIASED")
        # Legacy option, select, callable
        attempt(f"AGG {sname}->{target.name} remove_missing=True", lambda: ir.aggregate(x, target, method="sum", remove_missing=True))
        attempt(f"AGG {sname}->{target.name} remove_missing=True discard=False", lambda: ir.aggregate(x, target, method="sum", remove_missing=True, discard_missing=False))
        attempt(f"AGG {sname}->{target.name} remove_missing=False discard=True", lambda: ir.aggregate(x, target, method="sum", remove_missing=False, discard_missing=True))
        attempt(f"AGG {sname}->{target.name} remove_missing=False", lambda: ir.aggregate(x, target, method="sum", remove_missing=False))
        attempt(f"AGG {sname}->{target.name} select=[0]", lambda: ir.aggregate(x, target, method="sum", select=[0]))
        attempt(f"AGG {sname}->{target.name} select=(0,-1) discard", lambda: ir.aggregate(x, target, method="mean", select=(0, -1), discard_missing=True))
        attempt(f"AGG {sname}->{target.name} callable", lambda: ir.aggregate(x, target, method=lambda v: float(np.nansum(v)) * 2))
        attempt(f"AGG {sname}->{target.name} callable np.median", lambda: ir.aggregate(x, target, method=np.median))
        # Method form
        z = x.copy()
        ret = attempt(f"AGGM {sname}->{target.name}", lambda: z.aggregate(target, method="last"))
        emit(f"AGGM {sname}->{target.name} ret={ret!r} recv={fmt_series(z)}")

# Same frequency, wrong direction, unknown, bad method names, empty series
for sname in ("q1", "d1", "i1", "y1", "empty", "allnan"):
    x = SAMPLES[sname]
    for target in (ir.YEARLY, ir.QUARTERLY, ir.MONTHLY, ir.Frequency.WEEKLY, ir.DAILY, ir.Frequency.INTEGER, ir.Frequency.UNKNOWN, 4, 1, "Q", None):
        tname = getattr(target, "name", repr(target))
        attempt(f"AGGX {sname}->{tname}", lambda: ir.aggregate(x, target))
        attempt(f"AGGX {sname}->{tname} bogus", lambda: ir.aggregate(x, target, method="bogus"))
        z = x.copy()
        ret = attempt(f"AGGXM {sname}->{tname}", lambda: z.aggregate(target, method="sum"))
        emit(f"AGGXM {sname}->{tname} recv={fmt_series(z)}")
attempt("AGGX positional", lambda: ir.aggregate(posq, ir.YEARLY, "sum", True, [0, 1]))
attempt("AGGX empty-string method", lambda: ir.aggregate(posq, ir.YEARLY, method=""))
attempt("AGGX method=0", lambda: ir.aggregate(posq, ir.YEARLY, method=0))
attempt("AGGX int dtype", lambda: ir.aggregate(ir.Series(start=ir.qq(2020, 1), values=np.arange(8.0)), ir.YEARLY, method="sum"))


# ----------------------------------------------------------------------------
# Disaggregation
# ----------------------------------------------------------------------------

DIS_METHODS = ["flat", "first", "middle", "last"]
DIS_SOURCES = {
    "y1": [ir.HALFYEARLY, ir.QUARTERLY, ir.MONTHLY, ir.DAILY],
    "h1": [ir.QUARTERLY, ir.MONTHLY],
    "q1": [ir.MONTHLY, ir.DAILY],
    "q2v": [ir.MONTHLY],
    "q_lead_trail_nan": [ir.MONTHLY],
    "posq": [ir.MONTHLY],
}
for sname, targets in DIS_SOURCES.items():
    x = SAMPLES[sname]
    for target in targets:
        for method in DIS_METHODS:
            before = copy.deepcopy(x)
            label = f"DIS {sname}->{target.name} {method}"
            y = attempt(label, lambda: ir.disaggregate(x, target, method=method))
            same = (x.start == before.start) and np.array_equal(x.data, before.data, equal_nan=True)
            if not same or y is x:
                emit(label, "INPUT MODIFIED OR ALIASED")
        attempt(f"DIS {sname}->{target.name} default", lambda: ir.disaggregate(x, target))
        z = x.copy()
        ret = attempt(f"DISM {sname}->{target.name}", lambda: z.disaggregate(target, method="last"))
        emit(f"DISM {sname}->{target.name} ret={ret!r} recv={fmt_series(z)}")

pos_y = mk(ir.yy(2000), [10, 12, 11, 14, 16])
pos_q = mk(ir.qq(2000, 1), [10, 12, 11, 14, 16, 15, 17, 19])
for agg in ("sum", "mean", "first", "last"):
    for model in ("rate", "diff"):
        attempt(f"DIS arip y->Q {agg} {model}", lambda: ir.disaggregate(pos_y, ir.QUARTERLY, method="arip", aggregation=agg, model=model))
attempt("DIS arip q->M default", lambda: ir.disaggregate(pos_q, ir.MONTHLY, method="arip"))
attempt("DIS flat with bad kwarg", lambda: ir.disaggregate(pos_y, ir.QUARTERLY, method="flat", model="rate"))

for sname in ("q1", "d1", "i1", "y1", "empty", "allnan"):
    x = SAMPLES[sname]
    for target in (ir.YEARLY, ir.QUARTERLY, ir.MONTHLY, ir.Frequency.WEEKLY, ir.DAILY, ir.Frequency.INTEGER, ir.Frequency.UNKNOWN, 4, 12, "M", None):
        tname = getattr(target, "name", repr(target))
        attempt(f"DISX {sname}->{tname}", lambda: ir.disaggregate(x, target))
        attempt(f"DISX {sname}->{tname} bogus", lambda: ir.disaggregate(x, target, method="bogus"))
        attempt(f"DISX {sname}->{tname} None-method", lambda: ir.disaggregate(x, target, method=None))
        z = x.copy()
        attempt(f"DISXM {sname}->{tname}", lambda: z.disaggregate(target, method="first"))
        emit(f"DISXM {sname}->{tname} recv={fmt_series(z)}")

# Round trip
attempt("ROUNDTRIP agg(dis(q1))", lambda: ir.aggregate(ir.disaggregate(SAMPLES["posq"], ir.MONTHLY), ir.QUARTERLY, method="mean"))
attempt("convert_roc", lambda: cv.convert_roc(1.02, ir.QUARTERLY, ir.YEARLY))
attempt("convert_pct", lambda: cv.convert_pct(2, ir.QUARTERLY, ir.MONTHLY))


# ----------------------------------------------------------------------------
# Period + integer
# ----------------------------------------------------------------------------

PERIODS = {
    "yy": ir.yy(2020), "hh": ir.hh(2020, 2), "qq": ir.qq(2020, 3), "mm": ir.mm(2020, 11),
    "dd": ir.dd(2020, 2, 27), "ii": ir.ii(5),
}
if hasattr(ir, "ww"):
    attempt("PER ww make", lambda: PERIODS.setdefault("ww", ir.ww(2020, 10)))
ADDENDS = [0, 1, -1, 5, -17, 400, np.int64(3), np.int32(-2), True, 2.0, 2.7, -2.7, np.float64(1.5), "3", "-4", "x", None, 1.5j, [1], np.array([2]), np.array([1, 2])]
for pname, p in PERIODS.items():
    for k in ADDENDS:
        r = attempt(f"PER {pname}+{k!r}", lambda: p + k)
        if r is not None:
            emit(f"PER {pname}+{k!r} type={type(r).__name__} serial={r.serial} serial_type={type(r.serial).__name__} same_obj={r is p}")
        attempt(f"PER {k!r}+{pname}", lambda: k + p)
    emit(f"PER {pname} unchanged", p, p.serial)
    attempt(f"PER {pname}+1-{pname}", lambda: (p + 1) - p)
    attempt(f"PER {pname}-3", lambda: p - 3)
    attempt(f"PER hash {pname}", lambda: hash(p + 2) == hash(2 + p))
    attempt(f"PER {pname}+{pname}", lambda: p + p)
attempt("PER span shift", lambda: str((ir.qq(2020, 1) >> ir.qq(2020, 4)) + 2))
attempt("PER span list", lambda: [str(t) for t in ir.qq(2020, 3) >> ir.qq(2020, 3) + 3])
attempt("PER span neg", lambda: [str(t) for t in ir.Span(ir.mm(2020, 3), ir.mm(2019, 11), -2)])
attempt("PER dd leap", lambda: [str(ir.dd(2020, 2, 27) + k) for k in range(-1, 5)])
attempt("PER start+ctx", lambda: str(ir.start + 2))

# Series shifts and indexing rest on Period + int
for sname in ("q1", "q2v", "d1", "i1", "m1", "empty"):
    x = SAMPLES[sname]
    for k in (-3, -1, 0, 2):
        z = x.copy(); z.shift(k)
        emit(f"SHIFT {sname} {k} {fmt_series(z)}")
        attempt(f"SHIFTF {sname} {k}", lambda: ir.shift(x, k))
    if x.start is not None:
        attempt(f"GET {sname} start+1", lambda: x[x.start + 1])
        attempt(f"GET {sname} start-2>>start+1", lambda: x[x.start - 2 >> x.start + 1])
        attempt(f"GETDATA {sname}", lambda: x.get_data(x.start - 1 >> x.end_date + 1))
        z = x.copy(); z[z.end_date + 3] = 42.0
        emit(f"SET {sname} end+3 {fmt_series(z)}")
        z = x.copy(); z[z.start - 2] = -1.0
        emit(f"SET {sname} start-2 {fmt_series(z)}")
        z = x.copy(); z[z.start >> z.start] = nan
        emit(f"SET {sname} start=nan {fmt_series(z)}")
for shift in ("yoy", "soy", "eopy", "tty"):
    attempt(f"SHIFT q1 {shift}", lambda: ir.shift(SAMPLES["q1"], shift))
    attempt(f"SHIFT m1 {shift}", lambda: ir.shift(SAMPLES["m1"], shift))
attempt("DIFF q1", lambda: ir.diff(SAMPLES["q1"]))
attempt("PCT posq", lambda: ir.pct(SAMPLES["posq"]))
attempt("DIFF_LOG posq", lambda: ir.diff_log(SAMPLES["posq"]))


# ----------------------------------------------------------------------------
# copy(): deep, never aliases
# ----------------------------------------------------------------------------

for sname, x in SAMPLES.items():
    c = x.copy()
    emit(
        f"COPY {sname}", type(c).__name__, c is x,
        np.shares_memory(c.data, x.data) if x.data.size else "n/a",
        c.start == x.start, c.start is x.start if x.start is not None else "n/a",
        np.array_equal(c.data, x.data, equal_nan=True), c.data.dtype, c.data.shape,
    )
x = SAMPLES["q1"].copy()
x.metadata["k"] = [1, 2]
x.set_description("original")
c = x.copy()
c.metadata["k"].append(3)
c.set_description("changed")
c[ir.qq(2020, 1)] = 100
c[ir.qq(2030, 1)] = 7
emit("COPY iso", x.metadata, c.metadata, x.get_description(), c.get_description(), fmt_series(x), fmt_series(c))
emit("COPY ret type", type(x.copy()) is ir.Series)
attempt("COPY positional arg", lambda: x.copy(1))
attempt("COPY kw arg", lambda: x.copy(deep=True))
p = ir.qq(2020, 1)
pc = p.copy()
emit("COPY period", pc == p, pc is p, type(pc).__name__, pc.serial)
sp = ir.qq(2020, 1) >> ir.qq(2021, 1)
spc = sp.copy()
emit("COPY span", str(spc), spc is sp, spc.start is sp.start, spc.start == sp.start)
class Sub(ir.Series):
    pass
sub = Sub(start=ir.mm(2020, 1), values=np.array([1.0, 2.0]))
emit("COPY subclass", type(sub.copy()).__name__, type(ir.log(sub)).__name__, fmt_series(ir.log(sub)))


# ----------------------------------------------------------------------------
# Databox.shallow
# ----------------------------------------------------------------------------

db = ir.Databox()
db["a"] = SAMPLES["q1"]
db["b"] = SAMPLES["m1"]
db["c"] = 3.5
db["d"] = [1, 2]
db.set_description("box") if hasattr(db, "set_description") else None

def describe_shallow(label, func):
    try:
        s = func()
    except Exception as exc:
        msg = str(exc).strip().splitlines()
        emit(label, "-> EXC", type(exc).__name__, (msg[-1] if msg else "")[:120])
        return
    emit(
        label, type(s).__name__, s is db, list(s.keys()),
        [next((k0 for k0, v0 in db.items() if v0 is v), None) for v in s.values()],
        repr(getattr(s, "__description__", "missing")),
    )

describe_shallow("SHALLOW all", lambda: db.shallow())
describe_shallow("SHALLOW str", lambda: db.shallow("a"))
describe_shallow("SHALLOW list", lambda: db.shallow(["c", "a"]))
describe_shallow("SHALLOW tuple missing lenient", lambda: db.shallow(("c", "zz", "a")))
describe_shallow("SHALLOW missing strict", lambda: db.shallow(["c", "zz", "a"], strict_names=True))
describe_shallow("SHALLOW callable", lambda: db.shallow(lambda n: n in "bd"))
describe_shallow("SHALLOW rename list", lambda: db.shallow(["a", "b"], ["A", "B"]))
describe_shallow("SHALLOW rename callable", lambda: db.shallow(["a", "b", "zz"], lambda n: n.upper() + "_x"))
describe_shallow("SHALLOW rename str", lambda: db.shallow("c", "C"))
describe_shallow("SHALLOW rename dupl target", lambda: db.shallow(["a", "b", "c"], ["X", "X", "Y"]))
describe_shallow("SHALLOW short targets", lambda: db.shallow(["a", "b", "c"], ["X"]))
describe_shallow("SHALLOW generator", lambda: db.shallow(n for n in ["d", "a"]))
describe_shallow("SHALLOW generator strict", lambda: db.shallow((n for n in ["d", "a"]), strict_names=True))
describe_shallow("SHALLOW kw", lambda: db.shallow(source_names=["b"], target_names=["bb"], strict_names=True))
describe_shallow("SHALLOW empty", lambda: db.shallow([]))
describe_shallow("SHALLOW of empty", lambda: ir.Databox().shallow())
describe_shallow("SHALLOW bad type", lambda: db.shallow(5))
s = db.shallow()
s["a"] = 1
s["new"] = 2
del s["b"]
emit("SHALLOW iso", list(db.keys()), db["a"] is SAMPLES["q1"], list(s.keys()))
class SubBox(ir.Databox):
    pass
sb = SubBox(); sb["u"] = 1
emit("SHALLOW subclass", type(sb.shallow()).__name__)
attempt("SHALLOW print_contents", lambda: db.print_contents(["c"]))
dc = db.copy()
emit("DBCOPY", dc["a"] is db["a"], fmt_series(dc["a"]), list(dc.keys()))


# ----------------------------------------------------------------------------
# Other pieces of the property for completeness
# ----------------------------------------------------------------------------

a = SAMPLES["q1"]; b = SAMPLES["q_lead_trail_nan"]
attempt("BIN a+b", lambda: a + b)
attempt("BIN a*b-1", lambda: a * b - 1)
attempt("BIN 2**a", lambda: 2 ** a)
attempt("BIN a/empty", lambda: a / SAMPLES["empty"])
attempt("OVERLAY", lambda: ir.overlay(b, a))
attempt("UNDERLAY", lambda: ir.underlay(b, a))
attempt("HSTACK", lambda: ir.hstack(a, b) if hasattr(ir, "hstack") else a | b)
attempt("CLIP", lambda: (lambda z: (z.clip(ir.qq(2020, 2), ir.qq(2021, 1)), z)[1])(a.copy()))
attempt("MOVAVG", lambda: ir.mov_avg(a, window=-2) if hasattr(ir, "mov_avg") else None)
attempt("CUMSUM", lambda: ir.cum_sum(SAMPLES["posq"]) if hasattr(ir, "cum_sum") else None)
attempt("FILL", lambda: ir.fill_missing(a, method="next") if hasattr(ir, "fill_missing") else None)

digest = hashlib.sha256("\n".join(LINES).encode("utf-8")).hexdigest()
print("LINES", len(LINES))
print("DIGEST", digest)

"""
Behaviour digest for property C13 (change and cumulation transforms).

Run as
    cd /tmp/wt/C13 && PYTHONPATH=/tmp/wt/C13/src /venv/bin/python /tmp/twin_out/C13/behaviour.py

Prints a deterministic digest (one line per case plus an overall sha256).
"""

import hashlib
import sys
import warnings

import numpy as np
import irispie as ir
from irispie import Series, Span

warnings.filterwarnings("ignore")
np.seterr(all="ignore")

LINES = []


def emit(line):
    LINES.append(line)
    print(line)


def fmt_data(data):
    data = np.asarray(data, dtype=float)
    if data.size == 0:
        return "[]"
    rows = []
    for row in data.reshape(data.shape[0], -1) if data.ndim else data.reshape(1, 1):
        rows.append(",".join(
            "nan" if np.isnan(v) else ("inf" if v == np.inf else ("-inf" if v == -np.inf else repr(float(v))))
            for v in row
        ))
    return "[" + ";".join(rows) + "]"


def fmt_series(x):
    start = x.start
    return f"start={start!r} shape={tuple(x.data.shape)} dtype={x.data.dtype} data={fmt_data(x.data)}"


def attempt(label, func):
    try:
        out = func()
        if isinstance(out, Series):
            emit(f"{label} :: {fmt_series(out)}")
        else:
            emit(f"{label} :: {out!r}")
        return out
    except Exception as exc:
        emit(f"{label} :: EXC {type(exc).__name__}: {exc}")
        return None


def make_series(start, num_periods, num_variants, seed, missing=(), positive=True):
    rng = np.random.default_rng(seed)
    data = rng.uniform(0.5, 3.0, size=(num_periods, num_variants))
    if not positive:
        data = data - 1.5
    for (i, j) in missing:
        data[i % num_periods, j % num_variants] = np.nan
    x = Series(num_variants=num_variants)
    x.set_data(Span(start, start + num_periods - 1), data)
    return x


STARTS = {
    "yy": ir.yy(2001),
    "hh": ir.hh(2001, 2),
    "qq": ir.qq(2001, 3),
    "mm": ir.mm(2001, 11),
    "dd": ir.dd(2001, 12, 27),
    "ii": ir.ii(5),
}

CHANGE_FUNCS = ("diff", "diff_log", "pct", "roc")
ACHANGE_FUNCS = ("adiff", "adiff_log", "apct", "aroc")
CONVERSIONS = ("roc_from_pct", "pct_from_roc", "pct_from_apct", "roc_from_apct", "roc_from_aroc")
CUM_FUNCS = ("cum_diff", "cum_diff_log", "cum_pct", "cum_roc")
INT_SHIFTS = (-1, -2, -4, -7)
STR_SHIFTS = ("yoy", "soy", "eopy", "tty")
BAD_SHIFTS = (0, 1, 3, -1.5, -2.0, None)


def section_changes():
    emit("## change functions")
    for fname, start in STARTS.items():
        for nv, missing in ((1, ()), (3, ((4, 1), (5, 1), (9, 2), (0, 0)))):
            x = make_series(start, 14, nv, seed=hash_seed(fname, nv), missing=missing)
            emit(f"# input {fname} nv={nv} :: {fmt_series(x)}")
            for func_name in CHANGE_FUNCS:
                for shift in INT_SHIFTS + STR_SHIFTS:
                    # functional form
                    attempt(
                        f"{func_name}({fname},nv={nv},shift={shift!r})",
                        lambda: getattr(ir, func_name)(x, shift),
                    )
                # default shift, in-place method form, returns None
                def _inplace():
                    y = x.copy()
                    out = getattr(y, func_name)()
                    assert out is None
                    return y
                attempt(f"{func_name}.inplace({fname},nv={nv})", _inplace)
            for func_name in ACHANGE_FUNCS:
                attempt(
                    f"{func_name}({fname},nv={nv})",
                    lambda: getattr(ir, func_name)(x),
                )
            for func_name in CONVERSIONS:
                attempt(
                    f"{func_name}({fname},nv={nv})",
                    lambda: getattr(ir, func_name)(x),
                )
            # input must not be modified by functional forms
            emit(f"# after {fname} nv={nv} :: {fmt_series(x)}")


def hash_seed(*args):
    return int(hashlib.sha256(repr(args).encode()).hexdigest()[:8], 16)


def section_negative_data():
    emit("## non-positive data (logs give nan / inf)")
    x = make_series(ir.qq(2010, 1), 10, 2, seed=77, positive=False, missing=((3, 0),))
    x.data[6, 1] = 0.0
    emit(f"# input :: {fmt_series(x)}")
    for func_name in CHANGE_FUNCS:
        for shift in (-1, -3, "yoy", "tty"):
            attempt(f"{func_name}(neg,shift={shift!r})", lambda: getattr(ir, func_name)(x, shift))
    for func_name in ACHANGE_FUNCS + CONVERSIONS:
        attempt(f"{func_name}(neg)", lambda: getattr(ir, func_name)(x))


def section_integer_dtype():
    emit("## integer-valued float data and short / empty series")
    x = Series(start=ir.mm(2020, 1), values=[1, 2, 4, 8, 16, 32, 64, 128, 256, 512, 1024, 2048, 4096, 8192])
    emit(f"# input :: {fmt_series(x)}")
    for func_name in CHANGE_FUNCS:
        for shift in (-1, -12, -13, -14, -20, "yoy", "soy", "eopy", "tty"):
            attempt(f"{func_name}(pow2,shift={shift!r})", lambda: getattr(ir, func_name)(x, shift))
    one = Series(start=ir.qq(2020, 1), values=[3.0])
    for func_name in CHANGE_FUNCS + ACHANGE_FUNCS + CONVERSIONS:
        attempt(f"{func_name}(single)", lambda: getattr(ir, func_name)(one))
    for func_name in CUM_FUNCS:
        attempt(f"{func_name}(single)", lambda: getattr(ir, func_name)(one))
    empty = Series()
    for func_name in CHANGE_FUNCS + ACHANGE_FUNCS + CONVERSIONS + CUM_FUNCS:
        attempt(f"{func_name}(empty)", lambda: getattr(ir, func_name)(empty))


def section_bad_shifts():
    emit("## invalid shifts")
    x = make_series(ir.qq(2001, 1), 8, 1, seed=5)
    for shift in BAD_SHIFTS + ("xyz", "boy"):
        for func_name in CHANGE_FUNCS:
            attempt(f"{func_name}(bad shift={shift!r})", lambda: getattr(ir, func_name)(x, shift))
        for func_name in CUM_FUNCS:
            attempt(f"{func_name}(bad shift={shift!r})", lambda: getattr(ir, func_name)(x, shift))
    attempt("temporal_cumulation(unknown)", lambda: ir.temporal_cumulation(x, "xyz"))
    attempt("temporal_change(custom)", lambda: ir.temporal_change(x, -2, lambda a, b: a*b))
    attempt("temporal_change(custom,tty)", lambda: ir.temporal_change(x, "tty", lambda a, b: a + b, neutral_value=7))


def section_cumulation():
    emit("## cumulation")
    pairs = (("diff", "cum_diff"), ("diff_log", "cum_diff_log"), ("pct", "cum_pct"), ("roc", "cum_roc"))
    for fname, start in STARTS.items():
        for nv, missing in ((1, ()), (2, ((6, 1),))):
            x = make_series(start, 12, nv, seed=hash_seed("cum", fname, nv), missing=missing)
            emit(f"# input {fname} nv={nv} :: {fmt_series(x)}")
            s, e = x.start, x.end
            for change_name, cum_name in pairs:
                cum = getattr(ir, cum_name)
                for shift in (-1, -2, -3, -5):
                    change = getattr(ir, change_name)(x, shift)
                    tag = f"{cum_name}({fname},nv={nv},shift={shift}"
                    # defaults (initial None, span None)
                    attempt(f"{tag},default)", lambda: cum(change, shift))
                    # scalar initial
                    attempt(f"{tag},initial=2.5)", lambda: cum(change, shift, 2.5))
                    # series initial, whole span, forward
                    attempt(f"{tag},initial=x)", lambda: cum(change, shift, x))
                    attempt(f"{tag},initial=x,kw)", lambda: cum(change, shift=shift, initial=x, span=None))
                    # forward sub-span
                    fwd = Span(s + 5, e - 1)
                    attempt(f"{tag},initial=x,fwd={fwd!r})", lambda: cum(change, shift, x, fwd))
                    # forward span beyond the data
                    fwd2 = Span(s - shift, e + 2)
                    attempt(f"{tag},initial=x,fwd2={fwd2!r})", lambda: cum(change, shift, x, fwd2))
                    # forward open-ended spans
                    attempt(f"{tag},initial=x,fwd_open_end)", lambda: cum(change, shift, x, Span(s + 4, None)))
                    attempt(f"{tag},initial=x,fwd_open_start)", lambda: cum(change, shift, x, Span(None, e - 3)))
                    # forward with step 2
                    attempt(f"{tag},initial=x,fwd_step2)", lambda: cum(change, shift, x, Span(s + 4, e, 2)))
                    # backward spans
                    bwd = Span(e + shift, s, -1)
                    attempt(f"{tag},initial=x,bwd={bwd!r})", lambda: cum(change, shift, x, bwd))
                    bwd2 = Span(e - 4, s + 1, -1)
                    attempt(f"{tag},initial=x,bwd2={bwd2!r})", lambda: cum(change, shift, x, bwd2))
                    attempt(f"{tag},initial=x,bwd_open)", lambda: cum(change, shift, x, Span(None, None, -1)))
                    attempt(f"{tag},initial=2.5,bwd_open)", lambda: cum(change, shift, 2.5, Span(None, None, -1)))
                    attempt(f"{tag},default,bwd_open)", lambda: cum(change, shift, None, Span(None, None, -1)))
                    attempt(f"{tag},initial=x,bwd_open_end)", lambda: cum(change, shift, x, Span(e - 3, None, -1)))
                    attempt(f"{tag},initial=x,bwd_shorthand)", lambda: cum(change, shift, x, (s + 1) << (e - 2)))
                    attempt(f"{tag},initial=x,bwd_empty_span)", lambda: cum(change, shift, x, (e - 2) << (s + 1)))
                    # in-place method form
                    def _inplace():
                        y = change.copy()
                        out = getattr(y, cum_name)(shift, x)
                        assert out is None
                        return y
                    attempt(f"{tag},inplace)", _inplace)
                # keyword shifts in cumulation
                for shift in STR_SHIFTS:
                    change = attempt(
                        f"{change_name}({fname},nv={nv},shift={shift!r}) for cum",
                        lambda: getattr(ir, change_name)(x, shift),
                    )
                    if change is None:
                        continue
                    attempt(f"{cum_name}({fname},nv={nv},shift={shift!r},initial=x)", lambda: cum(change, shift, x))
                    attempt(
                        f"{cum_name}({fname},nv={nv},shift={shift!r},initial=x,bwd)",
                        lambda: cum(change, shift, x, Span(None, None, -1)),
                    )
            emit(f"# after {fname} nv={nv} :: {fmt_series(x)}")


def section_roundtrip():
    emit("## round trips (max abs error, rounded)")
    pairs = (("diff", "cum_diff"), ("diff_log", "cum_diff_log"), ("pct", "cum_pct"), ("roc", "cum_roc"))
    for fname, start in STARTS.items():
        x = make_series(start, 16, 2, seed=hash_seed("rt", fname))
        for change_name, cum_name in pairs:
            for shift in (-1, -2, -3, -6):
                change = getattr(ir, change_name)(x, shift)
                fwd = getattr(ir, cum_name)(change, shift, x)
                bwd = getattr(ir, cum_name)(change, shift, x, Span(x.end + shift, x.start, -1))
                span = Span(x.start, x.end)
                err_f = np.max(np.abs(fwd.get_data(span) - x.get_data(span)))
                err_b = np.max(np.abs(bwd.get_data(span) - x.get_data(span)))
                emit(
                    f"roundtrip {cum_name}({fname},shift={shift}) :: fwd_ok={bool(err_f < 1e-10)} bwd_ok={bool(err_b < 1e-10)}"
                    f" fwd={fmt_series(fwd)} bwd={fmt_series(bwd)}"
                )


def section_consistency():
    emit("## conversion helpers consistent with change functions")
    for fname, start in STARTS.items():
        x = make_series(start, 9, 2, seed=hash_seed("cons", fname), missing=((4, 0),))
        attempt(f"roc_from_pct(pct) {fname}", lambda: ir.roc_from_pct(ir.pct(x)))
        attempt(f"pct_from_roc(roc) {fname}", lambda: ir.pct_from_roc(ir.roc(x)))
        attempt(f"pct_from_apct(apct) {fname}", lambda: ir.pct_from_apct(ir.apct(x)))
        attempt(f"roc_from_apct(apct) {fname}", lambda: ir.roc_from_apct(ir.apct(x)))
        attempt(f"roc_from_aroc(aroc) {fname}", lambda: ir.roc_from_aroc(ir.aroc(x)))


def section_api():
    emit("## module-level api")
    import irispie.series._temporal as t
    emit(f"__all__ :: {sorted(t.__all__)!r}")
    public = sorted(n for n in dir(t.Inlay) if not n.startswith("_"))
    emit(f"Inlay public :: {public!r}")
    for n in public:
        f = getattr(Series, n)
        import inspect
        emit(f"sig {n} :: {inspect.signature(f)}")
    emit(f"factory keys :: {[(k, sorted(v)) for k, v in sorted(t._CUMULATIVE_FACTORY.items())]!r}")
    emit(f"factory initials :: {[(k, v['initial']) for k, v in sorted(t._CUMULATIVE_FACTORY.items())]!r}")


def main():
    section_changes()
    section_negative_data()
    section_integer_dtype()
    section_bad_shifts()
    section_cumulation()
    section_roundtrip()
    section_consistency()
    section_api()
    digest = hashlib.sha256("\n".join(LINES).encode()).hexdigest()
    print(f"LINES {len(LINES)}")
    print(f"SHA256 {digest}")


if __name__ == "__main__":
    main()
